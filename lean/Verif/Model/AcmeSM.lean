import Verif.Model.Common
/-
  Model of the ACME object state machine: /repo/acme/{order,authorization,challenge}.go,
  /repo/acme/api/{order,handler,account}.go and the parts of /repo/acme/db/nosql that decide
  which objects are touched (order.go updateAddOrderIDs, authz.go GetAuthorization).

    Store                     tables acme_challenges, acme_authzs, acme_orders, acme_certs,
                              acme_account_orders_index.  An object's id is its position in the
                              table (the harness numbers the random ids in creation order).
    setChal/setAuthz/setOrder DB.UpdateChallenge / UpdateAuthorization / UpdateOrder: re-read the
                              record, overwrite status (and certificate id), compare-and-swap.
                              In a sequential history the swap always succeeds.
    validate                  the status effect of (*Challenge).Validate; the validator's verdict is
                              an input (`Outcome`): success / storeError(markInvalid=false) /
                              storeError(markInvalid=true) / database error
    authzUpdate               DB.GetAuthorization (loads every challenge) + (*Authorization).UpdateStatus
    authzLoop, orderUpdate    (*Order).UpdateStatus (every authorization is loaded and updated, no
                              early exit; updates made before an error persist)
    Deny                      a storage fault of one request: the update writes of one object fail, or the
                              k-th create write of new-order, or the index write, or the Wire token write
    finalize                  api.FinalizeOrder + (*Order).Finalize; "CSR names match" (o.sans, C13),
                              "signing succeeded" and "the final UpdateOrder failed" are inputs; a Wire order
                              needs its two tokens (the CSRs of the correspondence have a well-formed Wire subject)
    pollIndex                 nosql updateAddOrderIDs: every indexed order of the account is
                              updated, the pending ones are kept
    attest                    api.GetChallenge + deviceAttest01Validate (fingerprint written to the
                              authorization named in the URL)
    wire                      api.GetChallenge + wireOIDC01Validate / wireDPOP01Validate
    newOrder                  api.NewOrder + newAuthorization + DB.CreateOrder
    getOrder/getAuthz/respond api.GetOrder / GetAuthorization / GetChallenge
    listOrders                api.GetOrdersByAccountID
  Time is the input `now` of every request (seconds); `clock.Now().After(x.ExpiresAt)` is `now > expires`.
  Not modelled: nonces, JWS (C12); what a validator checks (C11); what is in a stored Wire token, createWireSubject (C13).
-/
namespace Verif.AcmeSM
open Verif

inductive Status where
  | pending | ready | valid | invalid
  deriving Repr, DecidableEq

structure Chal where
  acct : Nat
  status : Status
  /-- a device-attest-01 challenge (its validation also writes the authorization named in the URL) -/
  attest : Bool := false
  deriving Repr, DecidableEq

structure Authz where
  acct : Nat
  status : Status
  expires : Nat
  chals : List Nat
  /-- Authorization.Fingerprint: the attested key recorded here (keys are numbered by the harness) -/
  fp : Option Nat := none
  deriving Repr, DecidableEq

structure Order where
  acct : Nat
  status : Status
  expires : Nat
  authzs : List Nat
  cert : Option Nat
  /-- the order has a (non-empty) permanent identifier: Finalize takes the attested branch -/
  attested : Bool := false
  /-- a Wire order (one wireapp-user and one wireapp-device identifier): Finalize needs the two
      tokens the Wire challenges filed under this order -/
  wire : Bool := false
  deriving Repr, DecidableEq

structure Cert where
  order : Nat
  acct : Nat
  deriving Repr, DecidableEq

structure Store where
  chals : List Chal := []
  authzs : List Authz := []
  orders : List Order := []
  certs : List Cert := []
  /-- acme_account_orders_index: account -> order ids -/
  index : List (Nat × List Nat) := []
  /-- wire_acme_oidc_token / wire_acme_dpop_token: (order id, `true` = DPoP) for every stored token -/
  tokens : List (Nat × Bool) := []
  deriving Repr, DecidableEq

/-- api.defaultOrderExpiry, in seconds -/
def lifetime : Nat := 86400

def setChal (s : Store) (c : Nat) (ch : Chal) (st : Status) : Store :=
  { s with chals := s.chals.set c { ch with status := st } }

def setAuthz (s : Store) (a : Nat) (az : Authz) (st : Status) : Store :=
  { s with authzs := s.authzs.set a { az with status := st } }

def setOrder (s : Store) (o : Nat) (ord : Order) (st : Status) (cert : Option Nat) : Store :=
  { s with orders := s.orders.set o { ord with status := st, cert := cert } }

/-- A storage fault of one request: every update write (compare-and-swap of an existing record)
    of the named object fails while the request runs; nothing else is affected. `none` = no fault.
    (A failing `CmpAndSwap` error and a lost swap "changed since last read" look the same to the
    callers: `Update*` returns an error and the record keeps its old value.) -/
inductive Deny where
  | none
  | chal (c : Nat)
  | authz (a : Nat)
  | order (o : Nat)
  /-- the k-th (from 0) create write of a new-order request fails (challenges, then the
      authorization, identifier by identifier, then the order); what was created before stays -/
  | create (k : Nat)
  /-- the write of the account's order index fails (updateAddOrderIDs: `save`) -/
  | index
  /-- CreateOidcToken / CreateDpopToken fails -/
  | token
  deriving Repr, DecidableEq

/-- the fingerprint write of deviceAttest01Validate (status and everything else as loaded) -/
def setFp (s : Store) (a : Nat) (az : Authz) (k : Nat) : Store :=
  { s with authzs := s.authzs.set a { az with fp := some k } }

def chalValid (s : Store) (c : Nat) : Bool :=
  match s.chals[c]? with
  | some ch => ch.status == .valid
  | none => false

/-- GetAuthorization + Authorization.UpdateStatus. Result status `none` = an error was returned. -/
def authzUpdate (d : Deny) (s : Store) (a : Nat) (now : Nat) : Store × Option Status :=
  match s.authzs[a]? with
  | none => (s, none)
  | some az =>
    if !az.chals.all (fun c => (s.chals[c]?).isSome) then (s, none)
    else match az.status with
      | .invalid => (s, some .invalid)
      | .valid => (s, some .valid)
      | .ready => (s, none)
      | .pending =>
        if now > az.expires then
          (if d = .authz a then (s, none) else (setAuthz s a az .invalid, some .invalid))
        else if az.chals.any (chalValid s) then
          (if d = .authz a then (s, none) else (setAuthz s a az .valid, some .valid))
        else (s, some .pending)

/-- the loop of Order.UpdateStatus over the authorization ids -/
def authzLoop (d : Deny) (s : Store) (now : Nat) : List Nat → Store × Option (List Status)
  | [] => (s, some [])
  | a :: as =>
    match authzUpdate d s a now with
    | (s1, none) => (s1, none)
    | (s1, some st) =>
      match authzLoop d s1 now as with
      | (s2, none) => (s2, none)
      | (s2, some sts) => (s2, some (st :: sts))

/-- DB.GetOrder + Order.UpdateStatus -/
def orderUpdate (d : Deny) (s : Store) (o : Nat) (now : Nat) : Store × Option Status :=
  match s.orders[o]? with
  | none => (s, none)
  | some ord =>
    match ord.status with
    | .invalid => (s, some .invalid)
    | .valid => (s, some .valid)
    | .ready =>
      if now > ord.expires then
        (if d = .order o then (s, none) else (setOrder s o ord .invalid ord.cert, some .invalid))
      else (s, some .ready)
    | .pending =>
      if now > ord.expires then
        (if d = .order o then (s, none) else (setOrder s o ord .invalid ord.cert, some .invalid))
      else match authzLoop d s now ord.authzs with
        | (s1, none) => (s1, none)
        | (s1, some sts) =>
          if sts.any (· == .invalid) then
            (if d = .order o then (s1, none) else (setOrder s1 o ord .invalid ord.cert, some .invalid))
          else if sts.any (· == .pending) then (s1, some .pending)
          else if sts.all (· == .valid) then
            (if d = .order o then (s1, none) else (setOrder s1 o ord .ready ord.cert, some .ready))
          else (s1, none)

/-- verdict of a challenge validator, seen from the state machine -/
inductive Outcome where
  /-- the proof was found: status valid -/
  | success
  /-- storeError(markInvalid = false): stays pending -/
  | retry
  /-- storeError(markInvalid = true) -/
  | reject
  /-- the database update failed -/
  | dbError
  /-- device-attest-01 only: the attestation is valid and is about key `k` (`success` = key 0) -/
  | successKey (k : Nat)
  deriving Repr, DecidableEq

/-- the key a successful attestation is about -/
def Outcome.key : Outcome → Option Nat
  | .success => some 0
  | .successKey k => some k
  | _ => none

inductive Resp where
  | ok (st : Status)
  | created (order : Nat)
  | list (ids : List Nat)
  | unauthorized
  | notFound
  | notReady
  | badCSR
  | malformed
  | ise
  /-- finalize: the authority refused to sign (policy, key size, name constraints) -/
  | refused
  /-- account update answered with the account (status deactivated) -/
  | deactivated
  /-- 501: key-change is routed to `NotImplemented` -/
  | notImplemented
  deriving Repr, DecidableEq

/-- api.GetChallenge + Challenge.Validate with a URL that names no existing authorization (all
    challenge types but device-attest-01 ignore it; device-attest-01 fails loading it) -/
def respond (d : Deny) (s : Store) (acct c : Nat) (out : Outcome) : Store × Resp :=
  match s.chals[c]? with
  | none => (s, .notFound)
  | some ch =>
    if ch.acct ≠ acct then (s, .unauthorized)
    else if ch.status ≠ .pending then (s, .ok ch.status)
    else if ch.attest then (s, .notFound)   -- device-attest-01 loads the URL's authorization first: `attest`
    else if d = .chal c then (s, .ise)
    else match out with
      | .success => (setChal s c ch .valid, .ok .valid)
      | .successKey _ => (setChal s c ch .valid, .ok .valid)
      | .retry => (s, .ok .pending)
      | .reject => (setChal s c ch .invalid, .ok .invalid)
      | .dbError => (s, .ise)

/-- api.GetChallenge + deviceAttest01Validate for a device-attest-01 challenge. `az` is the
    authorization id of the request URL: the handler copies it into `ch.AuthorizationID` without
    checking that the challenge belongs to it, the validator loads that authorization first,
    refuses it unless it belongs to the challenge's account (365cae8) and lists the challenge among
    its own (e055659) and, on success, writes the attested key fingerprint into it before it writes
    the challenge.
    Failures of the attestation are `storeError(markInvalid = true)`; status-500 errors (`retry`,
    `dbError` here) are returned without a write. Other challenge types ignore `az`. -/
def attest (d : Deny) (s : Store) (acct c az : Nat) (out : Outcome) : Store × Resp :=
  match s.chals[c]? with
  | none => (s, .notFound)
  | some ch =>
    if ch.acct ≠ acct then (s, .unauthorized)
    else if ch.status ≠ .pending then (s, .ok ch.status)
    else if !ch.attest then respond d s acct c out   -- other types ignore the URL's authorization
    else match s.authzs[az]? with
      | none => (s, .notFound)
      | some azr =>
        if !azr.chals.all (fun c => (s.chals[c]?).isSome) then (s, .notFound)
        -- (since /repo 365cae8) the URL's authorization must belong to the challenge's account
        else if azr.acct ≠ ch.acct then (s, .unauthorized)
        -- (since /repo e055659) and the challenge must be one of that authorization's own challenges
        -- (an authorization without challenges is exempt: it can never become valid)
        else if !azr.chals.isEmpty && !azr.chals.contains c then (s, .unauthorized)
        else match out.key with
          | none =>
            match out with
            | .reject => if d = .chal c then (s, .ise) else (setChal s c ch .invalid, .ok .invalid)
            | _ => (s, .ise)
          | some k =>
            if d = .authz az then (s, .ise)
            else if d = .chal c then (setFp s az azr k, .ise)
            else (setChal (setFp s az azr k) c ch .valid, .ok .valid)

/-- `attest` as it was before /repo e055659: any authorization of the account could be named in the URL -/
def attestHistoric (d : Deny) (s : Store) (acct c az : Nat) (out : Outcome) : Store × Resp :=
  match s.chals[c]? with
  | none => (s, .notFound)
  | some ch =>
    if ch.acct ≠ acct then (s, .unauthorized)
    else if ch.status ≠ .pending then (s, .ok ch.status)
    else if !ch.attest then respond d s acct c out
    else match s.authzs[az]? with
      | none => (s, .notFound)
      | some azr =>
        if !azr.chals.all (fun c => (s.chals[c]?).isSome) then (s, .notFound)
        else if azr.acct ≠ ch.acct then (s, .unauthorized)
        else match out.key with
          | none =>
            match out with
            | .reject => if d = .chal c then (s, .ise) else (setChal s c ch .invalid, .ok .invalid)
            | _ => (s, .ise)
          | some k =>
            if d = .authz az then (s, .ise)
            else if d = .chal c then (setFp s az azr k, .ise)
            else (setChal (setFp s az azr k) c ch .valid, .ok .valid)

def getAuthz (d : Deny) (s : Store) (acct a now : Nat) : Store × Resp :=
  match s.authzs[a]? with
  | none => (s, .notFound)
  | some az =>
    if az.acct ≠ acct then (s, .unauthorized)
    else match authzUpdate d s a now with
      | (s1, none) => (s1, .ise)
      | (s1, some st) => (s1, .ok st)

def getOrder (d : Deny) (s : Store) (acct o now : Nat) : Store × Resp :=
  match s.orders[o]? with
  | none => (s, .notFound)
  | some ord =>
    if ord.acct ≠ acct then (s, .unauthorized)
    else match orderUpdate d s o now with
      | (s1, none) => (s1, .ise)
      | (s1, some st) => (s1, .ok st)

/-- getAuthorizationFingerprint: the first fingerprint recorded on one of the order's authorizations -/
def orderFp (s : Store) (ord : Order) : Option Nat :=
  ord.authzs.findSome? fun a => match s.authzs[a]? with
    | some az => az.fp
    | none => none

/-- the two key tests of Finalize: a recorded fingerprint must be the CSR key's (constant-time
    compare), and (since /repo 4f1731b) an order with a permanent identifier must have one -/
def keyGate (fp : Option Nat) (attested : Bool) (csrKey : Nat) : Bool :=
  match fp with
  | some k => k == csrKey
  | none => !attested

/-- api.FinalizeOrder with a well-formed CSR made with key `csrKey`; `signOk = false`: the authority
    refuses the request (403, answered `rejectedIdentifier` since /repo 89421a7) -/
def finalize (d : Deny) (s : Store) (acct o now : Nat) (csrKey : Nat) (csrOk signOk updFail : Bool) : Store × Resp :=
  match s.orders[o]? with
  | none => (s, .notFound)
  | some ord =>
    if ord.acct ≠ acct then (s, .unauthorized)
    else match orderUpdate d s o now with
      | (s1, none) => (s1, .ise)
      | (s1, some .invalid) => (s1, .notReady)
      | (s1, some .pending) => (s1, .notReady)
      | (s1, some .valid) => (s1, .ok .valid)
      | (s1, some .ready) =>
        if !keyGate (orderFp s1 ord) ord.attested csrKey then (s1, .unauthorized)
        -- a Wire order: GetDpopToken / GetOidcToken for THIS order ("token not found" is a `malformed` error)
        else if ord.wire && !(s1.tokens.contains (o, true) && s1.tokens.contains (o, false)) then (s1, .malformed)
        else if !csrOk then (s1, .badCSR)
        else if !signOk then (s1, .refused)
        else
          let cid := s1.certs.length
          let s2 := { s1 with certs := s1.certs ++ [({ order := o, acct := ord.acct } : Cert)] }
          if updFail = true ∨ d = .order o then (s2, .ise)
          else match s2.orders[o]? with
            | none => (s2, .ise)
            | some ord2 => (setOrder s2 o ord2 .valid (some cid), .ok .valid)

/-- acme_account_orders_index entry of an account: `none` = no entry. `some []` is an entry whose
    value is empty: what `save(nil)` leaves behind on bbolt when the list became empty. Since
    /repo commit 23d8883 a zero-length value is read as the empty list (before, `json.Unmarshal`
    failed on it and every later new-order / orders-list of the account answered 500). -/
def indexOf (s : Store) (acct : Nat) : Option (List Nat) :=
  (s.index.find? (·.1 == acct)).map (·.2)

def setIndex (s : Store) (acct : Nat) (ids : List Nat) : Store :=
  { s with index := (acct, ids) :: s.index.filter (·.1 != acct) }

/-- the loop of updateAddOrderIDs: update every listed order, keep the pending ones (and the
    ready ones when `incl`, the `includeReadyOrders` argument) -/
def pollLoop (d : Deny) (s : Store) (now : Nat) (incl : Bool) : List Nat → Store × Option (List Nat)
  | [] => (s, some [])
  | o :: os =>
    match orderUpdate d s o now with
    | (s1, none) => (s1, none)
    | (s1, some st) =>
      match pollLoop d s1 now incl os with
      | (s2, none) => (s2, none)
      | (s2, some keep) => (s2, some (if st = .pending ∨ (incl = true ∧ st = .ready) then o :: keep else keep))

/-- nosql updateAddOrderIDs(accID, incl, add…): a missing or empty entry is the empty list;
    nothing is written when the list was and stays empty; an emptied list is written as nil. -/
def pollIndex (d : Deny) (s : Store) (acct now : Nat) (incl : Bool) (add : List Nat) : Store × Option (List Nat) :=
  let old := (indexOf s acct).getD []
  match pollLoop d s now incl old with
  | (s1, none) => (s1, none)
  | (s1, some keep) =>
    let nu := keep ++ add
    if old = [] ∧ nu = [] then (s1, some [])
    else if d = .index then (s1, none)
    else (setIndex s1 acct nu, some nu)

/-- newAuthorization for the identifiers of a new order; `nch` = number of challenges of each -/
def createAuthzs (s : Store) (acct exp : Nat) : List (Nat × Bool) → Store × List Nat
  | [] => (s, [])
  | (n, att) :: ns =>
    let c0 := s.chals.length
    let s1 := { s with chals := s.chals ++ List.replicate n ({ acct := acct, status := .pending, attest := att } : Chal) }
    let a := s1.authzs.length
    let s2 := { s1 with authzs := s1.authzs ++
      [({ acct := acct, status := .pending, expires := exp, chals := List.range' c0 n } : Authz)] }
    match createAuthzs s2 acct exp ns with
    | (s3, as) => (s3, a :: as)

/-- where the k-th create write of a new-order request falls: the identifiers whose challenges and
    authorization are all created before it, and the challenges (number, kind) of the identifier
    it hits that were created without their authorization; `none`: the request makes fewer creates -/
def splitCreates : List (Nat × Bool) → Nat → Option (List (Nat × Bool) × Option (Nat × Bool))
  | [], k => if k = 0 then some ([], none) else none
  | (n, a) :: rest, k =>
    if k < n then some ([], some (k, a))
    else if k = n then some ([], some (n, a))
    else match splitCreates rest (k - (n + 1)) with
      | some (pre, ex) => some ((n, a) :: pre, ex)
      | none => none

def createFault (d : Deny) (nch : List (Nat × Bool)) : Option (List (Nat × Bool) × Option (Nat × Bool)) :=
  match d with
  | .create k => splitCreates nch k
  | _ => none

/-- challenges created for an identifier whose authorization was never stored -/
def addChals (s : Store) (acct : Nat) : Option (Nat × Bool) → Store
  | none => s
  | some (m, att) =>
    { s with chals := s.chals ++ List.replicate m ({ acct := acct, status := .pending, attest := att } : Chal) }

/-- api.NewOrder (identifiers already passed Validate and the policies). A failing create write
    answers 500 and leaves what was created before it (objects no order refers to). When the index
    write fails the order just stored is deleted again (`db.Del`), its authorizations and
    challenges stay; the other open orders of the account have been updated by then. -/
def newOrder (d : Deny) (s : Store) (acct now : Nat) (nch : List (Nat × Bool)) (wire : Bool) : Store × Resp :=
  if nch = [] then (s, .malformed)
  else
    let exp := now + lifetime
    match createFault d nch with
    | some (pre, extra) => (addChals (createAuthzs s acct exp pre).1 acct extra, .ise)
    | none =>
      match createAuthzs s acct exp nch with
      | (s1, azs) =>
        if d = .index then ((pollLoop d s1 now false ((indexOf s1 acct).getD [])).1, .ise)
        else
        let o := s1.orders.length
        let s2 := { s1 with orders := s1.orders ++
          [({ acct := acct, status := .pending, expires := exp, authzs := azs, cert := none,
              attested := nch.any (·.2), wire := wire } : Order)] }
        match pollIndex d s2 acct now false [o] with
        | (s3, none) => (s3, .ise)
        | (s3, some _) => (s3, .created o)

/-- api.GetOrdersByAccountID -/
def listOrders (d : Deny) (s : Store) (acct urlAcct now : Nat) : Store × Resp :=
  if acct ≠ urlAcct then (s, .unauthorized)
  else match pollIndex d s acct now false [] with
    | (s1, none) => (s1, .ise)
    | (s1, some ids) => (s1, .list ids)

/-- api.GetChallenge + wireOIDC01Validate / wireDPOP01Validate: a response to a wire-oidc-01
    (`dpop = false`) or wire-dpop-01 challenge. The status effect is that of `respond` (a token
    that does not verify is `storeError(markInvalid = true)`); after a challenge has been made valid
    the validator calls `GetAllOrdersByAccountID` (= updateAddOrderIDs with includeReadyOrders: every
    indexed order of the account, its authorizations included, is updated in this same request),
    answers 500 when that fails or lists no order, and stores the verified token under the LAST
    listed order of the account (not under the order the challenge belongs to); `CreateOidcToken` /
    `CreateDpopToken` fail (500) when that order already has such a token. The challenge stays valid
    in all these cases. The model does not record challenge types: whether a response is `respond`,
    `attest` or `wire` is part of the input, as the verdict is. -/
def wire (d : Deny) (s : Store) (acct c now : Nat) (dpop : Bool) (out : Outcome) : Store × Resp :=
  match respond d s acct c out with
  | (s1, r) =>
    if r = .ok .valid ∧ chalValid s c = false then
      match pollIndex d s1 acct now true [] with
      | (s2, none) => (s2, .ise)
      | (s2, some ids) =>
        match ids.getLast? with
        | none => (s2, .ise)
        | some o =>
          if d = .token ∨ s2.tokens.contains (o, dpop) then (s2, .ise)
          else ({ s2 with tokens := (o, dpop) :: s2.tokens }, .ok .valid)
    else (s1, r)

inductive Op where
  | newOrder (acct now : Nat) (nch : List (Nat × Bool)) (wire : Bool)
  | respond (acct c now : Nat) (out : Outcome)
  | wire (acct c now : Nat) (dpop : Bool) (out : Outcome)
  | attest (acct c az now : Nat) (out : Outcome)
  | getAuthz (acct a now : Nat)
  | getOrder (acct o now : Nat)
  | finalize (acct o now : Nat) (csrKey : Nat) (csrOk signOk updFail : Bool)
  | listOrders (acct urlAcct now : Nat)
  deriving Repr, DecidableEq

def Op.now : Op → Nat
  | .newOrder _ n _ _ => n
  | .respond _ _ n _ => n
  | .wire _ _ n _ _ => n
  | .attest _ _ _ n _ => n
  | .getAuthz _ _ n => n
  | .getOrder _ _ n => n
  | .finalize _ _ n _ _ _ _ => n
  | .listOrders _ _ n => n

/-- one request under a storage fault `d` (`Deny.none`: no fault) -/
def step (d : Deny) (s : Store) : Op → Store × Resp
  | .newOrder acct now nch w => newOrder d s acct now nch w
  | .respond acct c _ out => respond d s acct c out
  | .wire acct c now dpop out => wire d s acct c now dpop out
  | .attest acct c az _ out => attest d s acct c az out
  | .getAuthz acct a now => getAuthz d s acct a now
  | .getOrder acct o now => getOrder d s acct o now
  | .finalize acct o now k c g u => finalize d s acct o now k c g u
  | .listOrders acct u now => listOrders d s acct u now

/-- a request together with the storage fault it runs under -/
abbrev Req := Deny × Op

/-- the store after a history, starting from the empty database -/
def run (h : List Req) : Store := h.foldl (fun s r => (step r.1 s r.2).1) {}

/-- no injected storage fault at all -/
def Req.faultFree (r : Req) : Bool :=
  r.1 == .none && match r.2 with
    | .finalize _ _ _ _ _ _ updFail => !updFail
    | .respond _ _ _ out => out != .dbError
    | .wire _ _ _ _ out => out != .dbError
    | .attest _ _ _ _ out => out != .dbError
    | _ => true

/-- the only fault that matters for the certificate count: the last write of a finalization
    (`UpdateOrder` with status valid) fails after the certificate has been stored -/
def Req.finalWriteFails (r : Req) : Bool :=
  match r.2 with
  | .finalize _ o _ _ _ _ updFail => updFail || r.1 == .order o
  | _ => false

/-! ### accounts (the part of the JWS middleware that decides whether a request reaches a handler)

  api.lookupJWK: a kid-signed request is served only if the account exists and `acc.IsValid()`;
  api.GetOrUpdateAccount with {"status":"deactivated"}; db UpdateAccount refuses to leave
  deactivated (/repo 48b7457); key-change is `NotImplemented`. What makes a signature acceptable
  is C12; here a request either is authenticated as account `op.acct` or does not reach a handler. -/

def Op.acct : Op → Nat
  | .newOrder a _ _ _ => a
  | .respond a _ _ _ => a
  | .wire a _ _ _ _ => a
  | .attest a _ _ _ _ => a
  | .getAuthz a _ _ => a
  | .getOrder a _ _ => a
  | .finalize a _ _ _ _ _ _ => a
  | .listOrders a _ _ => a

/-- the object store together with the account table (`true` = status valid; id = position) -/
structure AStore where
  s : Store := {}
  accts : List Bool := []
  deriving Repr, DecidableEq

inductive AReq where
  /-- new-account with a key not seen before -/
  | newAccount
  /-- a request signed with the key of account `op.acct` -/
  | req (d : Deny) (op : Op)
  /-- POST account {"status":"deactivated"} signed by `acct` -/
  | deactivate (acct : Nat)
  /-- POST key-change signed by `acct` -/
  | keyChange (acct : Nat)
  deriving Repr, DecidableEq

def served (a : AStore) (acct : Nat) : Bool := a.accts[acct]? == some true

def astep (a : AStore) : AReq → AStore × Resp
  | .newAccount => ({ a with accts := a.accts ++ [true] }, .created a.accts.length)
  | .req d op =>
    if served a op.acct then
      match step d a.s op with
      | (s', r) => ({ a with s := s' }, r)
    else (a, .unauthorized)
  | .deactivate acct =>
    if served a acct then ({ a with accts := a.accts.set acct false }, .deactivated)
    else (a, .unauthorized)
  | .keyChange acct => if served a acct then (a, .notImplemented) else (a, .unauthorized)

def arun (h : List AReq) : AStore := h.foldl (fun a r => (astep a r).1) {}

/-! ### every place of acme, acme/api, acme/db/nosql that writes a `Status` field

  Re-derived from the source with go/ast on every run (harness/cmd/c10 `-stage sites`: assignments
  to a selector `.Status` and composite-literal fields `Status:` in non-test files, MockDB aside) and
  compared with this table by the driver: a site that is not listed, or listed fewer times, is
  answered `unknown-site`. Third column: the model function that covers the write, or why it is
  not a transition (`-copy`: the database layer copies the caller's value, `-http`: an HTTP status
  code, `-eab`: a just-created account is deactivated
  again when its external account binding cannot be recorded, /repo 1f3b0b9, C20). -/
def statusSites : List (String × Nat × String) := [
  ("acme/api/account.go:GetOrUpdateAccount:acc.Status=uar.Status", 1, "astep.deactivate"),
  ("acme/api/account.go:NewAccount:acc.Status=acme.StatusDeactivated", 1, "-eab"),
  ("acme/api/account.go:NewAccount:{Status}=acme.StatusValid", 1, "astep.newAccount"),
  ("acme/api/order.go:NewOrder:{Status}=acme.StatusPending", 2, "newOrder"),
  ("acme/api/order.go:newAuthorization:{Status}=acme.StatusPending", 1, "createAuthzs"),
  ("acme/api/revoke.go:wrapUnauthorizedError:acmeErr.Status=http.StatusForbidden", 1, "-http"),
  ("acme/authorization.go:Authorization.UpdateStatus:az.Status=StatusInvalid", 1, "authzUpdate"),
  ("acme/authorization.go:Authorization.UpdateStatus:az.Status=StatusValid", 1, "authzUpdate"),
  ("acme/challenge.go:deviceAttest01Validate:ch.Status=StatusValid", 1, "attest"),
  ("acme/challenge.go:dns01Validate:ch.Status=StatusValid", 1, "respond"),
  ("acme/challenge.go:http01Validate:ch.Status=StatusValid", 1, "respond"),
  ("acme/challenge.go:storeError:ch.Status=StatusInvalid", 1, "respond"),
  ("acme/challenge.go:tlsalpn01Validate:ch.Status=StatusValid", 1, "respond"),
  ("acme/challenge.go:wireDPOP01Validate:ch.Status=StatusValid", 1, "wire"),
  ("acme/challenge.go:wireOIDC01Validate:ch.Status=StatusValid", 1, "wire"),
  ("acme/db/nosql/account.go:DB.CreateAccount:{Status}=acc.Status", 1, "-copy"),
  ("acme/db/nosql/account.go:DB.GetAccount:{Status}=dbacc.Status", 1, "-copy"),
  ("acme/db/nosql/account.go:DB.UpdateAccount:nu.Status=acc.Status", 1, "-copy"),
  ("acme/db/nosql/authz.go:DB.CreateAuthorization:{Status}=az.Status", 1, "-copy"),
  ("acme/db/nosql/authz.go:DB.GetAuthorization:{Status}=dbaz.Status", 1, "-copy"),
  ("acme/db/nosql/authz.go:DB.GetAuthorizationsByAccountID:{Status}=dbaz.Status", 1, "-copy"),
  ("acme/db/nosql/authz.go:DB.UpdateAuthorization:nu.Status=az.Status", 1, "-copy"),
  ("acme/db/nosql/challenge.go:DB.CreateChallenge:{Status}=acme.StatusPending", 1, "createAuthzs"),
  ("acme/db/nosql/challenge.go:DB.GetChallenge:{Status}=dbch.Status", 1, "-copy"),
  ("acme/db/nosql/challenge.go:DB.UpdateChallenge:nu.Status=ch.Status", 1, "-copy"),
  ("acme/db/nosql/order.go:DB.CreateOrder:{Status}=o.Status", 1, "-copy"),
  ("acme/db/nosql/order.go:DB.GetOrder:{Status}=dbo.Status", 1, "-copy"),
  ("acme/db/nosql/order.go:DB.UpdateOrder:nu.Status=o.Status", 1, "-copy"),
  ("acme/errors.go:newError:{Status}=meta.status", 2, "-http"),
  ("acme/order.go:Order.Finalize:o.Status=StatusValid", 1, "finalize"),
  ("acme/order.go:Order.UpdateStatus:o.Status=StatusInvalid", 3, "orderUpdate"),
  ("acme/order.go:Order.UpdateStatus:o.Status=StatusReady", 1, "orderUpdate")
]

/-- the model functions that write statuses (each proved to respect `Old` by `step_old` / `astep`) -/
def modelWriters : List String :=
  ["newOrder", "createAuthzs", "authzUpdate", "orderUpdate", "respond", "attest", "wire", "finalize",
   "astep.newAccount", "astep.deactivate"]

end Verif.AcmeSM
