import Verif.Model.Common
/-
  Model of the ACME object state machine: /repo/acme/{order,authorization,challenge}.go,
  /repo/acme/api/{order,handler,account}.go and the parts of /repo/acme/db/nosql that decide
  which objects are touched (order.go updateAddOrderIDs, authz.go GetAuthorization).

    Store                     tables acme_challenges, acme_authzs, acme_orders, acme_certs,
                              acme_account_orders_index.  An object's id is its position in the
                              table (the harness numbers the random ids in creation order).
    setChal/setAuthz/setOrder DB.UpdateChallenge / UpdateAuthorization / UpdateOrder: re-read the
                              record, overwrite status (and certificate id), compare-and-swap.
                              In a sequential history the swap always succeeds.
    validate                  the status effect of (*Challenge).Validate; the validator's verdict is
                              an input (`Outcome`): success / storeError(markInvalid=false) /
                              storeError(markInvalid=true) / database error
    authzUpdate               DB.GetAuthorization (loads every challenge) + (*Authorization).UpdateStatus
    authzLoop, orderUpdate    (*Order).UpdateStatus (every authorization is loaded and updated, no
                              early exit; updates made before an error persist)
    Deny                      a storage fault of one request: the update writes of one object fail
    finalize                  api.FinalizeOrder + (*Order).Finalize; "CSR names match" (o.sans, C13),
                              "signing succeeded" and "the final UpdateOrder failed" are inputs
    pollIndex                 nosql updateAddOrderIDs: every indexed order of the account is
                              updated, the pending ones are kept
    newOrder                  api.NewOrder + newAuthorization + DB.CreateOrder
    getOrder/getAuthz/respond api.GetOrder / GetAuthorization / GetChallenge
    listOrders                api.GetOrdersByAccountID
  Time is the input `now` of every request (seconds); `clock.Now().After(x.ExpiresAt)` is `now > expires`.
  Not modelled: account state, nonces, JWS (C12); what a validator checks (C11); Wire.
-/
namespace Verif.AcmeSM
open Verif

inductive Status where
  | pending | ready | valid | invalid
  deriving Repr, DecidableEq

structure Chal where
  acct : Nat
  status : Status
  deriving Repr, DecidableEq

structure Authz where
  acct : Nat
  status : Status
  expires : Nat
  chals : List Nat
  deriving Repr, DecidableEq

structure Order where
  acct : Nat
  status : Status
  expires : Nat
  authzs : List Nat
  cert : Option Nat
  deriving Repr, DecidableEq

structure Cert where
  order : Nat
  acct : Nat
  deriving Repr, DecidableEq

structure Store where
  chals : List Chal := []
  authzs : List Authz := []
  orders : List Order := []
  certs : List Cert := []
  /-- acme_account_orders_index: account -> order ids -/
  index : List (Nat × List Nat) := []
  deriving Repr, DecidableEq

/-- api.defaultOrderExpiry, in seconds -/
def lifetime : Nat := 86400

def setChal (s : Store) (c : Nat) (ch : Chal) (st : Status) : Store :=
  { s with chals := s.chals.set c { ch with status := st } }

def setAuthz (s : Store) (a : Nat) (az : Authz) (st : Status) : Store :=
  { s with authzs := s.authzs.set a { az with status := st } }

def setOrder (s : Store) (o : Nat) (ord : Order) (st : Status) (cert : Option Nat) : Store :=
  { s with orders := s.orders.set o { ord with status := st, cert := cert } }

/-- A storage fault of one request: every update write (compare-and-swap of an existing record)
    of the named object fails while the request runs; nothing else is affected. `none` = no fault.
    (A failing `CmpAndSwap` error and a lost swap "changed since last read" look the same to the
    callers: `Update*` returns an error and the record keeps its old value.) -/
inductive Deny where
  | none
  | chal (c : Nat)
  | authz (a : Nat)
  | order (o : Nat)
  deriving Repr, DecidableEq

def chalValid (s : Store) (c : Nat) : Bool :=
  match s.chals[c]? with
  | some ch => ch.status == .valid
  | none => false

/-- GetAuthorization + Authorization.UpdateStatus. Result status `none` = an error was returned. -/
def authzUpdate (d : Deny) (s : Store) (a : Nat) (now : Nat) : Store × Option Status :=
  match s.authzs[a]? with
  | none => (s, none)
  | some az =>
    if !az.chals.all (fun c => (s.chals[c]?).isSome) then (s, none)
    else match az.status with
      | .invalid => (s, some .invalid)
      | .valid => (s, some .valid)
      | .ready => (s, none)
      | .pending =>
        if now > az.expires then
          (if d = .authz a then (s, none) else (setAuthz s a az .invalid, some .invalid))
        else if az.chals.any (chalValid s) then
          (if d = .authz a then (s, none) else (setAuthz s a az .valid, some .valid))
        else (s, some .pending)

/-- the loop of Order.UpdateStatus over the authorization ids -/
def authzLoop (d : Deny) (s : Store) (now : Nat) : List Nat → Store × Option (List Status)
  | [] => (s, some [])
  | a :: as =>
    match authzUpdate d s a now with
    | (s1, none) => (s1, none)
    | (s1, some st) =>
      match authzLoop d s1 now as with
      | (s2, none) => (s2, none)
      | (s2, some sts) => (s2, some (st :: sts))

/-- DB.GetOrder + Order.UpdateStatus -/
def orderUpdate (d : Deny) (s : Store) (o : Nat) (now : Nat) : Store × Option Status :=
  match s.orders[o]? with
  | none => (s, none)
  | some ord =>
    match ord.status with
    | .invalid => (s, some .invalid)
    | .valid => (s, some .valid)
    | .ready =>
      if now > ord.expires then
        (if d = .order o then (s, none) else (setOrder s o ord .invalid ord.cert, some .invalid))
      else (s, some .ready)
    | .pending =>
      if now > ord.expires then
        (if d = .order o then (s, none) else (setOrder s o ord .invalid ord.cert, some .invalid))
      else match authzLoop d s now ord.authzs with
        | (s1, none) => (s1, none)
        | (s1, some sts) =>
          if sts.any (· == .invalid) then
            (if d = .order o then (s1, none) else (setOrder s1 o ord .invalid ord.cert, some .invalid))
          else if sts.any (· == .pending) then (s1, some .pending)
          else if sts.all (· == .valid) then
            (if d = .order o then (s1, none) else (setOrder s1 o ord .ready ord.cert, some .ready))
          else (s1, none)

/-- verdict of a challenge validator, seen from the state machine -/
inductive Outcome where
  /-- the proof was found: status valid -/
  | success
  /-- storeError(markInvalid = false): stays pending -/
  | retry
  /-- storeError(markInvalid = true) -/
  | reject
  /-- the database update failed -/
  | dbError
  deriving Repr, DecidableEq

inductive Resp where
  | ok (st : Status)
  | created (order : Nat)
  | list (ids : List Nat)
  | unauthorized
  | notFound
  | notReady
  | badCSR
  | malformed
  | ise
  deriving Repr, DecidableEq

/-- api.GetChallenge + Challenge.Validate -/
def respond (d : Deny) (s : Store) (acct c : Nat) (out : Outcome) : Store × Resp :=
  match s.chals[c]? with
  | none => (s, .notFound)
  | some ch =>
    if ch.acct ≠ acct then (s, .unauthorized)
    else if ch.status ≠ .pending then (s, .ok ch.status)
    else if d = .chal c then (s, .ise)
    else match out with
      | .success => (setChal s c ch .valid, .ok .valid)
      | .retry => (s, .ok .pending)
      | .reject => (setChal s c ch .invalid, .ok .invalid)
      | .dbError => (s, .ise)

def getAuthz (d : Deny) (s : Store) (acct a now : Nat) : Store × Resp :=
  match s.authzs[a]? with
  | none => (s, .notFound)
  | some az =>
    if az.acct ≠ acct then (s, .unauthorized)
    else match authzUpdate d s a now with
      | (s1, none) => (s1, .ise)
      | (s1, some st) => (s1, .ok st)

def getOrder (d : Deny) (s : Store) (acct o now : Nat) : Store × Resp :=
  match s.orders[o]? with
  | none => (s, .notFound)
  | some ord =>
    if ord.acct ≠ acct then (s, .unauthorized)
    else match orderUpdate d s o now with
      | (s1, none) => (s1, .ise)
      | (s1, some st) => (s1, .ok st)

/-- api.FinalizeOrder with a well-formed CSR -/
def finalize (d : Deny) (s : Store) (acct o now : Nat) (csrOk signOk updFail : Bool) : Store × Resp :=
  match s.orders[o]? with
  | none => (s, .notFound)
  | some ord =>
    if ord.acct ≠ acct then (s, .unauthorized)
    else match orderUpdate d s o now with
      | (s1, none) => (s1, .ise)
      | (s1, some .invalid) => (s1, .notReady)
      | (s1, some .pending) => (s1, .notReady)
      | (s1, some .valid) => (s1, .ok .valid)
      | (s1, some .ready) =>
        if !csrOk then (s1, .badCSR)
        else if !signOk then (s1, .ise)
        else
          let cid := s1.certs.length
          let s2 := { s1 with certs := s1.certs ++ [({ order := o, acct := ord.acct } : Cert)] }
          if updFail = true ∨ d = .order o then (s2, .ise)
          else match s2.orders[o]? with
            | none => (s2, .ise)
            | some ord2 => (setOrder s2 o ord2 .valid (some cid), .ok .valid)

/-- acme_account_orders_index entry of an account: `none` = no entry. `some []` is an entry whose
    value is empty: what `save(nil)` leaves behind on bbolt when the list became empty. Since
    /repo commit 23d8883 a zero-length value is read as the empty list (before, `json.Unmarshal`
    failed on it and every later new-order / orders-list of the account answered 500). -/
def indexOf (s : Store) (acct : Nat) : Option (List Nat) :=
  (s.index.find? (·.1 == acct)).map (·.2)

def setIndex (s : Store) (acct : Nat) (ids : List Nat) : Store :=
  { s with index := (acct, ids) :: s.index.filter (·.1 != acct) }

/-- the loop of updateAddOrderIDs: update every listed order, keep the pending ones -/
def pollLoop (d : Deny) (s : Store) (now : Nat) : List Nat → Store × Option (List Nat)
  | [] => (s, some [])
  | o :: os =>
    match orderUpdate d s o now with
    | (s1, none) => (s1, none)
    | (s1, some st) =>
      match pollLoop d s1 now os with
      | (s2, none) => (s2, none)
      | (s2, some keep) => (s2, some (if st = .pending then o :: keep else keep))

/-- nosql updateAddOrderIDs(accID, false, add…): a missing or empty entry is the empty list;
    nothing is written when the list was and stays empty; an emptied list is written as nil. -/
def pollIndex (d : Deny) (s : Store) (acct now : Nat) (add : List Nat) : Store × Option (List Nat) :=
  let old := (indexOf s acct).getD []
  match pollLoop d s now old with
  | (s1, none) => (s1, none)
  | (s1, some keep) =>
    let nu := keep ++ add
    if old = [] ∧ nu = [] then (s1, some [])
    else (setIndex s1 acct nu, some nu)

/-- newAuthorization for the identifiers of a new order; `nch` = number of challenges of each -/
def createAuthzs (s : Store) (acct exp : Nat) : List Nat → Store × List Nat
  | [] => (s, [])
  | n :: ns =>
    let c0 := s.chals.length
    let s1 := { s with chals := s.chals ++ List.replicate n ({ acct := acct, status := .pending } : Chal) }
    let a := s1.authzs.length
    let s2 := { s1 with authzs := s1.authzs ++
      [({ acct := acct, status := .pending, expires := exp, chals := List.range' c0 n } : Authz)] }
    match createAuthzs s2 acct exp ns with
    | (s3, as) => (s3, a :: as)

/-- api.NewOrder (identifiers already passed Validate and the policies) -/
def newOrder (d : Deny) (s : Store) (acct now : Nat) (nch : List Nat) : Store × Resp :=
  if nch = [] then (s, .malformed)
  else
    let exp := now + lifetime
    match createAuthzs s acct exp nch with
    | (s1, azs) =>
      let o := s1.orders.length
      let s2 := { s1 with orders := s1.orders ++
        [({ acct := acct, status := .pending, expires := exp, authzs := azs, cert := none } : Order)] }
      match pollIndex d s2 acct now [o] with
      | (s3, none) => (s3, .ise)
      | (s3, some _) => (s3, .created o)

/-- api.GetOrdersByAccountID -/
def listOrders (d : Deny) (s : Store) (acct urlAcct now : Nat) : Store × Resp :=
  if acct ≠ urlAcct then (s, .unauthorized)
  else match pollIndex d s acct now [] with
    | (s1, none) => (s1, .ise)
    | (s1, some ids) => (s1, .list ids)

inductive Op where
  | newOrder (acct now : Nat) (nch : List Nat)
  | respond (acct c now : Nat) (out : Outcome)
  | getAuthz (acct a now : Nat)
  | getOrder (acct o now : Nat)
  | finalize (acct o now : Nat) (csrOk signOk updFail : Bool)
  | listOrders (acct urlAcct now : Nat)
  deriving Repr, DecidableEq

def Op.now : Op → Nat
  | .newOrder _ n _ => n
  | .respond _ _ n _ => n
  | .getAuthz _ _ n => n
  | .getOrder _ _ n => n
  | .finalize _ _ n _ _ _ => n
  | .listOrders _ _ n => n

/-- one request under a storage fault `d` (`Deny.none`: no fault) -/
def step (d : Deny) (s : Store) : Op → Store × Resp
  | .newOrder acct now nch => newOrder d s acct now nch
  | .respond acct c _ out => respond d s acct c out
  | .getAuthz acct a now => getAuthz d s acct a now
  | .getOrder acct o now => getOrder d s acct o now
  | .finalize acct o now c g u => finalize d s acct o now c g u
  | .listOrders acct u now => listOrders d s acct u now

/-- a request together with the storage fault it runs under -/
abbrev Req := Deny × Op

/-- the store after a history, starting from the empty database -/
def run (h : List Req) : Store := h.foldl (fun s r => (step r.1 s r.2).1) {}

/-- no injected storage fault at all -/
def Req.faultFree (r : Req) : Bool :=
  r.1 == .none && match r.2 with
    | .finalize _ _ _ _ _ updFail => !updFail
    | .respond _ _ _ out => out != .dbError
    | _ => true

/-- the only fault that matters for the certificate count: the last write of a finalization
    (`UpdateOrder` with status valid) fails after the certificate has been stored -/
def Req.finalWriteFails (r : Req) : Bool :=
  match r.2 with
  | .finalize _ o _ _ _ updFail => updFail || r.1 == .order o
  | _ => false

end Verif.AcmeSM
