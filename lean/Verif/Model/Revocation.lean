import Verif.Model.Store
/-!
  C07 — revocation.  Model of

  * /repo/db/db.go `DB.Revoke` / `DB.RevokeSSH` (`CmpAndSwap(table, serial, nil, record)`,
    not swapped ⇒ `ErrAlreadyExists`), `DB.IsRevoked` / `DB.IsSSHRevoked` (`Get`; not found ⇒ false;
    any other error is returned) — two tables keyed by the serial *string*;
  * /repo/authority/tls.go `Authority.Revoke` as the atomic steps
      0 look the certificate up (`db.GetCertificate`; its failure is ignored by the code)
      1 store: `a.revoke` / `a.revokeSSH` → CAS; `failRevoke`: already exists ⇒ 400-class,
        not implemented ⇒ 501, any other error ⇒ 500
      2 (X.509 only, when `CRL.GenerateOnRevoke`) regenerate the CRL; its failure ⇒ 500 although the
        record is stored; then the success answer
  * the renewal gates: /repo/authority/authorize.go `authorizeRenew` (used by `Renew`, `Rekey`,
    `RenewContext`, i.e. mTLS renew/rekey and renew-token renew) and `authorizeSSHCertificate`
    (used by `renewSSH`, `rekeySSH`): step 0 = arrival, step 1 reads the table (`IsRevoked`), an
    error ⇒ refused, present ⇒ refused; step 2 = every other gate (input bit);
  * /repo/api/revoke.go `RevokeRequest.Validate`'s serial canonicalisation (`canonSerial`:
    `big.Int.SetString(s, 0)` then `.String()`); /repo/api/sshRevoke.go `SSHRevokeRequest.Validate`
    (`canonSSHSerial`: `strconv.ParseUint(s, 10, 64)` — decimal digits only, no sign, no `_`, < 2^64 —
    then `strconv.FormatUint(…, 10)`; since c1e180f. Before that commit the SSH route stored the
    string as sent: `canonSSHSerialOld`, kept for the historic refutation `ssh_revoke_unnormalised`).
    `wireKey` is the API boundary: the key a revocation request is stored under, `none` = 400.
  * a fault oracle: each request carries what happens at its storage step (`Fault`).

  The key of a request is the string the code uses: `revokeOpts.Serial` for a revocation,
  `cert.SerialNumber.String()` / `strconv.FormatUint(cert.Serial, 10)` for a renewal.
-/
namespace Verif.Rev
open Verif Verif.Store

inductive Fault where
  | none
  | before     -- the storage call fails and nothing is written / read
  | after      -- the storage call is performed, the caller sees a failure
  deriving Repr, DecidableEq

inductive Kind where
  | revokeX (genCRL : Bool)   -- token, mTLS and ACME revocations all reach `Authority.Revoke` → `a.revoke`
  | revokeSSH
  | renewX                    -- renew / rekey by mTLS or renew token
  | renewSSH                  -- SSH renew / rekey
  deriving Repr, DecidableEq

def Kind.isSSH : Kind → Bool
  | .revokeSSH | .renewSSH => true
  | _ => false

def Kind.isRevoke : Kind → Bool
  | .revokeX _ | .revokeSSH => true
  | _ => false

inductive Out where
  | pending
  | ok              -- revocation acknowledged
  | already         -- "already revoked" (400-class)
  | err             -- 500-class
  | refusedRevoked  -- renewal refused: certificate has been revoked
  | refusedErr      -- renewal refused: the revocation lookup failed
  | refusedOther    -- renewal refused by another gate
  | allowed         -- renewal passes the gates
  | dropped
  | badRequest      -- refused by the request's `Validate` (400) before anything is looked at
  deriving Repr, DecidableEq

structure Inp where
  kind : Kind
  key : Str
  tag : Nat             -- identifies the record this revocation would store
  fault : Fault         -- at the CAS (revocation) / at the read (renewal)
  crlFails : Bool       -- revocation with GenerateOnRevoke: the regeneration fails
  otherOK : Bool        -- renewal: the remaining gates pass
  deriving Repr, DecidableEq

structure Req where
  inp : Inp
  pc : Nat := 0
  stored : Bool := false   -- this request's CAS stored the record
  out : Out := .pending
  deriving Repr, DecidableEq

def Req.fresh (r : Req) : Prop := r.pc = 0 ∧ r.stored = false ∧ r.out = .pending
instance (r : Req) : Decidable r.fresh := by unfold Req.fresh; exact inferInstance

structure G where
  x509 : Map Nat     -- revoked_x509_certs: serial ↦ record (tag)
  ssh : Map Nat      -- revoked_ssh_certs
  deriving Repr, DecidableEq

def G.table (g : G) (ssh : Bool) : Map Nat := if ssh then g.ssh else g.x509
def G.setTable (g : G) (ssh : Bool) (m : Map Nat) : G := if ssh then { g with ssh := m } else { g with x509 := m }

def stepRevoke (g : G) (r : Req) : G × Req :=
  match r.pc with
  | 0 => (g, { r with pc := 1 })
  | 1 =>
    match r.inp.fault with
    | .before => (g, { r with out := .err })
    | .none =>
      if (casNil (g.table r.inp.kind.isSSH) r.inp.key r.inp.tag).2 then
        (g.setTable r.inp.kind.isSSH (casNil (g.table r.inp.kind.isSSH) r.inp.key r.inp.tag).1, { r with pc := 2, stored := true })
      else (g, { r with out := .already })
    | .after =>
      if (casNil (g.table r.inp.kind.isSSH) r.inp.key r.inp.tag).2 then
        (g.setTable r.inp.kind.isSSH (casNil (g.table r.inp.kind.isSSH) r.inp.key r.inp.tag).1, { r with stored := true, out := .err })
      else (g, { r with out := .err })
  | 2 =>
    match r.inp.kind with
    | .revokeX true => if r.inp.crlFails then (g, { r with pc := 3, out := .err }) else (g, { r with pc := 3, out := .ok })
    | _ => (g, { r with pc := 3, out := .ok })
  | _ => (g, r)

def stepRenew (g : G) (r : Req) : G × Req :=
  match r.pc with
  | 0 => (g, { r with pc := 1 })   -- the request arrives (TLS handshake / token parsing), nothing is read yet
  | 1 =>
    match r.inp.fault with
    | .none => if has (g.table r.inp.kind.isSSH) r.inp.key then (g, { r with out := .refusedRevoked }) else (g, { r with pc := 2 })
    | _ => (g, { r with out := .refusedErr })
  | 2 => if r.inp.otherOK then (g, { r with pc := 3, out := .allowed }) else (g, { r with pc := 3, out := .refusedOther })
  | _ => (g, r)

def step (g : G) (r : Req) : G × Req :=
  if r.out ≠ .pending then (g, r)
  else if r.inp.kind.isRevoke then stepRevoke g r else stepRenew g r

/-- both tables are durable -/
def restartG (_ : Nat) (g : G) : G := g

def restartL (r : Req) : Req :=
  if r.out = .pending ∧ r.pc ≠ 0 then { r with out := .dropped } else r

def machine : Machine G Req := { step := step, restartG := restartG, restartL := restartL }

/-! ## linked CA: the revoked tables live at the linked CA service

  /repo/authority/tls.go `Authority.revoke` / `revokeSSH` and /repo/authority/authorize.go `authorizeRenew` /
  `authorizeSSHCertificate` (and `Authority.IsRevoked`): when the admin database is the linked-CA client
  (/repo/authority/linkedca.go), a revocation is the RPC `RevokeCertificate` / `RevokeSSHCertificate` and the renewal
  gates ask `GetCertificateStatus` / `GetSSHCertificateStatus`: the local `revoked_*` tables are neither written nor
  read. The service marks the serial revoked whether or not it was before (the first record is kept) and answers with
  success, so there is no "already revoked" in this deployment; an RPC error (`before`: not performed, `after`: performed,
  the caller sees an error) is a 500-class answer. `G` is then the service's two tables; `stored` = the RPC was performed. -/

def lstepRevoke (g : G) (r : Req) : G × Req :=
  match r.pc with
  | 0 => (g, { r with pc := 1 })
  | 1 =>
    match r.inp.fault with
    | .before => (g, { r with out := .err })
    | .none =>
      (g.setTable r.inp.kind.isSSH (casNil (g.table r.inp.kind.isSSH) r.inp.key r.inp.tag).1, { r with pc := 2, stored := true })
    | .after =>
      (g.setTable r.inp.kind.isSSH (casNil (g.table r.inp.kind.isSSH) r.inp.key r.inp.tag).1, { r with stored := true, out := .err })
  | 2 =>
    match r.inp.kind with
    | .revokeX true => if r.inp.crlFails then (g, { r with pc := 3, out := .err }) else (g, { r with pc := 3, out := .ok })
    | _ => (g, { r with pc := 3, out := .ok })
  | _ => (g, r)

def lstep (g : G) (r : Req) : G × Req :=
  if r.out ≠ .pending then (g, r)
  else if r.inp.kind.isRevoke then lstepRevoke g r else stepRenew g r

/-- a restart of the linked CA does not touch the service -/
def lmachine : Machine G Req := { step := lstep, restartG := restartG, restartL := restartL }

/-! ## serial canonicalisation (`RevokeRequest.Validate`)

  `new(big.Int).SetString(s, 0)`: optional sign; `0x`/`0X`, `0b`/`0B`, `0o`/`0O` prefixes, a bare
  leading `0` means octal; `_` may separate digits (after a digit or the prefix, before a digit);
  the whole string must be consumed and contain at least one digit (a lone octal prefix `0` is
  the number 0).  Then `.String()`: decimal, `-` iff negative and non-zero. -/

def digitVal (c : Nat) : Option Nat :=
  if 48 ≤ c ∧ c ≤ 57 then some (c - 48)
  else if 97 ≤ c ∧ c ≤ 122 then some (c - 97 + 10)
  else if 65 ≤ c ∧ c ≤ 90 then some (c - 65 + 10)
  else none

/-- digits and separators after sign and prefix: (value, digit count, previous char was a digit
    or the prefix, an invalid separator was seen); `none` = a character that is not a digit of
    the base (the string is not consumed entirely ⇒ `SetString` fails) -/
def scanDigits (base : Nat) : Str → Nat → Nat → Bool → Bool → Option (Nat × Nat × Bool × Bool)
  | [], v, cnt, prevDigit, inval => some (v, cnt, prevDigit, inval)
  | c :: cs, v, cnt, prevDigit, inval =>
    if c = 95 then scanDigits base cs v cnt false (inval || !prevDigit)
    else match digitVal c with
      | some d => if d < base then scanDigits base cs (v * base + d) (cnt + 1) true inval else none
      | none => none

/-- magnitude of an unsigned base-0 literal -/
def scanNat (t : Str) : Option Nat :=
  let fin (r : Option (Nat × Nat × Bool × Bool)) (octalPrefix : Bool) : Option Nat :=
    match r with
    | none => none
    | some (v, cnt, prevDigit, inval) =>
      if inval || !prevDigit then none
      else if cnt = 0 then (if octalPrefix then some 0 else none)
      else some v
  match t with
  | 48 :: c :: rest =>
    if c = 120 ∨ c = 88 then fin (scanDigits 16 rest 0 0 true false) false
    else if c = 98 ∨ c = 66 then fin (scanDigits 2 rest 0 0 true false) false
    else if c = 111 ∨ c = 79 then fin (scanDigits 8 rest 0 0 true false) false
    else fin (scanDigits 8 (c :: rest) 0 0 true false) true
  | [48] => some 0
  | _ => fin (scanDigits 10 t 0 0 false false) false

/-- `big.Int.SetString(s, 0)`: (negative, magnitude) -/
def parseSerial (t : Str) : Option (Bool × Nat) :=
  match t with
  | 45 :: rest => (scanNat rest).map fun n => (true, n)
  | 43 :: rest => (scanNat rest).map fun n => (false, n)
  | _ => (scanNat t).map fun n => (false, n)

/-- decimal digits, most significant first (`fuel` bounds the number of digits; structural so
    that the kernel can evaluate it) -/
def decDigitsF : Nat → Nat → Str
  | 0, _ => []
  | f + 1, n => if n < 10 then [48 + n] else decDigitsF f (n / 10) ++ [48 + n % 10]

def decDigits (n : Nat) : Str := decDigitsF (n + 1) n

/-- `big.Int.String()` -/
def printSerial (v : Bool × Nat) : Str :=
  if v.1 ∧ v.2 ≠ 0 then 45 :: decDigits v.2 else decDigits v.2

/-- `RevokeRequest.Validate` on the serial: `none` = 400 (missing / not a number) -/
def canonSerial (t : Str) : Option Str :=
  if t = [] then none else (parseSerial t).map printSerial

/-! ## the ACME revoke-cert handler in front of `Authority.Revoke`

  /repo/acme/api/revoke.go `RevokeCert`, in the order of the code: (1) who signed the request — the account that owns
  the certificate (kid), another valid account (kid; refused 403: "an account holding authorizations for all identifiers"
  is not implemented, the code fails closed), the certificate's own key (jwk; accepted), some other key (jwk; the handler
  verifies the JWS against the certificate's public key: 403); (2) `IsRevoked` read: already revoked ⇒ alreadyRevoked (400);
  (3) the reason code: absent, or 0..10 except 7, else badRevocationReason (400); (4) `Authority.Revoke`. -/

inductive AcmeSigner where
  | owner | otherAccount | certKey | otherKey
  deriving Repr, DecidableEq

inductive AcmeOut where
  | ok | already | unauthorized | badReason | err
  deriving Repr, DecidableEq

def acmeReasonOK : Option Int → Bool
  | none => true
  | some r => decide (0 ≤ r) && decide (r ≤ 10) && r != 7

def AcmeSigner.authorized : AcmeSigner → Bool
  | .owner | .certKey => true
  | _ => false

/-- one revoke-cert request served to completion (sequential histories): answer and new tables -/
def acmeRevoke (g : G) (key : Str) (tag : Nat) (signer : AcmeSigner) (reason : Option Int) : G × AcmeOut :=
  if !signer.authorized then (g, .unauthorized)
  else if has g.x509 key then (g, .already)
  else if !acmeReasonOK reason then (g, .badReason)
  else
    let r : Req := { inp := { kind := .revokeX false, key := key, tag := tag, fault := .none, crlFails := false, otherOK := true } }
    let s := machine.run (g, [r]) [.step 0, .step 0, .step 0]
    (s.1, match s.2.map (·.out) with
          | [Out.ok] => AcmeOut.ok
          | [Out.already] => AcmeOut.already
          | _ => AcmeOut.err)

/-! ## SSH serial canonicalisation (`SSHRevokeRequest.Validate`, since c1e180f) -/

/-- `strconv.ParseUint(s, 10, 64)` digit loop: decimal digits only -/
def uintDigits : Str → Nat → Option Nat
  | [], v => some v
  | c :: cs, v => if 48 ≤ c ∧ c ≤ 57 then uintDigits cs (v * 10 + (c - 48)) else none

/-- `strconv.ParseUint(s, 10, 64)`: `none` = syntax or range error -/
def parseUint10 (t : Str) : Option Nat :=
  if t = [] then none else
  match uintDigits t 0 with
  | some v => if v < 2 ^ 64 then some v else none
  | none => none

/-- `SSHRevokeRequest.Validate` on the serial: `none` = 400 -/
def canonSSHSerial (t : Str) : Option Str := (parseUint10 t).map decDigits

/-- the SSH route before c1e180f: any non-empty string, stored as sent -/
def canonSSHSerialOld (t : Str) : Option Str := if t = [] then none else some t

/-- the key a revocation request with serial `raw` is stored under on each route -/
def wireKey (ssh : Bool) (raw : Str) : Option Str := if ssh then canonSSHSerial raw else canonSerial raw

/-- the number a revocation request's serial denotes on each route -/
def wireValue (ssh : Bool) (raw : Str) : Option Nat :=
  if ssh then parseUint10 raw
  else if raw = [] then none else
    match parseSerial raw with
    | some (false, n) => some n
    | some (true, 0) => some 0
    | _ => none

/-- the key a renewal / rekey of the certificate with serial number `n` looks up:
    `cert.SerialNumber.String()` resp. `strconv.FormatUint(cert.Serial, 10)` -/
def certKey (n : Nat) : Str := decDigits n

end Verif.Rev
