import Verif.Model.Common
/-!
  C16 — model of the administrative state of the CA.

  Modelled Go code (read line by line, /repo as it stands):

  * `authority/provisioner/collection.go`  `Collection.{Store,Remove,Update,Find,Load,LoadByName,
    LoadByTokenID,LoadEncryptedKey}`                          → `PColl.*`
  * `authority/administrator/collection.go` `Collection.{Store,Remove,Update,Find,LoadByID,
    LoadBySubProv,LoadByProvisioner,SuperCount,SuperCountByProvisioner}` → `AColl.*`
  * `authority/admins.go` `StoreAdmin / UpdateAdmin / RemoveAdmin(removeAdmin)`,
    `authority/provisioners.go` `StoreProvisioner / UpdateProvisioner / RemoveProvisioner`,
    `authority/authority.go` `ReloadAdminResources`            → `Auth.*`
  * `authority/policy.go` `checkPolicy` (lock-out test), `checkAuthorityPolicy`,
    `checkProvisionerPolicy`, `Create/Update/RemoveAuthorityPolicy`, `reloadPolicyEngines`
                                                               → `checkPolicy`, `polCheck`,
                                                                 `provPolicyCheck`, `policyWrite`, `reloadPolicy`
  * `authority/authorize.go` `AuthorizeAdminToken` / `UseToken` (reached through
    `authority/admin/api/middleware.go` `extractAuthorizeTokenAdmin`) → `authorizeAdmin`

  Conventions
  * a `sync.Map` / Go map is an association list (`Map`): `get` = Load, `put` = Store (replace),
    `del` = Delete; `LoadOrStore` = `has` test followed by `put`.  Iteration order of a map is
    never observed (the harness sorts).
  * every index of one collection holds the *same pointer* per element; the only write through
    such a pointer is `adm.Type = nu.Type` in `administrator.Collection.Update`, modelled by
    rewriting the type of the element with that id in every index (`setTy`).
  * `sort.Sort` after `append` = ordered insertion (keys are distinct whenever the duplicate
    checks passed); `sort.Search` on the always-sorted slice = index of the first element ≥ key.
  * `byProv` slices: `append` and the swap-with-last removal are modelled literally
    (`swapRemove`), because `RemoveProvisioner` deletes the admins in slice order and a storage
    failure in the middle makes that order observable.
  * SHA-1 is an input: `Prov.sum` is `hex(sha1(id))[8:]` (32 hex digits) computed by the harness.
    `cast.Uint32(len)` cannot abort for fewer than 2³² provisioners (assumption).
  * admin type is a `Bool` (`super`): the admin API validates `ADMIN | SUPER_ADMIN`.
  * A Go panic is `M.crash` (`Update` on an unknown id, `Remove` indexing past `sorted`).
  * `CreateAdmin` / `CreateProvisioner` / `CreateAuthorityPolicy` are compare-and-swaps against
    "absent" (`db.save(old = nil)`): they fail when the key exists. Ids the database draws at
    random are inputs of the operation.
  * a provisioner's own policy (`Prov.pol`) is only an argument of the lock-out check; the model
    keeps it with the record, the nosql admin database does not persist it (never observed).

  `Variant` selects which repairs of notes/C16.md are in the modelled code: `Variant.coded` is the
  tree before the `fix:` commits e3cc9eb / 80a4538, `Variant.updateFixed` is the tree before
  `fix:` 2140646 (`Update` repaired, rename defect D26 open), `Variant.renameFixed` the tree before
  67d968e / 2b0b009 / 6f70a0d (F1–F3 open), `Variant.fixed` is /repo at HEAD.  `current` is what the driver
  runs and what the un-suffixed theorems talk about: switching it is the one-line change that
  goes with a `fix:` commit in /repo.
-/
namespace Verif.Admin
open Verif

/-! ## association lists -/

abbrev Map (K V : Type) := List (K × V)

namespace Map
variable {K V : Type} [DecidableEq K]

def get : Map K V → K → Option V
  | [], _ => none
  | (k', v) :: r, k => if k' = k then some v else get r k

def has (m : Map K V) (k : K) : Bool := (get m k).isSome

def del (m : Map K V) (k : K) : Map K V := m.filter (fun e => decide (e.1 ≠ k))

def put (m : Map K V) (k : K) (v : V) : Map K V := (k, v) :: del m k

end Map

/-- Go `<` on strings (bytewise lexicographic). -/
def slt (a b : Str) : Bool := decide (a < b)

/-- `sort.Sort` after `append` for a slice kept sorted by `key` (ordered insertion). -/
def insertBy {α : Type} (key : α → Str) (x : α) : List α → List α
  | [] => [x]
  | y :: r => if slt (key x) (key y) then x :: y :: r else y :: insertBy key x r

/-- the generic body of both `Find`s: skip everything below the cursor, take `limit`, and
    return the key of the next element (encoded by `enc`) or "" -/
def findG {α : Type} (key : α → Str) (dec enc : Str → Str) (l : List α) (cursor : Str) (limit : Nat) :
    List α × Str :=
  let rest := l.dropWhile (fun e => slt (key e) (dec cursor))
  (rest.take limit, match rest.drop limit with
    | [] => []
    | e :: _ => enc (key e))

/-- follow `Find` from `cursor` until it returns the empty cursor (at most `fuel` pages) -/
def pagesG {α : Type} (key : α → Str) (dec enc : Str → Str) (l : List α) (limit : Nat) :
    Nat → Str → List (List α)
  | 0, _ => []
  | fuel + 1, cur =>
    let r := findG key dec enc l cur limit
    if r.2 = [] then [r.1] else r.1 :: pagesG key dec enc l limit fuel r.2

/-- `limit` normalisation shared by both `Find`s (defaults 20, maximum 100) -/
def normLimit (limit : Int) : Nat :=
  if limit ≤ 0 then 20 else if limit > 100 then 100 else limit.toNat

/-! ## lock-out check of a new policy (`checkPolicy`) -/

/-- verdict of `engine.AreSANsAllowed([subject])` (C04 model; an input here) -/
inductive SanVerdict
  | allowed | notAllowed | evalError
  deriving DecidableEq, Repr

inductive PolOut
  | ok | lockOut | evalFailure
  deriving DecidableEq, Repr

/-- `checkPolicy` once the engine is built: current admin first, then every other admin;
    the first subject that is not allowed refuses the policy -/
def checkPolicy (verdict : Str → SanVerdict) : List Str → PolOut
  | [] => .ok
  | sub :: r => match verdict sub with
    | .allowed => checkPolicy verdict r
    | .notAllowed => .lockOut
    | .evalError => .evalFailure

/-- what `LinkedToCertificates` + `NewX509PolicyEngine` make of a policy document -/
inductive PolKind
  | noX509       -- no X.509 part / no names: no engine, nothing to evaluate
  | badConfig    -- the engine cannot be built (`ConfigurationFailure`)
  | engine
  deriving DecidableEq, Repr

/-- a policy document: its identity, what the engine constructor makes of it, and the verdict of
    the resulting engine on each subject that matters (inputs computed with the real engine; C04
    owns the engine) -/
structure Pol where
  tag : Str
  kind : PolKind
  verdicts : List (Str × SanVerdict) := []
  deriving DecidableEq, Repr

def verdictOf (p : Pol) (sub : Str) : SanVerdict :=
  match p.verdicts.find? (·.1 = sub) with
  | some e => e.2
  | none => .evalError

inductive PolCheck
  | ok | lockOut | evalFailure | configFailure
  deriving DecidableEq, Repr

/-- `checkPolicy(currentAdmin, otherAdmins, p)` -/
def polCheck (p : Pol) (subjects : List Str) : PolCheck :=
  match p.kind with
  | .noX509 => .ok
  | .badConfig => .configFailure
  | .engine => match checkPolicy (verdictOf p) subjects with
    | .ok => .ok
    | .lockOut => .lockOut
    | .evalFailure => .evalFailure

/-! ## provisioner collection -/

structure Prov where
  id : Str
  name : Str
  tok : Str            -- GetIDForToken()
  kid : Option Str     -- GetEncryptedKey(): key id when an encrypted key is present
  sum : Str            -- hex(sha1(id))[8:], 32 hex digits (input computed by the harness)
  pol : Option Pol := none   -- the provisioner's own policy (checked by Store/UpdateProvisioner only)
  kind : Nat := 0            -- linkedca `Provisioner.Type`
  dkind : Option Nat := some 0   -- which details message the record carries (`none`: no details)
  initOK : Bool := true      -- `Init(config)` of the converted provisioner succeeds (claims, keys, name, …)
  deriving DecidableEq, Repr

/-- `ProvisionerToCertificates` can build a provisioner from the record: the details are the ones
    of its type. (A record for which this is false is stored under its type, reads back as details
    of that type without content, and the conversion dereferences them: 17718b3, F4.) -/
def Prov.conv (p : Prov) : Bool := p.dkind == some p.kind

structure PColl where
  byID : Map Str Prov := []
  byName : Map Str Prov := []
  byTok : Map Str Prov := []
  byKey : Map Str Prov := []
  sorted : List (Str × Prov) := []     -- (uid, provisioner), ascending uid
  deriving DecidableEq, Repr

inductive PErr
  | dupId | dupName | dupTok | notFound | notFoundSorted | nameExists | tokExists
  deriving DecidableEq, Repr

def hexd (n : Nat) : Nat := if n < 10 then 48 + n else 87 + n

/-- `hex.EncodeToString` of the big-endian 32-bit value -/
def hex8 (n : Nat) : Str :=
  let m := n % 4294967296
  [hexd (m / 268435456 % 16), hexd (m / 16777216 % 16), hexd (m / 1048576 % 16), hexd (m / 65536 % 16),
   hexd (m / 4096 % 16), hexd (m / 256 % 16), hexd (m / 16 % 16), hexd (m % 16)]

def uidOf (n : Nat) (p : Prov) : Str := hex8 n ++ p.sum

namespace PColl

/-- `Collection.Store` -/
def store (c : PColl) (p : Prov) : PColl × Option PErr :=
  if c.byID.has p.id then (c, some .dupId) else
  let byID := c.byID.put p.id p
  if c.byName.has p.name then ({ c with byID := byID.del p.id }, some .dupName) else
  let byName := c.byName.put p.name p
  if c.byTok.has p.tok then ({ c with byID := byID.del p.id, byName := byName.del p.name }, some .dupTok) else
  let byTok := c.byTok.put p.tok p
  let byKey := match p.kid with
    | some k => c.byKey.put k p
    | none => c.byKey
  ({ byID, byName, byTok, byKey,
     sorted := insertBy (·.1) (uidOf c.sorted.length p, p) c.sorted }, none)

/-- delete the first element whose provisioner has this id -/
def eraseId (id : Str) : List (Str × Prov) → List (Str × Prov)
  | [] => []
  | e :: r => if e.2.id = id then r else e :: eraseId id r

/-- `Collection.Remove` -/
def remove (c : PColl) (id : Str) : PColl × Option PErr :=
  match c.byID.get id with
  | none => (c, some .notFound)
  | some prov =>
    if ¬ c.sorted.any (fun e => e.2.id = id) then (c, some .notFoundSorted) else
    ({ byID := c.byID.del id, byName := c.byName.del prov.name, byTok := c.byTok.del prov.tok,
       byKey := match prov.kid with
         | some k => c.byKey.del k
         | none => c.byKey,
       sorted := eraseId id c.sorted }, none)

/-- `Collection.Update` -/
def update (c : PColl) (nu : Prov) : PColl × Option PErr :=
  match c.byID.get nu.id with
  | none => (c, some .notFound)
  | some old =>
    if old.name ≠ nu.name ∧ c.byName.has nu.name then (c, some .nameExists) else
    if old.tok ≠ nu.tok ∧ c.byTok.has nu.tok then (c, some .tokExists) else
    match c.remove old.id with
    | (c', some e) => (c', some e)
    | (c', none) => c'.store nu

def pad40 (s : Str) : Str := List.replicate (40 - s.length) 48 ++ s
def trim0 (s : Str) : Str := s.dropWhile (· = 48)

/-- `Collection.Find` -/
def find (c : PColl) (cursor : Str) (limit : Int) : List (Str × Prov) × Str :=
  findG (·.1) pad40 trim0 c.sorted cursor (normLimit limit)

def pages (c : PColl) (limit : Int) (fuel : Nat) : List (List (Str × Prov)) :=
  pagesG (·.1) pad40 trim0 c.sorted (normLimit limit) fuel []

/-- `LoadEncryptedKey` (which provisioner's key is served for a key id) -/
def loadKey (c : PColl) (kid : Str) : Option Prov :=
  match c.byKey.get kid with
  | some p => if p.kid.isSome then some p else none
  | none => none

end PColl

/-! ## administrator collection -/

structure Adm where
  id : Str
  sub : Str
  provId : Str
  super : Bool
  deriving DecidableEq, Repr

structure AColl where
  byID : Map Str Adm := []
  bySubProv : Map (Str × Str) Adm := []
  byProv : Map Str (List Adm) := []
  sorted : List Adm := []                 -- ascending id
  superCount : Int := 0
  superByProv : Map Str Int := []
  deriving DecidableEq, Repr

inductive AErr
  | mismatch | dupId | dupSubProv | notFound | lastSuper | provNotFound | adminsNotFound
  | notInSorted | notInByProv
  deriving DecidableEq, Repr

/-- which repairs are in the modelled code (one switch per `fix:` commit family) -/
structure Variant where
  /-- `Update` adjusts `superCount`/`superCountByProvisioner` on a role change and returns
      not-found for an unknown id (e3cc9eb, 80a4538: D3, D2) -/
  fixUpdate : Bool
  /-- `Authority.UpdateProvisioner` rebuilds the admin index after a successful update that changed
      the provisioner's name (2140646: D26) -/
  fixRename : Bool
  /-- … and does so from memory (`reindexAdmins`) instead of re-reading the database (2b0b009: F1) -/
  fixReindex : Bool
  /-- `UpdateProvisioner` checks the provisioner policy against the administrators registered
      under the provisioner's *current* name (67d968e: F3) -/
  fixPolName : Bool
  /-- when `reloadPolicyEngines` fails after a policy write, the engine is built from the policy
      just written (`enforceAuthorityPolicy`, 6f70a0d: F2) -/
  fixEnforce : Bool
  /-- `ProvisionerToCertificates` refuses a record whose details are not the ones of its type
      (17718b3: F4) -/
  fixDetails : Bool
  /-- PROPOSED, not in /repo: when the reload that follows a failed database write fails as well,
      the cache change is taken back in memory (notes/C16.md, "double failure") -/
  fixRevert : Bool := false
  deriving DecidableEq, Repr

/-- the tree before the `fix:` commits e3cc9eb (D3) and 80a4538 (D2) -/
def Variant.coded : Variant := ⟨false, false, false, false, false, false, false⟩
/-- the tree after e3cc9eb / 80a4538 and before `fix:` 2140646: `Update` repaired, provisioner
    rename still leaves the admin collection keyed by the old name (D26) -/
def Variant.updateFixed : Variant := ⟨true, false, false, false, false, false, false⟩
/-- the tree after 2140646 and before 67d968e / 2b0b009 / 6f70a0d: rename reloads from the
    database (F1), policy engine re-read (F2), provisioner policy checked under the new name (F3) -/
def Variant.renameFixed : Variant := ⟨true, true, false, false, false, false, false⟩
/-- the tree after 67d968e / 2b0b009 / 6f70a0d and before 17718b3: details of another type accepted (F4) -/
def Variant.detailsOpen : Variant := ⟨true, true, true, true, true, false, false⟩
/-- /repo at HEAD: every repair -/
def Variant.fixed : Variant := ⟨true, true, true, true, true, true, false⟩
/-- HEAD plus the proposed in-memory revert after a double failure -/
def Variant.proposed : Variant := ⟨true, true, true, true, true, true, true⟩

/-- The code modelled by the driver and by the un-suffixed theorems: /repo as it stands. -/
def current : Variant := Variant.fixed

def setTy (id : Str) (t : Bool) (a : Adm) : Adm := if a.id = id then { a with super := t } else a

/-- `l[i] = l[len-1]; l = l[:len-1]` for the first `i` with `l[i].Id == id` -/
def swapRemove (id : Str) : List Adm → List Adm
  | [] => []
  | x :: r =>
    if x.id = id then
      match r.getLast? with
      | none => []
      | some z => z :: r.dropLast
    else x :: swapRemove id r

def bump (m : Map Str Int) (k : Str) (d : Int) : Map Str Int := m.put k ((m.get k).getD 0 + d)

namespace AColl

/-- `Collection.Store(adm, prov)`; `pid`/`pname` are `prov.GetID()`/`prov.GetName()` -/
def store (c : AColl) (a : Adm) (pid pname : Str) : AColl × Option AErr :=
  if a.provId ≠ pid then (c, some .mismatch) else
  if c.byID.has a.id then (c, some .dupId) else
  let byID := c.byID.put a.id a
  if c.bySubProv.has (a.sub, pname) then ({ c with byID := byID.del a.id }, some .dupSubProv) else
  let bySubProv := c.bySubProv.put (a.sub, pname) a
  let byProv := match c.byProv.get pname with
    | some l => c.byProv.put pname (l ++ [a])
    | none => c.byProv.put pname [a]
  let sbp := if a.super then
      (match c.byProv.get pname with
        | some _ => bump c.superByProv pname 1       -- superCountByProvisioner[provName]++
        | none => c.superByProv.put pname 1)         -- superCountByProvisioner[provName] = 1
    else c.superByProv
  ({ byID, bySubProv, byProv, superByProv := sbp,
     superCount := if a.super then c.superCount + 1 else c.superCount,
     sorted := insertBy (·.id) a c.sorted }, none)

/-- `Collection.Remove(id)`; `provName` is `c.provisioners.Load(adm.ProvisionerId).GetName()` -/
def remove (c : AColl) (provName : Str → Option Str) (id : Str) : M (AColl × Option AErr) :=
  match c.byID.get id with
  | none => .val (c, some .notFound)
  | some adm =>
    if adm.super ∧ c.superCount = 1 then .val (c, some .lastSuper) else
    match provName adm.provId with
    | none => .val (c, some .provNotFound)
    | some pn =>
      match c.byProv.get pn with
      | none => .val (c, some .adminsNotFound)
      | some l =>
        match c.sorted.dropWhile (fun x => slt x.id adm.id) with
        | [] => .crash                                   -- c.sorted[len] : index out of range
        | x :: _ =>
          if x.id ≠ adm.id then .val (c, some .notInSorted) else
          if ¬ l.any (fun x => x.id = adm.id) then .val (c, some .notInByProv) else
          .val ({ byID := c.byID.del adm.id,
                  bySubProv := c.bySubProv.del (adm.sub, pn),
                  byProv := c.byProv.put pn (swapRemove adm.id l),
                  sorted := c.sorted.takeWhile (fun x => slt x.id adm.id) ++
                            (c.sorted.dropWhile (fun x => slt x.id adm.id)).drop 1,
                  superCount := if adm.super then c.superCount - 1 else c.superCount,
                  superByProv := if adm.super then bump c.superByProv pn (-1) else c.superByProv }, none)

/-- the write `adm.Type = nu.Type` seen through every index -/
def retype (c : AColl) (id : Str) (t : Bool) : AColl :=
  { c with byID := c.byID.map (fun e => (e.1, setTy id t e.2)),
           bySubProv := c.bySubProv.map (fun e => (e.1, setTy id t e.2)),
           byProv := c.byProv.map (fun e => (e.1, e.2.map (setTy id t))),
           sorted := c.sorted.map (setTy id t) }

/-- `Collection.Update(id, nu)`: only `nu.Type` is read. -/
def update (v : Variant) (c : AColl) (provName : Str → Option Str) (id : Str) (t : Bool) :
    M (AColl × Option AErr) :=
  match c.byID.get id with
  | none => if v.fixUpdate then .val (c, some .notFound) else .crash     -- D3: adm.Id with adm == nil
  | some adm =>
    if adm.super = t then .val (c, none) else
    if adm.super ∧ c.superCount = 1 then .val (c, some .lastSuper) else
    if v.fixUpdate then
      match provName adm.provId with
      | none => .val (c, some .provNotFound)
      | some pn =>
        let d : Int := if t then 1 else -1
        .val ({ c.retype id t with superCount := c.superCount + d,
                                   superByProv := bump c.superByProv pn d }, none)
    else .val (c.retype id t, none)                                      -- D2: counters untouched

/-- `Collection.Find` -/
def find (c : AColl) (cursor : Str) (limit : Int) : List Adm × Str :=
  findG (·.id) id id c.sorted cursor (normLimit limit)

def pages (c : AColl) (limit : Int) (fuel : Nat) : List (List Adm) :=
  pagesG (·.id) id id c.sorted (normLimit limit) fuel []

def superBy (c : AColl) (pn : Str) : Int := (c.superByProv.get pn).getD 0

end AColl

/-! ## the two collections together (what the running CA holds) -/

structure Cache where
  P : PColl := {}
  A : AColl := {}
  deriving DecidableEq, Repr

def Cache.provName (s : Cache) (pid : Str) : Option Str := (s.P.byID.get pid).map (·.name)

/-- operations on the bare collections (stage `coll` of the correspondence) -/
inductive COp
  | pStore (p : Prov)
  | pRemove (id : Str)
  | pUpdate (p : Prov)
  | aStore (a : Adm) (pid pname : Str)
  | aRemove (id : Str)
  | aUpdate (id : Str) (t : Bool)
  deriving DecidableEq, Repr

inductive Out
  | ok
  | perr (e : PErr)
  | aerr (e : AErr)
  | crash
  deriving DecidableEq, Repr

def pOut : Option PErr → Out
  | none => .ok
  | some e => .perr e

def aOut : Option AErr → Out
  | none => .ok
  | some e => .aerr e

/-- a panic leaves the collection as it was at the point of the panic; both panics modelled here
    happen before any write -/
def cstep (v : Variant) (s : Cache) : COp → Cache × Out
  | .pStore p => let r := s.P.store p; ({ s with P := r.1 }, pOut r.2)
  | .pRemove id => let r := s.P.remove id; ({ s with P := r.1 }, pOut r.2)
  | .pUpdate p => let r := s.P.update p; ({ s with P := r.1 }, pOut r.2)
  | .aStore a pid pname => let r := s.A.store a pid pname; ({ s with A := r.1 }, aOut r.2)
  | .aRemove id =>
    match s.A.remove s.provName id with
    | .val r => ({ s with A := r.1 }, aOut r.2)
    | .crash => (s, .crash)
  | .aUpdate id t =>
    match s.A.update v s.provName id t with
    | .val r => ({ s with A := r.1 }, aOut r.2)
    | .crash => (s, .crash)

def crun (v : Variant) (s : Cache) : List COp → Cache
  | [] => s
  | o :: r => crun v (cstep v s o).1 r

/-! ## the authority layer: write-through cache over the admin database -/

/-- the admin database: live (not soft-deleted) records in key order (what `List` returns) -/
structure DB where
  provs : List Prov := []
  adms : List Adm := []
  policy : Option Pol := none        -- the authority policy
  used : List Str := []              -- reuse keys of tokens seen (`db.UseToken`, table used_ott)
  deriving DecidableEq, Repr

structure Auth where
  cache : Cache := {}
  db : DB := {}
  /-- `a.policyEngine`: the authority policy the running CA enforces -/
  engine : Option Pol := none
  /-- number of admin-database calls made so far inside the current request -/
  calls : Nat := 0
  deriving DecidableEq, Repr

/-- the database calls (1-based positions inside one request) that fail; a failing call returns an
    error and writes nothing -/
abbrev Faults := List Nat

/-- one admin-database call: counts it and says whether it fails -/
def tick (f : Faults) (s : Auth) : Auth × Bool :=
  let n := s.calls + 1
  ({ s with calls := n }, f.contains n)

/-- `ReloadAdminResources` on collections built from lists; `none` = it returned an error
    (the caches are then left untouched, they are swapped in only at the end) -/
def buildCache (provs : List Prov) (adms : List Adm) : Option Cache :=
  let rec goP (c : PColl) : List Prov → Option PColl
    | [] => some c
    | p :: r => match c.store p with
      | (c', none) => goP c' r
      | (_, some _) => none
  let rec goA (P : PColl) (c : AColl) : List Adm → Option AColl
    | [] => some c
    | a :: r => match P.byID.get a.provId with
      | none => none
      | some p => match c.store a p.id p.name with
        | (c', none) => goA P c' r
        | (_, some _) => none
  match goP {} provs with
  | none => none
  | some P => match goA P {} adms with
    | none => none
    | some A => some { P, A }

/-- `ReloadAdminResources`: two database reads, then the rebuild. `true` = it failed. -/
def reload (f : Faults) (s : Auth) : Auth × Bool :=
  let (s, bad) := tick f s
  if bad then (s, true) else
  let (s, bad) := tick f s
  if bad then (s, true) else
  match buildCache s.db.provs s.db.adms with
  | none => (s, true)
  | some c => ({ s with cache := c }, false)

/-- outcome classes of an authority call, as the admin API distinguishes them -/
inductive AuthOut
  | ok
  | badRequest          -- refused on its merits (duplicate, last super admin, unknown id …)
  | notFound
  | storeFailed         -- the database call failed, the caches were reloaded from the database
  | reloadFailed        -- … and the reload failed as well
  | cacheFailed         -- the cache refused what the database accepted (reloaded)
  | lockOut             -- policy refused: it would lock an administrator out
  | evalFailure         -- policy refused: a subject could not be evaluated
  | configFailure       -- policy refused: no engine can be built from it
  | internalFailure     -- reading the administrators for the lock-out check failed
  | crash
  deriving DecidableEq, Repr

/-- class of an `administrator.Collection` error after `admin.WrapErrorISE` (the type is kept) -/
def aerrClass : AErr → AuthOut
  | .lastSuper => .badRequest
  | .mismatch | .dupId | .dupSubProv => .cacheFailed
  | _ => .notFound

def afterFail (f : Faults) (s : Auth) (o : AuthOut) : Auth × AuthOut :=
  let (s, bad) := reload f s
  (s, if bad then .reloadFailed else o)

/-- `afterFail` for the proposed repair: when the reload fails too, `undo` (the cache as it was
    before the request touched it, recomputed in memory) replaces the cache -/
def afterFailUndo (v : Variant) (f : Faults) (s : Auth) (o : AuthOut) (undo : Cache → Cache) : Auth × AuthOut :=
  let r := afterFail f s o
  if v.fixRevert ∧ r.2 = .reloadFailed then ({ r.1 with cache := undo r.1.cache }, .reloadFailed) else r

def insDB {α : Type} (key : α → Str) (x : α) (l : List α) : List α := insertBy key x l

/-- operations of the authority layer. Identifiers the database would draw at random are inputs. -/
inductive AOp
  | storeAdmin (a : Adm) (pid pname : Str)     -- `a.id` = the id `CreateAdmin` assigns
  | updateAdmin (id : Str) (t : Bool)
  | removeAdmin (id : Str)
  | storeProv (p : Prov)                        -- `p.id` = the id `CreateProvisioner` assigns
  | updateProv (p : Prov)
  | removeProv (id : Str)
  | createPolicy (cur : Str) (p : Pol)         -- `cur` = subject of the requesting admin
  | updatePolicy (cur : Str) (p : Pol)
  | removePolicy
  | restart
  deriving DecidableEq, Repr

/-- `administrator.DefaultAdminMax`: the page size `reindexAdmins` asks for -/
def adminMax : Int := 100

/-- what the loop of `reindexAdmins` visits: `Find(cursor, DefaultAdminMax)` from the empty cursor,
    page after page, until a page comes with an empty next cursor (not: until a page is short — a
    listing of exactly 100·k administrators ends with a full page) -/
def AColl.reindexList (A : AColl) : List Adm := (A.pages adminMax (A.sorted.length + 1)).flatten

namespace Auth

/-- `removeAdmin` (lock held) -/
def removeAdmin1 (v : Variant) (f : Faults) (s : Auth) (id : Str) : Auth × AuthOut :=
  match s.cache.A.remove s.cache.provName id with
  | .crash => (s, .crash)
  | .val (_, some e) => (s, aerrClass e)
  | .val (A, none) =>
    let adm := s.cache.A.byID.get id
    let s := { s with cache := { s.cache with A := A } }
    let (s, bad) := tick f s
    if bad then afterFailUndo v f s .storeFailed (fun c =>
      -- put the admin back: `a.admins.Store(adm, p)` with `p` the provisioner it belongs to
      match adm with
      | some a => (match c.P.byID.get a.provId with
        | some p => { c with A := (c.A.store a p.id p.name).1 }
        | none => c)
      | none => c) else
    ({ s with db := { s.db with adms := s.db.adms.filter (fun a => decide (a.id ≠ id)) } }, .ok)

/-- the loop of `RemoveProvisioner` over the admins of the provisioner -/
def removeAdmins (v : Variant) (f : Faults) (s : Auth) : List Str → Auth × AuthOut
  | [] => (s, .ok)
  | id :: r =>
    let r1 := removeAdmin1 v f s id
    if r1.2 = .ok then removeAdmins v f r1.1 r else r1

/-- outcome class of a refused policy -/
def polOut : PolCheck → Option AuthOut
  | .ok => none
  | .lockOut => some .lockOut
  | .evalFailure => some .evalFailure
  | .configFailure => some .configFailure

/-- `checkProvisionerPolicy(name, prov.Policy)`: the administrators registered under `name` in the
    admin collection must stay allowed -/
def provPolicyCheck (A : AColl) (name : Str) (p : Prov) : Option AuthOut :=
  match p.pol with
  | none => none
  | some pol => polOut (polCheck pol (((A.byProv.get name).getD []).map (·.sub)))

/-- `reloadPolicyEngines` after a policy write: one database read; the engine is replaced when
    that succeeds. When it fails the error is reported either way; the repaired code
    (`enforceAuthorityPolicy`) builds the engine from the policy just written, which is what the
    database now holds. -/
def reloadPolicy (v : Variant) (f : Faults) (s : Auth) : Auth × AuthOut :=
  let (s, bad) := tick f s
  if bad then ({ s with engine := if v.fixEnforce then s.db.policy else s.engine }, .reloadFailed)
  else ({ s with engine := s.db.policy }, .ok)

/-- `CreateAuthorityPolicy` / `UpdateAuthorityPolicy`: lock-out check against the requesting admin
    and every administrator in the database, database write, engine reload -/
def policyWrite (v : Variant) (f : Faults) (s : Auth) (cur : Str) (p : Pol) (create : Bool) : Auth × AuthOut :=
  let (s, bad) := tick f s                                   -- GetAdmins
  if bad then (s, .internalFailure) else
  match polOut (polCheck p (cur :: s.db.adms.map (·.sub))) with
  | some o => (s, o)
  | none =>
    let (s, bad) := tick f s                                 -- Create/UpdateAuthorityPolicy
    if bad then (s, .storeFailed) else
    if create && s.db.policy.isSome then (s, .storeFailed) else      -- save(old = nil) on an existing key
    if !create && s.db.policy.isNone then (s, .storeFailed) else     -- update: not found
    reloadPolicy v f { s with db := { s.db with policy := some p } }

def step (v : Variant) (f : Faults) (s0 : Auth) (op : AOp) : Auth × AuthOut :=
  let s := { s0 with calls := 0 }
  match op with
  | .storeAdmin a pid pname =>
    if a.provId ≠ pid then (s, .badRequest) else
    if s.cache.A.bySubProv.has (a.sub, pname) then (s, .badRequest) else
    let (s, bad) := tick f s
    if bad then (s, .storeFailed) else
    -- `db.save(…, old = nil)`: compare-and-swap against "absent"
    if s.db.adms.any (fun x => x.id = a.id) then (s, .storeFailed) else
    let s := { s with db := { s.db with adms := insDB (·.id) a s.db.adms } }
    match s.cache.A.store a pid pname with
    | (A, none) => ({ s with cache := { s.cache with A := A } }, .ok)
    | (A, some _) => afterFail f { s with cache := { s.cache with A := A } } .cacheFailed
  | .updateAdmin id t =>
    match s.cache.A.update v s.cache.provName id t with
    | .crash => (s, .crash)
    | .val (_, some e) => (s, aerrClass e)
    | .val (A, none) =>
      let oldT := (s.cache.A.byID.get id).map (·.super)
      let s := { s with cache := { s.cache with A := A } }
      let (s, bad) := tick f s
      if bad then afterFailUndo v f s .storeFailed (fun c =>
        -- `a.admins.Update(id, {Type: oldType})`
        match oldT with
        | some t0 => (match c.A.update v c.provName id t0 with
          | .val (A0, none) => { c with A := A0 }
          | _ => c)
        | none => c) else
      ({ s with db := { s.db with adms := s.db.adms.map (setTy id t) } }, .ok)
  | .removeAdmin id => removeAdmin1 v f s id
  | .storeProv p =>
    -- `ProvisionerToCertificates(prov)` comes first
    if v.fixDetails ∧ p.conv = false then (s, .internalFailure) else
    if s.cache.P.byName.has p.name then (s, .badRequest) else
    if s.cache.P.byTok.has p.tok then (s, .badRequest) else
    match provPolicyCheck s.cache.A p.name p with
    | some o => (s, o)
    | none =>
    -- `certProv.Init(provisionerConfig)`: "error validating configuration for provisioner"
    if p.initOK = false then (s, .badRequest) else
    let (s, bad) := tick f s
    if bad then (s, .storeFailed) else
    if s.db.provs.any (fun x => x.id = p.id) then (s, .storeFailed) else
    let s := { s with db := { s.db with provs := insDB (·.id) p s.db.provs } }
    match s.cache.P.store p with
    | (P, none) => ({ s with cache := { s.cache with P := P } }, .ok)
    | (P, some _) => afterFail f { s with cache := { s.cache with P := P } } .cacheFailed
  | .updateProv p =>
    if v.fixDetails ∧ p.conv = false then (s, .internalFailure) else
    -- the administrators of the provisioner are registered under the name it has *now*
    let adminsName := if v.fixPolName then (s.cache.provName p.id).getD p.name else p.name
    match provPolicyCheck s.cache.A adminsName p with
    | some o => (s, o)
    | none =>
    -- `certProv.Init(provisionerConfig)`: here an internal server error ("error initializing provisioner")
    if p.initOK = false then (s, .internalFailure) else
    match s.cache.P.update p with
    | (_, some .notFound) => (s, .notFound)
    | (P, some _) => ({ s with cache := { s.cache with P := P } }, .badRequest)
    | (P, none) =>
      let renamed := (s.cache.provName p.id) ≠ some p.name
      let oldP := s.cache.P.byID.get p.id
      let s := { s with cache := { s.cache with P := P } }
      let (s, bad) := tick f s
      if bad then afterFailUndo v f s .storeFailed (fun c =>
        -- `a.provisioners.Update(old)`
        match oldP with
        | some q => { c with P := (c.P.update q).1 }
        | none => c) else
      let s := { s with db := { s.db with provs := s.db.provs.map (fun q => if q.id = p.id then p else q) } }
      if v.fixReindex ∧ renamed then
        -- `reindexAdmins`: a new admin collection over the updated provisioner collection, every
        -- cached admin stored again (paged `Find` = the listing, `admin_paging_exact`); no database read
        match buildCache.goA s.cache.P {} s.cache.A.reindexList with
        | some A => ({ s with cache := { s.cache with A := A } }, .ok)
        | none => (s, .cacheFailed)
      else if v.fixRename ∧ renamed then afterFail f s .ok else (s, .ok)
  | .removeProv id =>
    match s.cache.P.byID.get id with
    | none => (s, .badRequest)                    -- sic: ErrorBadRequestType "provisioner not found"
    | some p =>
      if s.cache.A.superCount = s.cache.A.superBy p.name then (s, .badRequest) else
      let ids := ((s.cache.A.byProv.get p.name).getD []).map (·.id)
      let r := removeAdmins v f s ids
      if r.2 ≠ .ok then r else
      let s := r.1
      match s.cache.P.remove p.id with
      | (P, some _) => ({ s with cache := { s.cache with P := P } }, .notFound)
      | (P, none) =>
        let s := { s with cache := { s.cache with P := P } }
        let (s, bad) := tick f s
        if bad then afterFailUndo v f s .storeFailed (fun c => { c with P := (c.P.store p).1 }) else
        ({ s with db := { s.db with provs := s.db.provs.filter (fun q => decide (q.id ≠ id)) } }, .ok)
  | .createPolicy cur p => policyWrite v f s cur p true
  | .updatePolicy cur p => policyWrite v f s cur p false
  | .removePolicy =>
    let (s, bad) := tick f s
    if bad then (s, .storeFailed) else
    match s.db.policy with
    | none => (s, .storeFailed)                   -- DeleteAuthorityPolicy: not found
    | some _ => reloadPolicy v f { s with db := { s.db with policy := none } }
  | .restart =>
    -- a new process: caches rebuilt from the database (start-up fails if that fails)
    match reload f s with
    | (s, true) => (s, .reloadFailed)
    | (s, false) => ({ s with engine := s.db.policy }, .ok)

def run (v : Variant) (s : Auth) : List (AOp × Faults) → Auth
  | [] => s
  | (o, f) :: r => run v (step v f s o).1 r

end Auth

/-! ### the loop of `RemoveProvisioner` with Go's slice aliasing spelled out

`admins, _ := a.admins.LoadByProvisioner(provName)` returns the *stored* slice header; the loop
`for _, adm := range admins { a.removeAdmin(ctx, adm.Id) }` reads `admins[k]` at iteration `k` from
the backing array, while each `Collection.Remove` inside it overwrites one position of that same
array (`adminsByProv[i] = adminsByProv[len-1]`) and stores the header shortened by one.
The backing array is `l ++ tail`: `l` the currently stored slice, `tail` what lies beyond its end. -/

/-- index of the first element with that id (`for i, a := range adminsByProv { if a.Id == adm.Id …`) -/
def firstIdx (id : Str) : List Adm → Option Nat
  | [] => none
  | x :: r => if x.id = id then some 0 else (firstIdx id r).map (· + 1)

/-- `Collection.Remove` on the backing array: `l[i] = l[len-1]`, stored slice `l[:len-1]`; the old
    last element stays in the array just beyond the new end -/
def sliceRemove (l tail : List Adm) (id : Str) : List Adm × List Adm :=
  match firstIdx id l, l.getLast? with
  | some i, some z => ((l.set i z).dropLast, z :: tail)
  | _, _ => (l, tail)

/-- the `range` loop: iteration `k` reads position `k` of the *current* backing array, removes that
    administrator, and goes on; returns the administrators it read -/
def aliasedLoop : Nat → Nat → List Adm → List Adm → List Adm
  | 0, _, _, _ => []
  | fuel + 1, k, l, tail =>
    match (l ++ tail)[k]? with
    | none => []
    | some a =>
      let r := sliceRemove l tail a.id
      a :: aliasedLoop fuel (k + 1) r.1 r.2

/-! ## admin token check (`Authority.AuthorizeAdminToken`, authority/authorize.go) -/

/-- one audience of the token: the claim as written and `stripPort` of it (url parsing is an input) -/
structure Aud where
  raw : Str
  stripped : Str
  deriving DecidableEq, Repr

/-- An admin-API request as `AuthorizeAdminToken` sees it. Everything computed outside the
    repository (JOSE parsing, X.509 path building, signature verification, the clock) is an input
    bit computed by the harness with the same library calls. -/
structure AdminReq where
  parseOk : Bool              -- jose.ParseSigned
  chainOk : Bool              -- x5c chain verifies to the CA's OWN roots (not the federated ones) with ExtKeyUsageClientAuth
  digSig : Bool               -- leaf.KeyUsage & digitalSignature ≠ 0
  sigOk : Bool                -- jwt.Claims(leaf.PublicKey, …): signed by the leaf's key
  prov : Option Str           -- LoadProvisionerByCertificate(leaf): name of the issuing provisioner
  reuseKey : Option Str       -- prov.GetTokenID (or the token hash); none = no id obtainable
  now : Int                   -- seconds
  nbf : Option Int
  exp : Option Int
  iat : Option Int
  aud : List Aud
  dnsNames : List Str         -- config.DNSNames as host names
  path : Str                  -- r.URL.Path
  method : Str                -- r.Method
  iss : Str
  sub : Str
  sans : List Str             -- leaf CN, DNS names, e-mail addresses (in that order)
  deriving DecidableEq, Repr

inductive AdminAuthz
  | ok (adm : Adm)
  | unauthorized              -- 401
  | provNotFound              -- the error of LoadProvisionerByCertificate is returned as is (404)
  deriving DecidableEq, Repr

def httpsPrefix : Str := s "https://"
def adminsPrefix : Str := s "/admin/admins"
def GET : Str := s "GET"
def adminClientIssuer : Str := s "step-admin-client/1.0"

/-- `config.Audience(path)` -/
def audiencesFor (dnsNames : List Str) (path : Str) : List Str :=
  dnsNames.map (fun d => httpsPrefix ++ d ++ path) ++ [path]

/-- `matchesAudience(claims.Audience, expected)`: some pair equal, literally or after stripPort
    (the expected audiences carry no port, so `stripPort` is the identity on them) -/
def matchesAud (as : List Aud) (bs : List Str) : Bool :=
  bs.any (fun b => as.any (fun a => a.raw = b || a.stripped = b))

/-- `claims.ValidateWithLeeway(Expected{Time: now}, time.Minute)` -/
def timeOk (r : AdminReq) : Bool :=
  (match r.nbf with | some n => decide (¬ r.now + 60 < n) | none => true) &&
  (match r.exp with | some e => decide (¬ r.now - 60 > e) | none => true) &&
  (match r.iat with | some i => decide (¬ r.now + 60 < i) | none => true)

/-- first SAN registered as admin of that provisioner (`LoadAdminBySubProv(san, prov.GetName())`) -/
def findAdmin (A : AColl) (pn : Str) : List Str → Option Adm
  | [] => none
  | san :: r => match A.bySubProv.get (san, pn) with
    | some a => some a
    | none => findAdmin A pn r

/-- `UseToken`: was this reuse key stored before? (no key obtainable = no reuse protection) -/
def reused (used : List Str) : Option Str → Bool
  | some k => used.contains k
  | none => false

/-- `UseToken`: store the reuse key -/
def record (used : List Str) : Option Str → List Str
  | some k => k :: used
  | none => used

/-- `AuthorizeAdminToken`, step by step; `used` = reuse keys recorded so far (`UseToken`). -/
def authorizeAdmin (A : AColl) (used : List Str) (r : AdminReq) : List Str × AdminAuthz :=
  if !r.parseOk then (used, .unauthorized) else
  if !r.chainOk then (used, .unauthorized) else
  if !r.digSig then (used, .unauthorized) else
  if !r.sigOk then (used, .unauthorized) else
  match r.prov with
  | none => (used, .provNotFound)
  | some pn =>
    if reused used r.reuseKey then (used, .unauthorized) else
    let used' := record used r.reuseKey
    if !timeOk r then (used', .unauthorized) else
    if !matchesAud r.aud (audiencesFor r.dnsNames r.path) then (used', .unauthorized) else
    if r.iss ≠ adminClientIssuer ∧ r.iss ≠ pn then (used', .unauthorized) else
    if r.sub = [] then (used', .unauthorized) else
    match findAdmin A pn r.sans with
    | none => (used', .unauthorized)
    | some adm =>
      if adminsPrefix.isPrefixOf r.path ∧ r.method ≠ GET ∧ adm.super = false then (used', .unauthorized)
      else (used', .ok adm)

/-! ## the route table of the admin API (`authority/admin/api/handler.go`, func `Route`)

Every `r.MethodFunc(method, path, middleware(handler))`, with the middleware chain spelled out in
the order it runs, handler last. The table is re-derived from the source with go/ast on every run
(stage `routes`) and compared with this one, entry by entry and by count. Paths are relative to
the `/admin` mount point. -/

structure Route where
  method : String
  path : String
  chain : List String
  deriving DecidableEq, Repr

def adminRoutes : List Route := [
  ⟨"GET", "/provisioners/{name}", ["extractAuthorizeTokenAdmin", "requireAPIEnabled", "GetProvisioner"]⟩,
  ⟨"GET", "/provisioners", ["extractAuthorizeTokenAdmin", "requireAPIEnabled", "GetProvisioners"]⟩,
  ⟨"POST", "/provisioners", ["extractAuthorizeTokenAdmin", "requireAPIEnabled", "CreateProvisioner"]⟩,
  ⟨"PUT", "/provisioners/{name}", ["extractAuthorizeTokenAdmin", "requireAPIEnabled", "UpdateProvisioner"]⟩,
  ⟨"DELETE", "/provisioners/{name}", ["extractAuthorizeTokenAdmin", "requireAPIEnabled", "DeleteProvisioner"]⟩,
  ⟨"GET", "/admins/{id}", ["extractAuthorizeTokenAdmin", "requireAPIEnabled", "GetAdmin"]⟩,
  ⟨"GET", "/admins", ["extractAuthorizeTokenAdmin", "requireAPIEnabled", "GetAdmins"]⟩,
  ⟨"POST", "/admins", ["extractAuthorizeTokenAdmin", "requireAPIEnabled", "CreateAdmin"]⟩,
  ⟨"PATCH", "/admins/{id}", ["extractAuthorizeTokenAdmin", "requireAPIEnabled", "UpdateAdmin"]⟩,
  ⟨"DELETE", "/admins/{id}", ["extractAuthorizeTokenAdmin", "requireAPIEnabled", "DeleteAdmin"]⟩,
  ⟨"GET", "/acme/eab/{provisionerName}/{reference}", ["extractAuthorizeTokenAdmin", "requireAPIEnabled", "loadProvisionerByName", "requireEABEnabled", "GetExternalAccountKeys"]⟩,
  ⟨"GET", "/acme/eab/{provisionerName}", ["extractAuthorizeTokenAdmin", "requireAPIEnabled", "loadProvisionerByName", "requireEABEnabled", "GetExternalAccountKeys"]⟩,
  ⟨"POST", "/acme/eab/{provisionerName}", ["extractAuthorizeTokenAdmin", "requireAPIEnabled", "loadProvisionerByName", "requireEABEnabled", "CreateExternalAccountKey"]⟩,
  ⟨"DELETE", "/acme/eab/{provisionerName}/{id}", ["extractAuthorizeTokenAdmin", "requireAPIEnabled", "loadProvisionerByName", "requireEABEnabled", "DeleteExternalAccountKey"]⟩,
  ⟨"GET", "/policy", ["extractAuthorizeTokenAdmin", "requireAPIEnabled", "checkAction(true)", "GetAuthorityPolicy"]⟩,
  ⟨"POST", "/policy", ["extractAuthorizeTokenAdmin", "requireAPIEnabled", "checkAction(true)", "CreateAuthorityPolicy"]⟩,
  ⟨"PUT", "/policy", ["extractAuthorizeTokenAdmin", "requireAPIEnabled", "checkAction(true)", "UpdateAuthorityPolicy"]⟩,
  ⟨"DELETE", "/policy", ["extractAuthorizeTokenAdmin", "requireAPIEnabled", "checkAction(true)", "DeleteAuthorityPolicy"]⟩,
  ⟨"GET", "/provisioners/{provisionerName}/policy", ["extractAuthorizeTokenAdmin", "requireAPIEnabled", "checkAction(false)", "loadProvisionerByName", "GetProvisionerPolicy"]⟩,
  ⟨"POST", "/provisioners/{provisionerName}/policy", ["extractAuthorizeTokenAdmin", "requireAPIEnabled", "checkAction(false)", "loadProvisionerByName", "CreateProvisionerPolicy"]⟩,
  ⟨"PUT", "/provisioners/{provisionerName}/policy", ["extractAuthorizeTokenAdmin", "requireAPIEnabled", "checkAction(false)", "loadProvisionerByName", "UpdateProvisionerPolicy"]⟩,
  ⟨"DELETE", "/provisioners/{provisionerName}/policy", ["extractAuthorizeTokenAdmin", "requireAPIEnabled", "checkAction(false)", "loadProvisionerByName", "DeleteProvisionerPolicy"]⟩,
  ⟨"GET", "/acme/policy/{provisionerName}/reference/{reference}", ["extractAuthorizeTokenAdmin", "requireAPIEnabled", "checkAction(false)", "loadProvisionerByName", "requireEABEnabled", "loadExternalAccountKey", "GetACMEAccountPolicy"]⟩,
  ⟨"GET", "/acme/policy/{provisionerName}/key/{keyID}", ["extractAuthorizeTokenAdmin", "requireAPIEnabled", "checkAction(false)", "loadProvisionerByName", "requireEABEnabled", "loadExternalAccountKey", "GetACMEAccountPolicy"]⟩,
  ⟨"POST", "/acme/policy/{provisionerName}/reference/{reference}", ["extractAuthorizeTokenAdmin", "requireAPIEnabled", "checkAction(false)", "loadProvisionerByName", "requireEABEnabled", "loadExternalAccountKey", "CreateACMEAccountPolicy"]⟩,
  ⟨"POST", "/acme/policy/{provisionerName}/key/{keyID}", ["extractAuthorizeTokenAdmin", "requireAPIEnabled", "checkAction(false)", "loadProvisionerByName", "requireEABEnabled", "loadExternalAccountKey", "CreateACMEAccountPolicy"]⟩,
  ⟨"PUT", "/acme/policy/{provisionerName}/reference/{reference}", ["extractAuthorizeTokenAdmin", "requireAPIEnabled", "checkAction(false)", "loadProvisionerByName", "requireEABEnabled", "loadExternalAccountKey", "UpdateACMEAccountPolicy"]⟩,
  ⟨"PUT", "/acme/policy/{provisionerName}/key/{keyID}", ["extractAuthorizeTokenAdmin", "requireAPIEnabled", "checkAction(false)", "loadProvisionerByName", "requireEABEnabled", "loadExternalAccountKey", "UpdateACMEAccountPolicy"]⟩,
  ⟨"DELETE", "/acme/policy/{provisionerName}/reference/{reference}", ["extractAuthorizeTokenAdmin", "requireAPIEnabled", "checkAction(false)", "loadProvisionerByName", "requireEABEnabled", "loadExternalAccountKey", "DeleteACMEAccountPolicy"]⟩,
  ⟨"DELETE", "/acme/policy/{provisionerName}/key/{keyID}", ["extractAuthorizeTokenAdmin", "requireAPIEnabled", "checkAction(false)", "loadProvisionerByName", "requireEABEnabled", "loadExternalAccountKey", "DeleteACMEAccountPolicy"]⟩,
  ⟨"POST", "/provisioners/{provisionerName}/webhooks", ["extractAuthorizeTokenAdmin", "requireAPIEnabled", "loadProvisionerByName", "CreateProvisionerWebhook"]⟩,
  ⟨"PUT", "/provisioners/{provisionerName}/webhooks/{webhookName}", ["extractAuthorizeTokenAdmin", "requireAPIEnabled", "loadProvisionerByName", "UpdateProvisionerWebhook"]⟩,
  ⟨"DELETE", "/provisioners/{provisionerName}/webhooks/{webhookName}", ["extractAuthorizeTokenAdmin", "requireAPIEnabled", "loadProvisionerByName", "DeleteProvisionerWebhook"]⟩
]

/-- the middleware that runs `AuthorizeAdminToken` (`extractAuthorizeTokenAdmin`) -/
def authMw : String := "extractAuthorizeTokenAdmin"

/-- `extractAuthorizeTokenAdmin(next)`: `next` — everything after it in the chain, the handler
    included — runs only when the token check returned an administrator -/
def Route.pastAuth (rt : Route) (authz : AdminAuthz) : Bool :=
  match rt.chain with
  | m :: _ => if m = authMw then (match authz with | .ok _ => true | _ => false) else true
  | [] => true

/-- an admin-API request as the middleware sees it (`extractAuthorizeTokenAdmin`): the token check
    against the running CA's administrator index and the *stored* set of used tokens; the reuse
    key is written to the database, so it survives restarts -/
def Auth.request (s : Auth) (r : AdminReq) : Auth × AdminAuthz :=
  let res := authorizeAdmin s.cache.A s.db.used r
  ({ s with db := { s.db with used := res.1 } }, res.2)

/-- what can happen to a running CA, as far as tokens are concerned -/
inductive Event
  | request (r : AdminReq)
  | op (o : AOp) (f : Faults)
  deriving DecidableEq, Repr

def Auth.event (v : Variant) (s : Auth) : Event → Auth × Option AdminAuthz
  | .request r => let x := s.request r; (x.1, some x.2)
  | .op o f => ((Auth.step v f s o).1, none)

def Auth.events (v : Variant) (s : Auth) : List Event → Auth
  | [] => s
  | e :: r => Auth.events v (s.event v e).1 r

/-! ### request validation in front of the authority (claims, templates, webhooks)

`api.CreateProvisioner` / `UpdateProvisioner` run `authority.ValidateClaims` and
`validateTemplates` before `StoreProvisioner` / `UpdateProvisioner` is called; the webhook
sub-router runs `validateWebhook` and its own checks before `UpdateProvisioner`. A refusal here
returns before the authority is touched. -/

/-- one duration string of a claims block, as `provisioner.NewDuration` reads it -/
inductive Dur
  | absent                 -- ""
  | bad                    -- does not parse
  | val (n : Int)          -- parsed (nanoseconds)
  deriving DecidableEq, Repr

def Dur.present : Dur → Bool
  | .absent => false
  | _ => true

/-- `(*Duration).Value()`: 0 for a nil pointer -/
def Dur.value : Dur → Int
  | .val n => n
  | _ => 0

/-- the string parses and is not negative -/
def Dur.wellFormed : Dur → Bool
  | .absent => true
  | .bad => false
  | .val n => decide (0 ≤ n)

structure Durs where
  min : Dur := .absent
  max : Dur := .absent
  dflt : Dur := .absent
  deriving DecidableEq, Repr

/-- `authority.ValidateDurations`, `true` = accepted. `cmpFixed = false` is the code before e2d04ab:
    its last comparison, announced as "default duration cannot be greater than max duration",
    compares min with default once more (notes/C16.md). -/
def validateDurations (cmpFixed : Bool) (d : Durs) : Bool :=
  d.min.wellFormed && d.max.wellFormed && d.dflt.wellFormed &&
  !(d.min.present && d.max.present && decide (d.min.value > d.max.value)) &&
  !(d.min.present && d.dflt.present && decide (d.min.value > d.dflt.value)) &&
  !(d.dflt.present && d.max.present &&
      (if cmpFixed then decide (d.dflt.value > d.max.value) else decide (d.min.value > d.dflt.value)))

/-- the comparison as it stands in /repo: since e2d04ab the third test is default > max -/
def durCmpFixed : Bool := true

/-- `authority.ValidateClaims`: the durations blocks that are present (X.509, SSH user, SSH host) -/
def validateClaims (cmpFixed : Bool) (blocks : List Durs) : Bool := blocks.all (validateDurations cmpFixed)

/-- what the create/update handler establishes before it calls the authority -/
structure ProvBody where
  parses : Bool            -- `read.ProtoJSON`
  claims : List Durs
  templatesOK : Bool       -- `validateTemplates` (x509util / sshutil validators; opaque)
  deriving Repr

/-- `none`: the body reaches `StoreProvisioner` / `UpdateProvisioner`; `some o`: refused before -/
def provBodyCheck (cmpFixed : Bool) (b : ProvBody) : Option AuthOut :=
  if !b.parses then some .badRequest
  else if !validateClaims cmpFixed b.claims then some .badRequest
  else if !b.templatesOK then some .badRequest
  else none

/-- a webhook body as `validateWebhook` and the create handler look at it -/
structure WebhookBody where
  parses : Bool            -- `read.ProtoJSON`
  nameGiven : Bool
  urlParses : Bool         -- `url.Parse`
  hostGiven : Bool
  https : Bool
  userinfo : Bool          -- `parsedURL.User != nil`
  kindKnown : Bool         -- a declared kind other than NO_KIND
  secretGiven : Bool
  idGiven : Bool
  nameTaken : Bool         -- the provisioner already has a webhook with that name
  deriving DecidableEq, Repr

inductive WebhookOut
  | proceed                -- `auth.UpdateProvisioner` is called with the webhook appended / replaced
  | badRequest
  | conflict
  | notFound
  deriving DecidableEq, Repr

/-- `CreateProvisionerWebhook` up to the call of `UpdateProvisioner` -/
def createWebhookCheck (b : WebhookBody) : WebhookOut :=
  if !b.parses then .badRequest
  else if !b.nameGiven then .badRequest
  else if !b.urlParses then .badRequest
  else if !b.hostGiven then .badRequest
  else if !b.https then .badRequest
  else if b.userinfo then .badRequest
  else if !b.kindKnown then .badRequest
  else if b.secretGiven then .badRequest
  else if b.idGiven then .badRequest
  else if b.nameTaken then .conflict
  else .proceed

/-- `validateWebhook` alone -/
def webhookValid (b : WebhookBody) : Bool :=
  b.nameGiven && b.urlParses && b.hostGiven && b.https && !b.userinfo && b.kindKnown

/-- `UpdateProvisionerWebhook` up to the call of `UpdateProvisioner`: `b.nameTaken` = the provisioner
    has a webhook of that name (the one to replace); a secret or id in the body must be the stored one -/
def updateWebhookCheck (b : WebhookBody) (secretDiffers idDiffers : Bool) : WebhookOut :=
  if !b.parses then .badRequest
  else if !webhookValid b then .badRequest
  else if !b.nameTaken then .notFound
  else if secretDiffers then .badRequest
  else if idDiffers then .badRequest
  else .proceed

/-- `DeleteProvisionerWebhook`: `UpdateProvisioner` is called only when the name is there; otherwise
    the answer is "ok" with nothing done -/
def deleteWebhookProceeds (found : Bool) : Bool := found

/-- the provisioner-policy sub-router (`/admin/provisioners/{name}/policy`), reachable when the admin
    database is neither the nosql one (`disabledInStandalone`) nor a linked CA (`blockLinkedCA`) -/
inductive PolicyVerb
  | create | update | delete
  deriving DecidableEq, Repr

/-- the handler up to the call of `UpdateProvisioner` (which then runs `provPolicyCheck`):
    create refuses when the record already has a policy (conflict), update and delete when it has
    none (not found); then the body must parse and `validatePolicy` must build the three engines -/
def provPolicyHandlerCheck (verb : PolicyVerb) (hasPolicy parses valid : Bool) : WebhookOut :=
  match verb with
  | .create => if hasPolicy then .conflict else if !parses then .badRequest else if !valid then .badRequest else .proceed
  | .update => if !hasPolicy then .notFound else if !parses then .badRequest else if !valid then .badRequest else .proceed
  | .delete => if !hasPolicy then .notFound else .proceed

/-- the kinds of provisioner details there are; `ProvisionerToCertificates` accepts a record iff
    its details are the ones `admin.UnmarshalProvisionerDetails` would create for its type. The
    numbers are linkedca's `Provisioner_Type` values. -/
def provisionerKinds : List Nat := [1, 2, 3, 4, 5, 6, 7, 8, 9, 10, 11]

/-- `(*Claimer).Validate` as run by every provisioner's `Init`: the X.509 durations of the claims,
    each replaced by the authority's global claim `g = (min, max, default)` when not given, must be
    positive and ordered. (SSH durations are not looked at.) -/
def claimerValidate (g : Int × Int × Int) (d : Durs) : Bool :=
  -- a default given without min / max moves the bound it would otherwise violate
  let mn := if d.min.present then d.min.value
            else if d.dflt.present && decide (d.dflt.value < g.1) then d.dflt.value else g.1
  let mx := if d.max.present then d.max.value
            else if d.dflt.present && decide (d.dflt.value > g.2.1) then d.dflt.value else g.2.1
  let df := if d.dflt.present then d.dflt.value else g.2.2
  decide (0 < mn) && decide (0 < mx) && decide (0 < df) && decide (mn ≤ mx) && decide (mn ≤ df) && decide (df ≤ mx)

/-- `config.GlobalProvisionerClaims`: 5m, 24h, 24h (nanoseconds) -/
def globalClaims : Int × Int × Int := (300000000000, 86400000000000, 86400000000000)

/-! ### the order of checks, writes and reloads in the authority's write methods

The calls that matter — the admin database, the two collections, the conversion, `Init`, the policy
checks and the reloads — in source order, per method; re-derived from authority/admins.go,
provisioners.go and policy.go with go/ast on every run and compared with this table
(stage `routes`, lines `order …`). `Auth.step` was written from this order. -/

def writeOrder : List (String × List String) := [
  ("StoreAdmin", ["adminMutex.Lock", "admins.LoadBySubProv", "adminDB.CreateAdmin", "admins.Store", "ReloadAdminResources"]),
  ("UpdateAdmin", ["adminMutex.Lock", "admins.Update", "adminDB.UpdateAdmin", "ReloadAdminResources"]),
  ("RemoveAdmin", ["adminMutex.Lock", "removeAdmin"]),
  ("removeAdmin", ["admins.Remove", "adminDB.DeleteAdmin", "ReloadAdminResources"]),
  ("StoreProvisioner", ["adminMutex.Lock", "ProvisionerToCertificates", "provisioners.LoadByName", "provisioners.LoadByTokenID",
    "generateProvisionerConfig", "checkProvisionerPolicy", "certProv.Init", "adminDB.CreateProvisioner",
    "ProvisionerToCertificates", "certProv.Init", "provisioners.Store", "ReloadAdminResources"]),
  ("UpdateProvisioner", ["adminMutex.Lock", "ProvisionerToCertificates", "generateProvisionerConfig", "provisioners.Load",
    "checkProvisionerPolicy", "certProv.Init", "provisioners.Update", "adminDB.UpdateProvisioner",
    "ReloadAdminResources", "reindexAdmins"]),
  ("RemoveProvisioner", ["adminMutex.Lock", "provisioners.Load", "admins.SuperCount", "admins.SuperCountByProvisioner",
    "admins.LoadByProvisioner", "removeAdmin", "provisioners.Remove", "adminDB.DeleteProvisioner",
    "ReloadAdminResources"]),
  ("CreateAuthorityPolicy", ["adminMutex.Lock", "checkAuthorityPolicy", "adminDB.CreateAuthorityPolicy", "reloadPolicyEngines",
    "enforceAuthorityPolicy"]),
  ("UpdateAuthorityPolicy", ["adminMutex.Lock", "checkAuthorityPolicy", "adminDB.UpdateAuthorityPolicy", "reloadPolicyEngines",
    "enforceAuthorityPolicy"]),
  ("RemoveAuthorityPolicy", ["adminMutex.Lock", "adminDB.DeleteAuthorityPolicy", "reloadPolicyEngines", "enforceAuthorityPolicy"])]

/-- calls that can refuse the request without having changed anything -/
def isCheckCall (c : String) : Bool :=
  c ∈ ["ProvisionerToCertificates", "provisioners.LoadByName", "provisioners.LoadByTokenID", "provisioners.Load",
       "admins.LoadBySubProv", "admins.SuperCount", "admins.SuperCountByProvisioner", "checkProvisionerPolicy",
       "checkAuthorityPolicy", "certProv.Init", "generateProvisionerConfig"]

/-- calls that write to the admin database -/
def isDBWrite (c : String) : Bool :=
  c ∈ ["adminDB.CreateAdmin", "adminDB.UpdateAdmin", "adminDB.DeleteAdmin", "adminDB.CreateProvisioner",
       "adminDB.UpdateProvisioner", "adminDB.DeleteProvisioner", "adminDB.CreateAuthorityPolicy",
       "adminDB.UpdateAuthorityPolicy", "adminDB.DeleteAuthorityPolicy"]

/-- calls that change what the running CA serves -/
def isCacheWrite (c : String) : Bool :=
  c ∈ ["admins.Store", "admins.Update", "admins.Remove", "provisioners.Store", "provisioners.Update",
       "provisioners.Remove", "removeAdmin", "reindexAdmins", "reloadPolicyEngines", "enforceAuthorityPolicy"]

def firstIdxOf (p : String → Bool) (l : List String) : Nat := (l.takeWhile (fun c => !p c)).length

/-! ### which provisioner issued the presented certificate (`LoadProvisionerByCertificate`) -/

/-- what the CA has on the presented leaf certificate -/
structure CertOrigin where
  recorded : Option Str     -- id of the issuing provisioner in the certificate's database record (`db.CertificateData`)
  extName : Option Str      -- name in the certificate's provisioner extension
  deriving DecidableEq, Repr

/-- `LoadProvisionerByCertificate`: the provisioner with the recorded **id** when it is still there
    (`unsafeLoadProvisionerFromDatabase`), otherwise the one that now carries the name in the
    extension (`unsafeLoadProvisionerFromExtension`; a certificate without extension maps to nothing) -/
def PColl.byCertificate (P : PColl) (o : CertOrigin) : Option Prov :=
  match o.recorded.bind P.byID.get with
  | some p => some p
  | none => o.extName.bind P.byName.get

/-- an admin-API request whose issuing provisioner is resolved by the running CA -/
def Auth.requestFrom (s : Auth) (o : CertOrigin) (r : AdminReq) : Auth × AdminAuthz :=
  s.request { r with prov := (s.cache.P.byCertificate o).map (·.name) }

/-- the lookup the property asks for: a certificate whose database record names a provisioner is a
    certificate of *that* provisioner or of none; the name in the extension only speaks for
    certificates without a record (what `authorizeRenew` already does; notes/C16.md, finding C16-O4) -/
def PColl.byCertificateStrict (P : PColl) (o : CertOrigin) : Option Prov :=
  match o.recorded with
  | some id => P.byID.get id
  | none => o.extName.bind P.byName.get

def Auth.requestFromStrict (s : Auth) (o : CertOrigin) (r : AdminReq) : Auth × AdminAuthz :=
  s.request { r with prov := (s.cache.P.byCertificateStrict o).map (·.name) }

/-! ### first start with the admin API enabled: the migration of the configuration's provisioners
(`authority.init`: `GetProvisioners`; on an empty result `ProvisionerToLinkedca` + `CreateProvisioner`
for every provisioner of ca.json, `CreateFirstProvisioner` when none of them is a JWK provisioner,
`CreateAdmin` of the super administrator `step` on the first JWK provisioner; then
`ReloadAdminResources`) -/

/-- linkedca's `Provisioner_JWK` -/
def jwkKind : Nat := 1

/-- the fault schedule as the rest of the request sees it after `k` database calls -/
def shiftFaults (k : Nat) (f : Faults) : Faults := f.filterMap (fun n => if k < n then some (n - k) else none)

/-- the loop over the configuration's provisioners: calls made so far, provisioners stored so far,
    ids created so far (latest first); `false` = a `CreateProvisioner` failed (what was stored
    before stays) -/
def migrateProvs (f : Faults) : Nat → List Prov → List Str → List Prov → Nat × List Prov × List Str × Bool
  | k, acc, cr, [] => (k, acc, cr, true)
  | k, acc, cr, p :: r =>
    if f.contains (k + 1) then (k + 1, acc, cr, false)
    else migrateProvs f (k + 1) (insDB (·.id) p acc) (p.id :: cr) r

/-- `undo` of the all-or-nothing migration: `DeleteProvisioner` for every provisioner the block
    created; a delete that fails leaves its provisioner stored -/
def rollback (f : Faults) : Nat → List Prov → List Str → Nat × List Prov
  | k, provs, [] => (k, provs)
  | k, provs, id :: r =>
    if f.contains (k + 1) then rollback f (k + 1) provs r
    else rollback f (k + 1) (provs.filter (fun p => decide (p.id ≠ id))) r

structure FirstStart where
  cfg : List Prov          -- the provisioners of ca.json, with the ids the database assigns them
  dflt : Prov              -- what `CreateFirstProvisioner` creates ("Admin JWK")
  admId : Str              -- the id the database assigns to the first super administrator
  deriving Repr

def stepSub : Str := s "step"

/-- the database after the migration block, the calls it made, and the error if one of them failed.
    `atomic`: the block deletes what it created before it returns an error (notes/C16.md, F7);
    `false` is the code before that repair. -/
def migrateFail (atomic : Bool) (f : Faults) (db : DB) (k : Nat) (provs : List Prov) (cr : List Str) :
    DB × Nat × Option AuthOut :=
  if atomic then
    ({ db with provs := (rollback f k provs cr.reverse).2 }, (rollback f k provs cr.reverse).1, some .storeFailed)
  else ({ db with provs := provs }, k, some .storeFailed)

def Auth.migrate (atomic : Bool) (f : Faults) (db : DB) (m : FirstStart) : DB × Nat × Option AuthOut :=
  let fail := migrateFail atomic f db
  if f.contains 1 then (db, 1, some .reloadFailed) else           -- GetProvisioners
  if !db.provs.isEmpty then (db, 1, none) else                    -- not a first start
  match migrateProvs f 1 [] [] m.cfg with
  | (k, provs, cr, false) => fail k provs cr
  | (k, provs, cr, true) =>
    match m.cfg.find? (fun p => p.kind == jwkKind) with
    | some p =>
      if f.contains (k + 1) then fail (k + 1) provs cr else
      ({ db with provs := provs,
                 adms := insDB (·.id) { id := m.admId, sub := stepSub, provId := p.id, super := true } db.adms },
       k + 1, none)
    | none =>
      -- `CreateFirstProvisioner`
      if f.contains (k + 1) then fail (k + 1) provs cr else
      let provs := insDB (·.id) m.dflt provs
      let cr := m.dflt.id :: cr
      if f.contains (k + 2) then fail (k + 2) provs cr else
      ({ db with provs := provs,
                 adms := insDB (·.id) { id := m.admId, sub := stepSub, provId := m.dflt.id, super := true } db.adms },
       k + 2, none)

/-- the code modelled by the driver: the migration block as it stands in /repo -/
def migrateAtomic : Bool := true

/-- a start of the CA on `db` with that configuration -/
def Auth.firstStart (v : Variant) (atomic : Bool) (f : Faults) (db : DB) (m : FirstStart) : Auth × AuthOut :=
  match Auth.migrate atomic f db m with
  | (db', _, some o) => ({ db := db' }, o)
  | (db', k, none) => Auth.step v (shiftFaults k f) { db := db' } .restart

/-! ### conversions between ca.json's provisioners and the admin database's (linkedca), both ways

What `ProvisionerToLinkedca` followed by `ProvisionerToCertificates` (direction `cl`: the first-start
migration, then every reload) and `ProvisionerToCertificates` followed by `ProvisionerToLinkedca`
(direction `lc`: export) do NOT carry over, per provisioner type, with every exported field set.
Re-measured on the real functions on every run (stage `conv`, reflection over the Go structs and
the protobuf descriptors) and compared with this table, together with the number of fields set. -/

/-- a field path, one segment per struct field / message field -/
abbrev Path := List String

def goNamePolicyPaths : List Path :=
  ([["Options", "SSH", "Host"], ["Options", "SSH", "User"]].flatMap fun s =>
    ["AllowedNames", "DeniedNames"].flatMap fun ad =>
      ["DNSDomains", "EmailAddresses", "IPRanges", "Principals"].map fun k => s ++ [ad, k]) ++
  (["AllowedNames", "DeniedNames"].flatMap fun ad =>
      ["CommonNames", "DNSDomains", "EmailAddresses", "IPRanges", "URIDomains"].map fun k => ["Options", "X509", ad, k]) ++
  [["Options", "X509", "AllowWildcardNames"]]

def pbPolicyPaths : List Path :=
  (["allow", "deny"].flatMap fun ad => ["dns", "ips", "principals"].map fun k => ["policy", "ssh", "host", ad, k]) ++
  (["allow", "deny"].flatMap fun ad => ["emails", "principals"].map fun k => ["policy", "ssh", "user", ad, k]) ++
  (["allow", "deny"].flatMap fun ad => ["common_names", "dns", "emails", "ips", "uris"].map fun k => ["policy", "x509", ad, k]) ++
  [["policy", "x509", "allow_wildcard_names"]]

/-- not representable in linkedca or inlined: template *files* (their content is stored), the ACME
    Wire options, the name policy (not settable from ca.json: `json:"-"`; export drops it) -/
def clCommon : List Path :=
  goNamePolicyPaths ++ [["Options", "SSH", "TemplateFile"], ["Options", "X509", "TemplateFile"], ["Options", "Wire"]]

/-- database bookkeeping and the policy -/
def lcCommon : List Path :=
  pbPolicyPaths ++ [["authority_id"], ["created_at", "nanos"], ["created_at", "seconds"], ["deleted_at", "nanos"], ["deleted_at", "seconds"]]

structure ConvRow where
  dir : String
  typ : String
  fields : Nat        -- number of distinct field paths set by the harness
  loss : List Path    -- paths lost or changed by the round trip

def convLoss : List ConvRow := [
  ⟨"cl", "JWK", 62, clCommon⟩, ⟨"cl", "OIDC", 70, clCommon⟩, ⟨"cl", "GCP", 67, clCommon⟩,
  ⟨"cl", "AWS", 66, clCommon ++ [["IIDRoots"], ["IMDSVersions"]]⟩,
  ⟨"cl", "Azure", 67, clCommon ++ [["Type"]]⟩, ⟨"cl", "ACME", 68, clCommon⟩, ⟨"cl", "X5C", 61, clCommon⟩,
  ⟨"cl", "K8sSA", 61, clCommon ++ [["Type"]]⟩, ⟨"cl", "SSHPOP", 16, []⟩, ⟨"cl", "SCEP", 71, clCommon⟩,
  ⟨"cl", "Nebula", 61, clCommon ++ [["Type"]]⟩,
  ⟨"lc", "JWK", 58, lcCommon⟩, ⟨"lc", "OIDC", 66, lcCommon⟩, ⟨"lc", "GCP", 63, lcCommon⟩, ⟨"lc", "AWS", 60, lcCommon⟩,
  ⟨"lc", "AZURE", 63, lcCommon⟩, ⟨"lc", "ACME", 64, lcCommon⟩, ⟨"lc", "X5C", 57, lcCommon⟩, ⟨"lc", "K8SSA", 57, lcCommon⟩,
  ⟨"lc", "SSHPOP", 56, lcCommon ++ [["ssh_template", "data"], ["ssh_template", "template"], ["x509_template", "data"], ["x509_template", "template"],
      ["webhooks", "basic_auth", "password"], ["webhooks", "basic_auth", "username"], ["webhooks", "cert_type"], ["webhooks", "disable_tls_client_auth"],
      ["webhooks", "id"], ["webhooks", "kind"], ["webhooks", "name"], ["webhooks", "secret"], ["webhooks", "url"]]⟩,
  ⟨"lc", "SCEP", 67, lcCommon⟩, ⟨"lc", "NEBULA", 57, lcCommon⟩]

/-- the paths the administrative state is made of: identity, keys, roots, claims, the templates'
    content, the webhooks — for every type that has them -/
def convProtected : List Path :=
  [["ID"], ["Name"], ["Key"], ["EncryptedKey"], ["Claims"], ["Roots"], ["PubKeys"], ["Options", "X509", "Template"],
   ["Options", "X509", "TemplateData"], ["Options", "SSH", "Template"], ["Options", "SSH", "TemplateData"], ["Options", "Webhooks"],
   ["id"], ["name"], ["type"], ["details"], ["claims"]]

/-- `x` is `p` or lies below it -/
def pathBelow (p x : Path) : Bool := p.isPrefixOf x

end Verif.Admin
