import Verif.Model.Store
/-!
  C08 — CRL generation.  Model of

  * /repo/authority/tls.go `GenerateCertificateRevocationList` as the atomic steps
      1 `a.crlMutex.Lock()`            (blocks while another request holds it)
      2 `crlDB.GetCRL()`               (`prev` := stored number, `none` when there is no list yet)
      3 `now := time.Now().Truncate(time.Second)`; `crlDB.GetRevokedCertificates()` (snapshot)
      4 number := prev+1 | 0; entries := every snapshot record with `ExpiresAt.IsZero() ∨
        ¬ ExpiresAt.Before(now − 1h)`; ThisUpdate := now; NextUpdate := now + cache duration; sign
        (`CreateCRL`); `crlDB.StoreCRL` (one `Set`)
      5 deferred `Unlock()`
    `mutex := false` gives the same steps without 1 and 5 (used only by `needs_mutex`);
  * the callers: /repo/authority/authority.go `startCRLGenerator` (generation at start-up, then on
    every tick) — a `gen` request; /repo/authority/tls.go `Revoke` — a `revoke` request: step 0 is
    the revocation's CAS (`db.Revoke`), and with `CRL.GenerateOnRevoke` steps 1–5 follow before
    the acknowledgement;
  * /repo/db/db.go `GetRevokedCertificates` (`List`), `GetCRL`, `StoreCRL`.
  The mutex and every request's local variables are process memory: a restart clears them; the
  revoked table and the stored list are durable.  `log` is a ghost: every list ever stored,
  newest first (what `GET /1.0/crl` could have served).
  Scope: one process per database (the mutex is per process).
-/
namespace Verif.CRL
open Verif Verif.Store

structure RevRec where
  revokedAt : Nat
  expiresAt : Option Nat      -- `none` = zero time (certificate unknown to the CA)
  deriving Repr, DecidableEq

structure CRLRec where
  number : Nat
  thisUpdate : Nat
  nextUpdate : Nat
  entries : List (Str × Nat)  -- serial (decimal string), revocation time
  deriving Repr, DecidableEq

/-- the retention window `config.DefaultCRLExpiredDuration` -/
def retention : Nat := 3600

def keep (now : Nat) (e : Str × RevRec) : Bool :=
  match e.2.expiresAt with
  | none => true
  | some x => now ≤ x + retention      -- ¬ (x < now − 1h)

def mkCRL (prev : Option Nat) (snap : List (Str × RevRec)) (now cache : Nat) : CRLRec :=
  { number := match prev with | some p => p + 1 | none => 0,
    thisUpdate := now, nextUpdate := now + cache,
    entries := (snap.filter (keep now)).map fun e => (e.1, e.2.revokedAt) }

inductive Kind where
  | gen                      -- start-up, ticker or any other caller of GenerateCertificateRevocationList
  | revoke (genOnRevoke : Bool)
  deriving Repr, DecidableEq

inductive Out where
  | pending | ok | already | dropped
  | err          -- the generation failed (500 for a revocation with generate-on-revoke; logged for a tick)
  deriving Repr, DecidableEq

structure Inp where
  kind : Kind
  key : Str                 -- revoke: the serial
  record : RevRec           -- revoke: the record it stores
  now : Nat                 -- the clock reading of step 3
  fail : Nat := 0           -- fault oracle: the step at which this request's generation fails (2 `GetCRL` with an
                            -- error other than not-found, 3 `GetRevokedCertificates`, 4 `CreateCRL` / `StoreCRL`); 0 = none
  deriving Repr, DecidableEq

structure Req where
  inp : Inp
  pc : Nat := 0
  holding : Bool := false
  prev : Option Nat := none
  snap : List (Str × RevRec) := []
  out : Out := .pending
  deriving Repr, DecidableEq

def Req.fresh (r : Req) : Prop := r.pc = 0 ∧ r.holding = false ∧ r.out = .pending
instance (r : Req) : Decidable r.fresh := by unfold Req.fresh; exact inferInstance

structure G where
  revoked : Map RevRec
  crl : Option CRLRec
  log : List CRLRec
  lock : Bool
  cache : Nat              -- CRL.CacheDuration in seconds
  mutex : Bool             -- the code as written: true
  deriving Repr, DecidableEq

/-- an error inside the critical section: the function returns, the deferred `Unlock` runs, nothing
    has been written -/
def failExit (g : G) (r : Req) : G × Req :=
  (if g.mutex then { g with lock := false } else g, { r with pc := 6, holding := false, out := .err })

def step (g : G) (r : Req) : G × Req :=
  if r.out ≠ .pending then (g, r) else
  match r.pc with
  | 0 =>
    match r.inp.kind with
    | .gen => (g, { r with pc := 1 })
    | .revoke gor =>
      if (casNil g.revoked r.inp.key r.inp.record).2 then
        ({ g with revoked := (casNil g.revoked r.inp.key r.inp.record).1 },
         if gor then { r with pc := 1 } else { r with pc := 6, out := .ok })
      else (g, { r with out := .already })
  | 1 =>
    if !g.mutex then (g, { r with pc := 2 })
    else if g.lock then (g, r)
    else ({ g with lock := true }, { r with pc := 2, holding := true })
  | 2 => if r.inp.fail = 2 then failExit g r else (g, { r with pc := 3, prev := g.crl.map (·.number) })
  | 3 => if r.inp.fail = 3 then failExit g r else (g, { r with pc := 4, snap := g.revoked })
  | 4 =>
    if r.inp.fail = 4 then failExit g r else
    ({ g with crl := some (mkCRL r.prev r.snap r.inp.now g.cache),
              log := mkCRL r.prev r.snap r.inp.now g.cache :: g.log }, { r with pc := 5 })
  | 5 =>
    (if g.mutex then { g with lock := false } else g, { r with pc := 6, holding := false, out := .ok })
  | _ => (g, r)

def restartG (_ : Nat) (g : G) : G := { g with lock := false }

def restartL (r : Req) : Req :=
  if r.out = .pending ∧ r.pc ≠ 0 then { r with out := .dropped, holding := false } else r

def machine : Machine G Req := { step := step, restartG := restartG, restartL := restartL }

/-- numbers of the stored lists, oldest first -/
def numbers (g : G) : List Nat := (g.log.map (·.number)).reverse

/-! ## what is served: the list's issuing distribution point and the HTTP handler

  /repo/authority/tls.go `GenerateCertificateRevocationList`: the critical issuingDistributionPoint extension
  carries `CRL.IDPurl` when configured, otherwise `a.config.Audience("/1.0/crl")[0]` = `https://<first DNS name>/1.0/crl`
  (`onlyContainsUserCerts`); issuer and authority key identifier are the issuing certificate's (softcas `CreateCRL`).
  /repo/api/crl.go `CRL` (mounted at `/crl` and `/1.0/crl`): 200 with `Expires` = the stored list's ExpiresAt (= its
  NextUpdate), `Content-Type` application/pkix-crl (DER) or application/x-pem-file (`?pem`); the error of
  `GetCertificateRevocationList` otherwise (404 when publication is disabled, 500 when nothing is stored). -/

def idpURL (configured dns : Str) : Str :=
  if configured = [] then Verif.s "https://" ++ dns ++ Verif.s "/1.0/crl" else configured

structure Resp where
  status : Nat
  expires : Nat        -- the Expires header as a time (0 when there is none)
  pem : Bool           -- Content-Type application/x-pem-file, body PEM; else application/pkix-crl, body DER
  body : Option CRLRec -- the list in the body
  deriving Repr, DecidableEq

def crlHandler (enabled : Bool) (g : G) (pem : Bool) : Resp :=
  if !enabled then { status := 404, expires := 0, pem := false, body := none }
  else match g.crl with
    | none => { status := 500, expires := 0, pem := false, body := none }
    | some c => { status := 200, expires := c.nextUpdate, pem := pem, body := some c }

/-! ## configuration plumbing of the CRL section (durations in nanoseconds, as `time.Duration`)

  /repo/authority/config/config.go `Config.Init` (enabled and no cacheDuration ⇒ 24 h), `CRLConfig.Validate`
  (negative durations refused; renewPeriod > cacheDuration refused when both are set; since 057148c also an enabled section whose cache duration is positive and whose ticker would be 0), /repo/authority/authority.go `init`
  (cacheDuration nil or ≤ 0 ⇒ 24 h), `CRLConfig.TickerDuration` (renewPeriod when > 0, else (cacheDuration / 3) * 2 in
  integer nanoseconds; 0 when disabled). `pipeline` is what a CA started from a ca.json goes through, in that order. -/

def dayNs : Int := 86400000000000

structure CRLCfg where
  enabled : Bool
  cache : Option Int
  renew : Option Int
  deriving Repr, DecidableEq

def CRLCfg.init (c : CRLCfg) : CRLCfg :=
  if c.enabled && c.cache.isNone then { c with cache := some dayNs } else c

/-- `TickerDuration` on a configuration whose cache duration is set -/
def CRLCfg.ticker (c : CRLCfg) : Int :=
  if !c.enabled then 0 else
  match c.renew with
  | some r => if 0 < r then r else (c.cache.getD 0 / 3) * 2
  | none => (c.cache.getD 0 / 3) * 2

/-- `Validate` before 057148c -/
def CRLCfg.validOld (c : CRLCfg) : Bool :=
  (match c.cache with | some d => decide (0 ≤ d) | none => true) &&
  (match c.renew with | some r => decide (0 ≤ r) | none => true) &&
  (match c.renew, c.cache with | some r, some d => decide (r ≤ d) | _, _ => true)

/-- `Validate` since 057148c: an enabled section with a positive cache duration from which no generator period can be
    derived (1 or 2 ns without a renew period) is refused as well -/
def CRLCfg.valid (c : CRLCfg) : Bool :=
  c.validOld &&
  !(c.enabled && (match c.cache with | some d => decide (0 < d) && decide (c.ticker ≤ 0) | none => false))

def CRLCfg.effective (c : CRLCfg) : CRLCfg :=
  if !c.enabled then c else
  match c.cache with
  | none => { c with cache := some dayNs }
  | some d => if d ≤ 0 then { c with cache := some dayNs } else c

/-- (cache duration, ticker period) of a started CA; `none` = the configuration is refused -/
def pipeline (c : CRLCfg) : Option (Int × Int) :=
  if !c.init.valid then none else some ((c.init.effective.cache.getD 0), c.init.effective.ticker)

/-- the same before 057148c (D61) -/
def pipelineOld (c : CRLCfg) : Option (Int × Int) :=
  if !c.init.validOld then none else some ((c.init.effective.cache.getD 0), c.init.effective.ticker)

/-! ## reload: a new authority on the same database, the old one closed for reload

  /repo/ca/ca.go `CA.Reload` builds a new `Authority` with `WithDatabase(ca.auth.GetDatabase())` — new
  configuration (cache duration), new `crlMutex`, start-up generation, new ticker — and then calls
  /repo/authority/authority.go `CloseForReload` on the old one, which stops the old ticker and
  closes `crlStopper` (guarded by `a.crlTicker != nil`).  The old authority's requests are the ticks
  its ticker would still deliver (or requests of it that are still in flight); they run the same `step`
  with the old cache duration, under the process-wide mutex (`shared`, the code since 7329bb4) or under the old
  authority's own mutex (the code before).  `oldStopped` = the old generator goroutine has been stopped: a tick that has
  not fired yet never fires.  (Requests of the old authority that are in flight at the very moment
  of the reload are outside this model: see notes.) -/

structure G2 where
  g : G              -- the current authority: durable state, its mutex, its cache duration
  oldLock : Bool     -- the replaced authority's crlMutex
  oldCache : Nat     -- the replaced authority's cache duration
  oldStopped : Bool  -- CloseForReload stopped its generator
  shared : Bool := true  -- one crlMutex for every Authority of the process (/repo since 7329bb4); false = one per
                         -- Authority (before: `oldLock` is then the replaced authority's own mutex)
  deriving Repr, DecidableEq

structure Req2 where
  old : Bool         -- a request of the replaced authority (a tick of its generator, or a request it is still serving)
  r : Req
  stop : Bool := false  -- not a request at all: the moment `CloseForReload` stops the old generator (its `r` is inert)
  deriving Repr, DecidableEq

/-- how a request of the replaced authority sees the state: its own cache duration, and the mutex it locks -/
def oldView (g2 : G2) : G := { g2.g with lock := if g2.shared then g2.g.lock else g2.oldLock, cache := g2.oldCache }

def step2 (g2 : G2) (q : Req2) : G2 × Req2 :=
  if q.stop then ({ g2 with oldStopped := true }, q)
  else if q.old then
    if g2.oldStopped ∧ q.r.pc = 0 ∧ q.r.out = .pending then
      (g2, { q with r := { q.r with out := .dropped } })
    else
      ({ g2 with g := { (step (oldView g2) q.r).1 with
                        lock := if g2.shared then (step (oldView g2) q.r).1.lock else g2.g.lock, cache := g2.g.cache },
                 oldLock := if g2.shared then g2.oldLock else (step (oldView g2) q.r).1.lock },
       { q with r := (step (oldView g2) q.r).2 })
  else ({ g2 with g := (step g2.g q.r).1 }, { q with r := (step g2.g q.r).2 })

/-- a restart of the machine ends both authorities; what starts afterwards is one process -/
def restartG2 (now : Nat) (g2 : G2) : G2 :=
  { g2 with g := restartG now g2.g, oldLock := false, oldStopped := true }

def restartL2 (q : Req2) : Req2 := { q with r := restartL q.r }

def machine2 : Machine G2 Req2 := { step := step2, restartG := restartG2, restartL := restartL2 }

/-- what the CRL endpoint of either authority answers during a reload: `GetCertificateRevocationList` reads the stored list from
    the database both authorities share (/repo/authority/tls.go: `a.db.(db.CertificateRevocationListDB).GetCRL()`), nothing of it
    lives in the memory of one `Authority` -/
def serve2 (enabled : Bool) (g2 : G2) (old : Bool) (pem : Bool) : Resp :=
  crlHandler enabled (if old then oldView g2 else g2.g) pem

/-- /repo/cas/softcas/softcas.go `CreateCRL`: the certificate named as issuer of the list (issuer name, authority key identifier)
    is the certificate of the signing key, `certChain[0]` of the intermediate bundle, whatever certificates follow it in the file -/
def crlIssuerOf {α : Type} (bundle : List α) : Option α := bundle.head?

end Verif.CRL
