/-!
  The per-provisioner list of administrators (`administrator.Collection.byProv`) under Go's slice semantics.

  `Collection.LoadByProvisioner` hands out the collection's own slice; `Authority.RemoveProvisioner` ranges over it
  and calls `removeAdmin` → `Collection.Remove` for each element while `Remove` edits the same backing array
  (`adminsByProv[i] = adminsByProv[len-1]`, then stores `adminsByProv[:len-1]`). A Go `range` evaluates the slice
  header once and reads each element from the backing array when its turn comes, so the walk sees the edits.

  * `arr : Nat → Nat` is the backing array (index → administrator id; ids are distinct),
  * `len` the length of the slice the collection stores,
  * `removeSwap` is `Remove`'s edit (every index of the stored slice is visited, a match is overwritten with the last
    element, the stored slice loses one element),
  * `removeShift` is the order-preserving delete one would write instead (`append(s[:i], s[i+1:]...)`),
  * `walk` is `RemoveProvisioner`'s loop.
-/
namespace Verif.AdminSlice

structure S where
  arr : Nat → Nat
  len : Nat

def upd (a : Nat → Nat) (i v : Nat) : Nat → Nat := fun p => if p = i then v else a p

/-- `for i, a := range adminsByProv { if a.Id == id { adminsByProv[i] = adminsByProv[L-1]; found = true } }` over the
first `k` indices (each element read when its turn comes) -/
def scan (x L : Nat) (arr : Nat → Nat) : Nat → (Nat → Nat) × Bool
  | 0 => (arr, false)
  | k + 1 =>
    let r := scan x L arr k
    if r.1 k = x then (upd r.1 k (r.1 (L - 1)), true) else r

/-- `Collection.Remove`: not found ⇒ error, otherwise the stored slice is one shorter -/
def removeSwap (s : S) (x : Nat) : Option S :=
  let r := scan x s.len s.arr s.len
  if r.2 then some ⟨r.1, s.len - 1⟩ else none

/-- index of the first element of the stored slice equal to `x` -/
def find (x : Nat) (arr : Nat → Nat) : Nat → Option Nat
  | 0 => none
  | k + 1 => match find x arr k with
    | some i => some i
    | none => if arr k = x then some k else none

/-- the order-preserving delete: everything after the match moves down one place inside the same backing array -/
def removeShift (s : S) (x : Nat) : Option S :=
  match find x s.arr s.len with
  | none => none
  | some i => some ⟨fun p => if i ≤ p ∧ p + 1 < s.len then s.arr (p + 1) else s.arr p, s.len - 1⟩

/-- `for _, adm := range admins { removeAdmin(adm.Id) }`: iteration `j` reads `arr j` as it is then -/
def walk (rm : S → Nat → Option S) : Nat → Nat → S → Option S
  | 0, _, s => some s
  | f + 1, j, s => match rm s (s.arr j) with
    | none => none
    | some s' => walk rm f (j + 1) s'

end Verif.AdminSlice
