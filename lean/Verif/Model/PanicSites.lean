/-
  C18 — accounting for every abort-capable site on the request path.

  `Generated/PanicSites.lean` (rewritten from /repo on every run by /verif/extract) lists every
  `cast.*(` call (the checked integer conversions of internal/cast panic on overflow), every
  `panic(` and every `Must…FromContext(` call in the request-path packages, with the function it
  sits in. This file defines the row type and the review relation: a site is *accounted for*
  when a reviewed entry names it and says why a client cannot make it abort.
-/
namespace Verif.PanicSites

inductive Kind where
  | cast | panic | must
  deriving Repr, DecidableEq

structure Site where
  kind : Kind
  loc : String          -- "pkg/file.go:Func" (methods as "Type.Method")
  what : String         -- callee: cast.Int64, panic, MustFromContext, …
  count : Nat           -- occurrences in that function
  deriving Repr, DecidableEq

/-- why a site cannot be driven to abort by a client -/
inductive Why where
  /-- the converted value is bounded by a theorem about the modelled arithmetic (name of the theorem) -/
  | proved (thm : String)
  /-- the argument is not client-controlled (configuration, length of an in-memory slice, wall clock, …) -/
  | notClient (reason : String)
  /-- the value was range-checked / the certificate was verified as CA-issued before this point -/
  | guarded (reason : String)
  /-- a context value installed by the server wiring before any handler runs -/
  | wiring (reason : String)
  /-- the definition of an aborting helper itself (its callers are the sites that matter) -/
  | helper
  /-- offline command, not on the request path -/
  | offline
  deriving Repr, DecidableEq

structure Review where
  kind : Kind
  loc : String          -- exact location, or "*" for a class-level review of a `Must…FromContext` accessor
  what : String
  count : Nat           -- reviewed number of occurrences (a new occurrence in the same function is a new site)
  why : Why
  deriving Repr

def Review.covers (r : Review) (s : Site) : Bool :=
  r.kind == s.kind && r.what == s.what &&
  (if r.loc == "*" then s.kind == .must else r.loc == s.loc && r.count == s.count)

def accounted (reviews : List Review) (s : Site) : Bool := reviews.any (·.covers s)

/-- sites of the current tree that no review covers -/
def unaccounted (reviews : List Review) (sites : List Site) : List Site :=
  sites.filter fun s => !accounted reviews s

/-- exact (non-class) reviews that no longer correspond to a site of the current tree -/
def stale (reviews : List Review) (sites : List Site) : List Review :=
  reviews.filter fun r => !sites.any (r.covers ·)

end Verif.PanicSites
