/-
  Shared conventions of every model file (core Lean only, no Mathlib):

  * `Str` is a Go string seen as its bytes (`List Nat`, every element < 256 by convention).
    Go's `strings` functions used by the modelled code are bytewise on the inputs the
    models are applied to; where they are not (Unicode case folding) the model says so.
  * `M α` is the result of a Go function that can abort: `.crash` stands for a run-time panic.
-/
namespace Verif

abbrev Str := List Nat

/-- ASCII literal helper for examples (code points; equal to the bytes for ASCII text). -/
def s (x : String) : Str := x.toList.map Char.toNat

/-- Result of a Go computation that may panic. -/
inductive M (α : Type) where
  | val : α → M α
  | crash : M α
  deriving Repr, DecidableEq

instance : Monad M where
  pure := .val
  bind x f := match x with
    | .val a => f a
    | .crash => .crash

namespace Str

/-- ASCII lower-casing of one byte (what `strings.EqualFold`/`ToLower` do on ASCII). -/
def lo (c : Nat) : Nat := if 65 ≤ c ∧ c ≤ 90 then c + 32 else c

def lower (a : Str) : Str := a.map lo

/-- `strings.EqualFold` restricted to ASCII strings. -/
def foldEq (a b : Str) : Bool := a.map lo == b.map lo

def hasPrefix (p a : Str) : Bool := p.isPrefixOf a
def hasSuffix (p a : Str) : Bool := p.isSuffixOf a

/-- `strings.Contains` -/
def containsSub (sub : Str) : Str → Bool
  | [] => sub.isEmpty
  | c :: cs => sub.isPrefixOf (c :: cs) || containsSub sub cs

/-- `strings.IndexByte(a, c) >= 0` -/
def has (c : Nat) (a : Str) : Bool := a.any (· == c)

/-- `strings.Split(a, string(sep))`: always at least one piece. -/
def splitOn (sep : Nat) : Str → List Str
  | [] => [[]]
  | c :: cs =>
    if c = sep then [] :: splitOn sep cs
    else match splitOn sep cs with
      | [] => [[c]]
      | l :: ls => (c :: l) :: ls

def isSpace (c : Nat) : Bool := c = 32 || (9 ≤ c && c ≤ 13) || c = 0x85 || c = 0xA0

/-- `strings.TrimSpace` on ASCII input (bytes 0x85/0xA0 are not ASCII and are never sent as such). -/
def trimSpace (a : Str) : Str :=
  let f := fun c => c = 32 || (9 ≤ c && c ≤ 13)
  ((a.dropWhile f).reverse.dropWhile f).reverse

end Str

/-! ### line protocol helpers (drivers only) -/

def hexVal (c : Char) : Option Nat :=
  if '0' ≤ c ∧ c ≤ '9' then some (c.toNat - 48)
  else if 'a' ≤ c ∧ c ≤ 'f' then some (c.toNat - 87)
  else if 'A' ≤ c ∧ c ≤ 'F' then some (c.toNat - 55)
  else none

/-- Decode a hex string into bytes; `none` on malformed input. -/
def unhex (x : String) : Option Str :=
  let rec go : List Char → Option Str
    | [] => some []
    | a :: b :: rest => do
      let h ← hexVal a
      let l ← hexVal b
      let r ← go rest
      pure ((h * 16 + l) :: r)
    | _ => none
  go x.toList

def hexDigit (n : Nat) : Char := if n < 10 then Char.ofNat (48 + n) else Char.ofNat (87 + n)

def hex (a : Str) : String :=
  String.ofList (a.flatMap fun b => [hexDigit (b / 16), hexDigit (b % 16)])

/-- Split a driver line into fields on single spaces. -/
def fields (line : String) : List String :=
  (line.trimAscii.toString.splitOn " ").filter (· ≠ "")

/-- Generic stdin→stdout loop: one output line per input line. -/
partial def lineLoop (step : String → String) : IO Unit := do
  let stdin ← IO.getStdin
  let stdout ← IO.getStdout
  let rec loop : IO Unit := do
    let line ← stdin.getLine
    if line.isEmpty then return ()
    stdout.putStrLn (step line)
    loop
  loop
  stdout.flush

end Verif
