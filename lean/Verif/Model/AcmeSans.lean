import Verif.Model.Common
/-
  Model of the name handling of ACME finalization (/repo/acme/order.go, /repo/acme/api/order.go).

    ltBytes                  bytes.Compare(a,b) < 0  /  Go's `<` on strings (bytewise lexicographic)
    insertU, sortU           "put the keys in a map, collect them, sort": the strictly increasing
                             list of the distinct elements (Props/C13 proves that this list is
                             unique, so Go's random map order and sort algorithm do not matter)
    uniqueSortedLowerNames   acme.uniqueSortedLowerNames
    to16, uniqueSortedIPs    acme.uniqueSortedIPs (key ip.String(), value net.ParseIP(ip.String()))
    ipsAreEqual              acme.ipsAreEqual
    canonicalize             acme.canonicalize
    posLoop, sans            acme.(*Order).sans   (index expressions that can panic are explicit)
    firstFingerprint         acme.(*Order).getAuthorizationFingerprint (values only)
    finalizeNames            acme.(*Order).Finalize from the fingerprint comparison down to the
                             template data (common name, SAN list, which default template)
    validate                 api.(*NewOrderRequest).Validate
    trimIfWildcard, challengeTypes, newAuthorization, newOrderAuthzs
                             api.NewOrder / newAuthorization / challengeTypes: the authorization
                             stored for each identifier (prov.IsChallengeEnabled is an input)

  External calls are input fields:
    * net.ParseIP(identifier value) -> `Identifier.ip`, net.ParseIP(common name) -> `Csr.cnIp`
      (`[]` = nil, otherwise the 16 bytes ParseIP returns)
    * x509util.SanitizeName(trimIfWildcard(value)) succeeded -> `Identifier.sanitizeOk`
    * keyutil.Fingerprint(csr.PublicKey) -> `csrFp` (`none` = error)
  A `net.IP` is its byte list: `[]` (nil), 4 or 16 bytes (all x509.ParseCertificateRequest and
  net.ParseIP produce).  Assumed about net: for such an ip, `net.ParseIP(ip.String())` is `ip.To16()`
  and `ip.String()` is injective on 16-byte forms; nil prints as "<nil>", which does not parse.
  `strings.ToLower` is modelled on ASCII only.  Wire identifiers (URI branch) are not modelled:
  the functions answer `unmodelled` when one is present.
-/
namespace Verif.AcmeSans
open Verif

abbrev Ip := List Nat

/-- bytewise lexicographic `<` (`bytes.Compare(a,b) < 0`, Go string `<`) -/
def ltBytes : List Nat → List Nat → Bool
  | [], [] => false
  | [], _ :: _ => true
  | _ :: _, [] => false
  | a :: as, b :: bs => a < b || (a == b && ltBytes as bs)

/-- insert into a strictly increasing list, dropping duplicates -/
def insertU (x : List Nat) : List (List Nat) → List (List Nat)
  | [] => [x]
  | y :: ys =>
    if ltBytes x y then x :: y :: ys
    else if x = y then y :: ys
    else y :: insertU x ys

/-- distinct elements in increasing order -/
def sortU (l : List (List Nat)) : List (List Nat) := l.foldr insertU []

/-- acme.uniqueSortedLowerNames: lower-case, drop duplicates and the empty name, sort -/
def uniqueSortedLowerNames (names : List Str) : List Str :=
  sortU ((names.map Str.lower).filter (· ≠ []))

def v4InV6Prefix : List Nat := [0, 0, 0, 0, 0, 0, 0, 0, 0, 0, 255, 255]

/-- net.IP.To16 for nil / 4-byte / 16-byte addresses -/
def to16 (ip : Ip) : Ip := if ip.length = 4 then v4InV6Prefix ++ ip else ip

/-- acme.uniqueSortedIPs: one entry per textual form, re-parsed (16 bytes, nil stays nil), sorted -/
def uniqueSortedIPs (ips : List Ip) : List Ip := sortU (ips.map to16)

/-- acme.ipsAreEqual: nil is equal to nothing; otherwise net.IP.Equal (IPv4 = IPv4-in-IPv6) -/
def ipsAreEqual (x y : Ip) : Bool := x ≠ [] && y ≠ [] && to16 x == to16 y

inductive IdType where
  | dns | ip | pid | wireUser | wireDevice | other
  deriving Repr, DecidableEq

structure Identifier where
  typ : IdType
  value : Str
  /-- net.ParseIP(value): `[]` when it does not parse -/
  ip : Ip := []
  /-- x509util.SanitizeName(trimIfWildcard(value)) returned no error -/
  sanitizeOk : Bool := true
  deriving Repr, DecidableEq

/-- the fields of an x509.CertificateRequest the ACME code looks at -/
structure Csr where
  cn : Str
  /-- net.ParseIP(cn) -/
  cnIp : Ip
  dns : List Str
  ips : List Ip
  /-- len(csr.EmailAddresses), len(csr.URIs) -/
  emails : Nat
  uris : Nat
  deriving Repr, DecidableEq

/-- acme.canonicalize -/
def canonicalize (c : Csr) : Csr :=
  let dns := if c.cn ≠ [] ∧ c.cnIp = [] then c.dns ++ [c.cn] else c.dns
  let ips := if c.cn ≠ [] ∧ c.cnIp ≠ [] then c.ips ++ [c.cnIp] else c.ips
  { c with dns := uniqueSortedLowerNames dns, ips := uniqueSortedIPs ips }

inductive San where
  | dns (v : Str)
  /-- value = text of the address; the model keeps the 16-byte form -/
  | ip (v : Ip)
  | pid (v : Str)
  deriving Repr, DecidableEq

inductive SansOut where
  | ok (l : List San)
  | badCSR
  | ise
  | unmodelled
  deriving Repr, DecidableEq

def isWire (ids : List Identifier) : Bool :=
  ids.any fun i => i.typ = .wireUser || i.typ = .wireDevice

def valuesOf (t : IdType) (ids : List Identifier) : List Str :=
  (ids.filter (·.typ = t)).map (·.value)

def ipsOf (ids : List Identifier) : List Ip :=
  (ids.filter (·.typ = .ip)).map (·.ip)

/-- One comparison loop of `sans`:
    `for i := range xs { if !eq(xs[i], ys[i]) {bad}; sans[index] = mk(xs[i]); index++ }`
    with `len(sans) = total`.  `ys[i]` and `sans[index]` panic when out of range.
    Result: `none` = bad CSR, `some (index, written)`. -/
def posLoop {α : Type} (eq : α → α → Bool) (mk : α → San) (ys : List α) (total : Nat) :
    List α → Nat → Nat → List San → M (Option (Nat × List San))
  | [], _, index, acc => .val (some (index, acc))
  | x :: xs, i, index, acc =>
    match ys[i]? with
    | none => .crash
    | some y =>
      if !eq x y then .val none
      else if index < total then posLoop eq mk ys total xs (i + 1) (index + 1) (acc ++ [mk x])
      else .crash

/-- acme.(*Order).sans on orders without Wire identifiers -/
def sans (ids : List Identifier) (c : Csr) : M SansOut :=
  if c.emails > 0 then .val .badCSR
  else if isWire ids then .val .unmodelled
  else if ids.any (·.typ = .other) then .val .ise
  else
    let orderNames := uniqueSortedLowerNames (valuesOf .dns ids)
    let orderIPs := uniqueSortedIPs (ipsOf ids)
    let total := c.dns.length + c.ips.length + c.uris
    if c.dns.length ≠ orderNames.length then .val .badCSR
    else match posLoop (fun a b => a == b) San.dns orderNames total c.dns 0 0 [] with
      | .crash => .crash
      | .val none => .val .badCSR
      | .val (some (index, acc)) =>
        if c.ips.length ≠ orderIPs.length then .val .badCSR
        else match posLoop ipsAreEqual (fun x => San.ip (to16 x)) orderIPs total c.ips 0 index acc with
          | .crash => .crash
          | .val none => .val .badCSR
          | .val (some (_, acc)) =>
            if c.uris ≠ 0 then .val .badCSR else .val (.ok acc)

/-- getAuthorizationFingerprint: the first non-empty fingerprint among the order's authorizations -/
def firstFingerprint : List Str → Str
  | [] => []
  | f :: fs => if f ≠ [] then f else firstFingerprint fs

inductive FinOut where
  /-- the CSR passed the checks: which default template, template common name, template SANs -/
  | accept (attested : Bool) (cn : Str) (sans : List San)
  | badCSR
  | unauthorized
  | ise
  | unmodelled
  deriving Repr, DecidableEq

/-- the first identifier of type permanent-identifier (the `for … break` loop of Finalize) -/
def firstPid (ids : List Identifier) : Option Identifier := ids.find? (·.typ = .pid)

/-- how Finalize continues after `o.sans(csr)`: an error is returned, a list goes to the template -/
def finOfSans (cn : Str) : M SansOut → M FinOut
  | .crash => .crash
  | .val (.ok l) => .val (.accept false cn l)
  | .val .badCSR => .val .badCSR
  | .val .ise => .val .ise
  | .val .unmodelled => .val .unmodelled

/-- acme.(*Order).Finalize between the status switch and the call of the signer -/
def finalizeNames (ids : List Identifier) (azFps : List Str) (csrFp : Option Str) (c0 : Csr) : M FinOut :=
  let fp := firstFingerprint azFps
  if fp ≠ [] ∧ csrFp = none then .val .ise
  else if fp ≠ [] ∧ csrFp ≠ some fp then .val .unauthorized
  else
    let c := canonicalize c0
    if isWire ids then .val .unmodelled
    else
      let pid : Str := match firstPid ids with
        | some p => p.value
        | none => []
      if (firstPid ids).isSome ∧ c.cn ≠ [] ∧ c.cn ≠ pid then .val .badCSR
      else if pid ≠ [] then .val (.accept true c.cn [San.pid pid])
      else finOfSans c.cn (sans ids c)

inductive ValOut where
  | ok | malformed | unmodelled
  deriving Repr, DecidableEq

/-- api.(*NewOrderRequest).Validate (Wire identifiers: `unmodelled` once the generic loop passed) -/
def validate (ids : List Identifier) : ValOut :=
  if ids = [] then .malformed
  else if ids.any (fun i =>
      (i.typ = .ip && i.ip = []) || (i.typ = .dns && !i.sanitizeOk) ||
      (i.typ = .pid && i.value = []) || i.typ = .other) then .malformed
  else if isWire ids then .unmodelled
  else .ok

/-! ### api.NewOrder: one authorization per identifier -/

inductive ChalType where
  | http01 | dns01 | tlsalpn01 | deviceAttest01
  deriving Repr, DecidableEq

/-- api.trimIfWildcard -/
def isWildcard (v : Str) : Bool := Str.hasPrefix (s "*.") v
def trimIfWildcard (v : Str) : Str := if isWildcard v then v.drop 2 else v

/-- api.challengeTypes (Wire types aside) -/
def challengeTypes (t : IdType) (wildcard : Bool) : List ChalType :=
  match t with
  | .ip => [.http01, .tlsalpn01]
  | .dns => if wildcard then [.dns01] else [.dns01, .http01, .tlsalpn01]
  | .pid => [.deviceAttest01]
  | _ => []

/-- what api.NewOrder / newAuthorization store for one identifier: the authorization's identifier
    (wildcard prefix trimmed), its wildcard flag and the challenges created (those the provisioner
    has enabled, `prov.IsChallengeEnabled`, an input) -/
structure AuthzSpec where
  typ : IdType
  value : Str
  wildcard : Bool
  chals : List ChalType
  deriving Repr, DecidableEq

def newAuthorization (enabled : List ChalType) (id : Identifier) : AuthzSpec :=
  { typ := id.typ, value := trimIfWildcard id.value, wildcard := isWildcard id.value,
    chals := (challengeTypes id.typ (isWildcard id.value)).filter (enabled.contains ·) }

/-- api.NewOrder after Validate and the policy checks: `o.AuthorizationIDs[i]` is a new
    authorization made from `o.Identifiers[i]`; position in the list = authorization created -/
def newOrderAuthzs (enabled : List ChalType) (ids : List Identifier) : List AuthzSpec :=
  ids.map (newAuthorization enabled)

/-- does a stored authorization back this order identifier? (type, name up to ASCII case, and
    the wildcard flag — a wildcard name needs its own authorization, restricted to dns-01) -/
def backs (a : AuthzSpec) (id : Identifier) : Bool :=
  a.typ == id.typ && a.wildcard == isWildcard id.value &&
  Str.lower a.value == Str.lower (trimIfWildcard id.value)

end Verif.AcmeSans
