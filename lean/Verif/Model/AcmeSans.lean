import Verif.Model.Common
/-
  Model of the name handling of ACME finalization (/repo/acme/order.go, /repo/acme/api/order.go).

    ltBytes                  bytes.Compare(a,b) < 0  /  Go's `<` on strings (bytewise lexicographic)
    insertU, sortU           "put the keys in a map, collect them, sort": the strictly increasing
                             list of the distinct elements (Props/C13 proves that this list is
                             unique, so Go's random map order and sort algorithm do not matter)
    uniqueSortedLowerNames   acme.uniqueSortedLowerNames
    to16, uniqueSortedIPs    acme.uniqueSortedIPs (key ip.String(), value net.ParseIP(ip.String()))
    ipsAreEqual              acme.ipsAreEqual
    canonicalize             acme.canonicalize
    posLoop, sans            acme.(*Order).sans   (index expressions that can panic are explicit)
    firstFingerprint         acme.(*Order).getAuthorizationFingerprint (values only)
    finalizeNames            acme.(*Order).Finalize from the fingerprint comparison down to the
                             template data (common name, SAN list, which default template)
    validate                 api.(*NewOrderRequest).Validate
    trimIfWildcard, challengeTypes, newAuthorization, newOrderAuthzs
                             api.NewOrder / newAuthorization / challengeTypes: the authorization
                             stored for each identifier (prov.IsChallengeEnabled is an input)

  External calls are input fields:
    * net.ParseIP(identifier value) -> `Identifier.ip`, net.ParseIP(common name) -> `Csr.cnIp`
      (`[]` = nil, otherwise the 16 bytes ParseIP returns)
    * x509util.SanitizeName(trimIfWildcard(value)) succeeded -> `Identifier.sanitizeOk`
    * keyutil.Fingerprint(csr.PublicKey) -> `csrFp` (`none` = error)
  A `net.IP` is its byte list: `[]` (nil), 4 or 16 bytes (all x509.ParseCertificateRequest and
  net.ParseIP produce).  Assumed about net: for such an ip, `net.ParseIP(ip.String())` is `ip.To16()`
  and `ip.String()` is injective on 16-byte forms; nil prints as "<nil>", which does not parse.
  `strings.ToLower` / `EqualFold` are modelled on ASCII only.  Wire identifiers: `wire.ParseUserID`,
  `wire.ParseDeviceID`, `url.Parse` / `URL.String` are inputs (`WireId`); the URI branch of `sans`
  (`wireUris`) and `createWireSubject` (`wireSubject`) are modelled; `NewOrderRequest.Validate` of
  Wire identifiers is not (`validate` answers `unmodelled`).
-/
namespace Verif.AcmeSans
open Verif

abbrev Ip := List Nat

/-- bytewise lexicographic `<` (`bytes.Compare(a,b) < 0`, Go string `<`) -/
def ltBytes : List Nat → List Nat → Bool
  | [], [] => false
  | [], _ :: _ => true
  | _ :: _, [] => false
  | a :: as, b :: bs => a < b || (a == b && ltBytes as bs)

/-- insert into a strictly increasing list, dropping duplicates -/
def insertU (x : List Nat) : List (List Nat) → List (List Nat)
  | [] => [x]
  | y :: ys =>
    if ltBytes x y then x :: y :: ys
    else if x = y then y :: ys
    else y :: insertU x ys

/-- distinct elements in increasing order -/
def sortU (l : List (List Nat)) : List (List Nat) := l.foldr insertU []

/-- acme.uniqueSortedLowerNames: lower-case, drop duplicates and the empty name, sort -/
def uniqueSortedLowerNames (names : List Str) : List Str :=
  sortU ((names.map Str.lower).filter (· ≠ []))

def v4InV6Prefix : List Nat := [0, 0, 0, 0, 0, 0, 0, 0, 0, 0, 255, 255]

/-- net.IP.To16 for nil / 4-byte / 16-byte addresses -/
def to16 (ip : Ip) : Ip := if ip.length = 4 then v4InV6Prefix ++ ip else ip

/-- acme.uniqueSortedIPs: one entry per textual form, re-parsed (16 bytes, nil stays nil), sorted -/
def uniqueSortedIPs (ips : List Ip) : List Ip := sortU (ips.map to16)

/-- acme.ipsAreEqual: nil is equal to nothing; otherwise net.IP.Equal (IPv4 = IPv4-in-IPv6) -/
def ipsAreEqual (x y : Ip) : Bool := x ≠ [] && y ≠ [] && to16 x == to16 y

inductive IdType where
  | dns | ip | pid | wireUser | wireDevice | other
  deriving Repr, DecidableEq

/-- what `wire.ParseUserID` / `wire.ParseDeviceID` and `url.Parse` make of a Wire identifier value
    (inputs): `parsed` = the JSON parsed with all required members, `uri` = `URL.String()` of the
    parsed handle (user) resp. client id (device), `none` when `url.Parse` fails -/
structure WireId where
  parsed : Bool := false
  name : Str := []
  domain : Str := []
  uri : Option Str := none
  deriving Repr, DecidableEq

structure Identifier where
  typ : IdType
  value : Str
  /-- net.ParseIP(value): `[]` when it does not parse -/
  ip : Ip := []
  /-- x509util.SanitizeName(trimIfWildcard(value)) returned no error -/
  sanitizeOk : Bool := true
  wire : WireId := {}
  deriving Repr, DecidableEq

/-- the fields of an x509.CertificateRequest the ACME code looks at -/
structure Csr where
  cn : Str
  /-- net.ParseIP(cn) -/
  cnIp : Ip
  dns : List Str
  ips : List Ip
  /-- len(csr.EmailAddresses) -/
  emails : Nat
  /-- `URL.String()` of every element of csr.URIs -/
  uriStrs : List Str := []
  /-- the values of the subject attributes with OID 2.16.840.1.113730.3.1.241 (display name), in
      order; `none` = the value is not a string -/
  displayNames : List (Option Str) := []
  /-- csr.Subject.Organization -/
  orgs : List Str := []
  deriving Repr, DecidableEq

/-- len(csr.URIs) -/
def Csr.uris (c : Csr) : Nat := c.uriStrs.length

/-- acme.canonicalize -/
def canonicalize (c : Csr) : Csr :=
  let dns := if c.cn ≠ [] ∧ c.cnIp = [] then c.dns ++ [c.cn] else c.dns
  let ips := if c.cn ≠ [] ∧ c.cnIp ≠ [] then c.ips ++ [c.cnIp] else c.ips
  { c with dns := uniqueSortedLowerNames dns, ips := uniqueSortedIPs ips }

inductive San where
  | dns (v : Str)
  /-- value = text of the address; the model keeps the 16-byte form -/
  | ip (v : Ip)
  | pid (v : Str)
  | uri (v : Str)
  /-- a slot of the result slice that was never written (`x509util.SubjectAlternativeName{}`):
      the slice is allocated for `len(csr.DNSNames)+len(csr.IPAddresses)+len(csr.URIs)` entries but
      the URIs are written after de-duplication. The template turns it into an empty DNS name. -/
  | empty
  deriving Repr, DecidableEq

inductive SansOut where
  | ok (l : List San)
  | badCSR
  | ise
  | unmodelled
  deriving Repr, DecidableEq

def isWire (ids : List Identifier) : Bool :=
  ids.any fun i => i.typ = .wireUser || i.typ = .wireDevice

def valuesOf (t : IdType) (ids : List Identifier) : List Str :=
  (ids.filter (·.typ = t)).map (·.value)

def ipsOf (ids : List Identifier) : List Ip :=
  (ids.filter (·.typ = .ip)).map (·.ip)

/-- One comparison loop of `sans`:
    `for i := range xs { if !eq(xs[i], ys[i]) {bad}; sans[index] = mk(xs[i]); index++ }`
    with `len(sans) = total`.  `ys[i]` and `sans[index]` panic when out of range.
    Result: `none` = bad CSR, `some (index, written)`. -/
def posLoop {α : Type} (eq : α → α → Bool) (mk : α → San) (ys : List α) (total : Nat) :
    List α → Nat → Nat → List San → M (Option (Nat × List San))
  | [], _, index, acc => .val (some (index, acc))
  | x :: xs, i, index, acc =>
    match ys[i]? with
    | none => .crash
    | some y =>
      if !eq x y then .val none
      else if index < total then posLoop eq mk ys total xs (i + 1) (index + 1) (acc ++ [mk x])
      else .crash

/-- the identifier loop of `sans` as far as it can fail: the URIs of the Wire identifiers in
    identifier order (`tmpOrderURIs`); `none` = a server-internal error (a Wire identifier that does
    not parse, a handle / client id that is no URL, an identifier of an unknown type) -/
def wireUris : List Identifier → Option (List Str)
  | [] => some []
  | id :: rest =>
    match id.typ with
    | .other => none
    | .dns => wireUris rest
    | .ip => wireUris rest
    | .pid => wireUris rest
    | _ =>
      if !id.wire.parsed then none
      else match id.wire.uri with
        | none => none
        | some u => (wireUris rest).map (u :: ·)

/-- acme.(*Order).sans -/
def sans (ids : List Identifier) (c : Csr) : M SansOut :=
  if c.emails > 0 then .val .badCSR
  else match wireUris ids with
  | none => .val .ise
  | some tmpOrderURIs =>
    let orderNames := uniqueSortedLowerNames (valuesOf .dns ids)
    let orderIPs := uniqueSortedIPs (ipsOf ids)
    let total := c.dns.length + c.ips.length + c.uris
    if c.dns.length ≠ orderNames.length then .val .badCSR
    else match posLoop (fun a b => a == b) San.dns orderNames total c.dns 0 0 [] with
      | .crash => .crash
      | .val none => .val .badCSR
      | .val (some (index, acc)) =>
        if c.ips.length ≠ orderIPs.length then .val .badCSR
        else match posLoop ipsAreEqual (fun x => San.ip (to16 x)) orderIPs total c.ips 0 index acc with
          | .crash => .crash
          | .val none => .val .badCSR
          | .val (some (index, acc)) =>
            if c.uris ≠ tmpOrderURIs.length then .val .badCSR
            else
              let csrURIs := sortU c.uriStrs
              let orderURIs := sortU tmpOrderURIs
              -- (since /repo b009637) the de-duplicated lists must have the same length
              if csrURIs.length ≠ orderURIs.length then .val .badCSR
              else match posLoop (fun a b => a == b) San.uri orderURIs total csrURIs 0 index acc with
                | .crash => .crash
                | .val none => .val .badCSR
                -- (since /repo 167bc71) only the entries written are returned: `sans[:index]`
                | .val (some (_, acc)) => .val (.ok acc)

/-- `sans` as it was before /repo 167bc71: the slice sized by the CSR's names was returned whole, an
    entry never written (`San.empty`) reached the template as an empty DNS name (C13-F3) -/
def sansHistoric (ids : List Identifier) (c : Csr) : M SansOut :=
  if c.emails > 0 then .val .badCSR
  else match wireUris ids with
  | none => .val .ise
  | some tmpOrderURIs =>
    let orderNames := uniqueSortedLowerNames (valuesOf .dns ids)
    let orderIPs := uniqueSortedIPs (ipsOf ids)
    let total := c.dns.length + c.ips.length + c.uris
    if c.dns.length ≠ orderNames.length then .val .badCSR
    else match posLoop (fun a b => a == b) San.dns orderNames total c.dns 0 0 [] with
      | .crash => .crash
      | .val none => .val .badCSR
      | .val (some (index, acc)) =>
        if c.ips.length ≠ orderIPs.length then .val .badCSR
        else match posLoop ipsAreEqual (fun x => San.ip (to16 x)) orderIPs total c.ips 0 index acc with
          | .crash => .crash
          | .val none => .val .badCSR
          | .val (some (index, acc)) =>
            if c.uris ≠ tmpOrderURIs.length then .val .badCSR
            else
              let csrURIs := sortU c.uriStrs
              let orderURIs := sortU tmpOrderURIs
              -- (since /repo b009637) the de-duplicated lists must have the same length
              if csrURIs.length ≠ orderURIs.length then .val .badCSR
              else match posLoop (fun a b => a == b) San.uri orderURIs total csrURIs 0 index acc with
                | .crash => .crash
                | .val none => .val .badCSR
                | .val (some (index, acc)) => .val (.ok (acc ++ List.replicate (total - index) San.empty))

/-- getAuthorizationFingerprint: the first non-empty fingerprint among the order's authorizations -/
def firstFingerprint : List Str → Str
  | [] => []
  | f :: fs => if f ≠ [] then f else firstFingerprint fs

inductive FinOut where
  /-- the CSR passed the checks: which default template, template common name, template SANs -/
  | accept (attested : Bool) (cn : Str) (sans : List San)
  /-- a Wire order: template subject (common name, organization) and SANs -/
  | acceptWire (cn org : Str) (sans : List San)
  | badCSR
  | unauthorized
  | ise
  | unmodelled
  deriving Repr, DecidableEq

/-- the first identifier of type permanent-identifier (the `for … break` loop of Finalize) -/
def firstPid (ids : List Identifier) : Option Identifier := ids.find? (·.typ = .pid)

/-- how Finalize continues after `o.sans(csr)`: an error is returned, a list goes to the template -/
def finOfSans (cn : Str) : M SansOut → M FinOut
  | .crash => .crash
  | .val (.ok l) => .val (.accept false cn l)
  | .val .badCSR => .val .badCSR
  | .val .ise => .val .ise
  | .val .unmodelled => .val .unmodelled

/-- how Finalize continues after `o.sans(csr)` in the attested branch (since /repo cde9cd9 the
    comparison is made there too; its list is not used: the permanent identifier stays the only name) -/
def finOfSansAttested (cn pid : Str) : M SansOut → M FinOut
  | .crash => .crash
  | .val (.ok _) => .val (.accept true cn [San.pid pid])
  | .val .badCSR => .val .badCSR
  | .val .ise => .val .ise
  | .val .unmodelled => .val .unmodelled

/-! ### Wire orders: createWireSubject -/

inductive WErr where
  | badCSR | ise
  deriving Repr, DecidableEq

/-- the scan of the CSR's display-name attributes for one user identifier: every one of them must
    be a string equal to the identifier's name; result = whether one was found -/
def scanDisplay (name : Str) : List (Option Str) → Bool → Except WErr Bool
  | [], found => .ok found
  | none :: _, _ => .error .badCSR
  | some v :: rest, _ => if v ≠ name then .error .ise else scanDisplay name rest true

structure WS where
  cn : Str := []
  org : Str := []
  users : Nat := 0
  devices : Nat := 0
  others : Nat := 0
  deriving Repr, DecidableEq

/-- the identifier loop of createWireSubject -/
def wireLoop (c : Csr) : List Identifier → WS → Except WErr WS
  | [], st => .ok st
  | id :: rest, st =>
    match id.typ with
    | .wireUser =>
      if !id.wire.parsed then .error .ise
      else match scanDisplay id.wire.name c.displayNames false with
        | .error e => .error e
        | .ok false => .error .ise
        | .ok true =>
          match c.orgs with
          | [] => .error .ise
          | o :: _ =>
            if !Str.foldEq o id.wire.domain then .error .ise
            else wireLoop c rest { st with cn := id.wire.name, org := id.wire.domain, users := st.users + 1 }
    | .wireDevice => wireLoop c rest { st with devices := st.devices + 1 }
    | _ => wireLoop c rest { st with others := st.others + 1 }

/-- acme.createWireSubject: the template subject of a Wire order. Note the final test as coded:
    `otherIDs > 0 || wireUserIDs != 1 && wireDeviceIDs != 1`. -/
def wireSubject (ids : List Identifier) (c : Csr) : Except WErr (Str × Str) :=
  match wireLoop c ids {} with
  | .error e => .error e
  | .ok st =>
    if st.others > 0 ∨ (st.users ≠ 1 ∧ st.devices ≠ 1) then .error .ise
    else .ok (st.cn, st.org)

def finOfSansWire (cn org : Str) : M SansOut → M FinOut
  | .crash => .crash
  | .val (.ok l) => .val (.acceptWire cn org l)
  | .val .badCSR => .val .badCSR
  | .val .ise => .val .ise
  | .val .unmodelled => .val .unmodelled

/-- the CSR as Finalize canonicalizes it: with `blank` (the common name repeats the attested
    permanent identifier) the common name is not folded into the DNS/IP names; the subject keeps it -/
def canonB (blank : Bool) (c0 : Csr) : Csr :=
  { canonicalize (if blank then { c0 with cn := [] } else c0) with cn := c0.cn }

def canonFor (pid : Str) (c0 : Csr) : Csr := canonB (decide (pid ≠ [] ∧ c0.cn = pid)) c0

/-- the value of the first permanent identifier (`""` when the order has none) -/
def pidOf (ids : List Identifier) : Str :=
  match firstPid ids with
  | some p => p.value
  | none => []

/-- acme.(*Order).Finalize between the status switch and the call of the signer -/
def finalizeNames (ids : List Identifier) (azFps : List Str) (csrFp : Option Str) (c0 : Csr) : M FinOut :=
  let fp := firstFingerprint azFps
  if fp ≠ [] ∧ csrFp = none then .val .ise
  else if fp ≠ [] ∧ csrFp ≠ some fp then .val .unauthorized
  else
    let pid : Str := pidOf ids
    if (firstPid ids).isSome ∧ c0.cn ≠ [] ∧ c0.cn ≠ pid then .val .badCSR
    else if isWire ids then
      -- (the stored DPoP and OIDC tokens of the order are read here; their absence is a server error)
      match wireSubject ids (canonFor pid c0) with
      | .error .badCSR => .val .badCSR
      | .error .ise => .val .ise
      | .ok (cn, org) => finOfSansWire cn org (sans ids (canonFor pid c0))
    else if pid ≠ [] then
      -- (since /repo 4f1731b) an order with a permanent identifier needs a recorded attested key
      if fp = [] then .val .unauthorized
      else finOfSansAttested c0.cn pid (sans ids (canonFor pid c0))
    else finOfSans c0.cn (sans ids (canonFor pid c0))

inductive ValOut where
  | ok | malformed | unmodelled
  deriving Repr, DecidableEq

/-- api.(*NewOrderRequest).Validate (Wire identifiers: `unmodelled` once the generic loop passed) -/
def validate (ids : List Identifier) : ValOut :=
  if ids = [] then .malformed
  else if ids.any (fun i =>
      (i.typ = .ip && i.ip = []) || (i.typ = .dns && !i.sanitizeOk) ||
      (i.typ = .pid && i.value = []) || i.typ = .other) then .malformed
  else if isWire ids then .unmodelled
  else .ok

/-! ### api.NewOrder: one authorization per identifier -/

inductive ChalType where
  | http01 | dns01 | tlsalpn01 | deviceAttest01
  deriving Repr, DecidableEq

/-- api.trimIfWildcard -/
def isWildcard (v : Str) : Bool := Str.hasPrefix (s "*.") v
def trimIfWildcard (v : Str) : Str := if isWildcard v then v.drop 2 else v

/-- api.challengeTypes (Wire types aside) -/
def challengeTypes (t : IdType) (wildcard : Bool) : List ChalType :=
  match t with
  | .ip => [.http01, .tlsalpn01]
  | .dns => if wildcard then [.dns01] else [.dns01, .http01, .tlsalpn01]
  | .pid => [.deviceAttest01]
  | _ => []

/-- what api.NewOrder / newAuthorization store for one identifier: the authorization's identifier
    (wildcard prefix trimmed), its wildcard flag and the challenges created (those the provisioner
    has enabled, `prov.IsChallengeEnabled`, an input) -/
structure AuthzSpec where
  typ : IdType
  value : Str
  wildcard : Bool
  chals : List ChalType
  deriving Repr, DecidableEq

/-- the wildcard flag newAuthorization sets: since /repo 77ebdfa only a dns name has a wildcard form
    (before, a leading `*.` was stripped from identifiers of every type: `pid_wildcard_unbacked_historic`) -/
def wildcardOf (id : Identifier) : Bool := id.typ == .dns && isWildcard id.value

def newAuthorization (enabled : List ChalType) (id : Identifier) : AuthzSpec :=
  { typ := id.typ, value := if wildcardOf id then id.value.drop 2 else id.value, wildcard := wildcardOf id,
    chals := (challengeTypes id.typ (wildcardOf id)).filter (enabled.contains ·) }

/-- newAuthorization as it was before /repo 77ebdfa -/
def newAuthorizationHistoric (enabled : List ChalType) (id : Identifier) : AuthzSpec :=
  { typ := id.typ, value := trimIfWildcard id.value, wildcard := isWildcard id.value,
    chals := (challengeTypes id.typ (isWildcard id.value)).filter (enabled.contains ·) }

/-- api.NewOrder after Validate and the policy checks: `o.AuthorizationIDs[i]` is a new
    authorization made from `o.Identifiers[i]`; position in the list = authorization created -/
def newOrderAuthzs (enabled : List ChalType) (ids : List Identifier) : List AuthzSpec :=
  ids.map (newAuthorization enabled)

/-- does a stored authorization back this order identifier? Same type and name (up to ASCII
    case). Only a dns name has a wildcard form: `*.x` needs an authorization for `x` flagged
    wildcard (restricted to dns-01), `x` one that is not flagged. For every other type the
    authorization must be for the identifier's value as it is, and not be flagged. -/
def backs (a : AuthzSpec) (id : Identifier) : Bool :=
  a.typ == id.typ &&
  (if id.typ == .dns then
     a.wildcard == isWildcard id.value && Str.lower a.value == Str.lower (trimIfWildcard id.value)
   else a.wildcard == false && Str.lower a.value == Str.lower id.value)

/-- the DNS names among the SANs -/
def dnsOf : San → Option Str
  | .dns v => some v
  | _ => none

/-- provisioner option forceCN (authority/provisioner/sign_options.go, forceCNOption.Modify), applied
    by the authority to the certificate the template produced: an empty common name becomes the
    first DNS name of the certificate, whole; `none`: there is no DNS name ("cannot force common
    name, DNS names is empty"), the authority refuses to sign -/
def forceCommonName (force : Bool) (cn : Str) (sans : List San) : Option Str :=
  if force && cn == [] then
    match sans.filterMap dnsOf with
    | [] => none
    | d :: _ => some d
  else some cn

end Verif.AcmeSans
