import Verif.Model.Common
/-!
  Shared model of the storage layer and of concurrent execution (C02, C07, C08).

  * `Map ν` — the durable key/value table behind `nosql.DB` as the code uses it:
    `get` (`db.Get`, `IsErrNotFound` ⇒ `none`), `casNil` (`db.CmpAndSwap(bucket, key, nil, v)`:
    insert-if-absent, **one atomic step**, reports whether it swapped), `set` (`db.Set`),
    `list` (`db.List`).  Keys are Go strings seen as bytes.
    Models: /repo/db/db.go `DB.UseToken`, `DB.Revoke`, `DB.RevokeSSH`, `DB.IsRevoked`,
    `DB.IsSSHRevoked`, `DB.GetRevokedCertificates`, `DB.StoreCRL`, `DB.GetCRL`;
    /repo/db/simple.go `SimpleDB.UseToken` (`sync.Map.LoadOrStore` is the same insert-if-absent).
  * `Machine` — interleaving semantics: a system is a global state (durable tables + process
    memory) and one local state per request ("thread"); an *event* is either "thread `t`
    performs its next atomic step" or "the process stops and is restarted".  A schedule is a
    `List Ev`; theorems quantify over all schedules by induction on that list (`run_inv`).
    Restart applies `restartG` to the global state (drop process memory, keep the durable part)
    and `restartL` to every request (in-flight requests are dropped).
-/
namespace Verif.Store
open Verif

/-! ## durable map -/

abbrev Map (ν : Type) := List (Str × ν)

def get {ν : Type} (m : Map ν) (k : Str) : Option ν := List.lookup k m

def has {ν : Type} (m : Map ν) (k : Str) : Bool := (get m k).isSome

/-- `CmpAndSwap(bucket, k, nil, v)`: stores `v` iff `k` is absent; second component = swapped. -/
def casNil {ν : Type} (m : Map ν) (k : Str) (v : ν) : Map ν × Bool :=
  match get m k with
  | some _ => (m, false)
  | none => ((k, v) :: m, true)

/-- `db.Set`: unconditional overwrite. -/
def set {ν : Type} (m : Map ν) (k : Str) (v : ν) : Map ν := (k, v) :: m.filter (·.1 != k)

/-- `db.List`: every stored entry. -/
def list {ν : Type} (m : Map ν) : List (Str × ν) := m

theorem get_cons {ν : Type} (m : Map ν) (k k' : Str) (v : ν) :
    get ((k', v) :: m) k = if k = k' then some v else get m k := by
  unfold get
  simp only [List.lookup]
  by_cases h : k = k'
  · subst h; simp
  · have : (k == k') = false := by simpa using h
    simp [this, h]

theorem casNil_swapped {ν : Type} (m : Map ν) (k : Str) (v : ν) :
    (casNil m k v).2 = true ↔ get m k = none := by
  unfold casNil; cases h : get m k <;> simp

theorem get_casNil_same {ν : Type} (m : Map ν) (k : Str) (v : ν) :
    get (casNil m k v).1 k = some ((get m k).getD v) := by
  unfold casNil
  cases h : get m k with
  | some w => simp [h]
  | none => simp [get_cons]

theorem get_casNil_other {ν : Type} (m : Map ν) (k k' : Str) (v : ν) (hne : k ≠ k') :
    get (casNil m k' v).1 k = get m k := by
  unfold casNil
  cases h : get m k' with
  | some w => rfl
  | none => simp [get_cons, hne]

/-- The table is monotone under `casNil`: a stored record is never changed or removed. -/
theorem casNil_mono {ν : Type} (m : Map ν) (k k' : Str) (v w : ν) :
    get m k = some w → get (casNil m k' v).1 k = some w := by
  intro h
  by_cases hk : k = k'
  · subst hk; rw [get_casNil_same, h]; rfl
  · rw [get_casNil_other _ _ _ _ hk]; exact h

theorem has_casNil_same {ν : Type} (m : Map ν) (k : Str) (v : ν) : has (casNil m k v).1 k = true := by
  unfold has; rw [get_casNil_same]; rfl

theorem has_casNil_mono {ν : Type} (m : Map ν) (k k' : Str) (v : ν) :
    has m k = true → has (casNil m k' v).1 k = true := by
  unfold has
  cases h : get m k with
  | none => simp
  | some w => intro _; rw [casNil_mono m k k' v w h]; rfl

theorem has_casNil_other {ν : Type} (m : Map ν) (k k' : Str) (v : ν) (hne : k ≠ k') :
    has (casNil m k' v).1 k = has m k := by
  unfold has; rw [get_casNil_other _ _ _ _ hne]

theorem casNil_fst_of_not_swapped {ν : Type} (m : Map ν) (k : Str) (v : ν) :
    (casNil m k v).2 = false → (casNil m k v).1 = m := by
  unfold casNil; cases h : get m k <;> simp

/-! ## interleaving semantics -/

/-- One event of a history: thread `t` performs its next atomic step, or the process is stopped
    and restarted (`now` = wall clock second of the new start). -/
inductive Ev where
  | step (t : Nat)
  | restart (now : Nat)
  deriving Repr, DecidableEq

structure Machine (G L : Type) where
  /-- one atomic step of a request in the current global state -/
  step : G → L → G × L
  /-- what a restart does to the global state (keeps the durable part) -/
  restartG : Nat → G → G
  /-- what a restart does to a request (drops it when in flight) -/
  restartL : L → L

namespace Machine
variable {G L : Type}

def exec (M : Machine G L) (s : G × List L) : Ev → G × List L
  | .step t =>
    match s.2[t]? with
    | none => s
    | some l => let r := M.step s.1 l; (r.1, s.2.set t r.2)
  | .restart now => (M.restartG now s.1, s.2.map M.restartL)

def run (M : Machine G L) (s : G × List L) (evs : List Ev) : G × List L := evs.foldl M.exec s

theorem run_nil (M : Machine G L) (s : G × List L) : M.run s [] = s := rfl

theorem run_cons (M : Machine G L) (s : G × List L) (e : Ev) (evs : List Ev) :
    M.run s (e :: evs) = M.run (M.exec s e) evs := rfl

theorem run_append (M : Machine G L) (s : G × List L) (a b : List Ev) :
    M.run s (a ++ b) = M.run (M.run s a) b := by
  unfold run; exact List.foldl_append ..

/-- Invariant rule: what every event preserves holds after every history. -/
theorem run_inv (M : Machine G L) (Inv : G × List L → Prop)
    (hstep : ∀ s e, Inv s → Inv (M.exec s e)) :
    ∀ (evs : List Ev) (s : G × List L), Inv s → Inv (M.run s evs) := by
  intro evs
  induction evs with
  | nil => intro s h; exact h
  | cons e evs ih => intro s h; exact ih _ (hstep s e h)

/-- Same, with the invariant allowed to mention the remaining history (hypotheses on events). -/
theorem run_inv_of (M : Machine G L) (Inv : G × List L → Prop) (P : Ev → Prop)
    (hstep : ∀ s e, P e → Inv s → Inv (M.exec s e)) :
    ∀ (evs : List Ev) (s : G × List L), (∀ e ∈ evs, P e) → Inv s → Inv (M.run s evs) := by
  intro evs
  induction evs with
  | nil => intro s _ h; exact h
  | cons e evs ih =>
    intro s hP h
    exact ih _ (fun e' he' => hP e' (List.mem_cons_of_mem _ he'))
      (hstep s e (hP e List.mem_cons_self) h)

theorem length_exec (M : Machine G L) (s : G × List L) (e : Ev) : (M.exec s e).2.length = s.2.length := by
  cases e with
  | step t =>
    simp only [exec]
    split <;> simp
  | restart now => simp [exec]

/-- what an event does to the local state of thread `j` -/
theorem exec_getElem? (M : Machine G L) (s : G × List L) (e : Ev) (j : Nat) :
    (M.exec s e).2[j]? =
      match e with
      | .step t => if t = j then (s.2[j]?).map (fun l => (M.step s.1 l).2) else s.2[j]?
      | .restart _ => (s.2[j]?).map M.restartL := by
  cases e with
  | restart now => simp [exec]
  | step t =>
    simp only [exec]
    cases h : s.2[t]? with
    | none =>
      by_cases htj : t = j
      · subst htj; simp [h]
      · simp [htj]
    | some l =>
      by_cases htj : t = j
      · subst htj
        rcases List.getElem?_eq_some_iff.1 h with ⟨hlt, hl⟩
        simp [hlt, hl]
      · simp [htj]

end Machine

/-! ## counting over a thread list with one element replaced -/

theorem mem_of_getElem?' {α : Type} (l : List α) (i : Nat) (a : α) (h : l[i]? = some a) : a ∈ l :=
  List.mem_iff_getElem?.2 ⟨i, h⟩

theorem countP_set {α : Type} (p : α → Bool) (l : List α) (i : Nat) (a x : α)
    (h : l[i]? = some a) :
    (l.set i x).countP p + (if p a then 1 else 0) = l.countP p + (if p x then 1 else 0) := by
  induction l generalizing i with
  | nil => simp at h
  | cons b l ih =>
    cases i with
    | zero =>
      simp at h; subst h
      simp [List.countP_cons]; omega
    | succ i =>
      simp at h
      have := ih i h
      simp [List.countP_cons]; omega

theorem countP_set_same {α : Type} (p : α → Bool) (l : List α) (i : Nat) (a x : α)
    (h : l[i]? = some a) (hp : p x = p a) : (l.set i x).countP p = l.countP p := by
  have := countP_set p l i a x h
  rw [hp] at this; omega

theorem mem_set_cases {α : Type} (l : List α) (i : Nat) (x y : α) :
    y ∈ l.set i x → y = x ∨ y ∈ l := by
  intro h
  induction l generalizing i with
  | nil => simp at h
  | cons b l ih =>
    cases i with
    | zero => simp at h; rcases h with h | h <;> simp [h]
    | succ i =>
      simp at h
      rcases h with h | h
      · simp [h]
      · rcases ih i h with h | h <;> simp [h]

/-- an element of `l.set t x` is `x` or sits in `l` at another index -/
theorem mem_set_index {α : Type} (l : List α) (t : Nat) (x y : α) (h : y ∈ l.set t x) :
    y = x ∨ ∃ j, j ≠ t ∧ l[j]? = some y := by
  rcases List.mem_iff_getElem?.1 h with ⟨j, hj⟩
  rw [List.getElem?_set] at hj
  by_cases htj : t = j
  · subst htj
    simp at hj
    exact .inl hj.2.symm
  · simp [htj] at hj
    exact .inr ⟨j, fun h => htj h.symm, hj⟩

theorem countP_ge_two {α : Type} (p : α → Bool) (l : List α) (i j : Nat) (a b : α)
    (hi : l[i]? = some a) (hj : l[j]? = some b) (hne : i ≠ j) (ha : p a = true) (hb : p b = true) :
    2 ≤ l.countP p := by
  induction l generalizing i j with
  | nil => simp at hi
  | cons c l ih =>
    cases i with
    | zero =>
      cases j with
      | zero => exact absurd rfl hne
      | succ j =>
        simp at hi hj; subst hi
        have : 0 < l.countP p := List.countP_pos_iff.2 ⟨b, mem_of_getElem?' l j b hj, hb⟩
        rw [List.countP_cons_of_pos ha]; omega
    | succ i =>
      cases j with
      | zero =>
        simp at hi hj; subst hj
        have : 0 < l.countP p := List.countP_pos_iff.2 ⟨a, mem_of_getElem?' l i a hi, ha⟩
        rw [List.countP_cons_of_pos hb]; omega
      | succ j =>
        simp at hi hj
        have := ih i j hi hj (fun h => hne (by rw [h]))
        simp [List.countP_cons]; omega

theorem forall_set {α : Type} (P : α → Prop) (l : List α) (i : Nat) (x : α)
    (hl : ∀ y ∈ l, P y) (hx : P x) : ∀ y ∈ l.set i x, P y := by
  intro y hy
  rcases mem_set_cases l i x y hy with h | h
  · subst h; exact hx
  · exact hl y h

theorem mem_of_getElem? {α : Type} (l : List α) (i : Nat) (a : α) (h : l[i]? = some a) : a ∈ l :=
  List.mem_iff_getElem?.2 ⟨i, h⟩

end Verif.Store
