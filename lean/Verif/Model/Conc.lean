/-
  C19 — model of the lock discipline around the authority's shared configuration.

  Part A (table side): the shape of one row of the regenerated table `Generated/Locks.lean`
  (one row per method of `*Authority`) and the analysis that decides, for every access to the
  guarded fields `provisioners`, `admins`, `policyEngine`, whether `adminMutex` is held in a
  sufficient mode at that point — lexically, or because every in-package caller holds it.

  Part B (semantics side): threads as lists of atomic steps over a readers-writer lock and
  shared cells, interleaved by an arbitrary schedule. `sync.RWMutex` itself is trusted: its
  semantics is the enabledness condition of `acqR` / `acqW` below.
-/
namespace Verif.Conc

/-! ## Part A — rows of the regenerated lock table -/

inductive Field where
  | provisioners | admins | policyEngine
  deriving Repr, DecidableEq

inductive Mode where
  | n | r | w
  deriving Repr, DecidableEq

/-- does holding `held` suffice for an access that needs `need`? -/
def Mode.covers (held need : Mode) : Bool :=
  match held, need with
  | _, .n => true
  | .w, _ => true
  | .r, .r => true
  | _, _ => false

structure Access where
  field : Field
  write : Bool
  covered : Bool          -- lexically after the function's own `adminMutex.(R)Lock(); defer …Unlock()`
  regionR : Bool          -- inside a `adminMutex.RLock(); <statement>; adminMutex.RUnlock()` region
  deriving Repr, DecidableEq

structure Fn where
  name : String
  file : String
  exported : Bool
  mode : Mode             -- lock taken at the top of the function (`n` = none)
  accesses : List Access
  calls : List (Nat × Bool)   -- (index of the callee in the table, lexically under this function's lock)
  deriving Repr

def Access.need (a : Access) : Mode := if a.write then .w else .r

/-- lock mode held at the call sites of function `i`: the weakest over all in-package call
    sites, where a call site holds the caller's own lock if lexically covered, otherwise what the
    caller is known to hold at entry (`held`). An exported function, or one nobody calls, holds nothing. -/
def entryMode (table : List Fn) (held : List Mode) (i : Nat) : Mode :=
  match table[i]? with
  | none => .n
  | some f =>
    if f.exported then .n
    else
      -- calls made by `init` happen before the authority is shared with any other goroutine
      let sites : List Mode := ((table.zip held).filter (·.1.name != "init")).flatMap fun (g, hg) =>
        (g.calls.filter (·.1 == i)).map fun c => if c.2 then g.mode else hg
      if sites.isEmpty then .n
      else if sites.all (· == .w) then .w
      else if sites.all (fun m => m == .w || m == .r) then .r
      else .n

/-- lock mode held at the in-package call sites of function `i` (calls from `init` excluded),
    regardless of whether it is exported: `none` if nobody calls it -/
def callSitesMode (table : List Fn) (held : List Mode) (i : Nat) : Option Mode :=
  let sites : List Mode := ((table.zip held).filter (·.1.name != "init")).flatMap fun (g, hg) =>
    (g.calls.filter (·.1 == i)).map fun c => if c.2 then g.mode else hg
  if sites.isEmpty then none
  else if sites.all (· == .w) then some .w
  else if sites.all (fun m => m == .w || m == .r) then some .r
  else some .n

/-- iterate from "nothing held" (a least fixed point from below: only sound claims are ever added) -/
def heldIter (table : List Fn) : Nat → List Mode
  | 0 => table.map fun _ => .n
  | k + 1 => let h := heldIter table k; (List.range table.length).map (entryMode table h)

def held (table : List Fn) : List Mode := heldIter table 4

/-- an access is safe iff the function's own lock covers it, or the lock held at every call site does -/
def accessSafe (f : Fn) (heldAtEntry : Mode) (a : Access) : Bool :=
  (a.covered && f.mode.covers a.need) || (a.regionR && Mode.r.covers a.need) || heldAtEntry.covers a.need

/-- index of a function by name -/
def fnIndex (table : List Fn) (name : String) : Option Nat := table.findIdx? (·.name == name)

/-- every in-package caller (other than `init`) of the named function holds the write lock -/
def callersHoldW (table : List Fn) (name : String) : Bool :=
  match fnIndex table name with
  | none => false
  | some i => callSitesMode table (held table) i == some .w

/-- call sites at which a function that takes `adminMutex` itself calls another lock-taking method
    *before* its own lock (`covered = false`): the check done by the callee and the action done
    under the caller's lock are then two separate sections (check-then-act is not atomic) -/
def splitSections (table : List Fn) : List (String × String) :=
  table.flatMap fun f =>
    if f.mode == .n then []
    else (f.calls.filter fun c => !c.2 && (table[c.1]?.map (·.mode != .n)).getD false).map
      fun c => (f.name, (table[c.1]?.map (·.name)).getD "?")

/-- call sites at which a lock-taking method is called while the caller already holds the lock
    (`sync.RWMutex` is not re-entrant: a second `Lock`, or an `RLock` behind a waiting writer, deadlocks) -/
def reentrantCalls (table : List Fn) : List (String × String) :=
  table.flatMap fun f =>
    if f.mode == .n then []
    else (f.calls.filter fun c => c.2 && (table[c.1]?.map (·.mode != .n)).getD false).map
      fun c => (f.name, (table[c.1]?.map (·.name)).getD "?")

/-- one round of: function `i` may be entered with `adminMutex` already held if some function other than
    `init` calls it from under its own lock, or calls it at all while itself possibly entered with the lock -/
def lockedEntryStep (table : List Fn) (l : List Bool) : List Bool :=
  (List.range table.length).map fun i =>
    (l[i]?.getD false) || (table.zip l).any fun (g, lg) =>
      g.name != "init" && g.calls.any fun c => c.1 == i && (c.2 || lg)

/-- the functions that may be entered with `adminMutex` held (least fixed point: `length` rounds suffice) -/
def lockedEntry (table : List Fn) : List Bool :=
  (List.range table.length).foldl (fun l _ => lockedEntryStep table l) (table.map fun _ => false)

/-- `reentrantCalls` through any depth and through the SCEP authority's call-backs: a lock-taking method
    called from under the caller's own lock, or from a function that may itself run with the lock held -/
def reentrantDeep (table : List Fn) : List (String × String) :=
  (table.zip (lockedEntry table)).flatMap fun (f, l) =>
    (f.calls.filter fun c => (c.2 || l) && (table[c.1]?.map (·.mode != .n)).getD false).map
      fun c => (f.name, (table[c.1]?.map (·.name)).getD "?")

/-- every (function, field, isWrite) at which a guarded field is touched without sufficient lock -/
def unsafeSites (table : List Fn) : List (String × Field × Bool) :=
  ((table.zip (held table)).flatMap fun (f, h) =>
    (f.accesses.filter fun a => !accessSafe f h a).map fun a => (f.name, a.field, a.write)).eraseDups

/-! ## Part B — interleaving semantics of lock sections -/

inductive Step where
  | acqR | relR | acqW | relW
  | rd (f : Field)
  | wr (f : Field) (v : Nat)
  deriving Repr, DecidableEq

abbrev Mem := Field → Nat

structure Thread where
  prog : List Step               -- remaining steps
  mode : Mode                    -- which lock section the thread is in
  snap : Mem                     -- ghost: memory when the current section was entered
  seen : List (Mode × Field × Nat × Nat) -- ghost: (section mode at the read, field, value read, value at section entry)

structure St where
  mem : Mem
  th : Nat → Thread

def setTh (s : St) (i : Nat) (t : Thread) : Nat → Thread := fun k => if k = i then t else s.th k

/-- `sync.RWMutex` semantics (trusted): a reader enters iff no writer holds the lock,
    a writer iff nobody holds it. -/
def canAcqR (s : St) : Prop := ∀ k, (s.th k).mode ≠ .w
def canAcqW (s : St) : Prop := ∀ k, (s.th k).mode = .n

def Thread.enter (t : Thread) (p : List Step) (m : Mode) (mem : Mem) : Thread :=
  { prog := p, mode := m, snap := mem, seen := t.seen }
def Thread.leave (t : Thread) (p : List Step) : Thread :=
  { prog := p, mode := .n, snap := t.snap, seen := t.seen }
def Thread.didRead (t : Thread) (p : List Step) (f : Field) (v : Nat) : Thread :=
  { prog := p, mode := t.mode, snap := t.snap,
    seen := (t.mode, f, v, t.snap f) :: t.seen }
def Thread.didWrite (t : Thread) (p : List Step) : Thread :=
  { prog := p, mode := t.mode, snap := t.snap, seen := t.seen }

/-- one atomic step of thread `i` (relation, so that enabledness can quantify over all threads) -/
inductive StepRel : St → Nat → St → Prop where
  | acqR (s : St) (i : Nat) (p : List Step) (h : (s.th i).prog = .acqR :: p) (hm : (s.th i).mode = .n)
      (en : canAcqR s) :
      StepRel s i ⟨s.mem, setTh s i ((s.th i).enter p .r s.mem)⟩
  | acqW (s : St) (i : Nat) (p : List Step) (h : (s.th i).prog = .acqW :: p) (hm : (s.th i).mode = .n)
      (en : canAcqW s) :
      StepRel s i ⟨s.mem, setTh s i ((s.th i).enter p .w s.mem)⟩
  | relR (s : St) (i : Nat) (p : List Step) (h : (s.th i).prog = .relR :: p) (hm : (s.th i).mode = .r) :
      StepRel s i ⟨s.mem, setTh s i ((s.th i).leave p)⟩
  | relW (s : St) (i : Nat) (p : List Step) (h : (s.th i).prog = .relW :: p) (hm : (s.th i).mode = .w) :
      StepRel s i ⟨s.mem, setTh s i ((s.th i).leave p)⟩
  | rd (s : St) (i : Nat) (f : Field) (p : List Step) (h : (s.th i).prog = .rd f :: p) :
      StepRel s i ⟨s.mem, setTh s i ((s.th i).didRead p f (s.mem f))⟩
  | wr (s : St) (i : Nat) (f : Field) (v : Nat) (p : List Step) (h : (s.th i).prog = .wr f v :: p) :
      StepRel s i ⟨fun g => if g = f then v else s.mem g, setTh s i ((s.th i).didWrite p)⟩

/-- reachability under an arbitrary schedule (any finite sequence of enabled steps) -/
inductive Reach (s0 : St) : St → Prop where
  | init : Reach s0 s0
  | step (s s' : St) (i : Nat) : Reach s0 s → StepRel s i s' → Reach s0 s'

/-- lock discipline of one thread: reads only inside an R or W section, writes only inside a W
    section, sections properly bracketed and not nested -/
def disc : Mode → List Step → Bool
  | .n, [] => true
  | .n, .acqR :: p => disc .r p
  | .n, .acqW :: p => disc .w p
  | .r, .rd _ :: p => disc .r p
  | .r, .relR :: p => disc .n p
  | .w, .rd _ :: p => disc .w p
  | .w, .wr _ _ :: p => disc .w p
  | .w, .relW :: p => disc .n p
  | _, _ => false

def nextAccess (t : Thread) : Option (Field × Bool) :=
  match t.prog with
  | .rd f :: _ => some (f, false)
  | .wr f _ :: _ => some (f, true)
  | _ => none

/-- a data race: two different threads whose next steps access the same cell, one of them writing -/
def Race (s : St) : Prop :=
  ∃ i j f wi wj, i ≠ j ∧ nextAccess (s.th i) = some (f, wi) ∧ nextAccess (s.th j) = some (f, wj) ∧
    (wi = true ∨ wj = true)

end Verif.Conc
