/-!
  `(*ca.CA).Reload` (what SIGHUP does): a new CA is built from the edited configuration — its authority starts its own
  periodic CRL generator —, the listeners are handed over, then the previous authority is closed
  (`ca.auth.CloseForReload()`: its generator stops) and replaced (`ca.auth = newCA.auth`).

  `ca.auth` is evaluated when a statement runs: the order of the last two statements decides which authority is closed.
-/
namespace Verif.Reload

/-- the CA process: the authority requests are decided by, and the authorities whose CRL generator goroutine runs -/
structure P where
  cur : Nat
  running : List Nat
  deriving Repr, DecidableEq

/-- statements of `Reload` that touch the authorities; `new` is the authority of the CA built from the new file -/
inductive Stmt where
  | build      -- `newCA, err := New(cfg, …)`: the new authority's generator starts
  | closeCur   -- `ca.auth.CloseForReload()`: the generator of whatever `ca.auth` is now stops
  | assign     -- `ca.auth = newCA.auth`
  deriving Repr, DecidableEq

def step (new : Nat) (p : P) : Stmt → P
  | .build => { p with running := new :: p.running }
  | .closeCur => { p with running := p.running.filter (· ≠ p.cur) }
  | .assign => { p with cur := new }

def exec (new : Nat) (ss : List Stmt) (p : P) : P := ss.foldl (step new) p

/-- the order in the code (re-read from ca/ca.go on every run) -/
def reloadAsCoded : List Stmt := [.build, .closeCur, .assign]

/-- a `defer` of the close (or the two statements swapped) runs it after the assignment -/
def reloadCloseLast : List Stmt := [.build, .assign, .closeCur]

/-- one reload per fresh authority id -/
def reloads : List Nat → P → P
  | [], p => p
  | n :: ns, p => reloads ns (exec n reloadAsCoded p)

end Verif.Reload
