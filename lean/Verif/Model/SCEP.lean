import Verif.Model.Common
/-!
  Model of the SCEP PKI operation (C15).  Core Lean only.

  What each definition models (all in /repo unless a library is named):

  * `Facts`, `asCoded`      the three message-type dispatches, as *data*:
                            - github.com/smallstep/scep `(*PKIMessage).parseMessageType` (library parser),
                            - scep/authority.go `(*Authority).DecryptPKIEnvelope` (switch on `msg.MessageType`),
                            - scep/api/api.go `PKIOperation` (the `if` in front of `auth.ValidateChallenge`).
                            `asCoded` is compared on every run with the sets the harness extracts from the
                            current source with go/ast (first line of the correspondence, `facts`).
  * `parse`                 `smallscep.ParsePKIMessage`: pkcs7 parse+verify, the transactionID and messageType
                            attributes (input fields), then `parseMessageType`.
  * `decrypt`               `DecryptPKIEnvelope`: inner pkcs7 parse, decryption (input fields), the dispatch.
                            Before commit 1587447 a `CertRep` request reached
                            `msg.CertRepMessage.Certificate = certs[0]` where `msg.CertRepMessage` is the nil
                            embedded pointer of `scep.PKIMessage` (and `certs` may be empty): `crash`
                            (tables `asCodedBefore`); now that case returns an error.
  * `challengeHooks`        `newChallengeValidationController` (kind SCEPCHALLENGE, certificate type X509/ALL/unset).
  * `selectValidationMethod`, `validateChallenge`, `runHooks`
                            authority/provisioner/scep.go `selectValidationMethod`, `ValidateChallenge`
                            (`subtle.ConstantTimeCompare` = bytewise equality of the two strings; note that the
                            `default:` branch also serves method `none`, with the empty secret),
                            `challengeValidationController.Validate` (every hook is called, in order, until one
                            fails; accepted iff none failed and at least one allowed).
  * `signCSR`               scep/authority.go `SignCSR`: the authority's signing decision is an input field
                            (`signOk`); the reply is enveloped for every certificate the request carried
                            (`certs`, RSA or not: `encOk`); a certificate is stored as soon as signing succeeded.
  * `Prov`, `init`, `initN`, `pkiOperationP`
                            the `provisioner.SCEP` object: `Init` (possibly several times) builds the challenge
                            and notification controllers from `Options.Webhooks`; the handlers run on the controllers.
  * `notifyHooks`, `runNotify`
                            `newNotificationController`, `notificationController.Success/Failure` (call count).
  * `failureReply`, `successReply`
                            `CreateFailureResponse` / the CertRep assembled at the end of `SignCSR`.
  * `pkiOperation`          scep/api/api.go `Get`/`Post` → `PKIOperation` → `writeResponse`/`fail`.

  Not modelled: provisioner lookup, `selectDecrypter`/`selectSigner` failing (the harness CA always has both),
  the payload of notification webhooks, the text of `failInfoText`, templates and the
  contents of the issued certificate.
-/
namespace Verif.SCEP
open Verif

/-- `smallscep.MessageType` is a Go string: its bytes. -/
abbrev MsgType := Str

def tCertRep : MsgType := [51]          -- "3"
def tRenewalReq : MsgType := [49, 55]   -- "17"
def tUpdateReq : MsgType := [49, 56]    -- "18"
def tPKCSReq : MsgType := [49, 57]      -- "19"
def tCertPoll : MsgType := [50, 48]     -- "20"
def tGetCert : MsgType := [50, 49]      -- "21"
def tGetCRL : MsgType := [50, 50]       -- "22"

/-- The message-type dispatch tables of the three functions (regenerated from source per run). -/
structure Facts where
  /-- parser: case that builds a `CertRepMessage` and can `return nil` -/
  parsedCertRep : List MsgType
  /-- parser: case that reads the senderNonce and can `return nil` -/
  parsedCsr : List MsgType
  /-- parser: cases that only return an error (the `default:` does too) -/
  parsedRej : List MsgType
  /-- DecryptPKIEnvelope: case assigning `msg.CertRepMessage.Certificate` -/
  decCertRep : List MsgType
  /-- DecryptPKIEnvelope: case that sets `msg.CSRReqMessage` (T_csr) -/
  decCsr : List MsgType
  /-- DecryptPKIEnvelope: cases that only return an error -/
  decErr : List MsgType
  /-- `true` if a `default:` returns an error; `false`: other types fall out of the switch to `return nil` -/
  decDefaultErr : Bool
  /-- PKIOperation: the message types in the condition in front of `ValidateChallenge` (T_checked) -/
  checked : List MsgType
  /-- `true` if `ValidateChallenge` is called unconditionally -/
  checkAll : Bool
  deriving Repr, DecidableEq

/-- The tree as it stands (after the two `fix:` commits 3a8a2fc and 1587447). Lists are sorted as the
    extractor prints them (Go's `sort.Strings`, hence "3" last). -/
def asCoded : Facts where
  parsedCertRep := [tCertRep]
  parsedCsr := [tRenewalReq, tUpdateReq, tPKCSReq]
  parsedRej := [tCertPoll, tGetCert, tGetCRL]
  decCertRep := []
  decCsr := [tRenewalReq, tUpdateReq, tPKCSReq]
  decErr := [tCertPoll, tGetCert, tGetCRL, tCertRep]
  decDefaultErr := false
  checked := [tRenewalReq, tUpdateReq, tPKCSReq]
  checkAll := false

/-- Historic: the tables of the tree before 3a8a2fc (D4: `UpdateReq` not in the challenge condition)
    and 1587447 (D5: the `CertRep` case of `DecryptPKIEnvelope` wrote through a nil pointer). -/
def asCodedBefore : Facts where
  parsedCertRep := [tCertRep]
  parsedCsr := [tRenewalReq, tUpdateReq, tPKCSReq]
  parsedRej := [tCertPoll, tGetCert, tGetCRL]
  decCertRep := [tCertRep]
  decCsr := [tRenewalReq, tUpdateReq, tPKCSReq]
  decErr := [tCertPoll, tGetCert, tGetCRL]
  decDefaultErr := false
  checked := [tRenewalReq, tPKCSReq]
  checkAll := false

/-- The repair of D4 in general form: validate the challenge for every type that yields a CSR. -/
def withCheckOnEveryCsrType (F : Facts) : Facts := { F with checked := F.decCsr }

/-- The repair of D5 in general form: the `CertRep` case of `DecryptPKIEnvelope` returns an error. -/
def withCertRepRefused (F : Facts) : Facts :=
  { F with decCertRep := [], decErr := F.decErr ++ F.decCertRep }

/-! ### request and configuration -/

/-- A nonce-like signed attribute: missing / does not unmarshal, present but empty, present. -/
inductive Attr where
  | none | empty | ok
  deriving Repr, DecidableEq

/-- What the decrypted envelope is, seen through the calls of the CSR branch:
    `x509.ParseCertificateRequest`, `CheckSignature`, `ParseChallengePassword`. -/
inductive Env where
  | csr       -- all three succeed
  | badsig    -- parses, signature does not verify
  | nocsr     -- does not parse as a certificate request
  | cperr     -- challenge password attribute does not parse
  deriving Repr, DecidableEq

structure Req where
  /-- `decodeRequest` produced the message bytes (base64 / body read) -/
  httpOk : Bool
  /-- `pkcs7.Parse` and `p7.Verify` succeed on the message -/
  p7Ok : Bool
  /-- the transactionID attribute unmarshals -/
  tidOk : Bool
  /-- the messageType attribute (`none`: missing or does not unmarshal) -/
  mt : Option MsgType
  sn : Attr
  /-- the pkiStatus attribute -/
  st : Option Str
  rn : Attr
  fi : Attr
  /-- `pkcs7.Parse(msg.P7.Content)` succeeds -/
  innerOk : Bool
  /-- decryption with the CA's decrypter succeeds -/
  decOk : Bool
  env : Env
  /-- `ParseChallengePassword(envelope)` ("" when the attribute is absent) -/
  cp : Str
  /-- `smallscep.CACerts(envelope)`: number of certificates, `none` on error -/
  degen : Option Nat
  /-- the authority signs this CSR (`SignWithContext` succeeds) -/
  signOk : Bool
  /-- the certificates carried in the request's SignedData (`msg.P7.Certificates`), in order:
      `true` for an RSA key (`pkcs7.Encrypt` refuses any other recipient) -/
  certs : List Bool
  /-- position in `certs` of the certificate whose key signed the request (`p7.GetOnlySigner`) -/
  signer : Option Nat
  deriving Repr, DecidableEq

/-- `pkcs7.Encrypt` to the certificates of the request succeeds: every one of them is RSA. -/
def Req.encOk (q : Req) : Bool := q.certs.all id

inductive HookKind where
  | scep | notify
  deriving Repr, DecidableEq

inductive CertType where
  | x509 | ssh | all | unset
  deriving Repr, DecidableEq

inductive HookRes where
  | allow | deny | error
  deriving Repr, DecidableEq

structure Hook where
  kind : HookKind
  ct : CertType
  /-- what the endpoint answers for this request's challenge -/
  res : HookRes
  deriving Repr, DecidableEq

/-- The provisioner as configured: `ChallengePassword` and `Options.Webhooks` (every kind, in order). -/
structure Config where
  /-- `ChallengePassword` of the provisioner -/
  secret : Str
  hooks : List Hook
  deriving Repr, DecidableEq

/-! ### parser -/

inductive Parsed where
  | rejected
  | certRep
  | csrReq
  deriving Repr, DecidableEq

def statusSuccess : Str := [48]
def statusFailure : Str := [50]
def statusPending : Str := [51]

/-- `(*PKIMessage).parseMessageType` -/
def parseMessageType (F : Facts) (q : Req) (t : MsgType) : Parsed :=
  if t ∈ F.parsedCertRep then
    match q.st with
    | none => .rejected
    | some st =>
      if q.rn ≠ .ok then .rejected
      else if st = statusSuccess then .certRep
      else if st = statusFailure then (if q.fi = .ok then .certRep else .rejected)
      else if st = statusPending then .certRep
      else .rejected
  else if t ∈ F.parsedCsr then
    (if q.sn = .ok then .csrReq else .rejected)
  else .rejected   -- the error-only cases and `default:`

/-- `smallscep.ParsePKIMessage` -/
def parse (F : Facts) (q : Req) : Parsed :=
  if !q.p7Ok then .rejected
  else if !q.tidOk then .rejected
  else match q.mt with
    | none => .rejected
    | some t => parseMessageType F q t

/-! ### DecryptPKIEnvelope -/

inductive Decrypted where
  | err        -- an error is returned (the request is answered with HTTP 500)
  | csr        -- `msg.CSRReqMessage` is set
  | nothing    -- returned nil without setting anything (fell out of the switch)
  deriving Repr, DecidableEq

def decrypt (F : Facts) (q : Req) (t : MsgType) : M Decrypted :=
  if !q.innerOk then .val .err
  else if !q.decOk then .val .err
  else if t ∈ F.decCertRep then
    match q.degen with
    | none => .val .err
    | some _ => .crash   -- certs[0] of an empty list, or the write through the nil *CertRepMessage
  else if t ∈ F.decCsr then
    match q.env with
    | .csr => .val .csr
    | _ => .val .err
  else if t ∈ F.decErr then .val .err
  else if F.decDefaultErr then .val .err
  else .val .nothing

/-! ### challenge validation -/

def isChallengeHook (h : Hook) : Bool :=
  h.kind == .scep && (h.ct == .x509 || h.ct == .all || h.ct == .unset)

/-- `newChallengeValidationController` -/
def challengeHooks (c : Config) : List Hook := c.hooks.filter isChallengeHook

def isNotifyHook (h : Hook) : Bool :=
  h.kind == .notify && (h.ct == .x509 || h.ct == .all || h.ct == .unset)

/-- `newNotificationController` -/
def notifyHooks (c : Config) : List Hook := c.hooks.filter isNotifyHook

inductive Method where
  | none | static | webhook
  deriving Repr, DecidableEq

/-- `selectValidationMethod` on the fields it reads: the secret and the challenge controller's list. -/
def methodOf (secret : Str) (chal : List Hook) : Method :=
  if chal.length > 0 then .webhook
  else if secret ≠ [] then .static
  else .none

def selectValidationMethod (c : Config) : Method :=
  if (challengeHooks c).length > 0 then .webhook
  else if c.secret ≠ [] then .static
  else .none

/-- `challengeValidationController.Validate`: `(none, calls)` when a hook failed,
    `(some allows, calls)` otherwise. -/
def runHooks : List Hook → Nat → Nat → Option Nat × Nat
  | [], allows, calls => (some allows, calls)
  | h :: hs, allows, calls =>
    match h.res with
    | .error => (none, calls + 1)
    | .allow => runHooks hs (allows + 1) (calls + 1)
    | .deny => runHooks hs allows (calls + 1)

/-- `(*SCEP).ValidateChallenge`: (accepted, webhook calls made). -/
def validateChallenge (c : Config) (challenge : Str) : Bool × Nat :=
  match selectValidationMethod c with
  | .webhook =>
    match runHooks (challengeHooks c) 0 0 with
    | (none, n) => (false, n)
    | (some a, n) => (decide (a > 0), n)
  | _ => (decide (c.secret = challenge), 0)   -- `default:` static *and* none

/-- `ValidateChallenge` on the fields it reads (secret, challenge controller's list). -/
def validateWith (secret : Str) (chal : List Hook) (challenge : Str) : Bool × Nat :=
  match methodOf secret chal with
  | .webhook =>
    match runHooks chal 0 0 with
    | (none, n) => (false, n)
    | (some a, n) => (decide (a > 0), n)
  | _ => (decide (secret = challenge), 0)

/-- `notificationController.Success` / `.Failure`: every hook is called in order until one fails
    (the caller ignores the error): number of calls made. -/
def runNotify : List Hook → Nat
  | [] => 0
  | h :: hs => match h.res with
    | .error => 1
    | _ => 1 + runNotify hs

/-! ### replies -/

inductive Status where
  | success | failure
  deriving Repr, DecidableEq

structure Reply where
  status : Status
  /-- failInfo attribute (2 = badRequest) -/
  failInfo : Option Nat
  /-- certificates inside the (encrypted) degenerate content -/
  inner : Nat
  /-- issued certificates in the clear next to the signer certificate -/
  outer : Nat
  /-- the content is an EnvelopedData -/
  encrypted : Bool
  /-- positions (in the request's certificate list) of the certificates the content is enveloped for -/
  recipients : List Nat
  /-- signed with the SCEP signer selected by `selectSigner` -/
  signedByCA : Bool
  deriving Repr, DecidableEq

inductive Outcome where
  | http500
  | reply (r : Reply)
  deriving Repr, DecidableEq

structure Result where
  out : Outcome
  /-- calls made to challenge-validation webhooks -/
  hookCalls : Nat
  /-- certificates stored by the authority -/
  stored : Nat
  /-- calls made to notification webhooks -/
  notifyCalls : Nat
  deriving Repr, DecidableEq

/-- `(*Authority).CreateFailureResponse` with `smallscep.BadRequest` -/
def failureReply : Reply :=
  { status := .failure, failInfo := some 2, inner := 0, outer := 0, encrypted := false, recipients := [],
    signedByCA := true }

/-- the CertRep built at the end of `SignCSR`: the degenerate certificate is enveloped for *every*
    certificate the request carried (`a.encrypt(deg, msg.P7.Certificates, …)`). -/
def successReply (q : Req) : Reply :=
  { status := .success, failInfo := none, inner := 1, outer := 1, encrypted := true,
    recipients := List.range q.certs.length, signedByCA := true }

/-- `SignCSR` followed by PKIOperation's handling of its result (`NotifyFailure` / `NotifySuccess`:
    `nf` = calls the notification controller makes). -/
def signCSR (q : Req) (calls nf : Nat) : Result :=
  if !q.signOk then { out := .reply failureReply, hookCalls := calls, stored := 0, notifyCalls := nf }
  else if !q.encOk then { out := .reply failureReply, hookCalls := calls, stored := 1, notifyCalls := nf }
  else { out := .reply (successReply q), hookCalls := calls, stored := 1, notifyCalls := nf }

def mustCheck (F : Facts) (t : MsgType) : Bool := F.checkAll || decide (t ∈ F.checked)

def refused : Result := { out := .http500, hookCalls := 0, stored := 0, notifyCalls := 0 }

/-- `Get`/`Post` → `PKIOperation` → response, for a provisioner whose controllers were built from
    its configuration. -/
def pkiOperation (F : Facts) (c : Config) (q : Req) : M Result :=
  if !q.httpOk then .val refused
  else match q.mt with
    | none => .val refused
    | some t =>
      match parse F q with
      | .rejected => .val refused
      | _ =>
        match decrypt F q t with
        | .crash => .crash
        | .val .err => .val refused
        | .val .nothing => .crash        -- `msg.CSRReqMessage.CSR` on the nil embedded pointer
        | .val .csr =>
          if mustCheck F t then
            match validateChallenge c q.cp with
            | (false, n) => .val { out := .reply failureReply, hookCalls := n, stored := 0, notifyCalls := 0 }
            | (true, n) => .val (signCSR q n (runNotify (notifyHooks c)))
          else .val (signCSR q 0 (runNotify (notifyHooks c)))

/-! ### the provisioner object and `Init`

  `provisioner.SCEP.Init` builds the two controllers from `Options.Webhooks`; the handlers read only
  the controllers. `Init` runs more than once on the same object (the integration tests and embedding
  code initialise a provisioner before handing it to `authority.New`, which initialises it again). -/

/-- The state of a `provisioner.SCEP` object the PKI operation depends on. -/
structure Prov where
  /-- `ChallengePassword`, `Options.Webhooks` -/
  cfg : Config
  /-- `challengeValidationController.webhooks` -/
  chal : List Hook
  /-- `notificationController.webhooks` -/
  notif : List Hook
  deriving Repr, DecidableEq

/-- a freshly unmarshalled provisioner: no controllers yet -/
def Prov.new (c : Config) : Prov := { cfg := c, chal := [], notif := [] }

/-- `(*SCEP).Init`: fresh lists for both controllers, `Options.Webhooks` untouched. -/
def init (p : Prov) : Prov := { p with chal := challengeHooks p.cfg, notif := notifyHooks p.cfg }

def initN : Nat → Prov → Prov
  | 0, p => p
  | n + 1, p => initN n (init p)

/-- The PKI operation as the handlers run it: on the controllers of the provisioner object. -/
def pkiOperationP (F : Facts) (p : Prov) (q : Req) : M Result :=
  if !q.httpOk then .val refused
  else match q.mt with
    | none => .val refused
    | some t =>
      match parse F q with
      | .rejected => .val refused
      | _ =>
        match decrypt F q t with
        | .crash => .crash
        | .val .err => .val refused
        | .val .nothing => .crash
        | .val .csr =>
          if mustCheck F t then
            match validateWith p.cfg.secret p.chal q.cp with
            | (false, n) => .val { out := .reply failureReply, hookCalls := n, stored := 0, notifyCalls := 0 }
            | (true, n) => .val (signCSR q n (runNotify p.notif))
          else .val (signCSR q 0 (runNotify p.notif))

/-! ### the property's vocabulary -/

/-- The reply or the database carries a certificate. -/
def Result.carriesCert (r : Result) : Bool :=
  decide (r.stored > 0) ||
  match r.out with
  | .http500 => false
  | .reply rp => decide (rp.inner > 0) || decide (rp.outer > 0) || rp.status == .success

/-- The decrypted request carries a challenge that the configured secret or webhook accepts. -/
def Accepted (c : Config) (q : Req) : Prop :=
  match selectValidationMethod c with
  | .webhook => (∀ h ∈ challengeHooks c, h.res ≠ .error) ∧ (∃ h ∈ challengeHooks c, h.res = .allow)
  | _ => q.cp = c.secret

end Verif.SCEP
