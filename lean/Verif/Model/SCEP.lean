import Verif.Model.Common
/-!
  Model of the SCEP PKI operation (C15).  Core Lean only.

  What each definition models (all in /repo unless a library is named):

  * `Facts`, `asCoded`      the three message-type dispatches, as *data*:
                            - github.com/smallstep/scep `(*PKIMessage).parseMessageType` (library parser),
                            - scep/authority.go `(*Authority).DecryptPKIEnvelope` (switch on `msg.MessageType`),
                            - scep/api/api.go `PKIOperation` (the `if` in front of `auth.ValidateChallenge`).
                            `asCoded` is compared on every run with the sets the harness extracts from the
                            current source with go/ast (first line of the correspondence, `facts`).
  * `parse`                 `smallscep.ParsePKIMessage`: pkcs7 parse+verify, the transactionID and messageType
                            attributes (input fields), then `parseMessageType`.
  * `decrypt`               `DecryptPKIEnvelope`: inner pkcs7 parse, decryption (input fields), the dispatch.
                            Before commit 1587447 a `CertRep` request reached
                            `msg.CertRepMessage.Certificate = certs[0]` where `msg.CertRepMessage` is the nil
                            embedded pointer of `scep.PKIMessage` (and `certs` may be empty): `crash`
                            (tables `asCodedBefore`); now that case returns an error.
  * `challengeHooks`        `newChallengeValidationController` (kind SCEPCHALLENGE, certificate type X509/ALL/unset).
  * `selectValidationMethod`, `validateChallenge`, `runHooks`
                            authority/provisioner/scep.go `selectValidationMethod`, `ValidateChallenge`
                            (`subtle.ConstantTimeCompare` = bytewise equality of the two strings; note that the
                            `default:` branch also serves method `none`, with the empty secret),
                            `challengeValidationController.Validate` (every hook is called, in order, until one
                            fails; accepted iff none failed and at least one allowed).
  * `signCSR`               scep/authority.go `SignCSR`: the authority's signing decision is an input field
                            (`signOk`); the reply is enveloped for every certificate the request carried
                            (`certs`, RSA or not: `encOk`); a certificate is stored as soon as signing succeeded.
  * `Prov`, `init`, `initN`, `pkiOperationP`
                            the `provisioner.SCEP` object: `Init` (possibly several times) builds the challenge
                            and notification controllers from `Options.Webhooks`; the handlers run on the controllers.
  * `notifyHooks`, `runNotify`
                            `newNotificationController`, `notificationController.Success/Failure` (call count).
  * `failureReply`, `successReply`
                            `CreateFailureResponse` / the CertRep assembled at the end of `SignCSR`.
  * `pkiOperation`          scep/api/api.go `Get`/`Post` → `PKIOperation` → `writeResponse`/`fail`.

  Not modelled: provisioner lookup, `selectDecrypter`/`selectSigner` failing (the harness CA always has both),
  the payload of notification webhooks, the text of `failInfoText`, templates and the
  contents of the issued certificate.
-/
namespace Verif.SCEP
open Verif

/-- `smallscep.MessageType` is a Go string: its bytes. -/
abbrev MsgType := Str

def tCertRep : MsgType := [51]          -- "3"
def tRenewalReq : MsgType := [49, 55]   -- "17"
def tUpdateReq : MsgType := [49, 56]    -- "18"
def tPKCSReq : MsgType := [49, 57]      -- "19"
def tCertPoll : MsgType := [50, 48]     -- "20"
def tGetCert : MsgType := [50, 49]      -- "21"
def tGetCRL : MsgType := [50, 50]       -- "22"

/-- The message-type dispatch tables of the three functions (regenerated from source per run). -/
structure Facts where
  /-- parser: case that builds a `CertRepMessage` and can `return nil` -/
  parsedCertRep : List MsgType
  /-- parser: case that reads the senderNonce and can `return nil` -/
  parsedCsr : List MsgType
  /-- parser: cases that only return an error (the `default:` does too) -/
  parsedRej : List MsgType
  /-- DecryptPKIEnvelope: case assigning `msg.CertRepMessage.Certificate` -/
  decCertRep : List MsgType
  /-- DecryptPKIEnvelope: case that sets `msg.CSRReqMessage` (T_csr) -/
  decCsr : List MsgType
  /-- DecryptPKIEnvelope: cases that only return an error -/
  decErr : List MsgType
  /-- `true` if a `default:` returns an error; `false`: other types fall out of the switch to `return nil` -/
  decDefaultErr : Bool
  /-- PKIOperation: the message types in the condition in front of `ValidateChallenge` (T_checked) -/
  checked : List MsgType
  /-- `true` if `ValidateChallenge` is called unconditionally -/
  checkAll : Bool
  deriving Repr, DecidableEq

/-- The tree as it stands (after the two `fix:` commits 3a8a2fc and 1587447). Lists are sorted as the
    extractor prints them (Go's `sort.Strings`, hence "3" last). -/
def asCoded : Facts where
  parsedCertRep := [tCertRep]
  parsedCsr := [tRenewalReq, tUpdateReq, tPKCSReq]
  parsedRej := [tCertPoll, tGetCert, tGetCRL]
  decCertRep := []
  decCsr := [tRenewalReq, tUpdateReq, tPKCSReq]
  decErr := [tCertPoll, tGetCert, tGetCRL, tCertRep]
  decDefaultErr := false
  checked := [tRenewalReq, tUpdateReq, tPKCSReq]
  checkAll := false

/-- Historic: the tables of the tree before 3a8a2fc (D4: `UpdateReq` not in the challenge condition)
    and 1587447 (D5: the `CertRep` case of `DecryptPKIEnvelope` wrote through a nil pointer). -/
def asCodedBefore : Facts where
  parsedCertRep := [tCertRep]
  parsedCsr := [tRenewalReq, tUpdateReq, tPKCSReq]
  parsedRej := [tCertPoll, tGetCert, tGetCRL]
  decCertRep := [tCertRep]
  decCsr := [tRenewalReq, tUpdateReq, tPKCSReq]
  decErr := [tCertPoll, tGetCert, tGetCRL]
  decDefaultErr := false
  checked := [tRenewalReq, tPKCSReq]
  checkAll := false

/-- The repair of D4 in general form: validate the challenge for every type that yields a CSR. -/
def withCheckOnEveryCsrType (F : Facts) : Facts := { F with checked := F.decCsr }

/-- The repair of D5 in general form: the `CertRep` case of `DecryptPKIEnvelope` returns an error. -/
def withCertRepRefused (F : Facts) : Facts :=
  { F with decCertRep := [], decErr := F.decErr ++ F.decCertRep }

/-! ### request and configuration -/

/-- A nonce-like signed attribute: missing / does not unmarshal, present but empty, present. -/
inductive Attr where
  | none | empty | ok
  deriving Repr, DecidableEq

/-- What the decrypted envelope is, seen through the calls of the CSR branch:
    `x509.ParseCertificateRequest`, `CheckSignature`, `ParseChallengePassword`. -/
inductive Env where
  | csr       -- all three succeed
  | badsig    -- parses, signature does not verify
  | nocsr     -- does not parse as a certificate request
  | cperr     -- challenge password attribute does not parse
  deriving Repr, DecidableEq

structure Req where
  /-- `decodeRequest` produced the message bytes (base64 / body read) -/
  httpOk : Bool
  /-- `pkcs7.Parse` and `p7.Verify` succeed on the message -/
  p7Ok : Bool
  /-- the transactionID attribute unmarshals -/
  tidOk : Bool
  /-- the messageType attribute (`none`: missing or does not unmarshal) -/
  mt : Option MsgType
  sn : Attr
  /-- the pkiStatus attribute -/
  st : Option Str
  rn : Attr
  fi : Attr
  /-- `pkcs7.Parse(msg.P7.Content)` succeeds -/
  innerOk : Bool
  /-- decryption with the decrypter `selectDecrypter` selects succeeds (`false` when the selection
      itself fails; see `withSelectedDecrypter`) -/
  decOk : Bool
  env : Env
  /-- `ParseChallengePassword(envelope)` ("" when the attribute is absent) -/
  cp : Str
  /-- `smallscep.CACerts(envelope)`: number of certificates, `none` on error -/
  degen : Option Nat
  /-- the authority signs this CSR (`SignWithContext` succeeds) -/
  signOk : Bool
  /-- the certificates carried in the request's SignedData (`msg.P7.Certificates`), in order:
      `true` for an RSA key (`pkcs7.Encrypt` refuses any other recipient) -/
  certs : List Bool
  /-- position in `certs` of the certificate whose key signed the request (`p7.GetOnlySigner`) -/
  signer : Option Nat
  deriving Repr, DecidableEq

/-- `pkcs7.Encrypt` to the certificates of the request succeeds: every one of them is RSA. -/
def Req.encOk (q : Req) : Bool := q.certs.all id

inductive HookKind where
  | scep | notify
  | other     -- ENRICHING, AUTHORIZING: a kind, never consulted for the challenge
  | unknown   -- NO_KIND or a string that is no kind at all ("scepchallenge"): `Init` refuses it
  deriving Repr, DecidableEq

inductive CertType where
  | x509 | ssh | all | unset
  | unknown   -- a non-empty string that is no certificate type ("x509"): `Init` refuses it
  deriving Repr, DecidableEq

inductive HookRes where
  | allow | deny | error
  deriving Repr, DecidableEq

/-- One HTTP exchange with a webhook endpoint, as `Webhook.DoWithContext` classifies it:
    2xx/3xx with a JSON body saying allow / not allow, a status ≥ 400 below 500, a status ≥ 500,
    or a body that is not JSON. -/
inductive Attempt where
  | allow | deny | s4xx | s5xx | badJson
  deriving Repr, DecidableEq

/-- `Webhook.DoWithContext`: one retry (after a pause) when the first exchange ends in a 5xx;
    any status ≥ 400 that is not retried and any undecodable body is an error.
    Result and number of HTTP requests made. -/
def doWebhook (first second : Attempt) : HookRes × Nat :=
  match first with
  | .allow => (.allow, 1)
  | .deny => (.deny, 1)
  | .s4xx => (.error, 1)
  | .badJson => (.error, 1)
  | .s5xx =>
    match second with
    | .allow => (.allow, 2)
    | .deny => (.deny, 2)
    | _ => (.error, 2)

structure Hook where
  kind : HookKind
  ct : CertType
  /-- what the endpoint answers to the first request for this challenge, and to a second one -/
  first : Attempt
  second : Attempt
  deriving Repr, DecidableEq

/-- what the webhook call yields for this request's challenge -/
def Hook.res (h : Hook) : HookRes := (doWebhook h.first h.second).1

/-- HTTP requests the webhook call makes (1, or 2 after a 5xx) -/
def Hook.tries (h : Hook) : Nat := (doWebhook h.first h.second).2

/-- The provisioner as configured: `ChallengePassword` and `Options.Webhooks` (every kind, in order). -/
structure Config where
  /-- `ChallengePassword` of the provisioner -/
  secret : Str
  hooks : List Hook
  deriving Repr, DecidableEq

/-! ### parser -/

inductive Parsed where
  | rejected
  | certRep
  | csrReq
  deriving Repr, DecidableEq

def statusSuccess : Str := [48]
def statusFailure : Str := [50]
def statusPending : Str := [51]

/-- `(*PKIMessage).parseMessageType` -/
def parseMessageType (F : Facts) (q : Req) (t : MsgType) : Parsed :=
  if t ∈ F.parsedCertRep then
    match q.st with
    | none => .rejected
    | some st =>
      if q.rn ≠ .ok then .rejected
      else if st = statusSuccess then .certRep
      else if st = statusFailure then (if q.fi = .ok then .certRep else .rejected)
      else if st = statusPending then .certRep
      else .rejected
  else if t ∈ F.parsedCsr then
    (if q.sn = .ok then .csrReq else .rejected)
  else .rejected   -- the error-only cases and `default:`

/-- `smallscep.ParsePKIMessage` -/
def parse (F : Facts) (q : Req) : Parsed :=
  if !q.p7Ok then .rejected
  else if !q.tidOk then .rejected
  else match q.mt with
    | none => .rejected
    | some t => parseMessageType F q t

/-! ### DecryptPKIEnvelope -/

inductive Decrypted where
  | err        -- an error is returned (the request is answered with HTTP 500)
  | csr        -- `msg.CSRReqMessage` is set
  | nothing    -- returned nil without setting anything (fell out of the switch)
  deriving Repr, DecidableEq

def decrypt (F : Facts) (q : Req) (t : MsgType) : M Decrypted :=
  if !q.innerOk then .val .err
  else if !q.decOk then .val .err
  else if t ∈ F.decCertRep then
    match q.degen with
    | none => .val .err
    | some _ => .crash   -- certs[0] of an empty list, or the write through the nil *CertRepMessage
  else if t ∈ F.decCsr then
    match q.env with
    | .csr => .val .csr
    | _ => .val .err
  else if t ∈ F.decErr then .val .err
  else if F.decDefaultErr then .val .err
  else .val .nothing

/-! ### challenge validation -/

def isChallengeHook (h : Hook) : Bool :=
  h.kind == .scep && (h.ct == .x509 || h.ct == .all || h.ct == .unset)

/-- `newChallengeValidationController` -/
def challengeHooks (c : Config) : List Hook := c.hooks.filter isChallengeHook

def isNotifyHook (h : Hook) : Bool :=
  h.kind == .notify && (h.ct == .x509 || h.ct == .all || h.ct == .unset)

/-- `newNotificationController` -/
def notifyHooks (c : Config) : List Hook := c.hooks.filter isNotifyHook

inductive Method where
  | none | static | webhook
  deriving Repr, DecidableEq

/-- `selectValidationMethod` on the fields it reads: the secret and the challenge controller's list. -/
def methodOf (secret : Str) (chal : List Hook) : Method :=
  if chal.length > 0 then .webhook
  else if secret ≠ [] then .static
  else .none

def selectValidationMethod (c : Config) : Method :=
  if (challengeHooks c).length > 0 then .webhook
  else if c.secret ≠ [] then .static
  else .none

/-- `challengeValidationController.Validate`: `(none, calls)` when a hook failed,
    `(some allows, calls)` otherwise. -/
def runHooks : List Hook → Nat → Nat → Option Nat × Nat
  | [], allows, calls => (some allows, calls)
  | h :: hs, allows, calls =>
    match h.res with
    | .error => (none, calls + 1)
    | .allow => runHooks hs (allows + 1) (calls + 1)
    | .deny => runHooks hs allows (calls + 1)

/-- HTTP requests `Validate` makes: those of every webhook consulted (up to and including the
    first that fails). -/
def hooksHttp : List Hook → Nat
  | [] => 0
  | h :: hs => match h.res with
    | .error => h.tries
    | _ => h.tries + hooksHttp hs

/-- `(*SCEP).ValidateChallenge`: (accepted, webhook calls made). -/
def validateChallenge (c : Config) (challenge : Str) : Bool × Nat :=
  match selectValidationMethod c with
  | .webhook =>
    match runHooks (challengeHooks c) 0 0 with
    | (none, n) => (false, n)
    | (some a, n) => (decide (a > 0), n)
  | _ => (decide (c.secret = challenge), 0)   -- `default:` static *and* none

/-- `ValidateChallenge` on the fields it reads (secret, challenge controller's list). -/
def validateWith (secret : Str) (chal : List Hook) (challenge : Str) : Bool × Nat :=
  match methodOf secret chal with
  | .webhook =>
    match runHooks chal 0 0 with
    | (none, n) => (false, n)
    | (some a, n) => (decide (a > 0), n)
  | _ => (decide (secret = challenge), 0)

/-- `notificationController.Success` / `.Failure`: every hook is called in order until one fails
    (the caller ignores the error): number of calls made. -/
def runNotify : List Hook → Nat
  | [] => 0
  | h :: hs => match h.res with
    | .error => 1
    | _ => 1 + runNotify hs

/-! ### replies -/

inductive Status where
  | success | failure
  deriving Repr, DecidableEq

structure Reply where
  status : Status
  /-- failInfo attribute (2 = badRequest) -/
  failInfo : Option Nat
  /-- certificates inside the (encrypted) degenerate content -/
  inner : Nat
  /-- issued certificates in the clear next to the signer certificate -/
  outer : Nat
  /-- the content is an EnvelopedData -/
  encrypted : Bool
  /-- positions (in the request's certificate list) of the certificates the content is enveloped for -/
  recipients : List Nat
  /-- signed with the SCEP signer selected by `selectSigner` -/
  signedByCA : Bool
  deriving Repr, DecidableEq

inductive Outcome where
  | http500
  | reply (r : Reply)
  deriving Repr, DecidableEq

structure Result where
  out : Outcome
  /-- calls made to challenge-validation webhooks -/
  hookCalls : Nat
  /-- certificates stored by the authority -/
  stored : Nat
  /-- calls made to notification webhooks -/
  notifyCalls : Nat
  deriving Repr, DecidableEq

/-- `(*Authority).CreateFailureResponse` with `smallscep.BadRequest` -/
def failureReply : Reply :=
  { status := .failure, failInfo := some 2, inner := 0, outer := 0, encrypted := false, recipients := [],
    signedByCA := true }

/-- the CertRep built at the end of `SignCSR`: the degenerate certificate is enveloped for *every*
    certificate the request carried (`a.encrypt(deg, msg.P7.Certificates, …)`). -/
def successReply (q : Req) : Reply :=
  { status := .success, failInfo := none, inner := 1, outer := 1, encrypted := true,
    recipients := List.range q.certs.length, signedByCA := true }

/-- `SignCSR` followed by PKIOperation's handling of its result (`NotifyFailure` / `NotifySuccess`:
    `nf` = calls the notification controller makes). -/
def signCSR (q : Req) (calls nf : Nat) : Result :=
  if !q.signOk then { out := .reply failureReply, hookCalls := calls, stored := 0, notifyCalls := nf }
  else if !q.encOk then { out := .reply failureReply, hookCalls := calls, stored := 1, notifyCalls := nf }
  else { out := .reply (successReply q), hookCalls := calls, stored := 1, notifyCalls := nf }

def mustCheck (F : Facts) (t : MsgType) : Bool := F.checkAll || decide (t ∈ F.checked)

def refused : Result := { out := .http500, hookCalls := 0, stored := 0, notifyCalls := 0 }

/-- `Get`/`Post` → `PKIOperation` → response, for a provisioner whose controllers were built from
    its configuration. -/
def pkiOperation (F : Facts) (c : Config) (q : Req) : M Result :=
  if !q.httpOk then .val refused
  else match q.mt with
    | none => .val refused
    | some t =>
      match parse F q with
      | .rejected => .val refused
      | _ =>
        match decrypt F q t with
        | .crash => .crash
        | .val .err => .val refused
        | .val .nothing => .crash        -- `msg.CSRReqMessage.CSR` on the nil embedded pointer
        | .val .csr =>
          if mustCheck F t then
            match validateChallenge c q.cp with
            | (false, n) => .val { out := .reply failureReply, hookCalls := n, stored := 0, notifyCalls := 0 }
            | (true, n) => .val (signCSR q n (runNotify (notifyHooks c)))
          else .val (signCSR q 0 (runNotify (notifyHooks c)))

/-! ### the provisioner object and `Init`

  `provisioner.SCEP.Init` builds the two controllers from `Options.Webhooks`; the handlers read only
  the controllers. `Init` runs more than once on the same object (the integration tests and embedding
  code initialise a provisioner before handing it to `authority.New`, which initialises it again). -/

/-- The state of a `provisioner.SCEP` object the PKI operation depends on. -/
structure Prov where
  /-- `ChallengePassword`, `Options.Webhooks` -/
  cfg : Config
  /-- `challengeValidationController.webhooks` -/
  chal : List Hook
  /-- `notificationController.webhooks` -/
  notif : List Hook
  deriving Repr, DecidableEq

/-- a freshly unmarshalled provisioner: no controllers yet -/
def Prov.new (c : Config) : Prov := { cfg := c, chal := [], notif := [] }

/-- `(*SCEP).Init`: fresh lists for both controllers, `Options.Webhooks` untouched. -/
def init (p : Prov) : Prov := { p with chal := challengeHooks p.cfg, notif := notifyHooks p.cfg }

def initN : Nat → Prov → Prov
  | 0, p => p
  | n + 1, p => initN n (init p)

/-- The PKI operation as the handlers run it: on the controllers of the provisioner object. -/
def pkiOperationP (F : Facts) (p : Prov) (q : Req) : M Result :=
  if !q.httpOk then .val refused
  else match q.mt with
    | none => .val refused
    | some t =>
      match parse F q with
      | .rejected => .val refused
      | _ =>
        match decrypt F q t with
        | .crash => .crash
        | .val .err => .val refused
        | .val .nothing => .crash
        | .val .csr =>
          if mustCheck F t then
            match validateWith p.cfg.secret p.chal q.cp with
            | (false, n) => .val { out := .reply failureReply, hookCalls := n, stored := 0, notifyCalls := 0 }
            | (true, n) => .val (signCSR q n (runNotify p.notif))
          else .val (signCSR q 0 (runNotify p.notif))

/-! ### the HTTP layer: routes, provisioner lookup, operations, key selection, GetCACert / GetCACaps

  scep/api/api.go `route`, `lookupProvisioner`, `Get`, `Post`, `decodeRequest`, `GetCACert`,
  `GetCACaps`, `writeResponse`/`fail`; scep/authority.go `selectDecrypter`, `selectSigner`,
  `GetCACertificates`, `GetCACaps`; ca/ca.go mounts `scepAPI.Route` under "/scep" on the TLS mux and on
  the insecure mux, both behind chi's `middleware.GetHead`. -/

/-- a certificate with (possibly) its private key operation, as the selection switches see it:
    is the certificate non-nil, is the decrypter / signer non-nil -/
structure KeyPair where
  cert : Bool
  key : Bool
  deriving Repr, DecidableEq

inductive Which where
  | prov   -- the provisioner's own decrypter / signer
  | dflt   -- the authority's (the CA intermediate)
  deriving Repr, DecidableEq

/-- `selectDecrypter` and `selectSigner` (the same two switches): the provisioner's pair when both
    halves are there, an error when exactly one half is, otherwise the default pair unless exactly one
    of its halves is missing. -/
def selectPair (prov dflt : KeyPair) : Option Which :=
  if prov.cert && prov.key then some .prov
  else if prov.cert != prov.key then none
  else if dflt.cert != dflt.key then none
  else some .dflt

/-- What the handlers read of the SCEP authority and of the provisioner besides the challenge. -/
structure Server where
  /-- `GetDecrypter()` / `GetSigner()`: one certificate, one key for both -/
  provPair : KeyPair
  /-- `decrypterCertificate`, `defaultDecrypter` -/
  dfltDecrypter : KeyPair
  /-- `signerCertificate`, `defaultSigner` -/
  dfltSigner : KeyPair
  nInter : Nat
  nRoots : Nat
  excludeIntermediate : Bool
  includeRoot : Bool
  /-- the provisioner's `Capabilities` -/
  caps : List Str
  /-- `GetContentEncryptionAlgorithm()`: the pkcs7 identifier `SignCSR` envelopes the reply with -/
  encAlg : Nat
  deriving Repr, DecidableEq

inductive CertTag where
  | provDecrypter
  | inter (i : Nat)
  | root (i : Nat)
  deriving Repr, DecidableEq

/-- `(*Authority).GetCACertificates` -/
def caCertificates (S : Server) : List CertTag :=
  let c0 : List CertTag := if S.provPair.cert then [.provDecrypter] else []
  let c1 := if !S.excludeIntermediate || c0.isEmpty then c0 ++ (List.range S.nInter).map .inter else c0
  if S.includeRoot then c1 ++ (List.range S.nRoots).map .root else c1

/-- `defaultCapabilities` -/
def defaultCapabilities : List Str :=
  [s "Renewal", s "SHA-1", s "SHA-256", s "AES", s "DES3", s "SCEPStandard", s "POSTPKIOperation"]

/-- `(*Authority).GetCACaps` -/
def caCaps (S : Server) : List Str := if S.caps.isEmpty then defaultCapabilities else S.caps

/-- the certificate a key pair choice stands for, as `GetCACert` names it (the default decrypter
    certificate is the first intermediate: `decrypterCertificate: opts.SignerCert`) -/
def tagOf : Which → CertTag
  | .prov => .provDecrypter
  | .dflt => .inter 0

inductive Meth where
  | get | post | head | other
  deriving Repr, DecidableEq

/-- the path below the mount point: nothing, "/{name}", "/{name}/…" -/
inductive PathShape where
  | root | name | nameRest
  deriving Repr, DecidableEq

inductive HandlerId where
  | get | post
  deriving Repr, DecidableEq

/-- one `r.MethodFunc(method, pattern, lookupProvisioner(handler))` of `route` -/
structure RouteEntry where
  meth : Meth
  /-- `true`: "/{provisionerName}/*", `false`: "/{provisionerName}" -/
  star : Bool
  handler : HandlerId
  deriving Repr, DecidableEq

/-- The route table of scep/api `route` (re-extracted from the source on every run). -/
def routesAsCoded : List RouteEntry :=
  [⟨.get, true, .get⟩, ⟨.get, false, .get⟩, ⟨.post, true, .post⟩, ⟨.post, false, .post⟩]

/-- ca/ca.go `Init`: the routers on which `scepAPI.Route` is mounted and the prefix (the TLS server's
    `mux` and the insecure server's `insecureMux`, same function, same prefix), and the routers that
    use chi's `middleware.GetHead` (re-extracted from the source on every run). `serve` is the model
    of either. -/
def mountsAsCoded : List (String × String) := [("insecureMux", "/scep"), ("mux", "/scep")]
def getHeadAsCoded : List String := ["insecureMux", "mux"]

def RouteEntry.matchesPath (e : RouteEntry) : PathShape → Bool
  | .root => false
  | .name => !e.star
  | .nameRest => e.star

inductive Routed where
  | notFound | notAllowed | handler (h : HandlerId)
  deriving Repr, DecidableEq

/-- chi with `middleware.GetHead`: a HEAD request for which no HEAD route exists is routed to the GET
    route (the request keeps its method). -/
def routeOf (R : List RouteEntry) (m : Meth) (p : PathShape) : Routed :=
  let cands := R.filter (·.matchesPath p)
  if cands.isEmpty then .notFound
  else
    let m' := if m = .head ∧ ¬ (cands.any (·.meth == .head)) then Meth.get else m
    match cands.find? (·.meth == m') with
    | some e => .handler e.handler
    | none => .notAllowed

inductive Lookup where
  | scep        -- `LoadProvisionerByName` found a SCEP provisioner
  | otherType   -- found a provisioner of another type
  | missing
  | badEscape   -- `url.PathUnescape` failed
  deriving Repr, DecidableEq

inductive Op where
  | none | caCert | caCaps | pki | other
  deriving Repr, DecidableEq

structure HttpReq where
  meth : Meth
  path : PathShape
  lookup : Lookup
  /-- `url.ParseQuery(r.URL.RawQuery)` succeeds -/
  queryOk : Bool
  /-- the `operation` query parameter ("" = none) -/
  op : Op
  /-- the envelope decrypts under the provisioner's decrypter / under the authority's -/
  decProv : Bool
  decDflt : Bool
  deriving Repr, DecidableEq

inductive HttpOut where
  | status404
  | status405
  | fail500
  /-- GetCACert: `ra = true` for the degenerate PKCS#7 ("application/x-x509-ca-ra-cert") -/
  | caCert (ra : Bool) (certs : List CertTag)
  | caCaps (caps : List Str)
  /-- a CertRep, and the key pair it is signed with -/
  | pkiReply (r : Reply) (signer : Which)
  deriving Repr, DecidableEq

structure Served where
  out : HttpOut
  hookCalls : Nat
  /-- HTTP requests made to challenge webhooks (retries included) -/
  hookHttp : Nat
  stored : Nat
  notifyCalls : Nat
  deriving Repr, DecidableEq

def Served.plain (o : HttpOut) : Served := { out := o, hookCalls := 0, hookHttp := 0, stored := 0, notifyCalls := 0 }

/-- `decodeRequest` followed by the operation switch of `Get` / `Post`: which operation runs
    (`none`: the request is refused with 500). -/
def dispatchOp (hd : HandlerId) (h : HttpReq) : Option Op :=
  if !h.queryOk then none
  else if h.op = .none then none
  else match hd, h.meth with
    | .get, .get =>
      (match h.op with
       | .caCert => some .caCert
       | .caCaps => some .caCaps
       | .pki => some .pki
       | _ => none)
    | .post, .post => (if h.op = .pki then some .pki else none)
    | _, _ => none     -- `decodeRequest`: "unsupported method" (a HEAD request routed to `Get`)

/-- The request as the PKI operation sees it once the decrypter is selected. -/
def withSelectedDecrypter (S : Server) (h : HttpReq) (q : Req) : Req :=
  { q with decOk := match selectPair S.provPair S.dfltDecrypter with
      | some .prov => h.decProv
      | some .dflt => h.decDflt
      | none => false }

/-- `GetCACert` + `writeResponse` -/
def caCertAnswer (S : Server) : Served :=
  if (caCertificates S).isEmpty then .plain .fail500
  else .plain (.caCert (decide ((caCertificates S).length > 1)) (caCertificates S))

/-- what the client receives for the outcome of the PKI operation: a CertRep needs `selectSigner`
    to succeed (in `SignCSR` and in `CreateFailureResponse` alike) -/
def pkiOut (S : Server) : Outcome → HttpOut
  | .http500 => .fail500
  | .reply rp =>
    match selectPair S.provPair S.dfltSigner with
    | none => .fail500
    | some w => .pkiReply rp w

def finishPki (S : Server) (p : Prov) (r : Result) : Served :=
  { out := pkiOut S r.out, hookCalls := r.hookCalls,
    hookHttp := if r.hookCalls = 0 then 0 else hooksHttp p.chal,
    stored := r.stored, notifyCalls := r.notifyCalls }

/-- One HTTP request to "/scep/…" (TLS or insecure server alike). -/
def serve (F : Facts) (R : List RouteEntry) (S : Server) (p : Prov) (h : HttpReq) (q : Req) : M Served :=
  match routeOf R h.meth h.path with
  | .notFound => .val (.plain .status404)
  | .notAllowed => .val (.plain .status405)
  | .handler hd =>
    if h.lookup ≠ .scep then .val (.plain .fail500)      -- `lookupProvisioner`
    else match dispatchOp hd h with
      | some .caCert => .val (caCertAnswer S)
      | some .caCaps => .val (.plain (.caCaps (caCaps S)))
      | some .pki =>
        (match pkiOperationP F p (withSelectedDecrypter S h q) with
         | .crash => .crash
         | .val r => .val (finishPki S p r))
      | _ => .val (.plain .fail500)

/-- The answer or the database carries a certificate issued by this request. -/
def Served.carriesCert (r : Served) : Bool :=
  decide (r.stored > 0) ||
  match r.out with
  | .pkiReply rp _ => decide (rp.inner > 0) || decide (rp.outer > 0) || rp.status == .success
  | _ => false

/-! ### configuration formats: ca.json ⇄ linkedca (admin database), JSON, defaults

  authority/provisioners.go `ProvisionerToLinkedca` (case `*provisioner.SCEP`),
  `ProvisionerToCertificates` (case `ProvisionerDetails_SCEP`), `provisionerWebhookToLinkedca`,
  `webhookToCertificates`; `provisioner.SCEP.Init` defaults. A provisioner reaches the handlers
  through these conversions whenever the admin database is enabled: on the first start every ca.json
  provisioner is converted to linkedca and stored, on every (re)load and restart it is converted back. -/

/-- Everything of a SCEP provisioner's configuration the SCEP handlers depend on. -/
structure ProvCfg where
  cfg : Config
  forceCN : Bool
  caps : List Str
  includeRoot : Bool
  excludeIntermediate : Bool
  /-- `MinimumPublicKeyLength` (0 = not set) -/
  minKeyLen : Nat
  /-- `EncryptionAlgorithmIdentifier` -/
  encAlg : Nat
  /-- a decrypter certificate / a decrypter key (PEM) is configured -/
  decCert : Bool
  decKey : Bool
  deriving Repr, DecidableEq

/-- webhook certificate type through `Webhook_CertType_value[…]` and back through `.String()`:
    the unset type — and any string that is no type at all — comes back as "ALL" -/
def rtCertType : CertType → CertType
  | .unset => .all
  | .unknown => .all
  | c => c

def rtHook (h : Hook) : Hook := { h with ct := rtCertType h.ct }

/-- `ProvisionerToCertificates (ProvisionerToLinkedca p)`: every field comes back as it went, webhook
    certificate types normalised. -/
def roundTrip (p : ProvCfg) : ProvCfg :=
  { p with cfg := { p.cfg with hooks := p.cfg.hooks.map rtHook } }

/-- `k` conversions to the admin database and back -/
def roundTrips : Nat → ProvCfg → ProvCfg
  | 0, p => p
  | k + 1, p => roundTrips k (roundTrip p)

/-- `Webhook.validate` (called by `NewController` for every configured webhook): the kind is one of
    the names of `linkedca.Webhook_Kind` other than NO_KIND, the certificate type is empty or one of
    the names of `linkedca.Webhook_CertType`. -/
def Hook.wellSpelt (h : Hook) : Bool := h.kind != .unknown && h.ct != .unknown

/-- `Init`: the minimum key length defaults to 2048; identifiers outside 0..4 and webhooks with a
    mis-spelt kind or certificate type are refused (the provisioner is then not a usable SCEP
    provisioner: `none`; the collection holds a `provisioner.Uninitialized`). -/
def initDefaults (p : ProvCfg) : Option ProvCfg :=
  if !(p.cfg.hooks.all Hook.wellSpelt) then none
  else if p.encAlg > 4 then none
  else if p.minKeyLen % 8 ≠ 0 then none
  else some { p with minKeyLen := if p.minKeyLen = 0 then 2048 else p.minKeyLen }

/-! #### the provisioner's own key material (`Init`: `DecrypterKeyPEM`, `DecrypterKeyURI`, `DecrypterCertificate`) -/

/-- Which key (an opaque identity) each of the three configuration fields holds: the key the
    decrypter certificate certifies, the key in `decrypterKeyPEM`, the key `decrypterKey` (a KMS URI)
    names. -/
structure KeyCfg where
  cert : Option Nat
  pem : Option Nat
  uri : Option Nat
  deriving Repr, DecidableEq

/-- What `Init` leaves in the provisioner: `decrypter`, `signer`, `decrypterCertificate`
    (= `signerCertificate`). -/
structure KeyState where
  decrypter : Option Nat
  signer : Option Nat
  cert : Option Nat
  deriving Repr, DecidableEq

/-- `Init`: the PEM key, when present, becomes decrypter and signer; the URI key, when present,
    becomes decrypter and signer (it wins over the PEM); then the final validation: a decrypter needs
    a certificate, and the certificate must certify the decrypter's key (`none`: `Init` fails). -/
def initKeys (k : KeyCfg) : Option KeyState :=
  let afterPem : Option Nat × Option Nat := (k.pem, k.pem)
  let (d, sg) : Option Nat × Option Nat :=
    match k.uri with
    | some u => (some u, some u)
    | none => afterPem
  match d with
  | none => some { decrypter := none, signer := sg, cert := k.cert }
  | some dk =>
    match k.cert with
    | none => none
    | some c => if dk = c then some { decrypter := d, signer := sg, cert := k.cert } else none

/-- the key pair the selection switches of the SCEP authority see -/
def KeyState.pair (st : KeyState) : KeyPair := { cert := st.cert.isSome, key := st.decrypter.isSome }

/-- the signature of a CertRep made with the provisioner's own pair verifies under the certificate
    the reply names (the decrypter certificate) iff the signing key is the certified key -/
def KeyState.signatureVerifies (st : KeyState) : Bool := st.signer == st.cert

/-- What `lookupProvisioner` finds for a name that resolves to this configuration: a provisioner
    `Init` refused is a `provisioner.Uninitialized`, not a `*provisioner.SCEP`. -/
def lookupOf (found : Lookup) (p : ProvCfg) : Lookup :=
  if found = .scep ∧ (initDefaults p).isNone then .otherType else found

/-- the same, taking the key material into account -/
def lookupOfKeys (found : Lookup) (p : ProvCfg) (k : KeyCfg) : Lookup :=
  if found = .scep ∧ (initKeys k).isNone then .otherType else lookupOf found p

/-- the field tables of the four conversion functions (destination field ← source expression),
    re-extracted from the source on every run -/
def toLinkedcaFields : List (String × String) :=
  [("ForceCn", "p.ForceCN"), ("Challenge", "p.ChallengePassword"), ("Capabilities", "p.Capabilities"),
   ("MinimumPublicKeyLength", "cast.Int32(p.MinimumPublicKeyLength)"), ("IncludeRoot", "p.IncludeRoot"),
   ("ExcludeIntermediate", "p.ExcludeIntermediate"),
   ("EncryptionAlgorithmIdentifier", "cast.Int32(p.EncryptionAlgorithmIdentifier)"),
   ("Decrypter.Certificate", "p.DecrypterCertificate"), ("Decrypter.Key", "p.DecrypterKeyPEM"),
   ("Decrypter.KeyUri", "p.DecrypterKeyURI"), ("Decrypter.KeyPassword", "[]byte(p.DecrypterKeyPassword)"),
   ("Webhooks", "webhooks")]

def toCertificatesFields : List (String × String) :=
  [("ID", "p.Id"), ("Type", "p.Type.String()"), ("Name", "p.Name"), ("ForceCN", "cfg.ForceCn"),
   ("ChallengePassword", "cfg.Challenge"), ("Capabilities", "cfg.Capabilities"), ("IncludeRoot", "cfg.IncludeRoot"),
   ("ExcludeIntermediate", "cfg.ExcludeIntermediate"), ("MinimumPublicKeyLength", "int(cfg.MinimumPublicKeyLength)"),
   ("EncryptionAlgorithmIdentifier", "int(cfg.EncryptionAlgorithmIdentifier)"), ("Claims", "claims"),
   ("Options", "options"), ("DecrypterCertificate", "decrypter.Certificate"), ("DecrypterKeyPEM", "decrypter.Key"),
   ("DecrypterKeyURI", "decrypter.KeyUri"), ("DecrypterKeyPassword", "string(decrypter.KeyPassword)")]

def webhookToLinkedcaFields : List (String × String) :=
  [("Id", "pwh.ID"), ("Name", "pwh.Name"), ("Url", "pwh.URL"),
   ("Kind", "linkedca.Webhook_Kind(linkedca.Webhook_Kind_value[pwh.Kind])"), ("Secret", "pwh.Secret"),
   ("DisableTlsClientAuth", "pwh.DisableTLSClientAuth"),
   ("CertType", "linkedca.Webhook_CertType(linkedca.Webhook_CertType_value[pwh.CertType])")]

/-- the shape of the two option converters `provisionerOptionsToLinkedca` / `optionsToCertificates`:
    the only path on which nothing is converted is `p == nil`; every webhook of `p.Webhooks` goes
    through the webhook conversion -/
def optionsToLinkedcaShape : String := "ret:p==nil;loop:p.Webhooks->provisionerWebhookToLinkedca"
def optionsToCertificatesShape : String := "loop:p.Webhooks->webhookToCertificates"

def webhookToCertificatesFields : List (String × String) :=
  [("ID", "wh.Id"), ("Name", "wh.Name"), ("URL", "wh.Url"), ("Kind", "wh.Kind.String()"), ("Secret", "wh.Secret"),
   ("DisableTLSClientAuth", "wh.DisableTlsClientAuth"), ("CertType", "wh.CertType.String()")]

/-! ### the running CA: two listeners, `Reload` (ca/ca.go `Run`, `Reload`)

  `Init` builds the TLS server and — when an insecure address is configured — the plain-HTTP server,
  both with the base context of the authority just built. `Reload` (SIGHUP) builds a new CA from the
  configuration file and hands the new servers to the running ones. -/

inductive Listener where
  | tls | insecure
  deriving Repr, DecidableEq

/-- what each listener of a running CA serves (`α`: the configuration / authority behind it) -/
structure Running (α : Type) where
  tls : α
  insecure : Option α

def caStart {α : Type} (cfg : α) (hasInsecure : Bool) : Running α :=
  { tls := cfg, insecure := if hasInsecure then some cfg else none }

/-- `(*CA).Reload`: `ca.insecureSrv.Reload(newCA.insecureSrv)` when there is an insecure server,
    `ca.srv.Reload(newCA.srv)` always -/
def caReload {α : Type} (new : α) (r : Running α) : Running α :=
  { tls := new, insecure := r.insecure.map fun _ => new }

def Running.served {α : Type} (r : Running α) : Listener → Option α
  | .tls => some r.tls
  | .insecure => r.insecure

/-- the servers `Reload` replaces, with the condition under which it does (re-extracted from the
    source on every run) -/
def reloadsAsCoded : List (String × String) :=
  [("insecureSrv", "ca.insecureSrv!=nil"), ("metricsSrv", "ca.metricsSrv!=nil"), ("srv", "")]

/-! ### the names of the issued certificate (scep/authority.go `SignCSR`, default leaf template)

  `SignCSR` collects `sans := DNSNames ++ EmailAddresses ++ IPAddresses ++ URIs` of the CSR (the common
  name when that is empty), hands them to `x509util.CreateTemplateData`, which classifies each string
  again (`CreateSANs`: an input here), and sets the subject from the CSR; the default leaf template
  emits exactly `.Subject` and `.SANs`; `forceCNOption` fills an empty common name with the first DNS
  name or refuses. -/

inductive NameKind where
  | dns | email | ip | uri
  deriving Repr, DecidableEq

structure CsrNames where
  cn : Str
  /-- the CSR's subject alternative names as `SignCSR` strings them, in its order, each with the
      class `x509util.CreateSANs` gives the string -/
  sans : List (NameKind × Str)
  /-- the class `CreateSANs` gives the common name (used only when there is no SAN) -/
  cnKind : NameKind
  deriving Repr, DecidableEq

structure Issued where
  cn : Str
  dns : List Str
  emails : List Str
  ips : List Str
  uris : List Str
  deriving Repr, DecidableEq

/-- the SANs handed to the template -/
def templateSans (n : CsrNames) : List (NameKind × Str) :=
  if n.sans.isEmpty then [(n.cnKind, n.cn)] else n.sans

def ofKind (k : NameKind) (l : List (NameKind × Str)) : List Str :=
  (l.filter (·.1 == k)).map (·.2)

/-- subject and names of the certificate (`none`: `forceCNOption` refuses, signing fails) -/
def issue (forceCN : Bool) (n : CsrNames) : Option Issued :=
  let t := templateSans n
  let dns := ofKind .dns t
  let cn? : Option Str :=
    if forceCN && n.cn.isEmpty then dns.head? else some n.cn
  cn?.map fun cn => { cn := cn, dns := dns, emails := ofKind .email t, ips := ofKind .ip t, uris := ofKind .uri t }

/-! ### the property's vocabulary -/

/-- The reply or the database carries a certificate. -/
def Result.carriesCert (r : Result) : Bool :=
  decide (r.stored > 0) ||
  match r.out with
  | .http500 => false
  | .reply rp => decide (rp.inner > 0) || decide (rp.outer > 0) || rp.status == .success

/-- The decrypted request carries a challenge that the configured secret or webhook accepts. -/
def Accepted (c : Config) (q : Req) : Prop :=
  match selectValidationMethod c with
  | .webhook => (∀ h ∈ challengeHooks c, h.res ≠ .error) ∧ (∃ h ∈ challengeHooks c, h.res = .allow)
  | _ => q.cp = c.secret

end Verif.SCEP
