import Verif.Model.Store
/-!
  C02 — one-time tokens.  Model of

  * /repo/authority/authorize.go `authorizeToken` as the four atomic steps of a request
      0 `getProvisionerFromToken`   (parse, look the provisioner up; failure ⇒ 401)
      1 issued-at check             (`!DisableIssuedAtCheck ∧ iat ≠ nil ∧ iat.Before(startTime)` ⇒ 401)
      2 `UseToken`                  (skipped under `NewContextWithSkipTokenReuse`; skipped when
                                     `GetTokenID` errs; else `db.UseToken(id, tok)`: `CmpAndSwap nil→tok`
                                     resp. `sync.Map.LoadOrStore`; not swapped ⇒ 401 "already used")
      3 the provisioner's `Authorize*` (validation of the token; input bit `valid`)
    and `Authority.UseToken` (`useKey`: id, or — when the id is empty — lower-case hex SHA-256 of the token's
    *signed payload* (`reuseKeyMaterial`, since c4bb6a3; of the presented string when it does not parse; before
    that commit always of the presented string: D12b));
  * the per-type `GetTokenID` of /repo/authority/provisioner/{jwk,x5c,sshpop,nebula,oidc,azure,
    aws,gcp,k8sSA,acme,scep}.go (`getTokenID`);
  * /repo/db/db.go `DB.UseToken` and /repo/db/simple.go `SimpleDB.UseToken` through `Store.casNil`;
    a restart keeps the table when the store is persistent and empties it otherwise
    (`SimpleDB.usedTokens` lives in process memory); `startTime` := the new start, truncated to
    the second by the caller (/repo/authority/authority.go `init`: `time.Now().Truncate(time.Second)`).

  Inputs computed by the harness with the same libraries: does the string parse, its claims
  (`jti`, `nonce`, `iat`), the SHA-256 of the presented string, "the provisioner lookup
  succeeds", "the provisioner's validation accepts".
-/
namespace Verif.OTT
open Verif Verif.Store

/-! ## per-type token id -/

inductive PType where
  | jwk | x5c | sshpop | nebula      -- claims.ID
  | oidc                             -- claims.Nonce
  | azure (tofuDisabled : Bool)      -- ErrAllowTokenReuse when TOFU is disabled, else sha256(xms_mirid)
  | aws (tofuDisabled : Bool)        -- validates first; sha256(token) when TOFU disabled, else instance hash
  | gcp (tofuDisabled : Bool)        -- sha256(token) when TOFU disabled, else instance hash
  | k8ssa | acme | scep              -- always an error
  deriving Repr, DecidableEq

/-- What the harness reports about one presented string. -/
structure Tok where
  parses : Bool            -- jose.ParseSigned and the unverified claims decode succeed
  jti : Str
  nonce : Str
  derived : Str            -- azure: hex sha256(xms_mirid); aws/gcp: hex sha256("<id>.<instance>")
  awsValid : Bool          -- AWS.authorizeToken(token) succeeded (GetTokenID validates first)
  sha : Str                -- lower-case hex SHA-256 of the presented string (what GCP / AWS without TOFU use as id)
  psha : Str               -- lower-case hex SHA-256 of the signed payload (of the presented string when it does not parse):
                           -- what `UseToken` falls back to for an empty id
  deriving Repr, DecidableEq

/-- Result of `prov.GetTokenID(token)`. -/
inductive IdR where
  | id (k : Str)
  | reuse          -- provisioner.ErrAllowTokenReuse
  | err            -- any other error
  deriving Repr, DecidableEq

def getTokenID : PType → Tok → IdR
  | .jwk, t | .x5c, t | .sshpop, t | .nebula, t => if t.parses then .id t.jti else .err
  | .oidc, t => if t.parses then .id t.nonce else .err
  | .azure d, t => if !t.parses then .err else if d then .reuse else .id t.derived
  | .aws d, t => if !t.awsValid then .err else if d then .id t.sha else .id t.derived
  | .gcp d, t => if !t.parses then .err else if d then .id t.sha else .id t.derived
  | .k8ssa, _ | .acme, _ | .scep, _ => .err

/-- What a provisioner's configuration says (ca.json or the admin database; /repo/authority/provisioners.go
    `ProvisionerToCertificates` must carry these fields over unchanged). -/
inductive PKind where
  | jwk | x5c | sshpop | nebula | oidc | azure | aws | gcp | k8ssa | acme | scep
  deriving Repr, DecidableEq

structure PCfg where
  kind : PKind
  disableTrustOnFirstUse : Bool
  disableCustomSANs : Bool       -- unrelated to token reuse; present because configurations carry it
  recordId : Str := []           -- the id of the provisioner's record in the admin database (empty: configured in ca.json);
                                 -- a new one whenever the record is created (migration on the first enableAdmin start, removal and
                                 -- re-creation through the admin API). Unrelated to token reuse: the derived ids of the cloud types are
                                 -- built from `GetIDForToken` ("gcp/<name>", "aws/<name>"), not from `GetID`
  deriving Repr, DecidableEq

/-- the token-id behaviour of a configured provisioner: only `disableTrustOnFirstUse` matters, and only
    for the three cloud-identity types -/
def ptypeOf (c : PCfg) : PType :=
  match c.kind with
  | .jwk => .jwk | .x5c => .x5c | .sshpop => .sshpop | .nebula => .nebula | .oidc => .oidc
  | .azure => .azure c.disableTrustOnFirstUse
  | .aws => .aws c.disableTrustOnFirstUse
  | .gcp => .gcp c.disableTrustOnFirstUse
  | .k8ssa => .k8ssa | .acme => .acme | .scep => .scep

/-- The id under which `AuthorizeRenewToken` records a renew token (x5cInsecure token of the CA's own format) for a
    certificate issued by a provisioner of type `ty`. Since the fix of D12d (`useRenewToken`): the token's own jti
    (empty ⇒ `useKey` falls back to the payload hash) whatever `ty` is. Before: `renewIdROld`, the answer of the
    *certificate's provisioner's* `GetTokenID`, written for that provisioner's provisioning tokens. -/
def renewIdR (_ty : PType) (t : Tok) : IdR := .id t.jti

def renewIdROld (ty : PType) (t : Tok) : IdR := getTokenID ty t

/-- `Authority.UseToken`: the key under which the token is recorded; `none` = nothing is recorded
    (every `GetTokenID` error is ignored). -/
def useKey (r : IdR) (psha : Str) : Option Str :=
  match r with
  | .id [] => some psha
  | .id k => some k
  | .reuse => none
  | .err => none

/-! ## requests and the process -/

inductive Out where
  | pending | denyLookup | denyIat | denyUsed | denyInvalid | authorized | dropped
  deriving Repr, DecidableEq

/-- what a request presents (never changes while it is processed) -/
structure Inp where
  lookupOK : Bool
  iat : Option Nat
  idr : IdR
  sha : Str              -- the hash `UseToken` falls back to for an empty id: of the signed payload (`Tok.psha`)
  skip : Bool            -- SkipTokenReuseFromContext(ctx)
  valid : Bool
  deriving Repr, DecidableEq

/-- the key the request is recorded under; `none` = exempt from the one-time rule -/
def Inp.key (i : Inp) : Option Str := if i.skip then none else useKey i.idr i.sha

structure Req where
  inp : Inp
  pc : Nat := 0
  inserted : Bool := false   -- this request's CAS stored the record
  past : Bool := false       -- the request got past step 2
  out : Out := .pending
  deriving Repr, DecidableEq

def Req.key (r : Req) : Option Str := r.inp.key

/-- a request that has not arrived yet -/
def Req.fresh (r : Req) : Prop := r.pc = 0 ∧ r.inserted = false ∧ r.past = false ∧ r.out = .pending

instance (r : Req) : Decidable r.fresh := by unfold Req.fresh; exact inferInstance

structure G where
  store : Map Unit          -- used_ott (the stored value, the token string, is never read)
  persistent : Bool         -- a database is configured (false = SimpleDB)
  iatCheck : Bool           -- !DisableIssuedAtCheck
  start : Nat               -- startTime (seconds)
  deriving Repr, DecidableEq

def step (g : G) (r : Req) : G × Req :=
  if r.out ≠ .pending then (g, r) else
  match r.pc with
  | 0 => if r.inp.lookupOK then (g, { r with pc := 1 }) else (g, { r with out := .denyLookup })
  | 1 =>
    match g.iatCheck, r.inp.iat with
    | true, some i => if i < g.start then (g, { r with out := .denyIat }) else (g, { r with pc := 2 })
    | _, _ => (g, { r with pc := 2 })
  | 2 =>
    match r.key with
    | none => (g, { r with pc := 3, past := true })
    | some k =>
      if (casNil g.store k ()).2 then
        ({ g with store := (casNil g.store k ()).1 }, { r with pc := 3, past := true, inserted := true })
      else (g, { r with out := .denyUsed })
  | 3 => if r.inp.valid then (g, { r with pc := 4, out := .authorized }) else (g, { r with pc := 4, out := .denyInvalid })
  | _ => (g, r)

def restartG (now : Nat) (g : G) : G :=
  { g with store := if g.persistent then g.store else [], start := now }

/-- in-flight requests die with the process; requests that have not arrived yet are unaffected -/
def restartL (r : Req) : Req :=
  if r.out = .pending ∧ r.pc ≠ 0 then { r with out := .dropped } else r

def machine : Machine G Req := { step := step, restartG := restartG, restartL := restartL }

/-- The events of one running process: requests step, and the configuration is *reloaded* (SIGHUP, /repo/ca/ca.go
    `CA.Reload`): a new `Authority` is built with `WithDatabase(ca.auth.GetDatabase())`, i.e. on the used-token table of
    the old one — the database handle, or the in-memory `SimpleDB` when no database is configured — so the table is
    kept whatever `persistent` says; `startTime` becomes the reload time; requests in flight on the old authority
    finish on the same table. (`Ev.restart now` is read as "reload at `now`" by this machine.) -/
def machineReload : Machine G Req :=
  { step := step, restartG := fun now g => { g with start := now }, restartL := fun r => r }

/-- requests whose own CAS stored the record for key `k` -/
def insertedWith (k : Str) (r : Req) : Bool := r.inserted && r.key == some k

/-- requests answered "authorized" that were subject to the one-time rule for key `k` -/
def authorizedWith (k : Str) (r : Req) : Bool := r.out == .authorized && r.key == some k

/-! ## a handler that authorizes one token twice

  /repo/api/ssh.go `SSHSign` with an identity CSR in the body: the handler authorizes the token for the SSH certificate
  (`a`: method SSHSign, the one-time rule applies), signs it, and then authorizes the *same* token a second time for the
  X.509 identity certificate under `authority.NewContextWithSkipTokenReuse` (`b`: method SignIdentity, `skip`, no
  record). `b` runs only after `a` was answered "authorized" (an error of `a` returns from the handler). It is the only
  caller of `NewContextWithSkipTokenReuse` in /repo (stage handlers drives it through the real router). -/

structure HReq where
  a : Req
  b : Req
  identity : Bool        -- the body carries an identity CSR
  deriving Repr, DecidableEq

def hstep (g : G) (h : HReq) : G × HReq :=
  if h.a.out = .pending then ((step g h.a).1, { h with a := (step g h.a).2 })
  else if h.a.out = .authorized ∧ h.identity = true then ((step g h.b).1, { h with b := (step g h.b).2 })
  else (g, h)

def hrestartL (h : HReq) : HReq := { h with a := restartL h.a, b := restartL h.b }

def hmachine : Machine G HReq := { step := hstep, restartG := restartG, restartL := hrestartL }

/-- a request that has not arrived: the first authorization under the one-time rule, the second one exempt -/
def HReq.wf (h : HReq) : Prop := h.a.fresh ∧ h.b.fresh ∧ h.b.inp.skip = true

/-- the HTTP request got a certificate (SSH or identity) on a token recorded under `k` -/
def served (k : Str) (h : HReq) : Bool := (h.a.out == .authorized || h.b.out == .authorized) && h.a.key == some k

end Verif.OTT
