import Verif.Model.Common
import Verif.Model.SignNames
/-
  Model of SSH certificate issuance, renewal and rekey in /repo as far as certificate type,
  key id, principals, options and the choice of the signing key are concerned (property C14).
  Validity: the model covers who fixes the bounds (the `match` clauses request-vs-token, the order
  request < token modifier, `ModifyValidity`'s validAfter > validBefore) for absolute instants; the
  arithmetic (defaults, limits, minimum / maximum duration, wrap-around) is C06's.

  Modelled Go code (read line by line):
    * authority/provisioner/sign_ssh_options.go
        `SignSSHOptions.Validate`                     -> `validateOpts`
        `SignSSHOptions.match`, `containsAllMembers`  -> `matchOpts`, `containsAllMembers`
        `sshCertOptionsValidator.Valid`               -> `matchOpts`
        `sshCertOptionsRequireValidator.Valid`        -> `requireAll`
        `sshDefaultPublicKeyValidator.Valid`          -> `keyStatus` (verdict of the key parser is an input)
        `sshCertDefaultValidator.Valid`               -> `defaultValid` (type, key id; nonce, serial,
                                                         signature are set by the signer; validity is C06)
        `sshDefaultDuration.Modify` / `sshLimitDuration.Modify` fail for an unknown type -> `durationOK`
    * authority/provisioner/jwk.go, x5c.go `AuthorizeSSHSign`   -> `authorizeSign` (.jwk / .x5c)
      authority/provisioner/oidc.go `AuthorizeSSHSign`          -> `authorizeSign` (.oidc admin)
      authority/provisioner/k8sSA.go `AuthorizeSSHSign`         -> `authorizeSign` (.k8ssa)
      authority/provisioner/aws.go `AuthorizeSSHSign` (+ sshutil.DefaultIIDTemplate); the provisioner
      is built by authority/provisioners.go `ProvisionerToCertificates` from its admin-database form
                                                                 -> `authorizeSign` (.aws disableCustomSANs)
      authority/provisioner/nebula.go `AuthorizeSSHSign`, `nebulaPrincipalsValidator.Valid`
                                                                 -> `authorizeSign` (.nebula), `nebPrincipalsValid`
    * go.step.sm/crypto/sshutil `DefaultTemplate` ("type, key id, principals := data"),
      `DefaultAdminTemplate` (":= request")                     -> `applyTemplate`
    * authority/ssh.go `signSSH` (ordering: Validate, option validators in list order, template,
      modifiers, signer selection by certificate type, signing, certificate validators) -> `signSSH`
      `renewSSH`, `rekeySSH` (field copy, signer selection)    -> `renewSSH`, `rekeySSH`
    * authority/ssh.go `IsValidForAddUser`, `SignSSHAddUser`, `getAddUserPrincipal/Command` (defaults)
                                                                 -> `validForAddUser`, `signAddUser`
    * api/ssh.go `SSHSign` identity part, `identityModifier.Enforce`, `getIdentityURI` (URI is an input)
                                                                 -> `identityCert` (over `Verif.SignNames.sign`)
    * authority/provisioner/sshpop.go `authorizeToken`, `AuthorizeSSHRenew`, `AuthorizeSSHRekey`,
      `AuthorizeSSHRevoke`; controller.go `DefaultAuthorizeSSHRenew`;
      authority/authorize.go `authorizeSSHCertificate` (revocation gate) -> `popAuthorize`, `popRenew`, `popRekey`

  External calls are input fields computed by the harness with the same libraries:
    * "the certificate's signature verifies under one of the configured user / host CA keys"
      (`ssh.Certificate.Verify` against `SSHKeys.UserKeys` / `HostKeys`)   -> `PopCert.sigUser/sigHost`
    * "the token verifies under the certificate's key and its claims are in order" -> `PopTok` bits
    * clock comparisons on the old certificate's validity                 -> `PopCert.notYet/expired`
    * the database's revocation record                                     -> `revoked`
    * `strings.ToLower` is modelled for ASCII (principals sent by the harness are ASCII or caseless)
-/
namespace Verif.SSH
open Verif

/-- `SignSSHOptions` without validity and template data -/
structure Opts where
  certType : Str
  keyID : Str
  principals : List Str
  deriving Repr, DecidableEq

inductive CT where
  | user | host
  deriving Repr, DecidableEq

def sUser : Str := s "user"
def sHost : Str := s "host"

/-- `sshutil.CertTypeFromString` (case-insensitive) -/
def certTypeFromString (x : Str) : Option CT :=
  if Str.lower x = sUser then some .user else if Str.lower x = sHost then some .host else none

/-- `SignSSHOptions.Validate`: the request's own options -/
def validateOpts (o : Opts) : Bool :=
  (o.certType = [] || o.certType = sUser || o.certType = sHost) && o.principals.all (· ≠ [])

/-- `containsAllMembers(group, subgroup)` -/
def containsAllMembers (group subgroup : List Str) : Bool :=
  if subgroup.length > group.length || (group.length > 0 && subgroup.length = 0) then false
  else subgroup.all fun x => (group.map Str.lower).contains (Str.lower x)

/-- `want.match(got)` without the validity clauses; note that the key id is not compared -/
def matchOpts (want got : Opts) : Bool :=
  !(want.certType ≠ [] && got.certType ≠ [] && want.certType ≠ got.certType) &&
  !(want.principals.length > 0 && got.principals.length > 0 &&
      !containsAllMembers want.principals got.principals)

/-- `sshCertOptionsRequireValidator{true,true,true}` -/
def requireAll (got : Opts) : Bool :=
  got.certType ≠ [] && got.keyID ≠ [] && got.principals.length > 0

structure Token where
  sub : Str
  ssh : Option Opts          -- the `step.ssh` claim
  deriving Repr, DecidableEq

inductive Prov where
  | jwk | x5c
  | oidc (admin : Bool)
  | nebula
  | k8ssa
  | aws (disableCustomSANs : Bool)
  deriving Repr, DecidableEq

/-- provisioner-specific credential data besides the token claims.
    OIDC: e-mail claim and the user names the identity function derives from it.
    Nebula: name and addresses (canonical text) of the Nebula certificate in the token header, and
    for every principal of the token's `step.ssh` options `net.ParseIP(p)` as canonical text
    (`none` when it does not parse) -/
structure Oidc where
  email : Str
  usernames : List Str
  nebName : Str
  nebIPs : List Str
  prinIP : List (Option Str)
  /-- `validAfter` / `validBefore` of the token's `step.ssh` options (JWK, X5C, Nebula), as Unix
      seconds; only absolute, positive instants are sent (relative durations and the arithmetic at
      the edges are C06's) -/
  tva : Option Nat
  tvb : Option Nat
  deriving Repr, DecidableEq

/-- `validAfter` / `validBefore` of the request's `SignSSHOptions` -/
structure RVal where
  va : Option Nat
  vb : Option Nat
  deriving Repr, DecidableEq

def noVal : RVal := ⟨none, none⟩

/-- the validity clauses of `SignSSHOptions.match`: a value present on both sides must be equal -/
def validityMismatch (tok req : RVal) : Bool :=
  (match tok.va, req.va with | some a, some b => a != b | _, _ => false) ||
  (match tok.vb, req.vb with | some a, some b => a != b | _, _ => false)

/-- `opts.ModifyValidity(certTpl)` on the template's certificate (no validity with the default
    templates): both bounds requested and validAfter > validBefore is answered 400 -/
def modifyValidityBad (req : RVal) : Bool :=
  match req.va, req.vb with
  | some a, some b => a > 0 && b > 0 && a > b
  | _, _ => false

/-- the bounds an issued certificate carries when somebody fixed them: the token's modifier
    (`sshCertValidAfterModifier` / `…BeforeModifier`) overrides the request's value; `none` = the
    CA's default (`sshDefaultDuration` / `sshLimitDuration`, property C06) -/
def certValidity (tok req : RVal) : RVal :=
  ⟨match tok.va with | some a => some a | none => req.va,
   match tok.vb with | some b => some b | none => req.vb⟩

/-- `nebulaPrincipalsValidator.Valid`: every principal is the certificate's name or parses as one
    of its addresses -/
def nebPrincipalsValid (o : Oidc) (principals : List Str) : Bool :=
  (principals.zip o.prinIP).all fun (p, ip) =>
    p = o.nebName || (match ip with | some a => o.nebIPs.contains a | none => false)

/-- template data: certificate type as the string the template prints (`CertType.String()`) -/
structure Data where
  ct : CT
  keyID : Str
  principals : List Str
  deriving Repr, DecidableEq

inductive Tpl where
  | default | admin
  | iid      -- sshutil.DefaultIIDTemplate: principals are the request's when it lists any
  deriving Repr, DecidableEq

inductive OptCheck where
  | matches (want : Opts)
  | require
  | requirePrincipals   -- sshCertOptionsRequireValidator{Principals: true}
  deriving Repr, DecidableEq

structure Plan where
  checks : List OptCheck
  data : Data
  tpl : Tpl
  deriving Repr, DecidableEq

inductive Auth where
  | unauthorized
  | ok (p : Plan)
  deriving Repr, DecidableEq

def authorizeClaims (prov : Prov) (t : Token) (o : Oidc) : Auth :=
  match prov with
  | .jwk | .x5c =>
    match t.ssh with
    | none => .unauthorized
    | some opts =>
      let ct? := if opts.certType = [] then some CT.user else certTypeFromString opts.certType
      match ct? with
      | none => .unauthorized
      | some ct =>
        .ok { checks := [.matches opts, .matches ⟨[], t.sub, []⟩]
              data := ⟨ct, if opts.keyID = [] then t.sub else opts.keyID,
                       if opts.principals.length > 0 then opts.principals else [t.sub]⟩
              tpl := .default }
  | .oidc admin =>
    let data : Data := if o.email = [] then ⟨.user, t.sub, []⟩ else ⟨.user, o.email, o.usernames⟩
    .ok { checks := [if admin then .require else .matches ⟨sUser, [], []⟩]
          data := data, tpl := if admin then .admin else .default }
  | .k8ssa =>
    -- sshutil.CertificateRequestTemplate: type, key id and principals are the request's, all three
    -- required; the token (`sub` = service account name) fixes nothing
    .ok { checks := [.require], data := ⟨.host, t.sub, [t.sub]⟩, tpl := .admin }
  | .aws dcs =>
    -- host certificates only; key id = instance id (`o.email`), validated principals (`o.usernames`) =
    -- the private IP and ip-<a-b-c-d>.<region>.compute.internal of the signed identity document.
    -- disableCustomSANs: the request's principals must be among them; otherwise any, at least one.
    .ok { checks := (if dcs then [] else [.requirePrincipals]) ++
                    [.matches ⟨sHost, [], if dcs then o.usernames else []⟩]
          data := ⟨.host, o.email, o.usernames⟩, tpl := .iid }
  | .nebula =>
    -- host certificates only; default principals = name and addresses of the Nebula certificate
    match t.ssh with
    | none => .ok { checks := [], data := ⟨.host, t.sub, o.nebName :: o.nebIPs⟩, tpl := .default }
    | some opts =>
      if nebPrincipalsValid o opts.principals = false then .unauthorized
      else if opts.certType ≠ [] ∧ opts.certType ≠ sHost then .unauthorized
      else .ok { checks := [.matches ⟨sHost, t.sub, []⟩, .matches opts]
                 data := ⟨.host, if opts.keyID = [] then t.sub else opts.keyID,
                          if opts.principals.length > 0 then opts.principals else o.nebName :: o.nebIPs⟩
                 tpl := .default }

/-- `authorizeToken` (JWK, X5C) and `OIDC.AuthorizeSSHSign` refuse an empty subject first -/
def authorizeSign (prov : Prov) (t : Token) (o : Oidc) : Auth :=
  if t.sub = [] then .unauthorized else authorizeClaims prov t o

/-- the unsigned certificate: `CertType` as a number (1 user, 2 host, anything else invalid) -/
structure Cert where
  ct : Nat
  keyID : Str
  principals : List Str
  deriving Repr, DecidableEq

def CT.num : CT → Nat
  | .user => 1 | .host => 2

inductive TplRes where
  | cert (c : Cert)
  | fail            -- the rendered JSON does not unmarshal (admin template with an empty type)
  deriving Repr, DecidableEq

def applyTemplate (p : Plan) (req : Opts) : TplRes :=
  match p.tpl with
  | .default => .cert ⟨p.data.ct.num, p.data.keyID, p.data.principals⟩
  | .admin =>
    match certTypeFromString req.certType with
    | none => .fail
    | some ct => .cert ⟨ct.num, req.keyID, req.principals⟩
  | .iid => .cert ⟨p.data.ct.num, p.data.keyID,
                   if req.principals.length > 0 then req.principals else p.data.principals⟩

/-- which SSH CA keys the authority holds, and whether its certificate store refuses an empty key
    (bbolt does: `db.StoreSSHCertificate` indexes the certificate under every principal) -/
structure CAKeys where
  user : Bool
  host : Bool
  storeRejectsEmpty : Bool
  /-- `sshCertDefaultValidator` refuses a certificate whose principals contain `""` (the repaired
      code; `false` = the code as first analysed, where only the *request's* principals were checked) -/
  emptyPrincipalCheck : Bool
  deriving Repr, DecidableEq

/-- `storeSSHCertificate` / `storeRenewedSSHCertificate` succeed -/
def storeOK (ca : CAKeys) (c : List Str) : Bool := !(ca.storeRejectsEmpty && c.any (· = []))

inductive Signer where
  | userKey | hostKey
  deriving Repr, DecidableEq

/-- verdict of `sshDefaultPublicKeyValidator` on the subject key -/
inductive KeyClass where
  | ok | rsaSmall | dsa
  deriving Repr, DecidableEq

inductive Res where
  | refused (status : Nat)
  | issued (c : Cert) (by_ : Signer)
  deriving Repr, DecidableEq

/-- signer selection of `signSSH` / `renewSSH` / `rekeySSH`: `unknown` is the status for a
    certificate type that is neither user nor host (500 in sign and renew, 400 in rekey) -/
def selectSigner (ca : CAKeys) (ct : Nat) (unknown : Nat) : Sum Nat Signer :=
  if ct = 1 then (if ca.user then .inr .userKey else .inl 501)
  else if ct = 2 then (if ca.host then .inr .hostKey else .inl 501)
  else .inl unknown

def checkOpts (req : Opts) : List OptCheck → Option Nat
  | [] => none
  | .matches w :: cs => if matchOpts w req then checkOpts req cs else some 403
  | .require :: cs => if requireAll req then checkOpts req cs else some 400
  | .requirePrincipals :: cs => if req.principals.length > 0 then checkOpts req cs else some 400

def keyStatus : KeyClass → Option Nat
  | .ok => none | .rsaSmall => some 403 | .dsa => some 400

def signSSH (ca : CAKeys) (p : Plan) (req : Opts) (key : KeyClass) (tv rv : RVal) : Res :=
  if validateOpts req = false then .refused 400 else
  match checkOpts req p.checks with
  | some st => .refused st
  | none =>
    -- the validity clauses of the `match` against the token's options (same validator, same 403)
    if validityMismatch tv rv then .refused 403 else
    match applyTemplate p req with
    | .fail => .refused 500
    | .cert c =>
      if modifyValidityBad rv then .refused 400 else
      -- sshDefaultDuration.Modify needs a known type (always the case after the template)
      match selectSigner ca c.ct 500 with
      | .inl st => .refused st
      | .inr sg =>
        match keyStatus key with
        | some st => .refused st
        | none =>
          if c.keyID = [] then .refused 403
          else if ca.emptyPrincipalCheck && c.principals.any (· = []) then .refused 403
          else if storeOK ca c.principals = false then .refused 500
          else .issued c sg

/-- Authorize + SignSSH as the /ssh/sign handler runs them; `Authority.Authorize` refuses every
    SSH sign / renew / rekey token when the authority has neither SSH key -/
def sshSign (ca : CAKeys) (prov : Prov) (t : Token) (o : Oidc) (req : Opts) (key : KeyClass)
    (rv : RVal) : Res :=
  if ca.user = false ∧ ca.host = false then .refused 401 else
  match authorizeSign prov t o with
  | .unauthorized => .refused 401
  | .ok p => signSSH ca p req key ⟨o.tva, o.tvb⟩ rv

/-! ### add-user certificate (`addUserPublicKey` of /ssh/sign) -/

/-- authority/ssh.go `SSHAddUserPrincipal` -/
def addUserPrincipal : Str := s "provisioner"

/-- `getAddUserCommand(principal)` with the default `SSHAddUserCommand`
    ("sudo useradd -m <principal>; nc -q0 localhost 22", one placeholder) -/
def addUserCommand (principal : Str) : Str :=
  s "sudo useradd -m " ++ principal ++ s "; nc -q0 localhost 22"

/-- `strings.Index(x, "@") > 0` -/
def atAfterFirst : Str → Bool
  | [] => false
  | _ :: rest => rest.contains 64

/-- `IsValidForAddUser`: a user certificate with exactly one principal, or two when the second
    looks like an e-mail address (what the OIDC provisioner adds) -/
def validForAddUser (c : Cert) : Bool :=
  c.ct = 1 &&
  match c.principals with
  | [_] => true
  | [_, b] => atAfterFirst b
  | _ => false

structure AddUser where
  keyID : Str
  principals : List Str
  forceCommand : Str
  deriving Repr, DecidableEq

/-- api/ssh.go `SSHSign` + `SignSSHAddUser`: when the request carries an `addUserPublicKey` and
    the issued certificate qualifies, a second *user* certificate for that key is signed with the
    user key: principal `provisioner`, key id `<first principal>-provisioner`, a `force-command`
    critical option naming the first principal, the validity of the first certificate.
    `none` = no such certificate (the request itself still succeeds). -/
def signAddUser (subject : Cert) : Option AddUser :=
  if validForAddUser subject then
    match subject.principals with
    | p :: _ => some ⟨p ++ s "-" ++ addUserPrincipal, [addUserPrincipal], addUserCommand p⟩
    | [] => none
  else none

/-- … with the configuration in view: `getAddUserPrincipal` / `getAddUserCommand` read
    `a.config.SSH.…`; since 0de53a5 (`nilGuard = true`) a missing `ssh` section means the defaults.
    Before it (`nilGuard = false`) an authority that got its SSH signers through
    `authority.WithSSHUserSigner` / `WithSSHHostSigner` and whose configuration has no `ssh` section
    (`sshSection = false`) panicked there. -/
def signAddUserM (nilGuard sshSection : Bool) (subject : Cert) : M (Option AddUser) :=
  match signAddUser subject with
  | none => .val none
  | some a => if nilGuard || sshSection then .val (some a) else .crash

/-! ### identity certificate (`identityCSR` of /ssh/sign) -/

/-- what /ssh/sign needs to answer an `identityCSR`: the token subject with its `SplitSANs` class,
    the CSR (property C03's view of it), `getIdentityURI(csr)` = the first `urn:uuid:` URI of the
    CSR (canonical text), "the names encode", and the genuine provisioner extension -/
structure IdReq where
  sub : SignNames.San
  csr : SignNames.CSR
  uuid : Option Str
  enc : Bool
  gen : SignNames.Ext
  deriving Repr, DecidableEq

/-- api/ssh.go `SSHSign`, identity part: the same token is authorized again with
    `SignIdentityMethod` (`JWK/X5C.AuthorizeSign`: the SSH token lists no `sans`, so the names are
    `[sub]`; `urisValidator` returns nil under that method, so the CSR's URIs are not compared) and
    the X.509 flow of property C03 runs with the identity CSR; the `identityModifier` enforcer then
    adds the CSR's `urn:uuid` URI when the certificate does not carry it (and pins the validity to
    the SSH certificate's, C06). A refusal fails the whole request. -/
def idCfg (prov : Prov) (r : IdReq) : SignNames.Cfg :=
  ⟨if prov = .x5c then .x5c else .jwk, false, SignNames.noClaims, SignNames.noClaims, r.gen⟩

def idTok (r : IdReq) : SignNames.Token := ⟨r.sub, [], .absent, none, none, none, []⟩

/-- `identityModifier.Enforce`, URI part -/
def addUUID (uuid : Option Str) (c : SignNames.Cert) : SignNames.Cert :=
  { c with uris := match uuid with
                   | some u => if c.uris.contains u then c.uris else c.uris ++ [u]
                   | none => c.uris }

def identityCert (prov : Prov) (r : IdReq) : SignNames.Res :=
  match SignNames.sign (idCfg prov r) (idTok r) { r.csr with uris := [] } none ⟨r.enc, r.enc, none, none⟩ with
  | .issued c => .issued (addUUID r.uuid c)
  | x => x

/-! ### SSH-POP: renew, rekey, revoke -/

/-- `ssh.Permissions`: critical options and extensions as key/value lists (sorted by key by the
    harness; a nil map and an empty map are the same list) -/
structure Perms where
  crit : List (Str × Str)
  exts : List (Str × Str)
  deriving Repr, DecidableEq

/-- the certificate in the `sshpop` header -/
structure PopCert where
  ct : Nat                 -- 1 user, 2 host, other values possible
  keyID : Str
  principals : List Str
  perms : Perms            -- critical options and extensions
  sigUser : Bool           -- signature verifies under a configured user CA key
  sigHost : Bool           -- … under a configured host CA key
  notYet : Bool            -- validAfter in the future
  expired : Bool           -- validBefore in the past
  hasValidity : Bool       -- validAfter ≠ 0 ∧ validBefore ≠ 0
  deriving Repr, DecidableEq

structure PopTok where
  sigOK : Bool             -- the JWS verifies under the certificate's key
  claimsOK : Bool          -- issuer and time claims
  audOK : Bool
  subNonEmpty : Bool
  subIsSerial : Bool       -- revoke: sub = decimal serial
  deriving Repr, DecidableEq

inductive PopOp where
  | renew | rekey | revoke
  deriving Repr, DecidableEq

structure PopCfg where
  ca : CAKeys
  disableRenewal : Bool
  allowAfterExpiry : Bool
  deriving Repr, DecidableEq

/-- the operation-specific part: `AuthorizeSSHRevoke` (subject = serial), `AuthorizeSSHRekey`
    (host certificates only), `AuthorizeSSHRenew` (host only, then `DefaultAuthorizeSSHRenew`) -/
def opGate (cfg : PopCfg) (op : PopOp) (c : PopCert) (t : PopTok) : Bool :=
  match op with
  | .revoke => t.subIsSerial
  | .rekey => c.ct == 2
  | .renew => c.ct == 2 && !cfg.disableRenewal && !c.notYet && !(c.expired && !cfg.allowAfterExpiry)

/-- `SSHPOP.authorizeToken` followed by the operation-specific checks; `true` = authorized.
    Every conjunct is one early `return nil, err` of the Go code, in code order:
    validity window (not for renew), signature under a CA key from the list chosen by the
    certificate type (user keys for user certificates, host keys otherwise), token signature
    under the certificate key, claims, audience, subject. -/
def popAuthorize (cfg : PopCfg) (op : PopOp) (c : PopCert) (t : PopTok) : Bool :=
  !(decide (op ≠ .renew) && (c.notYet || c.expired)) &&
  (if c.ct = 1 then c.sigUser else c.sigHost) &&
  t.sigOK && t.claimsOK && t.audOK && t.subNonEmpty &&
  opGate cfg op c t

inductive PopRes where
  | refused
  | issued (c : Cert) (perms : Perms) (by_ : Signer)
  deriving Repr, DecidableEq

/-- `renewSSH` / `rekeySSH` after authorization: validity present, revocation gate, field copy,
    signer by type (`rekey` additionally runs the key and default validators) -/
def popIssue (cfg : PopCfg) (c : PopCert) (revoked : Bool) (key : KeyClass) (isRekey : Bool) : PopRes :=
  if !c.hasValidity then .refused else
  if revoked then .refused else
  match selectSigner cfg.ca c.ct (if isRekey then 400 else 500) with
  | .inl _ => .refused
  | .inr sg =>
    if isRekey && ((keyStatus key).isSome || c.keyID = [] ||
        (cfg.ca.emptyPrincipalCheck && c.principals.any (· = []))) then .refused
    else if storeOK cfg.ca c.principals = false then .refused
    else .issued ⟨c.ct, c.keyID, c.principals⟩ c.perms sg

/-- the /ssh/renew and /ssh/rekey handlers: Authorize, then RenewSSH / RekeySSH -/
def popRenew (cfg : PopCfg) (c : PopCert) (t : PopTok) (revoked : Bool) : PopRes :=
  if cfg.ca.user = false ∧ cfg.ca.host = false then .refused else
  if popAuthorize cfg .renew c t then popIssue cfg c revoked .ok false else .refused

def popRekey (cfg : PopCfg) (c : PopCert) (t : PopTok) (revoked : Bool) (key : KeyClass) : PopRes :=
  if cfg.ca.user = false ∧ cfg.ca.host = false then .refused else
  if popAuthorize cfg .rekey c t then popIssue cfg c revoked key true else .refused

end Verif.SSH
