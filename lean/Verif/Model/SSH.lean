import Verif.Model.Common
/-
  Model of SSH certificate issuance, renewal and rekey in /repo as far as certificate type,
  key id, principals, options and the choice of the signing key are concerned (property C14).
  Validity arithmetic is C06's and is not modelled: requests and tokens carry no validity here.

  Modelled Go code (read line by line):
    * authority/provisioner/sign_ssh_options.go
        `SignSSHOptions.Validate`                     -> `validateOpts`
        `SignSSHOptions.match`, `containsAllMembers`  -> `matchOpts`, `containsAllMembers`
        `sshCertOptionsValidator.Valid`               -> `matchOpts`
        `sshCertOptionsRequireValidator.Valid`        -> `requireAll`
        `sshDefaultPublicKeyValidator.Valid`          -> `keyStatus` (verdict of the key parser is an input)
        `sshCertDefaultValidator.Valid`               -> `defaultValid` (type, key id; nonce, serial,
                                                         signature are set by the signer; validity is C06)
        `sshDefaultDuration.Modify` / `sshLimitDuration.Modify` fail for an unknown type -> `durationOK`
    * authority/provisioner/jwk.go, x5c.go `AuthorizeSSHSign`   -> `authorizeSign` (.jwk / .x5c)
      authority/provisioner/oidc.go `AuthorizeSSHSign`          -> `authorizeSign` (.oidc admin)
      authority/provisioner/nebula.go `AuthorizeSSHSign`, `nebulaPrincipalsValidator.Valid`
                                                                 -> `authorizeSign` (.nebula), `nebPrincipalsValid`
    * go.step.sm/crypto/sshutil `DefaultTemplate` ("type, key id, principals := data"),
      `DefaultAdminTemplate` (":= request")                     -> `applyTemplate`
    * authority/ssh.go `signSSH` (ordering: Validate, option validators in list order, template,
      modifiers, signer selection by certificate type, signing, certificate validators) -> `signSSH`
      `renewSSH`, `rekeySSH` (field copy, signer selection)    -> `renewSSH`, `rekeySSH`
    * authority/provisioner/sshpop.go `authorizeToken`, `AuthorizeSSHRenew`, `AuthorizeSSHRekey`,
      `AuthorizeSSHRevoke`; controller.go `DefaultAuthorizeSSHRenew`;
      authority/authorize.go `authorizeSSHCertificate` (revocation gate) -> `popAuthorize`, `popRenew`, `popRekey`

  External calls are input fields computed by the harness with the same libraries:
    * "the certificate's signature verifies under one of the configured user / host CA keys"
      (`ssh.Certificate.Verify` against `SSHKeys.UserKeys` / `HostKeys`)   -> `PopCert.sigUser/sigHost`
    * "the token verifies under the certificate's key and its claims are in order" -> `PopTok` bits
    * clock comparisons on the old certificate's validity                 -> `PopCert.notYet/expired`
    * the database's revocation record                                     -> `revoked`
    * `strings.ToLower` is modelled for ASCII (principals sent by the harness are ASCII or caseless)
-/
namespace Verif.SSH
open Verif

/-- `SignSSHOptions` without validity and template data -/
structure Opts where
  certType : Str
  keyID : Str
  principals : List Str
  deriving Repr, DecidableEq

inductive CT where
  | user | host
  deriving Repr, DecidableEq

def sUser : Str := s "user"
def sHost : Str := s "host"

/-- `sshutil.CertTypeFromString` (case-insensitive) -/
def certTypeFromString (x : Str) : Option CT :=
  if Str.lower x = sUser then some .user else if Str.lower x = sHost then some .host else none

/-- `SignSSHOptions.Validate`: the request's own options -/
def validateOpts (o : Opts) : Bool :=
  (o.certType = [] || o.certType = sUser || o.certType = sHost) && o.principals.all (· ≠ [])

/-- `containsAllMembers(group, subgroup)` -/
def containsAllMembers (group subgroup : List Str) : Bool :=
  if subgroup.length > group.length || (group.length > 0 && subgroup.length = 0) then false
  else subgroup.all fun x => (group.map Str.lower).contains (Str.lower x)

/-- `want.match(got)` without the validity clauses; note that the key id is not compared -/
def matchOpts (want got : Opts) : Bool :=
  !(want.certType ≠ [] && got.certType ≠ [] && want.certType ≠ got.certType) &&
  !(want.principals.length > 0 && got.principals.length > 0 &&
      !containsAllMembers want.principals got.principals)

/-- `sshCertOptionsRequireValidator{true,true,true}` -/
def requireAll (got : Opts) : Bool :=
  got.certType ≠ [] && got.keyID ≠ [] && got.principals.length > 0

structure Token where
  sub : Str
  ssh : Option Opts          -- the `step.ssh` claim
  deriving Repr, DecidableEq

inductive Prov where
  | jwk | x5c
  | oidc (admin : Bool)
  | nebula
  deriving Repr, DecidableEq

/-- provisioner-specific credential data besides the token claims.
    OIDC: e-mail claim and the user names the identity function derives from it.
    Nebula: name and addresses (canonical text) of the Nebula certificate in the token header, and
    for every principal of the token's `step.ssh` options `net.ParseIP(p)` as canonical text
    (`none` when it does not parse) -/
structure Oidc where
  email : Str
  usernames : List Str
  nebName : Str
  nebIPs : List Str
  prinIP : List (Option Str)
  deriving Repr, DecidableEq

/-- `nebulaPrincipalsValidator.Valid`: every principal is the certificate's name or parses as one
    of its addresses -/
def nebPrincipalsValid (o : Oidc) (principals : List Str) : Bool :=
  (principals.zip o.prinIP).all fun (p, ip) =>
    p = o.nebName || (match ip with | some a => o.nebIPs.contains a | none => false)

/-- template data: certificate type as the string the template prints (`CertType.String()`) -/
structure Data where
  ct : CT
  keyID : Str
  principals : List Str
  deriving Repr, DecidableEq

inductive Tpl where
  | default | admin
  deriving Repr, DecidableEq

inductive OptCheck where
  | matches (want : Opts)
  | require
  deriving Repr, DecidableEq

structure Plan where
  checks : List OptCheck
  data : Data
  tpl : Tpl
  deriving Repr, DecidableEq

inductive Auth where
  | unauthorized
  | ok (p : Plan)
  deriving Repr, DecidableEq

def authorizeClaims (prov : Prov) (t : Token) (o : Oidc) : Auth :=
  match prov with
  | .jwk | .x5c =>
    match t.ssh with
    | none => .unauthorized
    | some opts =>
      let ct? := if opts.certType = [] then some CT.user else certTypeFromString opts.certType
      match ct? with
      | none => .unauthorized
      | some ct =>
        .ok { checks := [.matches opts, .matches ⟨[], t.sub, []⟩]
              data := ⟨ct, if opts.keyID = [] then t.sub else opts.keyID,
                       if opts.principals.length > 0 then opts.principals else [t.sub]⟩
              tpl := .default }
  | .oidc admin =>
    let data : Data := if o.email = [] then ⟨.user, t.sub, []⟩ else ⟨.user, o.email, o.usernames⟩
    .ok { checks := [if admin then .require else .matches ⟨sUser, [], []⟩]
          data := data, tpl := if admin then .admin else .default }
  | .nebula =>
    -- host certificates only; default principals = name and addresses of the Nebula certificate
    match t.ssh with
    | none => .ok { checks := [], data := ⟨.host, t.sub, o.nebName :: o.nebIPs⟩, tpl := .default }
    | some opts =>
      if nebPrincipalsValid o opts.principals = false then .unauthorized
      else if opts.certType ≠ [] ∧ opts.certType ≠ sHost then .unauthorized
      else .ok { checks := [.matches ⟨sHost, t.sub, []⟩, .matches opts]
                 data := ⟨.host, if opts.keyID = [] then t.sub else opts.keyID,
                          if opts.principals.length > 0 then opts.principals else o.nebName :: o.nebIPs⟩
                 tpl := .default }

/-- `authorizeToken` (JWK, X5C) and `OIDC.AuthorizeSSHSign` refuse an empty subject first -/
def authorizeSign (prov : Prov) (t : Token) (o : Oidc) : Auth :=
  if t.sub = [] then .unauthorized else authorizeClaims prov t o

/-- the unsigned certificate: `CertType` as a number (1 user, 2 host, anything else invalid) -/
structure Cert where
  ct : Nat
  keyID : Str
  principals : List Str
  deriving Repr, DecidableEq

def CT.num : CT → Nat
  | .user => 1 | .host => 2

inductive TplRes where
  | cert (c : Cert)
  | fail            -- the rendered JSON does not unmarshal (admin template with an empty type)
  deriving Repr, DecidableEq

def applyTemplate (p : Plan) (req : Opts) : TplRes :=
  match p.tpl with
  | .default => .cert ⟨p.data.ct.num, p.data.keyID, p.data.principals⟩
  | .admin =>
    match certTypeFromString req.certType with
    | none => .fail
    | some ct => .cert ⟨ct.num, req.keyID, req.principals⟩

/-- which SSH CA keys the authority holds, and whether its certificate store refuses an empty key
    (bbolt does: `db.StoreSSHCertificate` indexes the certificate under every principal) -/
structure CAKeys where
  user : Bool
  host : Bool
  storeRejectsEmpty : Bool
  /-- `sshCertDefaultValidator` refuses a certificate whose principals contain `""` (the repaired
      code; `false` = the code as first analysed, where only the *request's* principals were checked) -/
  emptyPrincipalCheck : Bool
  deriving Repr, DecidableEq

/-- `storeSSHCertificate` / `storeRenewedSSHCertificate` succeed -/
def storeOK (ca : CAKeys) (c : List Str) : Bool := !(ca.storeRejectsEmpty && c.any (· = []))

inductive Signer where
  | userKey | hostKey
  deriving Repr, DecidableEq

/-- verdict of `sshDefaultPublicKeyValidator` on the subject key -/
inductive KeyClass where
  | ok | rsaSmall | dsa
  deriving Repr, DecidableEq

inductive Res where
  | refused (status : Nat)
  | issued (c : Cert) (by_ : Signer)
  deriving Repr, DecidableEq

/-- signer selection of `signSSH` / `renewSSH` / `rekeySSH`: `unknown` is the status for a
    certificate type that is neither user nor host (500 in sign and renew, 400 in rekey) -/
def selectSigner (ca : CAKeys) (ct : Nat) (unknown : Nat) : Sum Nat Signer :=
  if ct = 1 then (if ca.user then .inr .userKey else .inl 501)
  else if ct = 2 then (if ca.host then .inr .hostKey else .inl 501)
  else .inl unknown

def checkOpts (req : Opts) : List OptCheck → Option Nat
  | [] => none
  | .matches w :: cs => if matchOpts w req then checkOpts req cs else some 403
  | .require :: cs => if requireAll req then checkOpts req cs else some 400

def keyStatus : KeyClass → Option Nat
  | .ok => none | .rsaSmall => some 403 | .dsa => some 400

def signSSH (ca : CAKeys) (p : Plan) (req : Opts) (key : KeyClass) : Res :=
  if validateOpts req = false then .refused 400 else
  match checkOpts req p.checks with
  | some st => .refused st
  | none =>
    match applyTemplate p req with
    | .fail => .refused 500
    | .cert c =>
      -- sshDefaultDuration.Modify needs a known type (always the case after the template)
      match selectSigner ca c.ct 500 with
      | .inl st => .refused st
      | .inr sg =>
        match keyStatus key with
        | some st => .refused st
        | none =>
          if c.keyID = [] then .refused 403
          else if ca.emptyPrincipalCheck && c.principals.any (· = []) then .refused 403
          else if storeOK ca c.principals = false then .refused 500
          else .issued c sg

/-- Authorize + SignSSH as the /ssh/sign handler runs them; `Authority.Authorize` refuses every
    SSH sign / renew / rekey token when the authority has neither SSH key -/
def sshSign (ca : CAKeys) (prov : Prov) (t : Token) (o : Oidc) (req : Opts) (key : KeyClass) : Res :=
  if ca.user = false ∧ ca.host = false then .refused 401 else
  match authorizeSign prov t o with
  | .unauthorized => .refused 401
  | .ok p => signSSH ca p req key

/-! ### SSH-POP: renew, rekey, revoke -/

/-- `ssh.Permissions`: critical options and extensions as key/value lists (sorted by key by the
    harness; a nil map and an empty map are the same list) -/
structure Perms where
  crit : List (Str × Str)
  exts : List (Str × Str)
  deriving Repr, DecidableEq

/-- the certificate in the `sshpop` header -/
structure PopCert where
  ct : Nat                 -- 1 user, 2 host, other values possible
  keyID : Str
  principals : List Str
  perms : Perms            -- critical options and extensions
  sigUser : Bool           -- signature verifies under a configured user CA key
  sigHost : Bool           -- … under a configured host CA key
  notYet : Bool            -- validAfter in the future
  expired : Bool           -- validBefore in the past
  hasValidity : Bool       -- validAfter ≠ 0 ∧ validBefore ≠ 0
  deriving Repr, DecidableEq

structure PopTok where
  sigOK : Bool             -- the JWS verifies under the certificate's key
  claimsOK : Bool          -- issuer and time claims
  audOK : Bool
  subNonEmpty : Bool
  subIsSerial : Bool       -- revoke: sub = decimal serial
  deriving Repr, DecidableEq

inductive PopOp where
  | renew | rekey | revoke
  deriving Repr, DecidableEq

structure PopCfg where
  ca : CAKeys
  disableRenewal : Bool
  allowAfterExpiry : Bool
  deriving Repr, DecidableEq

/-- the operation-specific part: `AuthorizeSSHRevoke` (subject = serial), `AuthorizeSSHRekey`
    (host certificates only), `AuthorizeSSHRenew` (host only, then `DefaultAuthorizeSSHRenew`) -/
def opGate (cfg : PopCfg) (op : PopOp) (c : PopCert) (t : PopTok) : Bool :=
  match op with
  | .revoke => t.subIsSerial
  | .rekey => c.ct == 2
  | .renew => c.ct == 2 && !cfg.disableRenewal && !c.notYet && !(c.expired && !cfg.allowAfterExpiry)

/-- `SSHPOP.authorizeToken` followed by the operation-specific checks; `true` = authorized.
    Every conjunct is one early `return nil, err` of the Go code, in code order:
    validity window (not for renew), signature under a CA key from the list chosen by the
    certificate type (user keys for user certificates, host keys otherwise), token signature
    under the certificate key, claims, audience, subject. -/
def popAuthorize (cfg : PopCfg) (op : PopOp) (c : PopCert) (t : PopTok) : Bool :=
  !(decide (op ≠ .renew) && (c.notYet || c.expired)) &&
  (if c.ct = 1 then c.sigUser else c.sigHost) &&
  t.sigOK && t.claimsOK && t.audOK && t.subNonEmpty &&
  opGate cfg op c t

inductive PopRes where
  | refused
  | issued (c : Cert) (perms : Perms) (by_ : Signer)
  deriving Repr, DecidableEq

/-- `renewSSH` / `rekeySSH` after authorization: validity present, revocation gate, field copy,
    signer by type (`rekey` additionally runs the key and default validators) -/
def popIssue (cfg : PopCfg) (c : PopCert) (revoked : Bool) (key : KeyClass) (isRekey : Bool) : PopRes :=
  if !c.hasValidity then .refused else
  if revoked then .refused else
  match selectSigner cfg.ca c.ct (if isRekey then 400 else 500) with
  | .inl _ => .refused
  | .inr sg =>
    if isRekey && ((keyStatus key).isSome || c.keyID = [] ||
        (cfg.ca.emptyPrincipalCheck && c.principals.any (· = []))) then .refused
    else if storeOK cfg.ca c.principals = false then .refused
    else .issued ⟨c.ct, c.keyID, c.principals⟩ c.perms sg

/-- the /ssh/renew and /ssh/rekey handlers: Authorize, then RenewSSH / RekeySSH -/
def popRenew (cfg : PopCfg) (c : PopCert) (t : PopTok) (revoked : Bool) : PopRes :=
  if cfg.ca.user = false ∧ cfg.ca.host = false then .refused else
  if popAuthorize cfg .renew c t then popIssue cfg c revoked .ok false else .refused

def popRekey (cfg : PopCfg) (c : PopCert) (t : PopTok) (revoked : Bool) (key : KeyClass) : PopRes :=
  if cfg.ca.user = false ∧ cfg.ca.host = false then .refused else
  if popAuthorize cfg .rekey c t then popIssue cfg c revoked key true else .refused

end Verif.SSH
