import Verif.Model.Policy
/-
  Model of /repo/authority/internal/constraints (constraints.go, verify.go) and of the piece of
  /repo/authority/authority.go (`init`, "Load X509 constraints engine") that assembles the chain
  handed to `constraints.New`.

    Go                                              here
    ------------------------------------------------------------------------------------------
    domainToReverseLabels, parseRFC2821Mailbox      `Policy.reverseLabels`, `Policy.parseMailbox`
                                                    (the two packages hold byte-identical copies;
                                                    the C05 check diffs them through the engine)
    matchDomainConstraint                           `matchDomain`   (any-depth subdomain match,
                                                    *not* the policy engine's same-depth match)
    normalizeIP / net.IP.To4                        `normalizeIP` / `to4`
    matchIPConstraint                               `matchIP`  (`constraint.Mask[i]` out of range = crash)
    matchEmailConstraint, matchURIConstraint        `matchEmail`, `matchURI`
    checkNameConstraints                            `checkName` (`checkExcluded`, `permLoop`)
    constraints.New                                 `NewF`     (flat concatenation `New` + per-certificate engines)
    Engine.Validate / ValidateCertificate           `validateF` (`validate` = the flat evaluation, all there was before 4a0d6e3)
    authority.init: intermediates ++ issuing roots  `chainForSig` (`chainFor`, `chainForLast` = the selections before 94a532b / 6f79d48)

  External calls are input fields (DESIGN.md §4): `url.URL.Host`, `net.SplitHostPort`,
  `net.ParseIP` of a URI host (`Policy.Uri`); an IP address / network is its byte slice(s).

  Also here, because the driver needs them: the RFC 5280 §6.1.4(g) specification `specAccept`
  (every certificate of the chain is applied on its own) and the per-certificate variant of the
  engine `validatePerCert` (the fix candidate for D8).
-/
namespace Verif.Constraints
open Verif Verif.Str
open Verif.Policy (MR reverseLabels labelsFoldEq parseMailbox Mailbox Uri)

inductive Kind where
  | dns | ip | email | uri
  deriving Repr, DecidableEq

/-- how `checkNameConstraints` ends for one name -/
inductive Out where
  | ok            -- nil
  | excluded      -- "is excluded by constraint"
  | notPermitted  -- "is not permitted by any constraint"
  | matchErr      -- the matcher returned an error (ConstraintError with that text)
  | crash         -- run-time panic
  deriving Repr, DecidableEq

/-! ### matchers (verify.go) -/

/-- `matchDomainConstraint` -/
def matchDomain (domain constraint : Str) : MR :=
  if constraint.isEmpty then .yes
  else match reverseLabels domain with
  | none => .err
  | some dl =>
    let must := constraint.head? = some 46
    let c := if must then constraint.tail else constraint
    match reverseLabels c with
    | none => .err
    | some cl =>
      if dl.length < cl.length || (must && dl.length == cl.length) then .no
      else if labelsFoldEq cl dl then .yes else .no

/-- `net.IP.To4` -/
def to4 (ip : List Nat) : Option (List Nat) :=
  if ip.length = 4 then some ip
  else if ip.length = 16 && (ip.take 10).all (· == 0) && (ip.drop 10).take 2 == [255, 255] then
    some (ip.drop 12)
  else none

/-- `normalizeIP` -/
def normalizeIP (ip : List Nat) : List Nat := (to4 ip).getD ip

/-- `*net.IPNet`: the two byte slices as they are (no assumption that they have equal length) -/
structure IpNet where
  ip : List Nat
  mask : List Nat
  deriving Repr, DecidableEq

/-- the loop of `matchIPConstraint`: `ip[i]&mask[i] != cip[i]&mask[i]`; a mask shorter than the
    address is an index out of range. `cip` has the length of `ip` (tested by the caller). -/
def ipLoop : List Nat → List Nat → List Nat → MR
  | [], _, _ => .yes
  | _ :: _, _, [] => .crash
  | _ :: _, [], _ :: _ => .no          -- not reachable: the caller compares the lengths first
  | a :: as, c :: cs, m :: ms => if a &&& m ≠ c &&& m then .no else ipLoop as cs ms

/-- the subtree address as `matchIPConstraint` compares it since `fix:` 3d20cbd: normalised to
    its 4-octet form only when the mask has 4 octets (a subtree for IPv4 addresses) -/
def IpNet.eff (n : IpNet) : List Nat := if n.mask.length = 4 then normalizeIP n.ip else n.ip

/-- `matchIPConstraint` -/
def matchIP (ip : List Nat) (n : IpNet) : MR :=
  let a := normalizeIP ip
  let c := n.eff
  if a.length ≠ c.length then .no else ipLoop a c n.mask

/-- historic: `matchIPConstraint` before 3d20cbd normalised every subtree address, so an
    IPv4-mapped IPv6 subtree (16-octet mask) was compared as IPv4 under the first four mask octets -/
def matchIP2021 (ip : List Nat) (n : IpNet) : MR :=
  let a := normalizeIP ip
  let c := normalizeIP n.ip
  if a.length ≠ c.length then .no else ipLoop a c n.mask

/-- `matchEmailConstraint` -/
def matchEmail (mb : Mailbox) (constraint : Str) : MR :=
  if has 64 constraint then
    match parseMailbox constraint with
    | none => .err
    | some cm => if mb.loc = cm.loc && foldEq mb.domain cm.domain then .yes else .no
  else matchDomain mb.domain constraint

/-- `matchURIConstraint` -/
def matchURI (u : Uri) (constraint : Str) : MR :=
  if u.host.isEmpty then .err
  else
    let needSplit := has 58 u.host && !hasSuffix [93] u.host
    if needSplit && u.split.isNone then .err
    else
      let h := if needSplit then u.split.getD [] else u.host
      if (hasPrefix [91] h && hasSuffix [93] h) || u.isIP then .err
      else matchDomain h constraint

/-! ### the same matchers after `fix:` 41cbd56 = today's `crypto/x509` (go1.23)

  `domainToReverseLabels` now refuses a name with a *leading* period (the 2021 copy dropped the
  empty first label and treated `.a.example.com` like `a.example.com`). Everything built on it
  follows: `matchDomainConstraint`, `parseRFC2821Mailbox`, the e-mail and URI matchers. These are
  the matchers of the engine as it is now *and* of the specification; `matchDomain`, `matchEmail`,
  `matchURI` above are kept as the historic 2021 versions (`validate2021`). -/

def leadingDot (d : Str) : Bool := d.head? == some 46

/-- `domainToReverseLabels` (engine since 41cbd56, and crypto/x509) -/
def strictLabels (d : Str) : Option (List Str) := if leadingDot d then none else reverseLabels d

/-- `matchDomainConstraint` (engine since 41cbd56, and crypto/x509) -/
def specMatchDomain (domain constraint : Str) : MR :=
  if constraint.isEmpty then .yes
  else if leadingDot domain then .err
  else if leadingDot (if constraint.head? = some 46 then constraint.tail else constraint) then .err
  else matchDomain domain constraint

/-- `parseRFC2821Mailbox` (the domain goes through `domainToReverseLabels`) -/
def specParseMailbox (a : Str) : Option Mailbox :=
  match parseMailbox a with
  | none => none
  | some mb => if leadingDot mb.domain then none else some mb

def specMatchEmail (mb : Mailbox) (constraint : Str) : MR :=
  if has 64 constraint then
    match specParseMailbox constraint with
    | none => .err
    | some cm => if mb.loc = cm.loc && foldEq mb.domain cm.domain then .yes else .no
  else specMatchDomain mb.domain constraint

def specMatchURI (u : Uri) (constraint : Str) : MR :=
  if u.host.isEmpty then .err
  else
    let needSplit := has 58 u.host && !hasSuffix [93] u.host
    if needSplit && u.split.isNone then .err
    else
      let h := if needSplit then u.split.getD [] else u.host
      if (hasPrefix [91] h && hasSuffix [93] h) || u.isIP then .err
      else specMatchDomain h constraint

/-! ### checkNameConstraints -/

/-- first loop: excluded constraints in order -/
def checkExcluded {C : Type} (m : C → MR) : List C → Out
  | [] => .ok
  | c :: cs =>
    match m c with
    | .crash => .crash
    | .err => .matchErr
    | .yes => .excluded
    | .no => checkExcluded m cs

/-- second loop on a non-empty list: `ok` holds the last match result, `break` on the first hit -/
def permLoop {C : Type} (m : C → MR) : List C → Out
  | [] => .notPermitted
  | c :: cs =>
    match m c with
    | .crash => .crash
    | .err => .matchErr
    | .yes => .ok
    | .no => permLoop m cs

/-- `checkNameConstraints` (`ok` starts true: an empty permitted list permits) -/
def checkName {C : Type} (m : C → MR) (permitted excluded : List C) : Out :=
  match checkExcluded m excluded with
  | .ok => if permitted.isEmpty then .ok else permLoop m permitted
  | o => o

/-! ### the engine -/

/-- the name constraints of one certificate; also the shape of `constraints.Engine` -/
structure Level where
  pDNS : List Str := []
  xDNS : List Str := []
  pIP : List IpNet := []
  xIP : List IpNet := []
  pEmail : List Str := []
  xEmail : List Str := []
  pURI : List Str := []
  xURI : List Str := []
  deriving Repr, DecidableEq

abbrev Engine := Level

/-- `hasNameConstraints` -/
def Level.has (l : Level) : Bool :=
  !l.pDNS.isEmpty || !l.xDNS.isEmpty || !l.pIP.isEmpty || !l.xIP.isEmpty ||
  !l.pEmail.isEmpty || !l.xEmail.isEmpty || !l.pURI.isEmpty || !l.xURI.isEmpty

/-- `constraints.New(chain...)`: every list is the concatenation over the chain, in chain order -/
def New (chain : List Level) : Engine :=
  { pDNS := chain.flatMap (·.pDNS), xDNS := chain.flatMap (·.xDNS),
    pIP := chain.flatMap (·.pIP), xIP := chain.flatMap (·.xIP),
    pEmail := chain.flatMap (·.pEmail), xEmail := chain.flatMap (·.xEmail),
    pURI := chain.flatMap (·.pURI), xURI := chain.flatMap (·.xURI) }

structure Names where
  dns : List Str := []
  ips : List (List Nat) := []
  emails : List Str := []
  uris : List Uri := []
  deriving Repr, DecidableEq

inductive Reason where
  | excluded | notPermitted | matchErr
  deriving Repr, DecidableEq

inductive Verdict where
  | allow
  | deny (r : Reason) (k : Kind)   -- ConstraintError: HTTP 403
  | errRfc822                       -- plain error "cannot parse rfc822Name": HTTP 500
  | crash
  deriving Repr, DecidableEq

def Out.verdict (k : Kind) : Out → Verdict
  | .ok => .allow
  | .excluded => .deny .excluded k
  | .notPermitted => .deny .notPermitted k
  | .matchErr => .deny .matchErr k
  | .crash => .crash

/-- one of the four `for` loops of `Validate`: stop at the first name that is not allowed -/
def firstBad {α : Type} (f : α → Verdict) : List α → Verdict
  | [] => .allow
  | a :: as => match f a with
    | .allow => firstBad f as
    | v => v

def checkDNS (e : Engine) (d : Str) : Verdict := (checkName (specMatchDomain d) e.pDNS e.xDNS).verdict .dns
def checkIP (e : Engine) (i : List Nat) : Verdict := (checkName (matchIP i) e.pIP e.xIP).verdict .ip
def checkEmail (e : Engine) (a : Str) : Verdict :=
  match specParseMailbox a with
  | none => .errRfc822
  | some mb => (checkName (specMatchEmail mb) e.pEmail e.xEmail).verdict .email
def checkURI (e : Engine) (u : Uri) : Verdict := (checkName (specMatchURI u) e.pURI e.xURI).verdict .uri

/-- the loop added by `fix:` 41cbd56: with any constraint present, a dNSName that
    `domainToReverseLabels` cannot parse is refused (ConstraintError "cannot parse dnsName") -/
def preParse (n : Names) : Verdict :=
  firstBad (fun d => if (strictLabels d).isNone then .deny .matchErr .dns else .allow) n.dns

/-- the four loops of `Validate` over the flat lists -/
def validateCore (e : Engine) (n : Names) : Verdict :=
  match firstBad (checkDNS e) n.dns with
  | .allow => match firstBad (checkIP e) n.ips with
    | .allow => match firstBad (checkEmail e) n.emails with
      | .allow => firstBad (checkURI e) n.uris
      | v => v
    | v => v
  | v => v

/-- `Engine.Validate` of an engine without `perCert` engines (a nil engine is an engine without
    constraints): this is what a per-certificate engine `New(crt)` runs, and all of `Validate`
    before 4a0d6e3 -/
def validate (e : Engine) (n : Names) : Verdict :=
  if !e.has then .allow
  else match preParse n with
  | .allow => validateCore e n
  | v => v

/-! ### historic: the flat engine before 41cbd56 (2021 matchers, no dNSName pre-parse) -/

def validate2021 (e : Engine) (n : Names) : Verdict :=
  if !e.has then .allow
  else match firstBad (fun d => (checkName (matchDomain d) e.pDNS e.xDNS).verdict .dns) n.dns with
  | .allow => match firstBad (checkIP e) n.ips with
    | .allow => match firstBad (fun a => match parseMailbox a with
          | none => Verdict.errRfc822
          | some mb => (checkName (matchEmail mb) e.pEmail e.xEmail).verdict .email) n.emails with
      | .allow => firstBad (fun u => (checkName (matchURI u) e.pURI e.xURI).verdict .uri) n.uris
      | v => v
    | v => v
  | v => v

/-! ### the engine after `fix:` 4a0d6e3 (per-certificate evaluation) -/

/-- `constraints.Engine` with the `perCert` field -/
structure EngineF where
  flat : Level
  perCert : List Level
  deriving Repr, DecidableEq

/-- `constraints.New(chain...)` as it is now: the flat lists as before; for a chain of more than
    one certificate, one engine `New(crt)` per certificate that has name constraints, kept only
    if there is more than one of them -/
def NewF (chain : List Level) : EngineF :=
  { flat := New chain,
    perCert :=
      if chain.length > 1 then
        let constrained := (chain.map fun l => New [l]).filter (·.has)
        if constrained.length > 1 then constrained else []
      else [] }

/-- `Engine.Validate` as it is now: with `perCert` set every per-certificate engine is asked in
    chain order and the first refusal is returned; otherwise the flat lists are used -/
def validateF (e : EngineF) (n : Names) : Verdict :=
  if !e.flat.has then .allow
  else match preParse n with
  | .allow =>
    if !e.perCert.isEmpty then firstBad (fun c => validate c n) e.perCert
    else validateCore e.flat n
  | v => v

/-! ### chain assembly (authority.go `init`) -/

/-- what `init` looks at in a CA certificate -/
structure Cert where
  subject : Str    -- RawSubject
  issuer : Str     -- RawIssuer
  ski : Str        -- SubjectKeyId
  aki : Str        -- AuthorityKeyId
  nc : Level
  /-- for a configured root: `last.CheckSignatureFrom(root) == nil` for the last intermediate
      (external: computed by the harness with crypto/x509); unused for intermediates -/
  signsLast : Bool := false
  deriving Repr, DecidableEq

/-- **historic** (before `fix:` 94a532b): all intermediates, then every configured root whose
    subject *and* key identifier equal the issuer fields of the last intermediate;
    no intermediates: no engine (`none`). -/
def chainFor (ints roots : List Cert) : Option (List Cert) :=
  match ints.getLast? with
  | none => none
  | some last => some (ints ++ roots.filter fun r => last.issuer == r.subject && last.aki == r.ski)

/-- historic: the authority's decision with the key-identifier selection and the union engine -/
def authorityValidate (ints roots : List Cert) (n : Names) : Verdict :=
  match chainFor ints roots with
  | none => .allow
  | some ch => validate (New (ch.map (·.nc))) n

/-- **historic** (94a532b … before `fix:` 6f79d48): all intermediates, then every configured root
    whose subject equals the *last* intermediate's issuer and whose key verifies its signature -/
def chainForLast (ints roots : List Cert) : Option (List Cert) :=
  match ints.getLast? with
  | none => none
  | some last => some (ints ++ roots.filter fun r => last.issuer == r.subject && r.signsLast)

/-- historic: the authority's decision with the last-element root selection -/
def authorityValidateLast (ints roots : List Cert) (validateOn : List Level → Verdict) : Verdict :=
  match chainForLast ints roots with
  | none => .allow
  | some ch => validateOn (ch.map (·.nc))

/-- the certificates handed to `constraints.New` now (since 6f79d48): all intermediates, then every
    configured root that issued *an* intermediate of the list — its subject is that
    intermediate's issuer and its key verifies that intermediate's signature (`signsLast`:
    external, computed by the harness with `CheckSignatureFrom` over the intermediates) —
    whatever the order of the list. No intermediates: no engine. -/
def chainForSig (ints roots : List Cert) : Option (List Cert) :=
  match ints with
  | [] => none
  | _ => some (ints ++ roots.filter fun r => ints.any (fun c => c.issuer == r.subject) && r.signsLast)

/-- option plumbing (authority/options.go): `WithX509IntermediateCerts(ints...)` *sets* the list of
    intermediates, `WithX509Signer(issuing, key)` / `WithX509SignerChain` *append* their chain to it.
    An embedder that hands the issuing certificate to the signer option and the complete list to
    `WithX509IntermediateCerts` therefore ends up with `ints` when the signer option comes first,
    and with `ints ++ [issuing]` when it comes last. -/
def intsIcFirst (ints : List Cert) : List Cert := ints ++ ints.take 1

/-- the authority's decision for a certificate's names (current code) -/
def authorityValidateF (ints roots : List Cert) (n : Names) : Verdict :=
  match chainForSig ints roots with
  | none => .allow
  | some ch => validateF (NewF (ch.map (·.nc))) n

/-! ### what the pre-signing gate sees of the template (authority/tls.go `signX509` +
    x509util `Certificate.GetCertificate`)

  `leaf := crt.GetCertificate()` copies the DNS names, IP addresses, e-mail addresses and URIs
  into the `x509.Certificate` fields only when the x509util certificate has no subjectAltName
  among its extensions. With a SAN of a type the standard library does not support
  (permanentIdentifier, hardwareModuleName, directoryName, …) x509util builds that extension
  itself, the fields stay empty, and the gate (name constraints *and* policy) looks at no name,
  while the extension — with all the names — is what gets signed. -/

inductive SanCarrier where
  | fields      -- only DNS / IP / e-mail / URI SANs: the name fields are filled
  | extension   -- an extended SAN is present (or a raw subjectAltName extension): fields empty
  deriving Repr, DecidableEq

/-- the names the gate is shown -/
def seenNames (c : SanCarrier) (n : Names) : Names :=
  match c with
  | .fields => n
  | .extension => {}

/-- `Authority.Sign`'s decision on a template that carries the names `n` -/
def signVerdict (c : SanCarrier) (ints roots : List Cert) (n : Names) : Verdict :=
  authorityValidateF ints roots (seenNames c n)

/-! ### root bundle (authority/options.go `readCertificateBundle`, used by `WithX509RootBundle`) -/

/-- one PEM block of a root bundle -/
inductive Block where
  | cert (c : Cert)   -- type CERTIFICATE, no headers, parses
  | badCert           -- type CERTIFICATE, no headers, `x509.ParseCertificate` fails
  | skip              -- any other block (a CRL, a key, a CERTIFICATE block with headers)
  deriving Repr, DecidableEq

/-- `readCertificateBundle`: blocks that are not plain CERTIFICATE blocks are skipped wherever
    they stand, a certificate that does not parse fails the whole bundle (`none`) -/
def readBundle : List Block → Option (List Cert)
  | [] => some []
  | .skip :: rest => readBundle rest
  | .badCert :: _ => none
  | .cert c :: rest => (readBundle rest).map (c :: ·)

/-- the authority's decision when its roots come from a bundle (`none`: the authority does not start) -/
def authorityValidateB (ints : List Cert) (bundle : List Block) (n : Names) : Option Verdict :=
  (readBundle bundle).map fun roots => authorityValidateF ints roots n

/-! ### specification: RFC 5280 §6.1.4 (g), every certificate of the path on its own

  Subtree membership is the one of today's `crypto/x509` (go1.23), which is what relying parties
  run. Since 41cbd56 the engine's DNS, e-mail and URI matchers are the same functions
  (`specMatchDomain`, `specParseMailbox`, `specMatchEmail`, `specMatchURI` above).
  `matchIPConstraint` of crypto/x509 compares address families as encoded (4 against 4, 16
  against 16 octets); since 3d20cbd the engine's copy does the same on every `IPNet` whose mask
  is as long as its address, which is every subtree `x509.ParseCertificate` produces. -/

/-- membership of an iPAddress in a subtree as RFC 5280 §4.2.1.10 defines it: same address
    family (4 against 4 octets, 16 against 16), equal under the mask. No re-interpretation of
    IPv4-mapped IPv6 subtrees. The name is taken in the form a certificate carries (`To4` when
    it exists, which is what `x509.CreateCertificate` writes). -/
def specMatchIP (ip : List Nat) (n : IpNet) : MR :=
  let a := normalizeIP ip
  if a.length ≠ n.ip.length then .no else ipLoop a n.ip n.mask

/-- one name against one certificate's subtrees of its type: in no excluded subtree and, if
    there are permitted subtrees of that type, in one of them -/
def nameOk {C : Type} (m : C → MR) (permitted excluded : List C) : Bool :=
  excluded.all (fun c => m c == .no) && (permitted.isEmpty || permitted.any (fun c => m c == .yes))

/-- all names against one certificate. A certificate without name constraints accepts
    everything; one with constraints needs every dNSName and rfc822Name to be well-formed
    (a verifier cannot place a malformed name inside or outside a subtree). -/
def levelAccept (l : Level) (n : Names) : Bool :=
  !l.has ||
  (n.dns.all (fun d => (strictLabels d).isSome && nameOk (specMatchDomain d) l.pDNS l.xDNS) &&
   n.ips.all (fun i => nameOk (specMatchIP i) l.pIP l.xIP) &&
   n.emails.all (fun a => match specParseMailbox a with
      | none => false
      | some mb => nameOk (specMatchEmail mb) l.pEmail l.xEmail) &&
   n.uris.all (fun u => nameOk (specMatchURI u) l.pURI l.xURI))

/-- the names are acceptable iff they are acceptable to every certificate of the chain -/
def specAccept (chain : List Level) (n : Names) : Bool := chain.all (levelAccept · n)

/-! ### per-certificate evaluation, stated directly (what `validateF ∘ NewF` is proved equal to) -/

/-- evaluate every certificate of the chain with its own engine, stop at the first refusal:
    `for _, crt := range chain { if err := New(crt).Validate(...); err != nil { return err } }` -/
def validatePerCert (chain : List Level) (n : Names) : Verdict :=
  firstBad (fun l => validate (New [l]) n) chain

/-! ### the front ends (api/sign.go, api/renew.go, api/rekey.go, acme/order.go Finalize,
    scep/authority.go SignCSR + scep/api): what a requester sees for the authority's verdict

  Each front end hands the CSR / certificate to `Authority.SignWithContext` / `RenewContext` /
  `Rekey` (source-derived table `frontEnds`) and turns the result into its protocol's answer. -/

inductive Front where
  | sign | renew | rekey | acme | scep
  | renewTok   -- POST /renew authenticated with `Authorization: Bearer <x5cInsecure renew token>`
  deriving Repr, DecidableEq

/-- class of an answer: a certificate, a refusal that blames the request (HTTP 4xx, ACME problem
    with a 4xx status, SCEP pkiStatus FAILURE), or a server error (HTTP 5xx) -/
inductive FrontAns where
  | issued | clientError | serverError
  deriving Repr, DecidableEq

/-- as coded. `api.Sign/Renew/Rekey` render the authority's `errs.Error` with its status (403 for
    a ConstraintError, 500 for the plain rfc822Name error); SCEP answers every failure of
    `SignCSR` with a CertRep of pkiStatus FAILURE; ACME `Order.Finalize` answers a signing error
    with status 403 as `rejectedIdentifier` (400) since `fix:` 89421a7, any other as
    `serverInternal` (500). -/
def frontAnswer : Front → Verdict → FrontAns
  | _, .allow => .issued
  | .scep, _ => .clientError
  | _, .deny _ _ => .clientError
  | _, _ => .serverError

/-- historic: before 89421a7 ACME wrapped every signing error into `serverInternal` -/
def frontAnswerOld : Front → Verdict → FrontAns
  | _, .allow => .issued
  | .scep, _ => .clientError
  | .acme, _ => .serverError
  | _, .deny _ _ => .clientError
  | _, _ => .serverError

/-- the token-authenticated `/renew`: `AuthorizeRenewToken` first verifies the certificate's own
    chain (the x5cInsecure header) against the configured roots with `x509.Verify`; `pathOk` is
    that verification's verdict on the names (external: the old chain is not the CA's). A chain
    that does not verify is answered 401, otherwise the request goes on like any renewal. -/
def renewTokAnswer (pathOk : Bool) (v : Verdict) : FrontAns :=
  if pathOk then frontAnswer .renewTok v else .clientError

/-- what C05 demands of a front end: a certificate iff the names are allowed, and a refusal for
    name constraints (`deny`) is a client error; for the other refusals (unparsable rfc822Name:
    500 at the authority) the property does not fix the class, the code's own is expected -/
def frontDemand (f : Front) : Verdict → FrontAns
  | .allow => .issued
  | .deny _ _ => .clientError
  | v => frontAnswer f v

/-! ### where the engine is consulted (source-derived, stage `paths`)

  The table below is what `harness/cmd/c05_paths` re-derives from the Go source with go/ast on
  every run (the driver prints the table, the check diffs it with the source). -/

/-- one call of interest inside a function of package `authority`, in source order -/
inductive Step where
  | validate (checked : Bool)   -- `<x>.constraintsEngine.ValidateCertificate(…)`
  | gate (checked : Bool)       -- `<x>.isAllowedToSignX509Certificate(…)`
  | casCreate                   -- `<x>.x509CAService.CreateCertificate(…)`
  | casRenew                    -- `<x>.x509CAService.RenewCertificate(…)`
  deriving Repr, DecidableEq

/-- `checked`: the call sits in `if err := …; err != nil { … }` and every branch of that body
    ends in a `return` -/
def issuePaths : List (String × List Step) :=
  [ ("GetTLSCertificate", [.validate true, .casCreate]),
    ("isAllowedToSignX509Certificate", [.validate true]),
    ("renewContext", [.validate true, .casRenew]),
    ("signX509", [.gate true, .casCreate]) ]

/-- every call of `SignWithContext` / `RenewContext` / `Rekey` outside authority/tls.go -/
def frontEnds : List String :=
  [ "acme/order.go:Finalize>SignWithContext", "api/rekey.go:Rekey>Rekey", "api/renew.go:Renew>RenewContext",
    "api/sign.go:Sign>SignWithContext", "api/ssh.go:SSHSign>SignWithContext", "ca/client.go:Sign>SignWithContext",
    "scep/authority.go:SignCSR>SignWithContext" ]

/-- every function that calls `x509util.CreateCertificate` / `x509.CreateCertificate` -/
def certCreators : List String :=
  [ "cas/cloudcas/cloudcas.go:signIntermediateCA", "cas/softcas/softcas.go:createCertificate" ]

/-- the statements of `authority.init` that assemble the chain handed to `constraints.New`, as
    printed from the syntax tree (blanks inside a statement written `_`): all intermediates, then
    every configured root that issued an intermediate of the list (issuer name and signature). This is the shape `chainForSig` models; a change of it breaks the `paths` stage. -/
def rootSelShape : List String :=
  [ "constraintCerts_:=_make([]*x509.Certificate,_0,_size+1)",
    "constraintCerts_=_append(constraintCerts,_a.intermediateX509Certs...)",
    "range a.rootX509Certs",
    "range a.intermediateX509Certs",
    "if bytes.Equal(crt.RawIssuer,_root.RawSubject)_&&_crt.CheckSignatureFrom(root)_==_nil",
    "constraintCerts_=_append(constraintCerts,_root)",
    "a.constraintsEngine_=_constraints.New(constraintCerts...)" ]

def Step.isCas : Step → Bool
  | .casCreate => true
  | .casRenew => true
  | _ => false

def Step.isCheck : Step → Bool
  | .validate true => true
  | .gate true => true
  | _ => false

/-- every CAS call of the list is preceded by a checked validation (directly or through the gate) -/
def guarded : List Step → Bool
  | [] => true
  | st :: rest => if st.isCheck then true else (!st.isCas && guarded rest)

/-! ### what is checked is what is signed (source-derived, stage `paths`, lines `fn=tpl:<function>`)

  For every function that reaches the CAS: everything that happens, in source order, to the
  variable it passes as `Template:`, from its definition to the CAS call. -/

inductive TStep where
  | define                      -- `leaf := …`
  | assign (field : String)     -- `certTpl.DNSNames = …`
  | call (name : String)        -- a call that receives the variable: `m.Enforce(leaf)`
  | check (viaGate : Bool)      -- checked `ValidateCertificate(v)` / `isAllowedToSignX509Certificate(v)` on it
  | cas (renew : Bool)          -- `x509CAService.CreateCertificate / RenewCertificate{Template: v}`
  deriving Repr, DecidableEq

def templatePaths : List (String × List TStep) :=
  [ ("GetTLSCertificate", [.define, .assign "NotBefore", .assign "NotAfter", .assign "DNSNames",
      .assign "IPAddresses", .assign "EmailAddresses", .assign "URIs", .check false, .cas false]),
    ("renewContext", [.define, .assign "PublicKey", .assign "PublicKey", .assign "SubjectKeyId",
      .assign "ExtraExtensions", .assign "SubjectKeyId", .check false, .cas true]),
    ("signX509", [.define, .call "Modify", .call "Modify", .call "Valid", .call "Enforce", .call "Enforce",
      .check true, .call "callAuthorizingWebhooksX509", .cas false]) ]

/-- calls that receive the template but only read it (`callAuthorizingWebhooksX509` serialises it
    into the webhook request body) -/
def readOnlyCalls : List String := ["callAuthorizingWebhooksX509"]

def TStep.readOnly : TStep → Bool
  | .call n => readOnlyCalls.contains n
  | _ => false

/-- scan: `ok` = the template has been checked and not been touched since -/
def sealedGo (ok : Bool) : List TStep → Bool
  | [] => false
  | .cas _ :: _ => ok
  | .check _ :: rest => sealedGo true rest
  | st :: rest => if st.readOnly then sealedGo ok rest else sealedGo false rest

/-- the template that reaches the CAS is the template that was checked: between the last
    checked validation and the CAS call nothing but read-only calls touch the variable -/
def sealed (l : List TStep) : Bool := sealedGo false l

/-! ### model of the name part of `crypto/x509` `Certificate.isValid` (the independent verifier)

  Used only to predict the *class* of a refusal by `x509.Verify` in the end-to-end stage: for
  every CA certificate that has name constraints, leaf to root, the SANs of the leaf are walked
  in the order of the extension (DNS, e-mail, IP, URI) through the verifier's own
  `checkNameConstraints` (same loop as the engine's). `nc`: a name lies in an excluded subtree
  or in no permitted one; `parse`: a name could not be parsed or matched at all. -/

inductive GoV where
  | ok | nc | parse
  deriving Repr, DecidableEq

def firstV {α : Type} (f : α → GoV) : List α → GoV
  | [] => .ok
  | a :: as => match f a with
    | .ok => firstV f as
    | v => v

def Out.goV : Out → GoV
  | .ok => .ok
  | .excluded => .nc
  | .notPermitted => .nc
  | .matchErr => .parse
  | .crash => .parse

def goLevel (l : Level) (n : Names) : GoV :=
  if !l.has then .ok
  else match firstV (fun d => if (strictLabels d).isNone then .parse
                              else (checkName (specMatchDomain d) l.pDNS l.xDNS).goV) n.dns with
  | .ok => match firstV (fun a => match specParseMailbox a with
                | none => .parse
                | some mb => (checkName (specMatchEmail mb) l.pEmail l.xEmail).goV) n.emails with
    | .ok => match firstV (fun i => (checkName (specMatchIP i) l.pIP l.xIP).goV) n.ips with
      | .ok => firstV (fun u => (checkName (specMatchURI u) l.pURI l.xURI).goV) n.uris
      | v => v
    | v => v
  | v => v

def goVerify (chain : List Level) (n : Names) : GoV := firstV (goLevel · n) chain

end Verif.Constraints
