import Verif.Model.Common
/-!
  Model of ACME request authentication, replay protection and account confinement (C12).

  Go code modelled (read line by line; /repo = smallstep/certificates):

  * `acme/api/handler.go`    `route` — the middleware chain per route         → `Route`, `Mw`, `runChain`
                             (the table itself is data: §"route table", to be regenerated)
  * `acme/api/middleware.go` `verifyContentType`, `parseJWS`                  → input bits `ctOk`, `parsed`
                             `validateJWS`                                    → `validateJWS`
                             `extractJWK`                                     → `extractJWK`
                             `lookupJWK`                                      → `lookupJWK`
                             `extractOrLookupJWK`, `canExtractJWKFrom`        → `extractOrLookupJWK`
                             `verifyAndExtractJWSPayload`,
                             `retryVerificationWithPatchedSignatures`         → `verifyPayload`, `verifies`
                             `isPostAsGet`                                    → `isPostAsGet`
                             `addNonce`                                       → `addNonce`
  * `acme/db/nosql/nonce.go` `CreateNonce`, `DeleteNonce` (get+delete in ONE
                             `Update` transaction = one atomic step)          → `issueNonce`, `consumeNonce`
  * `acme/db/nosql/account.go` `GetAccount`, `GetAccountByKeyID`, `UpdateAccount` → `World.accounts`, `accById`, `accByKey`
  * `acme/account.go`        `Account.IsValid`, `GetLocation`                 → `Account.status`, `Account.loc`
  * handlers' authorisation tests:
      `acme/api/order.go`   `GetOrder`, `FinalizeOrder`, `NewOrder`
      `acme/api/handler.go` `GetAuthorization`, `GetChallenge`, `GetCertificate`, `NotImplemented`
      `acme/api/account.go` `NewAccount` (existing / new only), `GetOrUpdateAccount`, `GetOrdersByAccountID`
      `acme/api/revoke.go`  `RevokeCert`, `isAccountAuthorized`, `shouldCheckAccountFrom`   → `runHandler`

  Strings that are only compared for equality (ids, URLs, nonces, thumbprints, algorithm names)
  are `Nat`; `0` is the empty string.

  External calls are inputs (DESIGN §4): `jose.ParseJWS` (the parsed header facts), `jwk.Valid`,
  JWK thumbprints, "the JWS verifies under key k" for each candidate key k (`Jws.ver`, computed by
  the harness with go-jose, as is and with R/S left-padded), x509 parsing of the revocation payload,
  JSON decoding of payloads (`payloadOk`), `url.URL.String()` of the request URL.

  A Go panic is `Rej.crash` (`jws.Signatures[0]` in `extractJWK`/`lookupJWK`/`verifyAndExtractJWSPayload`
  when no signature is present — unreachable behind `validateJWS`, reachable in a chain without it).
-/
namespace Verif.AcmeAuth

/-! ### requests -/

/-- the `switch hdr.Algorithm` of `validateJWS` -/
inductive AlgClass where
  | rsa      -- RS256 RS384 RS512 PS256 PS384 PS512
  | ecEd     -- ES256 ES384 ES512 EdDSA
  | other    -- none, HS256…, anything else
  deriving DecidableEq, Repr

/-- embedded `jwk` header -/
structure Jwk where
  isRsa : Bool        -- Key.(type) is *rsa.PublicKey
  rsaBytes : Nat      -- k.Size()
  valid : Bool        -- jwk.Valid()
  thumb : Nat         -- acme.KeyToID; 0 = thumbprint error
  alg : Nat           -- jwk.Algorithm, 0 = ""
  deriving DecidableEq, Repr

/-- result of go-jose verification under one key: as is, and with the candidates of the
    length-patch retry (R / S / both left-padded by one zero byte) -/
structure Ver where
  plain : Bool
  padR : Bool
  padS : Bool
  padRS : Bool
  deriving DecidableEq, Repr

def Ver.none : Ver := ⟨false, false, false, false⟩

structure Jws where
  nsigs : Nat
  unprotEmpty : Bool       -- unprotected header of signature 0 has no kid/jwk/alg/nonce/extra
  algClass : AlgClass
  alg : Nat                -- protected alg (name)
  isES : Bool              -- alg ∈ {ES256, ES384, ES512}
  short : Nat              -- expected ECDSA signature size − actual size (0 when not shorter)
  jwk : Option Jwk
  kid : Nat                -- protected kid, 0 = ""
  kidBase : Nat            -- path.Base(kid) read as an account id
  kidHasPrefix : Bool      -- strings.HasPrefix(kid, <account link prefix>) (legacy accounts only)
  nonce : Nat
  url : Option Nat         -- protected "url" if it is a string
  ver : List (Nat × Ver)   -- verification under candidate keys, by thumbprint
  payloadEmpty : Bool      -- len(payload) == 0
  deriving DecidableEq, Repr

def Jws.verFor (j : Jws) (thumb : Nat) : Ver :=
  match j.ver.find? (·.1 == thumb) with
  | some p => p.2
  | none => Ver.none

inductive Handler where
  | newAccount | getOrUpdateAccount | keyChange | newOrder | getOrder | ordersByAccount
  | finalize | getAuthz | getChallenge | getCertificate | revokeCert
  deriving DecidableEq, Repr

inductive Mw where
  | linker | checkPrerequisites | addNonce | addDirLink | verifyContentType
  | parseJWS | validateJWS | extractJWK | lookupJWK | extractOrLookupJWK | verifyPayload | isPostAsGet
  deriving DecidableEq, Repr

structure Req where
  provId : Nat             -- provisioner named in the URL: GetID()
  provName : Nat           --                              GetName()
  provKnown : Bool         -- LoadProvisionerByName succeeded and it is an ACME provisioner
  url : Nat                -- "https://" + Host + Path
  ct : Nat                 -- Content-Type: 0 application/jose+json, 1 application/pkix-cert, 2 application/pkcs7-mime, 3 anything else
  certPath : Bool          -- strings.Contains(r.URL.String(), "/<provisioner>/certificate/")
  parsed : Bool
  jws : Jws
  fresh : Nat              -- the nonce `addNonce` mints for the response
  target : Nat             -- {accID} / {ordID} / {authzID} / {certID}; for revoke: the certificate in the payload
  target2 : Nat            -- {chID}
  payloadOk : Bool         -- handler-specific decoding/validation of the payload succeeds
  wantDeactivate : Bool    -- account update with status=deactivated
  onlyExisting : Bool      -- new-account: onlyReturnExisting
  certKey : Nat            -- revoke: thumbprint of the public key of the certificate in the payload (a candidate in `jws.ver`)
  deriving DecidableEq, Repr

/-! ### state -/

inductive Status where | valid | deactivated | revoked
  deriving DecidableEq, Repr

structure Account where
  id : Nat
  key : Nat                -- thumbprint of the stored key
  keyAlg : Nat             -- its Algorithm field, 0 = ""
  status : Status
  loc : Nat                -- GetLocation(), 0 = "" (legacy account without LocationPrefix)
  provId : Nat             -- 0 = ""
  provName : Nat
  deriving DecidableEq, Repr

/-- a stored object with its owner; `prov` only meaningful for orders -/
structure Owned where
  id : Nat
  acct : Nat
  prov : Nat
  deriving DecidableEq, Repr

structure Cert where
  id : Nat
  acct : Nat
  revoked : Bool
  deriving DecidableEq, Repr

structure World where
  nonces : List Nat
  accounts : List Account
  orders : List Owned
  authzs : List Owned
  challenges : List Owned
  certs : List Cert
  deriving DecidableEq, Repr

def accById (w : World) (id : Nat) : Option Account := w.accounts.find? (·.id == id)
def accByKey (w : World) (thumb : Nat) : Option Account := w.accounts.find? (·.key == thumb)
def findOwned (l : List Owned) (id : Nat) : Option Owned := l.find? (·.id == id)
def findCert (w : World) (id : Nat) : Option Cert := w.certs.find? (·.id == id)

/-- `CreateNonce` -/
def issueNonce (w : World) (n : Nat) : World := { w with nonces := n :: w.nonces }

/-- `DeleteNonce`: Get and Delete inside one `Update` transaction — ONE atomic step.
    `true` = the nonce was there (and is gone now). -/
def consumeNonce (w : World) (n : Nat) : World × Bool :=
  if w.nonces.contains n then ({ w with nonces := w.nonces.filter (· != n) }, true) else (w, false)

/-! ### outcomes -/

inductive Rej where
  | malformed            -- 400 malformed
  | badSigAlg            -- 400 badSignatureAlgorithm
  | badNonce             -- 400 badNonce
  | unauthorized         -- 401 unauthorized
  | forbidden            -- 403 unauthorized (revocation)
  | accountDoesNotExist  -- 400 accountDoesNotExist
  | serverInternal       -- 500 serverInternal
  | notImplemented       -- 501 notImplemented
  | alreadyRevoked       -- 400 alreadyRevoked
  | provNotFound         -- provisioner lookup failed
  | crash                -- Go panic
  deriving DecidableEq, Repr

/-- what a successful response carries -/
inductive Res where
  | account (id : Nat)
  | newAccount
  | order (id : Nat)
  | ordersOf (acct : Nat)
  | authz (id : Nat)
  | challenge (id : Nat) (authz : Nat)   -- the challenge answered, and the authorization id it was used with
  | cert (id : Nat)
  | revoked (id : Nat)
  | newOrder (acct prov : Nat)
  deriving DecidableEq, Repr

/-- request context (`context.WithValue` keys of middleware.go) -/
structure Ctx where
  prov : Bool                   -- provisioner in context (linker)
  jws : Option Jws
  acc : Option Account
  jwk : Option (Nat × Nat)      -- (thumbprint, Algorithm) of the key in context
  payload : Option Bool         -- payloadInfo.isPostAsGet
  deriving DecidableEq, Repr

def Ctx.empty : Ctx := ⟨false, none, none, none, none⟩

abbrev Step := World × Except Rej Ctx

/-! ### middleware -/

/-- the `switch hdr.Algorithm` of `validateJWS`, with the RSA key-size test on an embedded key -/
def algCheck (j : Jws) : Except Rej Unit :=
  match j.algClass with
  | .rsa =>
    match j.jwk with
    | some k => if k.isRsa then (if k.rsaBytes < 256 then .error .malformed else .ok ()) else .error .malformed
    | none => .ok ()
  | .ecEd => .ok ()
  | .other => .error .badSigAlg

/-- `validateJWS` (needs the jws in context). The nonce is consumed *before* the url and
    jwk/kid tests, exactly as in the code. -/
def validateJWS (rq : Req) (w : World) (c : Ctx) : Step :=
  match c.jws with
  | none => (w, .error .serverInternal)
  | some j =>
    if j.nsigs = 0 then (w, .error .malformed)
    else if j.nsigs > 1 then (w, .error .malformed)
    else if !j.unprotEmpty then (w, .error .malformed)
    else
      match algCheck j with
      | .error e => (w, .error e)
      | .ok () =>
        match consumeNonce w j.nonce with
        | (w', false) => (w', .error .badNonce)
        | (w', true) =>
          match j.url with
          | none => (w', .error .malformed)
          | some u =>
            if u ≠ rq.url then (w', .error .malformed)
            else if j.jwk.isSome && j.kid ≠ 0 then (w', .error .malformed)
            else if j.jwk.isNone && j.kid = 0 then (w', .error .malformed)
            else (w', .ok c)

/-- `extractJWK` -/
def extractJWK (w : World) (c : Ctx) : Step :=
  match c.jws with
  | none => (w, .error .serverInternal)
  | some j =>
    if j.nsigs = 0 then (w, .error .crash)
    else match j.jwk with
      | none => (w, .error .malformed)
      | some k =>
        if !k.valid then (w, .error .malformed)
        else if k.thumb = 0 then (w, .error .serverInternal)
        else
          let c1 := { c with jwk := some (k.thumb, k.alg) }
          match accByKey w k.thumb with
          | none => (w, .ok c1)
          | some a => if a.status ≠ .valid then (w, .error .unauthorized) else (w, .ok { c1 with acc := some a })

/-- `lookupJWK` -/
def lookupJWK (rq : Req) (w : World) (c : Ctx) : Step :=
  match c.jws with
  | none => (w, .error .serverInternal)
  | some j =>
    if j.nsigs = 0 then (w, .error .crash)
    else if j.kid = 0 then (w, .error .malformed)
    else match accById w j.kidBase with
      | none => (w, .error .accountDoesNotExist)
      | some a =>
        if a.status ≠ .valid then (w, .error .unauthorized)
        else if a.loc ≠ 0 then
          if j.kid ≠ a.loc then (w, .error .unauthorized)
          else if a.provId = 0 && a.provName ≠ rq.provName then (w, .error .unauthorized)
          else if a.provId ≠ 0 && a.provId ≠ rq.provId then (w, .error .unauthorized)
          else (w, .ok { c with acc := some a, jwk := some (a.key, a.keyAlg) })
        else
          if !j.kidHasPrefix then (w, .error .malformed)
          else (w, .ok { c with acc := some a, jwk := some (a.key, a.keyAlg) })

/-- `extractOrLookupJWK` -/
def extractOrLookupJWK (rq : Req) (w : World) (c : Ctx) : Step :=
  match c.jws with
  | none => (w, .error .serverInternal)
  | some j => if j.nsigs ≠ 0 && j.jwk.isSome then extractJWK w c else lookupJWK rq w c

/-- `jws.Verify(jwk)` followed, on a crypto failure, by `retryVerificationWithPatchedSignatures` -/
def verifies (j : Jws) (thumb : Nat) : Bool :=
  let v := j.verFor thumb
  v.plain || (j.isES && ((j.short == 1 && (v.padR || v.padS)) || (j.short == 2 && v.padRS)))

/-- which signature bytes `jws` holds after `verifyAndExtractJWSPayload` succeeded under `thumb`:
    the retry patches `jws.Signatures` in place and leaves the patch when it verified -/
inductive SigState where | plain | padR | padS | padRS
  deriving DecidableEq, Repr

def sigState (j : Jws) (thumb : Nat) : SigState :=
  let v := j.verFor thumb
  if v.plain then .plain
  else if j.short == 1 then (if v.padR then .padR else .padS)
  else .padRS

/-- `jws.Verify(k)` (no retry) on the signature bytes in state `st` -/
def verifiesIn (j : Jws) (st : SigState) (thumb : Nat) : Bool :=
  let v := j.verFor thumb
  match st with
  | .plain => v.plain
  | .padR => v.padR
  | .padS => v.padS
  | .padRS => v.padRS

/-- `verifyAndExtractJWSPayload` -/
def verifyPayload (w : World) (c : Ctx) : Step :=
  match c.jws with
  | none => (w, .error .serverInternal)
  | some j =>
    match c.jwk with
    | none => (w, .error .serverInternal)
    | some (thumb, kalg) =>
      if j.nsigs = 0 then (w, .error .crash)
      else if kalg ≠ 0 && kalg ≠ j.alg then (w, .error .malformed)
      else if !verifies j thumb then (w, .error .malformed)
      else (w, .ok { c with payload := some j.payloadEmpty })

def isPostAsGet (w : World) (c : Ctx) : Step :=
  match c.payload with
  | none => (w, .error .serverInternal)
  | some e => if !e then (w, .error .malformed) else (w, .ok c)

def runMw (m : Mw) (rq : Req) (w : World) (c : Ctx) : Step :=
  match m with
  | .linker => if !rq.provKnown then (w, .error .provNotFound) else (w, .ok { c with prov := true })
  | .checkPrerequisites => (w, .ok c)
  | .addNonce => (issueNonce w rq.fresh, .ok c)
  | .addDirLink => (w, .ok c)
  | .verifyContentType =>
    if !c.prov then (w, .error .serverInternal)
    else if rq.ct = 0 || (rq.certPath && (rq.ct = 1 || rq.ct = 2)) then (w, .ok c)
    else (w, .error .malformed)
  | .parseJWS => if !rq.parsed then (w, .error .malformed) else (w, .ok { c with jws := some rq.jws })
  | .validateJWS => validateJWS rq w c
  | .extractJWK => extractJWK w c
  | .lookupJWK => lookupJWK rq w c
  | .extractOrLookupJWK => extractOrLookupJWK rq w c
  | .verifyPayload => verifyPayload w c
  | .isPostAsGet => isPostAsGet w c

def runChain : List Mw → Req → World → Ctx → Step
  | [], _, w, c => (w, .ok c)
  | m :: ms, rq, w, c =>
    match runMw m rq w c with
    | (w', .error e) => (w', .error e)
    | (w', .ok c') => runChain ms rq w' c'

/-! ### handlers (authorisation tests only; what they do to orders/challenges is C10/C11's subject) -/

abbrev HStep := World × Except Rej Res

def setStatus (w : World) (id : Nat) (s : Status) : World :=
  { w with accounts := w.accounts.map fun a => if a.id == id then { a with status := s } else a }

def setRevoked (w : World) (id : Nat) : World :=
  { w with certs := w.certs.map fun x => if x.id == id then { x with revoked := true } else x }

def runHandler (h : Handler) (rq : Req) (w : World) (c : Ctx) : HStep :=
  match h with
  | .newAccount =>
    -- only the part C12 is about: an existing account is returned to the holder of its key,
    -- anything else goes on to account creation (C20 for the binding)
    match c.payload with
    | none => (w, .error .serverInternal)
    | some _ =>
      if !rq.payloadOk then (w, .error .malformed)
      else match c.acc with
        | some a => (w, .ok (.account a.id))
        | none => if rq.onlyExisting then (w, .error .accountDoesNotExist) else (w, .ok .newAccount)
  | .keyChange => (w, .error .notImplemented)
  | .revokeCert =>
    match c.jws, c.payload with
    | some j, some _ =>
      if !rq.payloadOk then (w, .error .malformed)
      else match findCert w rq.target with
        | none => (w, .error .malformed)
        | some x =>
          let authorised : Except Rej Unit :=
            if !(j.nsigs ≠ 0 && j.jwk.isSome) then
              match c.acc with
              | none => .error .accountDoesNotExist
              | some a =>
                if a.status ≠ .valid then .error .forbidden
                else if x.acct = a.id then .ok () else .error .forbidden
            else
              -- signed with the certificate's key: `jws.Verify(certToBeRevoked.PublicKey)` on the
              -- signature bytes as `verifyAndExtractJWSPayload` left them
              match c.jwk with
              | none => .error .forbidden
              | some (thumb, _) =>
                if verifiesIn j (sigState j thumb) rq.certKey then .ok () else .error .forbidden
          match authorised with
          | .error e => (w, .error e)
          | .ok () => if x.revoked then (w, .error .alreadyRevoked) else (setRevoked w x.id, .ok (.revoked x.id))
    | _, _ => (w, .error .serverInternal)
  | h =>
    match c.acc with
    | none => (w, .error .accountDoesNotExist)
    | some a =>
      match h with
      | .getOrUpdateAccount =>
        match c.payload with
        | none => (w, .error .serverInternal)
        | some pag =>
          if pag then (w, .ok (.account a.id))
          else if !rq.payloadOk then (w, .error .malformed)
          else if rq.wantDeactivate then (setStatus w a.id .deactivated, .ok (.account a.id))
          else (w, .ok (.account a.id))
      | .newOrder =>
        if !c.prov then (w, .error .serverInternal)
        else match c.payload with
          | none => (w, .error .serverInternal)
          | some _ => if !rq.payloadOk then (w, .error .malformed) else (w, .ok (.newOrder a.id rq.provId))
      | .getOrder =>
        if !c.prov then (w, .error .serverInternal)
        else match findOwned w.orders rq.target with
          | none => (w, .error .malformed)
          | some o =>
            if a.id ≠ o.acct then (w, .error .unauthorized)
            else if rq.provId ≠ o.prov then (w, .error .unauthorized)
            else (w, .ok (.order o.id))
      | .finalize =>
        if !c.prov then (w, .error .serverInternal)
        else match c.payload with
          | none => (w, .error .serverInternal)
          | some _ =>
            if !rq.payloadOk then (w, .error .malformed)
            else match findOwned w.orders rq.target with
              | none => (w, .error .malformed)
              | some o =>
                if a.id ≠ o.acct then (w, .error .unauthorized)
                else if rq.provId ≠ o.prov then (w, .error .unauthorized)
                else (w, .ok (.order o.id))
      | .ordersByAccount =>
        if a.id ≠ rq.target then (w, .error .unauthorized) else (w, .ok (.ordersOf a.id))
      | .getAuthz =>
        match findOwned w.authzs rq.target with
        | none => (w, .error .malformed)
        | some z => if a.id ≠ z.acct then (w, .error .unauthorized) else (w, .ok (.authz z.id))
      | .getChallenge =>
        match c.payload with
        | none => (w, .error .serverInternal)
        | some _ =>
          -- db.GetChallenge(chID, authzID): the nosql store ignores authzID; `ch.AuthorizationID = azID`
          match findOwned w.challenges rq.target2 with
          | none => (w, .error .malformed)
          | some ch => if a.id ≠ ch.acct then (w, .error .unauthorized) else (w, .ok (.challenge ch.id rq.target))
      | .getCertificate =>
        match findCert w rq.target with
        | none => (w, .error .malformed)
        | some x => if x.acct ≠ a.id then (w, .error .unauthorized) else (w, .ok (.cert x.id))
      | _ => (w, .error .serverInternal)

/-- one request through a chain and a handler -/
def serve (chain : List Mw) (h : Handler) (rq : Req) (w : World) : HStep :=
  match runChain chain rq w Ctx.empty with
  | (w', .error e) => (w', .error e)
  | (w', .ok c) => runHandler h rq w' c

/-! ### route table

  TO BE REGENERATED by the extractor from `acme/api/handler.go` (`route`): one row per
  `r.MethodFunc`, the middleware chain flattened by expanding the local closures
  `commonMiddleware`, `validatingMiddleware`, `extractPayloadByJWK/ByKid/ByKidOrJWK`.
  Until the extractor is wired (`Verif/Generated/AcmeRoutes.lean`), this copy was made by hand
  and is cross-checked against the real router at run time by the C12 `routes` stage
  (every route of `chi.Walk` is probed for each middleware and compared with this table).
-/

inductive Method where | GET | HEAD | POST
  deriving DecidableEq, Repr

/-- handler of a row; `other` = not one of the POST resource handlers (GetNonce, GetDirectory) -/
inductive RowHandler where
  | h (h : Handler)
  | other
  deriving DecidableEq, Repr

structure Route where
  method : Method
  path : Str            -- chi pattern relative to the ACME prefix
  chain : List Mw
  handler : RowHandler
  deriving DecidableEq, Repr

def common : List Mw := [.linker, .checkPrerequisites]
def validating : List Mw := common ++ [.addNonce, .addDirLink, .verifyContentType, .parseJWS, .validateJWS]
def byJWK : List Mw := validating ++ [.extractJWK, .verifyPayload]
def byKid : List Mw := validating ++ [.lookupJWK, .verifyPayload]
def byKidOrJWK : List Mw := validating ++ [.extractOrLookupJWK, .verifyPayload]

/-- BEGIN pasted table (to be regenerated) … END marked below -/
def pastedRoutes : List Route := [
  ⟨.GET,  s "/{provisionerID}/new-nonce", common ++ [.addNonce, .addDirLink], .other⟩,
  ⟨.HEAD, s "/{provisionerID}/new-nonce", common ++ [.addNonce, .addDirLink], .other⟩,
  ⟨.GET,  s "/{provisionerID}/directory", common, .other⟩,
  ⟨.HEAD, s "/{provisionerID}/directory", common, .other⟩,
  ⟨.POST, s "/{provisionerID}/new-account", byJWK, .h .newAccount⟩,
  ⟨.POST, s "/{provisionerID}/account/{accID}", byKid, .h .getOrUpdateAccount⟩,
  ⟨.POST, s "/{provisionerID}/key-change", byKid, .h .keyChange⟩,
  ⟨.POST, s "/{provisionerID}/new-order", byKid, .h .newOrder⟩,
  ⟨.POST, s "/{provisionerID}/order/{ordID}", byKid ++ [.isPostAsGet], .h .getOrder⟩,
  ⟨.POST, s "/{provisionerID}/account/{accID}/orders", byKid ++ [.isPostAsGet], .h .ordersByAccount⟩,
  ⟨.POST, s "/{provisionerID}/order/{ordID}/finalize", byKid, .h .finalize⟩,
  ⟨.POST, s "/{provisionerID}/authz/{authzID}", byKid ++ [.isPostAsGet], .h .getAuthz⟩,
  ⟨.POST, s "/{provisionerID}/challenge/{authzID}/{chID}", byKid, .h .getChallenge⟩,
  ⟨.POST, s "/{provisionerID}/certificate/{certID}", byKid ++ [.isPostAsGet], .h .getCertificate⟩,
  ⟨.POST, s "/{provisionerID}/revoke-cert", byKidOrJWK, .h .revokeCert⟩
]
-- END pasted table

/-- which key selector a handler's route must use -/
inductive Sel where | jwk | kid | either
  deriving DecidableEq, Repr

def Sel.mw : Sel → Mw
  | .jwk => .extractJWK
  | .kid => .lookupJWK
  | .either => .extractOrLookupJWK

def requiredSel : Handler → Sel
  | .newAccount => .jwk
  | .revokeCert => .either
  | _ => .kid

/-- the only admissible shape of a POST chain -/
def guardedChain (sel : Sel) (pag : Bool) : List Mw :=
  validating ++ [sel.mw, .verifyPayload] ++ (if pag then [.isPostAsGet] else [])

/-- a row is guarded: every POST route ends in a resource handler behind
    `… parseJWS, validateJWS, <the selector its handler requires>, verifyAndExtractJWSPayload [, isPostAsGet]`;
    no resource handler is reachable by another method -/
def rowGuarded (r : Route) : Bool :=
  match r.method, r.handler with
  | .POST, .h h => r.chain == guardedChain (requiredSel h) false || r.chain == guardedChain (requiredSel h) true
  | .POST, .other => false
  | _, .h _ => false
  | _, .other => true

def tableGuarded (rs : List Route) : Bool := rs.all rowGuarded

/-- look a route up by method and pattern -/
def findRoute (rs : List Route) (m : Method) (p : Str) : Option Route :=
  rs.find? fun r => r.method == m && r.path == p

/-! ### reading the regenerated table (`Verif/Generated/AcmeRoutes.lean`, written by /verif/extract)

  The extractor emits strings: (method, "<link type>/<url parameters>", middleware names outermost
  first, handler name). Unknown names make the conversion fail (fail closed). -/

def methodOfName : String → Option Method
  | "GET" => some .GET | "HEAD" => some .HEAD | "POST" => some .POST | _ => none

def mwOfName : String → Option Mw
  | "linker.Middleware" => some .linker
  | "checkPrerequisites" => some .checkPrerequisites
  | "addNonce" => some .addNonce
  | "addDirLink" => some .addDirLink
  | "verifyContentType" => some .verifyContentType
  | "parseJWS" => some .parseJWS
  | "validateJWS" => some .validateJWS
  | "extractJWK" => some .extractJWK
  | "lookupJWK" => some .lookupJWK
  | "extractOrLookupJWK" => some .extractOrLookupJWK
  | "verifyAndExtractJWSPayload" => some .verifyPayload
  | "isPostAsGet" => some .isPostAsGet
  | _ => none

def handlerOfName : String → Option RowHandler
  | "GetNonce" => some .other
  | "GetDirectory" => some .other
  | "NewAccount" => some (.h .newAccount)
  | "GetOrUpdateAccount" => some (.h .getOrUpdateAccount)
  | "NotImplemented" => some (.h .keyChange)
  | "NewOrder" => some (.h .newOrder)
  | "GetOrder" => some (.h .getOrder)
  | "GetOrdersByAccountID" => some (.h .ordersByAccount)
  | "FinalizeOrder" => some (.h .finalize)
  | "GetAuthorization" => some (.h .getAuthz)
  | "GetChallenge" => some (.h .getChallenge)
  | "GetCertificate" => some (.h .getCertificate)
  | "RevokeCert" => some (.h .revokeCert)
  | _ => none

/-- `acme.GetUnescapedPathSuffix` for the registrations of `route` (parameters that the link type
    ignores, like `{accID}` of key-change, are dropped exactly as that function drops them) -/
def patternOfLink : String → Option Str
  | "acme.NewNonceLinkType/{provisionerID}" => some (s "/{provisionerID}/new-nonce")
  | "acme.DirectoryLinkType/{provisionerID}" => some (s "/{provisionerID}/directory")
  | "acme.NewAccountLinkType/{provisionerID}" => some (s "/{provisionerID}/new-account")
  | "acme.AccountLinkType/{provisionerID}/{accID}" => some (s "/{provisionerID}/account/{accID}")
  | "acme.KeyChangeLinkType/{provisionerID}/{accID}" => some (s "/{provisionerID}/key-change")
  | "acme.NewOrderLinkType/{provisionerID}" => some (s "/{provisionerID}/new-order")
  | "acme.OrderLinkType/{provisionerID}/{ordID}" => some (s "/{provisionerID}/order/{ordID}")
  | "acme.OrdersByAccountLinkType/{provisionerID}/{accID}" => some (s "/{provisionerID}/account/{accID}/orders")
  | "acme.FinalizeLinkType/{provisionerID}/{ordID}" => some (s "/{provisionerID}/order/{ordID}/finalize")
  | "acme.AuthzLinkType/{provisionerID}/{authzID}" => some (s "/{provisionerID}/authz/{authzID}")
  | "acme.ChallengeLinkType/{provisionerID}/{authzID}/{chID}" => some (s "/{provisionerID}/challenge/{authzID}/{chID}")
  | "acme.CertificateLinkType/{provisionerID}/{certID}" => some (s "/{provisionerID}/certificate/{certID}")
  | "acme.RevokeCertLinkType/{provisionerID}" => some (s "/{provisionerID}/revoke-cert")
  | _ => none

def rowOfGenerated (r : String × String × List String × String) : Option Route := do
  let m ← methodOfName r.1
  let p ← patternOfLink r.2.1
  let ch ← r.2.2.1.mapM mwOfName
  let h ← handlerOfName r.2.2.2
  pure ⟨m, p, ch, h⟩

def ofGenerated (rows : List (String × String × List String × String)) : Option (List Route) :=
  rows.mapM rowOfGenerated

end Verif.AcmeAuth
