import Verif.Model.Common
/-!
  Model of X.509 renewal / rekey (property C09). Core Lean only.

  Which Go code each definition models (paths relative to /repo unless stated otherwise):

  * `renewTemplate`        authority/tls.go `renewContext`: the `newCert` literal (field copy), the
                           public key choice and the loop that fills `ExtraExtensions`.
  * `generated`, `assemble` Go `crypto/x509` `buildCertExtensions` + `CreateCertificate`: ten
                           conditional generated extensions in a fixed order, each skipped when
                           its OID occurs in `ExtraExtensions`, followed by `ExtraExtensions`.
  * `caSign`               cas/softcas/softcas.go `RenewCertificate` (validity from now/backdate/
                           lifetime, `Lifetime == 0` is an error) + `x509util.CreateCertificate`
                           (serial, subject key id generated because the template never carries one)
                           + `x509.CreateCertificate` (authority key id := parent subject key id).
  * `dbLookup` inputs      authority/provisioners.go `unsafeLoadProvisionerFromDatabase`
  * `extLookup` inputs     authority/provisioner/collection.go `LoadByCertificate`
  * `loadByCertificate`    authority/provisioners.go `LoadProvisionerByCertificate`,
                           `unsafeLoadProvisionerFromExtension`
  * `provAuthorizeRenew`   authority/provisioner/noop.go `AuthorizeRenew`, provisioner.go
                           `base.AuthorizeRenew`, `Uninitialized` (embedded provisioner whose
                           controller is nil), jwk.go/x5c.go/… `p.ctl.AuthorizeRenew`,
                           controller.go `Controller.AuthorizeRenew`, `DefaultAuthorizeRenew`
  * `selectProvisioner`, `callAuthorizeRenew`, `authorizeRenew`
                           authority/authorize.go `authorizeRenew` (lookup with no-op fallback; the call)
  * `authorizeRenewToken`  authority/authorize.go `AuthorizeRenewToken` (decision skeleton)
  * `apiRenew`             api/renew.go `Renew` + `getPeerCertificate`, api/rekey.go `Rekey`
  * `renew`                authority/tls.go `RenewContext` = gate, template, CAS

  External calls are inputs: revocation lookup, database record lookup, provisioner collection
  lookups, wall clock comparisons (`notYetValid`, `expired` are computed by the harness from
  `time.Now().Truncate(time.Second)` exactly as `DefaultAuthorizeRenew` does), DER encoders of
  the generated extensions (`Enc`), key-identifier hash (`skiOf`), serial number generator.

  `Variant` selects between the tree before the repairs (D9, D17), /repo HEAD after the two
  `fix:` commits, and the full repair (D9 also for RA-wrapped records); the one-line switch is
  `current` below.
-/
namespace Verif.Renew
open Verif

/-! ## 1. Certificates, extensions -/

abbrev Oid := List Nat

structure Ext where
  oid : Oid
  critical : Bool
  value : Str
  deriving DecidableEq, Repr

def oidSKI : Oid := [2, 5, 29, 14]
def oidKU : Oid := [2, 5, 29, 15]
def oidSAN : Oid := [2, 5, 29, 17]
def oidBC : Oid := [2, 5, 29, 19]
def oidNC : Oid := [2, 5, 29, 30]
def oidCRLDP : Oid := [2, 5, 29, 31]
def oidPol : Oid := [2, 5, 29, 32]
def oidAKI : Oid := [2, 5, 29, 35]
def oidEKU : Oid := [2, 5, 29, 37]
def oidAIA : Oid := [1, 3, 6, 1, 5, 5, 7, 1, 1]
/-- `provisioner.StepOIDProvisioner` -/
def oidStepProvisioner : Oid := [1, 3, 6, 1, 4, 1, 37476, 9000, 64, 1]

/-- The parsed fields of an `x509.Certificate` that `renewContext` copies verbatim into the
    template. Strings/addresses/URLs are opaque byte strings: the model only copies them and
    tests lists for emptiness, exactly like the Go code. -/
structure Fields where
  rawSubject : Str
  keyUsage : Nat
  extKeyUsage : List Nat
  unknownExtKeyUsage : List Oid
  unhandledCritical : List Oid
  bcValid : Bool
  isCA : Bool
  maxPathLen : Int
  maxPathLenZero : Bool
  ocspServer : List Str
  issuingURL : List Str
  dnsNames : List Str
  emailAddresses : List Str
  ipAddresses : List Str
  uris : List Str
  ncCritical : Bool
  permDNS : List Str
  exclDNS : List Str
  permIP : List Str
  exclIP : List Str
  permEmail : List Str
  exclEmail : List Str
  permURI : List Str
  exclURI : List Str
  crlDP : List Str
  policies : List Oid
  deriving DecidableEq, Repr

/-- A parsed certificate = the components of its TBSCertificate: the copied fields (among them
    the raw subject), what is *not* copied (version, serial, signature algorithm, issuer, validity,
    key, parsed subject key identifier) and the raw `Extensions` list in certificate order. The
    signature value itself is outside the model. -/
structure Cert where
  f : Fields
  version : Nat            -- 3 for everything `x509.CreateCertificate` emits
  serial : Nat
  sigAlg : Str             -- AlgorithmIdentifier of the signature (chosen from the signer's key)
  issuer : Str             -- raw issuer name
  notBefore : Int
  notAfter : Int
  publicKey : Str          -- raw SubjectPublicKeyInfo
  subjectKeyId : Str       -- parsed `SubjectKeyId` (empty when there is no such extension)
  extensions : List Ext
  deriving DecidableEq, Repr

/-- `x509.Certificate` used as a template for `CreateCertificate`. `none` is Go's nil
    (`SerialNumber == nil`, `SubjectKeyId == nil`); `some []` is an empty non-nil slice. -/
structure Tpl where
  f : Fields
  publicKey : Str
  serial : Option Nat
  subjectKeyId : Option Str
  extra : List Ext
  deriving DecidableEq, Repr

/-- `oidInExtensions` -/
def hasOid (o : Oid) (es : List Ext) : Bool := es.any (fun e => e.oid == o)

/-- `cert.Extensions` entry with a given OID (first one; parsed certificates have no duplicates). -/
def extOf (o : Oid) (es : List Ext) : Option Ext := es.find? (fun e => e.oid == o)

def dropOid (o : Oid) (es : List Ext) : List Ext := es.filter (fun e => !(e.oid == o))

/-! ## 1b. Variants of the code -/

/-- The code as it stands and the two proposed repairs. -/
structure Variant where
  /-- D9 repair (commit c93b602): `authorizeRenew` refuses `provisioner.Uninitialized` by a type
      assertion on the selected provisioner (as `getProvisionerFromToken` does) -/
  refuseUninit : Bool
  /-- D17 repair (commit 33e7bf8): in the fallback branch the no-op provisioner is not accepted
      when `certificateRecordsProvisioner(cert)` (the database names a provisioner) -/
  noNoopWhenDbNames : Bool
  /-- D9-RA repair (commit df3f6ee): the `Uninitialized` test looks through `*wrappedProvisioner` -/
  unwrapUninit : Bool
  /-- C09-SKI repair (commit ce0e905): `renewContext` sets an empty non-nil `SubjectKeyId` when it
      renews (not rekeys) a certificate whose parsed `SubjectKeyId` is empty -/
  keepNoSKI : Bool
  /-- rekey key check (observation O3, deliberately not applied: C09 does not speak about key
      strength): `renewContext` would refuse a rekey to a key the sign flow's
      `defaultPublicKeyValidator` refuses -/
  rekeyKeyCheck : Bool
  /-- C09-MIG repair (proposed, not applied): the ca.json -> admin-database migration resolves the
      renewal flags a provisioner leaves unset against the authority-level claims before storing
      them (linkedca claims have no "unset") -/
  migrationKeepsGlobals : Bool
  /-- D62 repair (commit 5596a41): `renewContext` answers 400 when the presented certificate's
      validity period is not longer than the authority's backdate (the new certificate would be
      expired when issued) -/
  refuseShortValidity : Bool
  deriving DecidableEq, Repr

/-- the tree before the two `fix:` commits -/
def asCodedBefore : Variant := ⟨false, false, false, false, false, false, false⟩
/-- the tree after c93b602 (D9) and 33e7bf8 (D17), before df3f6ee -/
def fixedD9D17 : Variant := ⟨true, true, false, false, false, false, false⟩
/-- the tree after df3f6ee, before ce0e905 (C09-SKI) -/
def beforeSKIFix : Variant := ⟨true, true, true, false, false, false, false⟩
/-- the tree before 5596a41 (a certificate not longer than the backdate was renewed) -/
def beforeBackdateFix : Variant := ⟨true, true, true, true, false, false, false⟩
/-- /repo HEAD: the gate repairs (c93b602, 33e7bf8, df3f6ee), the C09-SKI repair (ce0e905) and the
    backdate repair (5596a41) -/
def repaired : Variant := ⟨true, true, true, true, false, false, true⟩
/-- HEAD plus the key check on rekey that was considered and not applied -/
def withKeyCheck : Variant := ⟨true, true, true, true, true, false, true⟩
/-- HEAD plus the proposed migration repair -/
def withMigrationRepair : Variant := ⟨true, true, true, true, false, true, true⟩

/-- THE ONE-LINE SWITCH: which variant the driver (and so the correspondence check) runs. -/
def current : Variant := repaired

/-! ## 2. `renewContext`: the template -/

/-- The loop over `oldCert.Extensions`: everything is copied except the authority key identifier
    and, on rekey, the subject key identifier. -/
def copyExtensions (isRekey : Bool) (es : List Ext) : List Ext :=
  es.filter fun e => !(e.oid == oidAKI) && !(e.oid == oidSKI && isRekey)

/-- `newCert := &x509.Certificate{…}`; `pk = none` is renew, `some k` is rekey. `SerialNumber`
    is not set (nil: the CAS draws a fresh one). `SubjectKeyId` is never copied (it stays nil; the
    loop sets it to nil again on rekey); with the C09-SKI repair it becomes an empty non-nil slice
    when a certificate without subject key identifier is renewed. -/
def renewTemplate (v : Variant) (old : Cert) (pk : Option Str) : Tpl :=
  { f := old.f
    publicKey := pk.getD old.publicKey
    serial := none
    subjectKeyId := if v.keepNoSKI && pk.isNone && old.subjectKeyId.isEmpty then some [] else none
    extra := copyExtensions pk.isSome old.extensions }

/-! ## 3. Go's extension assembly -/

/-- DER encoders of the generated extensions (`marshalKeyUsage`, `marshalExtKeyUsage`,
    `marshalBasicConstraints`, `asn1.Marshal(subjectKeyId)`, `asn1.Marshal(authKeyId{…})`,
    authority info access, `marshalSANs`, `marshalCertificatePolicies`, name constraints,
    CRL distribution points). External: the theorems hold for every `Enc`. -/
structure Enc where
  ku : Fields → Str
  eku : Fields → Str
  bc : Fields → Str
  ski : Str → Str
  aki : Str → Str
  aia : Fields → Str
  san : Fields → Str
  pol : Fields → Str
  nc : Fields → Str
  crl : Fields → Str
  /-- the parser's counterpart of `ski`: content of the OCTET STRING of a subject key id extension -/
  skiDec : Str → Str

/-- `bytes.Equal(asn1Subject, emptyASN1Subject)` -/
def subjectIsEmpty (f : Fields) : Bool := f.rawSubject == [0x30, 0x00]

def hasNameConstraints (f : Fields) : Bool :=
  !f.permDNS.isEmpty || !f.exclDNS.isEmpty || !f.permIP.isEmpty || !f.exclIP.isEmpty ||
  !f.permEmail.isEmpty || !f.exclEmail.isEmpty || !f.permURI.isEmpty || !f.exclURI.isEmpty

/-- One `if cond && !oidInExtensions(oid, template.ExtraExtensions) { ret[n] = …; n++ }` block. -/
def slot (extra : List Ext) (cond : Bool) (e : Ext) : List Ext :=
  if cond && !hasOid e.oid extra then [e] else []

/-- `buildCertExtensions` up to `ret[:n]`, in source order. -/
def generated (enc : Enc) (t : Tpl) (aki ski : Str) : List Ext :=
  let f := t.f
  slot t.extra (f.keyUsage != 0) ⟨oidKU, true, enc.ku f⟩ ++
  slot t.extra (!f.extKeyUsage.isEmpty || !f.unknownExtKeyUsage.isEmpty) ⟨oidEKU, false, enc.eku f⟩ ++
  slot t.extra f.bcValid ⟨oidBC, true, enc.bc f⟩ ++
  slot t.extra (!ski.isEmpty) ⟨oidSKI, false, enc.ski ski⟩ ++
  slot t.extra (!aki.isEmpty) ⟨oidAKI, false, enc.aki aki⟩ ++
  slot t.extra (!f.ocspServer.isEmpty || !f.issuingURL.isEmpty) ⟨oidAIA, false, enc.aia f⟩ ++
  slot t.extra (!f.dnsNames.isEmpty || !f.emailAddresses.isEmpty || !f.ipAddresses.isEmpty || !f.uris.isEmpty)
    ⟨oidSAN, subjectIsEmpty f, enc.san f⟩ ++
  slot t.extra (!f.policies.isEmpty) ⟨oidPol, false, enc.pol f⟩ ++
  slot t.extra (hasNameConstraints f) ⟨oidNC, f.ncCritical, enc.nc f⟩ ++
  slot t.extra (!f.crlDP.isEmpty) ⟨oidCRLDP, false, enc.crl f⟩

/-- `ret = append(ret[:n], template.ExtraExtensions...)` -/
def assemble (enc : Enc) (t : Tpl) (aki ski : Str) : List Ext :=
  generated enc t aki ski ++ t.extra

/-! ## 4. The CAS: validity, serial, key identifiers -/

/-- What the CA contributes at signing time. -/
structure Env where
  enc : Enc
  now : Int                -- seconds
  backdate : Int           -- `a.config.AuthorityConfig.Backdate`
  serial : Nat             -- fresh random serial
  issuerSubject : Str      -- `chain[0].Subject`
  parentSKI : Str          -- `parent.SubjectKeyId` (authority key id of everything issued)
  skiOf : Str → Str        -- `x509util.generateSubjectKeyID`
  sha1Of : Str → Str       -- crypto/x509's own fallback for CA certificates without identifier
  sigAlg : Str             -- signature algorithm the signer's key implies
  keyOK : Str → Bool       -- `defaultPublicKeyValidator` accepts the key (RSA ≥ 2048, EC, Ed25519)

inductive SignErr where
  | zeroLifetime           -- "createCertificateRequest `lifetime` cannot be 0"
  deriving DecidableEq, Repr

/-- `RenewCertificate` → `createCertificate`. The parsed result is described by its extension
    list; its parsed fields are those of the template, which is what `x509.ParseCertificate`
    yields when every field-bearing extension of the result is byte-identical to the one the
    field was read from (assumption *parse determinism*, validated on every harness case). -/
def caSign (env : Env) (t : Tpl) (lifetime : Int) : Except SignErr Cert :=
  if lifetime = 0 then .error .zeroLifetime else
  -- x509util.CreateCertificate: SerialNumber == nil ⇒ fresh random serial;
  -- SubjectKeyId == nil ⇒ generated from the public key (an empty non-nil slice is kept)
  let serial := match t.serial with | some n => n | none => env.serial
  let ski0 := match t.subjectKeyId with | some k => k | none => env.skiOf t.publicKey
  -- x509.CreateCertificate: `if len(subjectKeyId) == 0 && template.IsCA { sha1 of the key }`
  let ski := if ski0.isEmpty && t.f.isCA then env.sha1Of t.publicKey else ski0
  let exts := assemble env.enc t env.parentSKI ski
  .ok { f := t.f
        version := 3
        serial := serial
        sigAlg := env.sigAlg
        issuer := env.issuerSubject
        notBefore := env.now - env.backdate
        notAfter := env.now + lifetime
        publicKey := t.publicKey
        subjectKeyId := match extOf oidSKI exts with | some e => env.enc.skiDec e.value | none => []
        extensions := exts }

/-! ## 5. The gates -/

/-- `Config.AuthorizeRenewFunc`: not configured, or configured and returning nil / an error. -/
inductive Custom where
  | none | allow | refuse
  deriving DecidableEq, Repr

/-- A provisioner value held by the provisioner collection. -/
inductive Stored where
  /-- initialised provisioner with a controller: JWK, OIDC, X5C, ACME, K8sSA, Nebula, AWS, GCP, Azure -/
  | ctl (disableRenewal allowAfterExpiry : Bool) (custom : Custom)
  /-- types that inherit `base.AuthorizeRenew` (SCEP, SSHPOP): "not implemented" -/
  | base
  /-- `provisioner.Uninitialized{Interface: p}` around a controller-based type: `p.ctl == nil` -/
  | uninit
  deriving DecidableEq, Repr

/-- What `AuthorizeRenew` is called on: a stored provisioner or `&noop{}`. -/
inductive Prov where
  /-- a provisioner from the collection; `wrapped`: returned inside `wrappedProvisioner` because the
      database record carries RA information (`wrapRAProvisioner`), which hides its dynamic type
      from a type assertion but forwards every method -/
  | stored (s : Stored) (wrapped : Bool)
  | noop
  deriving DecidableEq, Repr

/-- `a.IsRevoked(serial)` -/
inductive Revoked where
  | no | yes | err
  deriving DecidableEq, Repr

/-- `unsafeLoadProvisionerFromDatabase`: no usable record (no database, lookup error, no data, or
    data without provisioner); a record naming a provisioner id that `provisioners.Load` does not
    find; a record whose provisioner is loaded (`ra`: the record has `RaInfo`, the result is
    `wrapRAProvisioner(p, data.RaInfo)`). -/
inductive DbLookup where
  | noRecord | gone | found (p : Stored) (ra : Bool)
  deriving DecidableEq, Repr

/-- `Collection.LoadByCertificate`: no provisioner extension (⇒ noop, true); extension that does
    not unmarshal (⇒ nil, false); extension naming a provisioner `LoadByName` does not find
    (⇒ nil, false); found. -/
inductive ExtLookup where
  | noExt | malformed | gone | found (p : Stored)
  deriving DecidableEq, Repr

structure GateIn where
  revoked : Revoked
  db : DbLookup
  ext : ExtLookup
  notYetValid : Bool       -- `now.Before(cert.NotBefore)`
  expired : Bool           -- `now.After(cert.NotAfter)`
  deriving DecidableEq, Repr

inductive Reason where
  | revocationCheckFailed | revoked | provisionerNotFound | uninitialized
  | notImplemented | renewDisabled | notYetValid | expired | customRefused | keyRejected
  | notLongerThanBackdate
  deriving DecidableEq, Repr

inductive Decision where
  | allow
  | refuse (r : Reason)
  deriving DecidableEq, Repr

/-- Result of `Collection.LoadByCertificate` as (value, ok). -/
def collectionLoadByCertificate : ExtLookup → Option Prov
  | .noExt => some .noop
  | .malformed => none
  | .gone => none
  | .found p => some (.stored p false)

/-- `unsafeLoadProvisionerFromExtension`: `!ok || p.GetType() == 0` is an error (noop has type 0). -/
def loadFromExtension (e : ExtLookup) : Option Prov :=
  match collectionLoadByCertificate e with
  | some .noop => none
  | some p => some p
  | none => none

/-- `LoadProvisionerByCertificate`: database first, then the extension. `none` = error. -/
def loadByCertificate (i : GateIn) : Option Prov :=
  match i.db with
  | .found p ra => some (.stored p ra)
  | _ => loadFromExtension i.ext

/-- `DefaultAuthorizeRenew` -/
def defaultAuthorizeRenew (disableRenewal allowAfterExpiry : Bool) (i : GateIn) : Decision :=
  if disableRenewal then .refuse .renewDisabled
  else if i.notYetValid then .refuse .notYetValid
  else if i.expired && !allowAfterExpiry then .refuse .expired
  else .allow

/-- `p.AuthorizeRenew(ctx, cert)` for each kind of provisioner value. The uninitialised case
    dereferences the nil controller: a Go panic. -/
def provAuthorizeRenew (i : GateIn) : Prov → M Decision
  | .noop => .val .allow
  | .stored .base _ => .val (.refuse .notImplemented)
  | .stored .uninit _ => .crash
  | .stored (.ctl _ _ .allow) _ => .val .allow
  | .stored (.ctl _ _ .refuse) _ => .val (.refuse .customRefused)
  | .stored (.ctl d a .none) _ => .val (defaultAuthorizeRenew d a i)

/-- The first half of `authorizeRenew` after the revocation check:
    `p, err := a.LoadProvisionerByCertificate(cert)`; on error fall back to
    `a.provisioners.LoadByCertificate(cert)`. `none` = "provisioner not found". -/
def selectProvisioner (v : Variant) (i : GateIn) : Option Prov :=
  match loadByCertificate i with
  | some p => some p
  | none =>
    match collectionLoadByCertificate i.ext with
    | none => none
    | some q =>
      -- D17 repair: `if !ok || a.certificateRecordsProvisioner(cert) { not found }`. Here `q`
      -- can only be the no-op provisioner, and the database lookup has failed, so the record
      -- names a provisioner exactly when `db = gone`.
      if v.noNoopWhenDbNames && i.db == .gone then none else some q

/-- The second half: `p.AuthorizeRenew(ctx, cert)`, preceded (D9 repair) by
    `if _, ok := p.(provisioner.Uninitialized); ok { refuse }`. The assertion is on the dynamic
    type of `p`: it fails for a `*wrappedProvisioner` around an uninitialised provisioner. -/
def callAuthorizeRenew (v : Variant) (i : GateIn) (p : Prov) : M Decision :=
  match p with
  | .stored .uninit wrapped =>
    if v.refuseUninit && (!wrapped || v.unwrapUninit) then .val (.refuse .uninitialized)
    else provAuthorizeRenew i p
  | _ => provAuthorizeRenew i p

/-- `authorizeRenew`: decision and the provisioner returned alongside (used for metering only). -/
def authorizeRenew (v : Variant) (i : GateIn) : M (Decision × Option Prov) :=
  match i.revoked with
  | .err => .val (.refuse .revocationCheckFailed, none)
  | .yes => .val (.refuse .revoked, none)
  | .no =>
    match selectProvisioner v i with
    | none => .val (.refuse .provisionerNotFound, none)
    | some p =>
      match callAuthorizeRenew v i p with
      | .crash => .crash
      | .val d => .val (d, some p)

def decide (v : Variant) (i : GateIn) : M Decision :=
  match authorizeRenew v i with
  | .crash => .crash
  | .val (d, _) => .val d

/-! ## 6. `RenewContext` end to end -/

inductive Outcome where
  | refused (r : Reason)
  | signError (e : SignErr)
  | issued (c : Cert)
  deriving DecidableEq, Repr

/-- the proposed key check: on rekey, a key the sign flow would refuse is refused -/
def keyRefused (v : Variant) (env : Env) : Option Str → Bool
  | some k => v.rekeyKeyCheck && !env.keyOK k
  | none => false

/-- `renewContext` (the CA's own name constraints engine is an input of C05, not of this model:
    the fixture CA has no constraints, so `ValidateCertificate` accepts). -/
def renew (v : Variant) (env : Env) (i : GateIn) (old : Cert) (pk : Option Str) : M Outcome :=
  -- proposed key check, first thing on rekey
  if keyRefused v env pk then
    .val (.refused .keyRejected)
  else
  match decide v i with
  | .crash => .crash
  | .val (.refuse r) => .val (.refused r)
  | .val .allow =>
    let lifetime := (old.notAfter - old.notBefore) - env.backdate
    -- 5596a41: `if lifetime <= 0 { 400 }`, after the gate, before the template is built
    if v.refuseShortValidity && Decidable.decide (lifetime ≤ 0) then .val (.refused .notLongerThanBackdate) else
    match caSign env (renewTemplate v old pk) lifetime with
    | .error e => .val (.signError e)
    | .ok c => .val (.issued c)

/-! ## 7. Entry points (api/renew.go, api/rekey.go, AuthorizeRenewToken) -/

/-- How the certificate reached the handler. `mtls`: `r.TLS.PeerCertificates[0]`, which the TLS
    stack only exposes after verifying the chain *and the validity window* at handshake time.
    `token`: `Authorization: Bearer` renew token (x5c, time-insensitive chain check). -/
inductive Entry where
  | mtls
  | token (parses claimsVerify tokenUnused claimsValid audienceOk issuerOk : Bool)
  | nothing
  deriving DecidableEq, Repr

inductive ApiResult where
  | badRequest | unauthorized | crash | refused (r : Reason) | signError | created (c : Cert)
  deriving DecidableEq, Repr

/-- `isRAProvisioner(p)` for the provisioner `LoadProvisionerByCertificate` returned: only a
    `*wrappedProvisioner` built from a database record with `RaInfo` implements `raProvisioner`
    with non-nil RA information. -/
def isRAProvisioner : Option Prov → Bool
  | some (.stored _ wrapped) => wrapped
  | _ => false

/-- `AuthorizeRenewToken` decision skeleton: the provisioner must load (noop is an error here);
    `tokenUnused`: the token's own `jti` (payload hash when empty) has not been recorded yet
    (`a.useRenewToken`, commit 42a611b: independent of the provisioner's type);
    the audience test is `!matchesAudience(…) && !isRAProvisioner(p)`: a renew token for a
    certificate issued through a registration authority is addressed to the RA's URL, so its
    audience is deliberately not compared. -/
def authorizeRenewToken (i : GateIn) : Entry → Bool
  | .token parses claimsVerify tokenUnused claimsValid audienceOk issuerOk =>
    parses && claimsVerify && (loadByCertificate i).isSome && tokenUnused && claimsValid &&
      (audienceOk || isRAProvisioner (loadByCertificate i)) && issuerOk
  | _ => false

def apiRenew (v : Variant) (env : Env) (i : GateIn) (old : Cert) (pk : Option Str) (e : Entry) : ApiResult :=
  let run : ApiResult :=
    match renew v env i old pk with
    | .crash => .crash
    | .val (.refused r) => .refused r
    | .val (.signError _) => .signError
    | .val (.issued c) => .created c
  match e with
  | .nothing => .badRequest
  | .mtls => run
  | .token .. =>
    -- rekey accepts only the TLS peer certificate
    if pk.isSome then .badRequest
    else if authorizeRenewToken i e then run else .unauthorized

/-! ## 8. The handlers on the request as received (api/renew.go, api/rekey.go) -/

/-- `strings.SplitN(s, "Bearer ", 2)` has two parts: the text after the *first occurrence* of
    `Bearer ` anywhere in the header value (the scheme is not anchored at the start). -/
def afterBearer : Str → Option Str
  | [] => none
  | c :: cs =>
    if (s "Bearer ").isPrefixOf (c :: cs) then some ((c :: cs).drop 7) else afterBearer cs

/-- What `POST /1.0/renew` looks at. -/
structure RenewReq where
  hasPeer : Bool           -- `r.TLS != nil && len(r.TLS.PeerCertificates) > 0`
  authorization : Str      -- value of the `Authorization` header, empty when absent
  deriving DecidableEq, Repr

inductive PeerSource where
  | peer | bearer (tok : Str) | missing
  deriving DecidableEq, Repr

/-- `getPeerCertificate`: the TLS peer wins; else a bearer token; else 400. -/
def getPeerCertificate (r : RenewReq) : PeerSource :=
  if r.hasPeer then .peer
  else if r.authorization.isEmpty then .missing
  else match afterBearer r.authorization with
    | some t => .bearer t
    | none => .missing

/-- `api.Renew`. `tokenChecks t` are the outcomes of the checks `AuthorizeRenewToken` makes on the
    token string `t` (external: JOSE parsing, signature, one-time use, claims). -/
def handleRenew (v : Variant) (env : Env) (i : GateIn) (old : Cert) (r : RenewReq)
    (tokenChecks : Str → Bool × Bool × Bool × Bool × Bool × Bool) : ApiResult :=
  match getPeerCertificate r with
  | .peer => apiRenew v env i old none .mtls
  | .bearer t =>
    let (a, b, c, d, e, f) := tokenChecks t
    apiRenew v env i old none (.token a b c d e f)
  | .missing => .badRequest

/-- What `POST /1.0/rekey` looks at (the `Authorization` header is ignored). -/
structure RekeyReq where
  hasPeer : Bool
  bodyParses : Bool        -- `read.JSON(r.Body, &body)` succeeds
  csrPresent : Bool        -- `body.CsrPEM.CertificateRequest != nil`
  csrSigOK : Bool          -- `CertificateRequest.CheckSignature()`: proof of possession of the new key
  csrKey : Str
  deriving DecidableEq, Repr

/-- `api.Rekey` + `RekeyRequest.Validate`. -/
def handleRekey (v : Variant) (env : Env) (i : GateIn) (old : Cert) (r : RekeyReq) : ApiResult :=
  if !r.hasPeer then .badRequest
  else if !r.bodyParses then .badRequest
  else if !r.csrPresent then .badRequest
  else if !r.csrSigOK then .badRequest
  else apiRenew v env i old (some r.csrKey) .mtls

/-! ## 8a. The TLS layer in front of the handlers (ca/ca.go `getTLSConfig`, crypto/tls)

  The CA's listener asks for a client certificate and verifies one *if given*
  (`tls.VerifyClientCertIfGiven` against the CA's roots and intermediates, at the wall clock of
  the handshake). A certificate that does not verify - wrong CA, not yet valid, expired - ends
  the handshake: no request reaches a handler. -/

/-- what the client shows in the handshake -/
inductive Presented where
  | nothing
  | cert (chainOK notYetValid expired : Bool)
  deriving DecidableEq, Repr

/-- `none`: the handshake fails; `some b`: the request is served, `b` = a verified peer certificate
    is attached to it -/
def tlsHandshake : Presented → Option Bool
  | .nothing => some false
  | .cert chainOK nyv exp => if chainOK && !nyv && !exp then some true else none

/-- `POST /1.0/renew` (and the unversioned `/renew`) as served by the CA process -/
def serveRenew (v : Variant) (env : Env) (i : GateIn) (old : Cert) (p : Presented) (authorization : Str)
    (tokenChecks : Str → Bool × Bool × Bool × Bool × Bool × Bool) : Option ApiResult :=
  (tlsHandshake p).map fun peer => handleRenew v env i old ⟨peer, authorization⟩ tokenChecks

/-- `POST /1.0/rekey` as served by the CA process -/
def serveRekey (v : Variant) (env : Env) (i : GateIn) (old : Cert) (p : Presented)
    (bodyParses csrPresent csrSigOK : Bool) (csrKey : Str) : Option ApiResult :=
  (tlsHandshake p).map fun peer => handleRekey v env i old ⟨peer, bodyParses, csrPresent, csrSigOK, csrKey⟩

/-! ## 8b. Where the renewal flags come from: configuration, migration, restart

  `provisioner.Claims` has pointer fields (nil = "not set here, use the authority-level claims");
  `Claimer.IsDisableRenewal` / `AllowRenewalAfterExpiry` resolve them. On the first start with
  `enableAdmin` the provisioners of ca.json are stored through `ProvisionerToLinkedca`
  (`claimsToLinkedca`: linkedca claims are plain booleans, an unset flag becomes the compile-time
  default `false`) and from then on loaded through `claimsToCertificates` (every flag set). -/

/-- the two renewal flags of a `provisioner.Claims` object -/
structure RFlags where
  disableRenewal : Option Bool
  allowAfterExpiry : Option Bool
  deriving DecidableEq, Repr

/-- authority-level claims after `config` filled in its defaults (both `false`) -/
structure GlobalFlags where
  disableRenewal : Bool
  allowAfterExpiry : Bool
  deriving DecidableEq, Repr

/-- `Claimer.IsDisableRenewal`, `Claimer.AllowRenewalAfterExpiry`; `none` = the provisioner has no
    claims object -/
def effectiveFlags (g : GlobalFlags) (pc : Option RFlags) : Bool × Bool :=
  match pc with
  | none => (g.disableRenewal, g.allowAfterExpiry)
  | some c => (c.disableRenewal.getD g.disableRenewal, c.allowAfterExpiry.getD g.allowAfterExpiry)

/-- `claimsToLinkedca` restricted to the renewal flags; with the proposed repair the defaults are
    the authority-level claims instead of the compile-time `false` -/
def claimsToLinkedca (v : Variant) (g : GlobalFlags) (pc : Option RFlags) : Option (Bool × Bool) :=
  pc.map fun c =>
    if v.migrationKeepsGlobals then
      (c.disableRenewal.getD g.disableRenewal, c.allowAfterExpiry.getD g.allowAfterExpiry)
    else (c.disableRenewal.getD false, c.allowAfterExpiry.getD false)

/-- `claimsToCertificates` -/
def claimsToCertificates (l : Option (Bool × Bool)) : Option RFlags :=
  l.map fun (d, a) => ⟨some d, some a⟩

/-- what the provisioner's claims are once it lives in the admin database -/
def migrateClaims (v : Variant) (g : GlobalFlags) (pc : Option RFlags) : Option RFlags :=
  claimsToCertificates (claimsToLinkedca v g pc)

/-- the phases of a provisioner's life the stage drives -/
inductive Phase where
  | config | migrated | restarted
  deriving DecidableEq, Repr

/-- the provisioner's claims object in each phase (a restart reloads what the migration stored) -/
def claimsAt (v : Variant) (g : GlobalFlags) (pc : Option RFlags) : Phase → Option RFlags
  | .config => pc
  | .migrated => migrateClaims v g pc
  | .restarted => claimsToCertificates (claimsToLinkedca v g (migrateClaims v g pc))

/-- The gate input of a certificate (extension + database record, not revoked) of that provisioner:
    in ca.json the provisioner's id is `name:kid` and the record resolves; the migrated provisioner
    has a fresh id, the record no longer resolves and the extension's name does. -/
def phaseGate (v : Variant) (g : GlobalFlags) (pc : Option RFlags) (ph : Phase) (expired : Bool) : GateIn :=
  let (d, a) := effectiveFlags g (claimsAt v g pc ph)
  match ph with
  | .config => ⟨.no, .found (.ctl d a .none) false, .found (.ctl d a .none), false, expired⟩
  | _ => ⟨.no, .gone, .found (.ctl d a .none), false, expired⟩

/-! ## 8c. Where certificates and revocations are kept: standalone and linked deployments

  Every store access of the renewal path is routed on the dynamic type of `a.adminDB`: when it
  offers the operation (the linked-CA client does) the linked service is used and the local database
  is not looked at; otherwise the local database. Writers: `storeCertificate`,
  `storeRenewedCertificate`, `Authority.revoke`; readers: `Authority.IsRevoked`,
  `unsafeLoadProvisionerFromDatabase`, `certificateRecordsProvisioner` (`GetCertificateData`). -/

inductive Deployment where
  | standalone | linked
  deriving DecidableEq, Repr

/-- the two places -/
structure Stores where
  linkedRevoked : List Nat       -- serials revoked at the linked CA service
  localRevoked : List Nat        -- serials in the local `revoked_x509_certs` table
  linkedRecords : List (Nat × String)   -- serial ↦ provisioner id recorded by the linked service
  localRecords : List (Nat × String)
  deriving DecidableEq, Repr

def Stores.empty : Stores := ⟨[], [], [], []⟩

/-- What happens to the stores. `certPresented`: the revocation request came with the certificate
    (mutual TLS, ACME) rather than with a token and a serial number; in a linked deployment the
    certificate is then not known locally (`a.db.GetCertificate` finds nothing, `crt == nil`). -/
inductive StoreOp where
  | issue (serial : Nat) (provisionerId : String)
  | renewed (parent serial : Nat)
  | revoke (serial : Nat) (certPresented : Bool)
  deriving DecidableEq, Repr

def lookupRecord (rs : List (Nat × String)) (s : Nat) : Option String := (rs.find? (·.1 == s)).map (·.2)

/-- `storeCertificate`, `storeRenewedCertificate` (the renewed certificate inherits the parent's
    record), `Authority.revoke`: all route on the deployment only. -/
def applyOp (d : Deployment) (st : Stores) : StoreOp → Stores
  | .issue s p =>
    match d with
    | .linked => { st with linkedRecords := (s, p) :: st.linkedRecords }
    | .standalone => { st with localRecords := (s, p) :: st.localRecords }
  | .renewed parent s =>
    match d with
    | .linked =>
      match lookupRecord st.linkedRecords parent with
      | some p => { st with linkedRecords := (s, p) :: st.linkedRecords }
      | none => st
    | .standalone =>
      match lookupRecord st.localRecords parent with
      | some p => { st with localRecords := (s, p) :: st.localRecords }
      | none => st
  | .revoke s _ =>
    match d with
    | .linked => { st with linkedRevoked := s :: st.linkedRevoked }
    | .standalone => { st with localRevoked := s :: st.localRevoked }

def runOps (d : Deployment) (ops : List StoreOp) : Stores := ops.foldl (applyOp d) Stores.empty

/-- `Authority.IsRevoked` -/
def isRevokedAt (d : Deployment) (st : Stores) (s : Nat) : Bool :=
  match d with
  | .linked => st.linkedRevoked.contains s
  | .standalone => st.localRevoked.contains s

/-- `GetCertificateData(serial).Provisioner.ID` as both lookups see it -/
def recordAt (d : Deployment) (st : Stores) (s : Nat) : Option String :=
  match d with
  | .linked => lookupRecord st.linkedRecords s
  | .standalone => lookupRecord st.localRecords s

/-- the gate input of a certificate after a history of store operations: the revocation lookup and
    the database lookup are read from the stores of the deployment; `loaded id` says which stored
    provisioner an id resolves to, if any -/
def gateAfter (d : Deployment) (ops : List StoreOp) (serial : Nat) (loaded : String → Option Stored)
    (ext : ExtLookup) (nyv exp : Bool) : GateIn :=
  let st := runOps d ops
  { revoked := if isRevokedAt d st serial then .yes else .no
    db := match recordAt d st serial with
      | none => .noRecord
      | some id => match loaded id with
        | some p => .found p false
        | none => .gone
    ext := ext, notYetValid := nyv, expired := exp }

/-! ## 9. Source-derived facts

  Tables that stage `facts` re-derives with go/ast from the working tree (and from the Go
  toolchain's crypto/x509) on every run and compares with these definitions. The theorems of
  Props/C09.lean Part G tie the tables to the model's functions. -/

def dotted (o : Oid) : String := ".".intercalate (o.map toString)

/-- Go names of the `x509.Certificate` fields the model's `Fields` stands for, in the order of the
    structure's declaration. -/
def fieldsGoNames : List String :=
  ["RawSubject", "KeyUsage", "ExtKeyUsage", "UnknownExtKeyUsage", "UnhandledCriticalExtensions",
   "BasicConstraintsValid", "IsCA", "MaxPathLen", "MaxPathLenZero", "OCSPServer", "IssuingCertificateURL",
   "DNSNames", "EmailAddresses", "IPAddresses", "URIs", "PermittedDNSDomainsCritical",
   "PermittedDNSDomains", "ExcludedDNSDomains", "PermittedIPRanges", "ExcludedIPRanges",
   "PermittedEmailAddresses", "ExcludedEmailAddresses", "PermittedURIDomains", "ExcludedURIDomains",
   "CRLDistributionPoints", "PolicyIdentifiers"]

/-- keys of the `newCert := &x509.Certificate{…}` literal of `renewContext`, each a verbatim
    `X: oldCert.X`, sorted -/
def renewTemplateFields : List String :=
  ["BasicConstraintsValid", "CRLDistributionPoints", "DNSNames", "EmailAddresses", "ExcludedDNSDomains",
   "ExcludedEmailAddresses", "ExcludedIPRanges", "ExcludedURIDomains", "ExtKeyUsage", "IPAddresses", "IsCA",
   "IssuingCertificateURL", "KeyUsage", "MaxPathLen", "MaxPathLenZero", "OCSPServer", "PermittedDNSDomains",
   "PermittedDNSDomainsCritical", "PermittedEmailAddresses", "PermittedIPRanges", "PermittedURIDomains",
   "PolicyIdentifiers", "RawSubject", "URIs", "UnhandledCriticalExtensions", "UnknownExtKeyUsage"]

/-- every later assignment `newCert.<field> = <expr>` in `renewContext`, in source order -/
def renewTemplateAssignments : List String :=
  ["PublicKey=pk", "PublicKey=oldCert.PublicKey", "SubjectKeyId=nil",
   "ExtraExtensions=append(newCert.ExtraExtensions,ext)", "SubjectKeyId=[]byte{}"]

/-- the assigned fields of `renewTemplateAssignments` -/
def renewTemplateAssignedFields : List String :=
  ["PublicKey", "PublicKey", "SubjectKeyId", "ExtraExtensions", "SubjectKeyId"]

/-- fields of the certificate's identity that the template must not carry -/
def identityFields : List String :=
  ["SerialNumber", "NotBefore", "NotAfter", "Issuer", "RawIssuer", "AuthorityKeyId", "Signature",
   "SignatureAlgorithm", "Raw", "RawTBSCertificate", "RawSubjectPublicKeyInfo", "Extensions"]

/-- OIDs the copy loop tests with `ext.Id.Equal(…)`, in source order -/
def skippedExtensionOids : List Oid := [oidAKI, oidSKI]

/-- crypto/x509 `buildCertExtensions`: the OIDs of the `oidInExtensions(…, template.ExtraExtensions)`
    guards in source order = the order in which generated extensions are emitted -/
def generatedOrder : List Oid :=
  [oidKU, oidEKU, oidBC, oidSKI, oidAKI, oidAIA, oidSAN, oidPol, oidNC, oidCRLDP]

def authorizeRenewCalls : List String :=
  ["IsRevoked", "LoadProvisionerByCertificate", "loadProvisionerByCertificateOrNoop",
   "certificateRecordsProvisioner", "assert:*wrappedProvisioner", "assert:provisioner.Uninitialized",
   "AuthorizeRenew"]

def renewTokenCalls : List String :=
  ["ParseX5cInsecure", "Claims", "LoadProvisionerByCertificate", "useRenewToken", "ValidateWithLeeway",
   "matchesAudience", "isRAProvisioner", "GetName"]

def defaultAuthorizeRenewChecks : List String :=
  ["IsDisableRenewal", "Before", "After", "AllowRenewalAfterExpiry"]

/-- provisioner types whose `AuthorizeRenew` is `return p.ctl.AuthorizeRenew(ctx, cert)` (`Stored.ctl`) -/
def ctlRenewTypes : List String := ["ACME", "AWS", "Azure", "GCP", "JWK", "K8sSA", "Nebula", "OIDC", "X5C"]
/-- provisioner types that embed `*base` and define no `AuthorizeRenew` (`Stored.base`) -/
def baseRenewTypes : List String := ["SCEP", "SSHPOP"]

/-- `claimsToLinkedca`: which claim feeds which local and which local feeds which stored field
    (the shape `claimsToLinkedca` of section 8b models: each flag travels on its own) -/
def claimsToLinkedcaFlow : List String :=
  ["c.DisableRenewal!=nil=>disableRenewal=*c.DisableRenewal",
   "c.AllowRenewalAfterExpiry!=nil=>allowRenewalAfterExpiry=*c.AllowRenewalAfterExpiry",
   "c.DisableSmallstepExtensions!=nil=>disableSmallstepExtensions=*c.DisableSmallstepExtensions",
   "lit:DisableRenewal:disableRenewal", "lit:AllowRenewalAfterExpiry:allowRenewalAfterExpiry",
   "lit:DisableSmallstepExtensions:disableSmallstepExtensions"]

def claimsToCertificatesFlow : List String :=
  ["DisableRenewal:&c.DisableRenewal", "AllowRenewalAfterExpiry:&c.AllowRenewalAfterExpiry",
   "DisableSmallstepExtensions:&c.DisableSmallstepExtensions"]

/-- every provisioner type's case of `ProvisionerToLinkedca` passes its claims through
    `claimsToLinkedca` (so the model's conversion has no type parameter) -/
def typesConvertedToLinkedca : List String :=
  ["ACME", "AWS", "Azure", "GCP", "JWK", "K8sSA", "Nebula", "OIDC", "SCEP", "SSHPOP", "X5C"]

/-- `ProvisionerToCertificates` converts once, in front of the type switch, and every case uses it -/
def typesConvertedToCertificates : List String :=
  ["first:claims,err:=claimsToCertificates(p.Claims)",
   "ACME", "AWS", "Azure", "GCP", "JWK", "K8sSA", "Nebula", "OIDC", "SCEP", "SSHPOP", "X5C"]

/-- the routes that reach the renew / rekey handlers -/
def renewRoutes : List String :=
  ["\"POST\"\"/renew\"->Renew", "\"POST\"\"/rekey\"->Rekey", "\"POST\"\"/re-sign\"->Renew"]

/-- the listener's client-certificate policy (`tlsHandshake` of section 8a) -/
def tlsClientAuth : List String :=
  ["serverTLSConfig.ClientAuth=tls.VerifyClientCertIfGiven", "serverTLSConfig.ClientCAs=certPool"]

/-- the routing functions of section 8c and, for each, the conditions under which it asks the admin
    database / the local database for the optional operation: "offers it" and nothing else -/
def storeRouting : List (String × List String) :=
  [("revoke", ["adminDB?ok"]), ("IsRevoked", ["adminDB?ok"]),
   ("certificateRecordsProvisioner", ["adminDB?ok", "db?ok"]),
   ("unsafeLoadProvisionerFromDatabase", ["adminDB?ok", "db?ok"]),
   ("storeRenewedCertificate", ["adminDB?ok"])]

/-- name ↦ table, as the extractor renders it -/
def factTable : String → Option (List String)
  | "renewTemplateFields" => some renewTemplateFields
  | "renewTemplateAssignments" => some renewTemplateAssignments
  | "renewTemplateAssignedFields" => some renewTemplateAssignedFields
  | "skippedExtensionOids" => some (skippedExtensionOids.map dotted)
  | "authorizeRenewCalls" => some authorizeRenewCalls
  | "renewTokenCalls" => some renewTokenCalls
  | "loadByCertificateCalls" => some ["unsafeLoadProvisionerFromDatabase", "unsafeLoadProvisionerFromExtension"]
  | "databaseLookupKey" => some ["a.provisioners.Load(data.Provisioner.ID)"]
  | "extensionLookup" => some ["!ok||p.GetType()==0"]
  | "renewContextCalls" => some ["renewContext"]
  | "defaultAuthorizeRenewChecks" => some defaultAuthorizeRenewChecks
  | "controllerAuthorizeRenew" => some ["AuthorizeRenewFunc", "DefaultAuthorizeRenew"]
  | "ctlRenewTypes" => some ctlRenewTypes
  | "baseRenewTypes" => some baseRenewTypes
  | "otherRenewTypes" => some ["Controller", "MockProvisioner", "base", "noop"]
  | "rekeyHandlerArgs" => some ["r.TLS.PeerCertificates[0]", "body.CsrPEM.CertificateRequest.PublicKey"]
  | "renewHandlerArgs" => some ["ctx", "cert", "nil"]
  | "peerCertificateSources" => some ["r.TLS!=nil&&len(r.TLS.PeerCertificates)>0", "s!=\"\"", "len(parts)==2"]
  | "claimsToLinkedcaFlow" => some claimsToLinkedcaFlow
  | "claimsToCertificatesFlow" => some claimsToCertificatesFlow
  | "typesConvertedToLinkedca" => some typesConvertedToLinkedca
  | "typesConvertedToCertificates" => some typesConvertedToCertificates
  | "renewRoutes" => some renewRoutes
  | "tlsClientAuth" => some tlsClientAuth
  | "storeRouting:revoke" => storeRouting.lookup "revoke"
  | "storeRouting:IsRevoked" => storeRouting.lookup "IsRevoked"
  | "storeRouting:certificateRecordsProvisioner" => storeRouting.lookup "certificateRecordsProvisioner"
  | "storeRouting:unsafeLoadProvisionerFromDatabase" => storeRouting.lookup "unsafeLoadProvisionerFromDatabase"
  | "storeRouting:storeRenewedCertificate" => storeRouting.lookup "storeRenewedCertificate"
  | "goGeneratedOrder" => some (generatedOrder.map dotted)
  | "goExtraAppended" => some ["append(ret[:n],template.ExtraExtensions...)"]
  | _ => none

end Verif.Renew
