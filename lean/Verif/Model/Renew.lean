import Verif.Model.Common
/-!
  Model of X.509 renewal / rekey (property C09). Core Lean only.

  Which Go code each definition models (paths relative to /repo unless stated otherwise):

  * `renewTemplate`        authority/tls.go `renewContext`: the `newCert` literal (field copy), the
                           public key choice and the loop that fills `ExtraExtensions`.
  * `generated`, `assemble` Go `crypto/x509` `buildCertExtensions` + `CreateCertificate`: ten
                           conditional generated extensions in a fixed order, each skipped when
                           its OID occurs in `ExtraExtensions`, followed by `ExtraExtensions`.
  * `caSign`               cas/softcas/softcas.go `RenewCertificate` (validity from now/backdate/
                           lifetime, `Lifetime == 0` is an error) + `x509util.CreateCertificate`
                           (serial, subject key id generated because the template never carries one)
                           + `x509.CreateCertificate` (authority key id := parent subject key id).
  * `dbLookup` inputs      authority/provisioners.go `unsafeLoadProvisionerFromDatabase`
  * `extLookup` inputs     authority/provisioner/collection.go `LoadByCertificate`
  * `loadByCertificate`    authority/provisioners.go `LoadProvisionerByCertificate`,
                           `unsafeLoadProvisionerFromExtension`
  * `provAuthorizeRenew`   authority/provisioner/noop.go `AuthorizeRenew`, provisioner.go
                           `base.AuthorizeRenew`, `Uninitialized` (embedded provisioner whose
                           controller is nil), jwk.go/x5c.go/… `p.ctl.AuthorizeRenew`,
                           controller.go `Controller.AuthorizeRenew`, `DefaultAuthorizeRenew`
  * `selectProvisioner`, `callAuthorizeRenew`, `authorizeRenew`
                           authority/authorize.go `authorizeRenew` (lookup with no-op fallback; the call)
  * `authorizeRenewToken`  authority/authorize.go `AuthorizeRenewToken` (decision skeleton)
  * `apiRenew`             api/renew.go `Renew` + `getPeerCertificate`, api/rekey.go `Rekey`
  * `renew`                authority/tls.go `RenewContext` = gate, template, CAS

  External calls are inputs: revocation lookup, database record lookup, provisioner collection
  lookups, wall clock comparisons (`notYetValid`, `expired` are computed by the harness from
  `time.Now().Truncate(time.Second)` exactly as `DefaultAuthorizeRenew` does), DER encoders of
  the generated extensions (`Enc`), key-identifier hash (`skiOf`), serial number generator.

  `Variant` selects between the tree before the repairs (D9, D17), /repo HEAD after the two
  `fix:` commits, and the full repair (D9 also for RA-wrapped records); the one-line switch is
  `current` below.
-/
namespace Verif.Renew
open Verif

/-! ## 1. Certificates, extensions -/

abbrev Oid := List Nat

structure Ext where
  oid : Oid
  critical : Bool
  value : Str
  deriving DecidableEq, Repr

def oidSKI : Oid := [2, 5, 29, 14]
def oidKU : Oid := [2, 5, 29, 15]
def oidSAN : Oid := [2, 5, 29, 17]
def oidBC : Oid := [2, 5, 29, 19]
def oidNC : Oid := [2, 5, 29, 30]
def oidCRLDP : Oid := [2, 5, 29, 31]
def oidPol : Oid := [2, 5, 29, 32]
def oidAKI : Oid := [2, 5, 29, 35]
def oidEKU : Oid := [2, 5, 29, 37]
def oidAIA : Oid := [1, 3, 6, 1, 5, 5, 7, 1, 1]
/-- `provisioner.StepOIDProvisioner` -/
def oidStepProvisioner : Oid := [1, 3, 6, 1, 4, 1, 37476, 9000, 64, 1]

/-- The parsed fields of an `x509.Certificate` that `renewContext` copies verbatim into the
    template. Strings/addresses/URLs are opaque byte strings: the model only copies them and
    tests lists for emptiness, exactly like the Go code. -/
structure Fields where
  rawSubject : Str
  keyUsage : Nat
  extKeyUsage : List Nat
  unknownExtKeyUsage : List Oid
  unhandledCritical : List Oid
  bcValid : Bool
  isCA : Bool
  maxPathLen : Int
  maxPathLenZero : Bool
  ocspServer : List Str
  issuingURL : List Str
  dnsNames : List Str
  emailAddresses : List Str
  ipAddresses : List Str
  uris : List Str
  ncCritical : Bool
  permDNS : List Str
  exclDNS : List Str
  permIP : List Str
  exclIP : List Str
  permEmail : List Str
  exclEmail : List Str
  permURI : List Str
  exclURI : List Str
  crlDP : List Str
  policies : List Oid
  deriving DecidableEq, Repr

/-- A parsed certificate: copied fields, what is *not* copied (key, identifiers, serial, validity,
    issuer) and the raw `Extensions` list in certificate order. -/
structure Cert where
  f : Fields
  publicKey : Str
  serial : Nat
  notBefore : Int
  notAfter : Int
  issuer : Str
  extensions : List Ext
  deriving DecidableEq, Repr

/-- `x509.Certificate` used as a template for `CreateCertificate`. `subjectKeyId = none` is Go's
    nil slice. -/
structure Tpl where
  f : Fields
  publicKey : Str
  subjectKeyId : Option Str
  extra : List Ext
  deriving DecidableEq, Repr

/-- `oidInExtensions` -/
def hasOid (o : Oid) (es : List Ext) : Bool := es.any (fun e => e.oid == o)

/-- `cert.Extensions` entry with a given OID (first one; parsed certificates have no duplicates). -/
def extOf (o : Oid) (es : List Ext) : Option Ext := es.find? (fun e => e.oid == o)

def dropOid (o : Oid) (es : List Ext) : List Ext := es.filter (fun e => !(e.oid == o))

/-! ## 2. `renewContext`: the template -/

/-- The loop over `oldCert.Extensions`: everything is copied except the authority key identifier
    and, on rekey, the subject key identifier. -/
def copyExtensions (isRekey : Bool) (es : List Ext) : List Ext :=
  es.filter fun e => !(e.oid == oidAKI) && !(e.oid == oidSKI && isRekey)

/-- `newCert := &x509.Certificate{…}`; `pk = none` is renew, `some k` is rekey. `SubjectKeyId`
    is never copied (it stays nil; the loop sets it to nil again on rekey). -/
def renewTemplate (old : Cert) (pk : Option Str) : Tpl :=
  { f := old.f
    publicKey := pk.getD old.publicKey
    subjectKeyId := none
    extra := copyExtensions pk.isSome old.extensions }

/-! ## 3. Go's extension assembly -/

/-- DER encoders of the generated extensions (`marshalKeyUsage`, `marshalExtKeyUsage`,
    `marshalBasicConstraints`, `asn1.Marshal(subjectKeyId)`, `asn1.Marshal(authKeyId{…})`,
    authority info access, `marshalSANs`, `marshalCertificatePolicies`, name constraints,
    CRL distribution points). External: the theorems hold for every `Enc`. -/
structure Enc where
  ku : Fields → Str
  eku : Fields → Str
  bc : Fields → Str
  ski : Str → Str
  aki : Str → Str
  aia : Fields → Str
  san : Fields → Str
  pol : Fields → Str
  nc : Fields → Str
  crl : Fields → Str

/-- `bytes.Equal(asn1Subject, emptyASN1Subject)` -/
def subjectIsEmpty (f : Fields) : Bool := f.rawSubject == [0x30, 0x00]

def hasNameConstraints (f : Fields) : Bool :=
  !f.permDNS.isEmpty || !f.exclDNS.isEmpty || !f.permIP.isEmpty || !f.exclIP.isEmpty ||
  !f.permEmail.isEmpty || !f.exclEmail.isEmpty || !f.permURI.isEmpty || !f.exclURI.isEmpty

/-- One `if cond && !oidInExtensions(oid, template.ExtraExtensions) { ret[n] = …; n++ }` block. -/
def slot (extra : List Ext) (cond : Bool) (e : Ext) : List Ext :=
  if cond && !hasOid e.oid extra then [e] else []

/-- `buildCertExtensions` up to `ret[:n]`, in source order. -/
def generated (enc : Enc) (t : Tpl) (aki ski : Str) : List Ext :=
  let f := t.f
  slot t.extra (f.keyUsage != 0) ⟨oidKU, true, enc.ku f⟩ ++
  slot t.extra (!f.extKeyUsage.isEmpty || !f.unknownExtKeyUsage.isEmpty) ⟨oidEKU, false, enc.eku f⟩ ++
  slot t.extra f.bcValid ⟨oidBC, true, enc.bc f⟩ ++
  slot t.extra (!ski.isEmpty) ⟨oidSKI, false, enc.ski ski⟩ ++
  slot t.extra (!aki.isEmpty) ⟨oidAKI, false, enc.aki aki⟩ ++
  slot t.extra (!f.ocspServer.isEmpty || !f.issuingURL.isEmpty) ⟨oidAIA, false, enc.aia f⟩ ++
  slot t.extra (!f.dnsNames.isEmpty || !f.emailAddresses.isEmpty || !f.ipAddresses.isEmpty || !f.uris.isEmpty)
    ⟨oidSAN, subjectIsEmpty f, enc.san f⟩ ++
  slot t.extra (!f.policies.isEmpty) ⟨oidPol, false, enc.pol f⟩ ++
  slot t.extra (hasNameConstraints f) ⟨oidNC, f.ncCritical, enc.nc f⟩ ++
  slot t.extra (!f.crlDP.isEmpty) ⟨oidCRLDP, false, enc.crl f⟩

/-- `ret = append(ret[:n], template.ExtraExtensions...)` -/
def assemble (enc : Enc) (t : Tpl) (aki ski : Str) : List Ext :=
  generated enc t aki ski ++ t.extra

/-! ## 4. The CAS: validity, serial, key identifiers -/

/-- What the CA contributes at signing time. -/
structure Env where
  enc : Enc
  now : Int                -- seconds
  backdate : Int           -- `a.config.AuthorityConfig.Backdate`
  serial : Nat             -- fresh random serial
  issuerSubject : Str      -- `chain[0].Subject`
  parentSKI : Str          -- `parent.SubjectKeyId` (authority key id of everything issued)
  skiOf : Str → Str        -- `x509util.generateSubjectKeyID`

inductive SignErr where
  | zeroLifetime           -- "createCertificateRequest `lifetime` cannot be 0"
  deriving DecidableEq, Repr

/-- `RenewCertificate` → `createCertificate`. The parsed result is described by its extension
    list; its parsed fields are those of the template, which is what `x509.ParseCertificate`
    yields when every field-bearing extension of the result is byte-identical to the one the
    field was read from (assumption *parse determinism*, validated on every harness case). -/
def caSign (env : Env) (t : Tpl) (lifetime : Int) : Except SignErr Cert :=
  if lifetime = 0 then .error .zeroLifetime else
  -- x509util.CreateCertificate: template.SubjectKeyId == nil ⇒ generate from the public key
  let ski := match t.subjectKeyId with | some k => k | none => env.skiOf t.publicKey
  .ok { f := t.f
        publicKey := t.publicKey
        serial := env.serial
        notBefore := env.now - env.backdate
        notAfter := env.now + lifetime
        issuer := env.issuerSubject
        extensions := assemble env.enc t env.parentSKI ski }

/-! ## 5. The gates -/

/-- `Config.AuthorizeRenewFunc`: not configured, or configured and returning nil / an error. -/
inductive Custom where
  | none | allow | refuse
  deriving DecidableEq, Repr

/-- A provisioner value held by the provisioner collection. -/
inductive Stored where
  /-- initialised provisioner with a controller: JWK, OIDC, X5C, ACME, K8sSA, Nebula, AWS, GCP, Azure -/
  | ctl (disableRenewal allowAfterExpiry : Bool) (custom : Custom)
  /-- types that inherit `base.AuthorizeRenew` (SCEP, SSHPOP): "not implemented" -/
  | base
  /-- `provisioner.Uninitialized{Interface: p}` around a controller-based type: `p.ctl == nil` -/
  | uninit
  deriving DecidableEq, Repr

/-- What `AuthorizeRenew` is called on: a stored provisioner or `&noop{}`. -/
inductive Prov where
  /-- a provisioner from the collection; `wrapped`: returned inside `wrappedProvisioner` because the
      database record carries RA information (`wrapRAProvisioner`), which hides its dynamic type
      from a type assertion but forwards every method -/
  | stored (s : Stored) (wrapped : Bool)
  | noop
  deriving DecidableEq, Repr

/-- `a.IsRevoked(serial)` -/
inductive Revoked where
  | no | yes | err
  deriving DecidableEq, Repr

/-- `unsafeLoadProvisionerFromDatabase`: no usable record (no database, lookup error, no data, or
    data without provisioner); a record naming a provisioner id that `provisioners.Load` does not
    find; a record whose provisioner is loaded (`ra`: the record has `RaInfo`, the result is
    `wrapRAProvisioner(p, data.RaInfo)`). -/
inductive DbLookup where
  | noRecord | gone | found (p : Stored) (ra : Bool)
  deriving DecidableEq, Repr

/-- `Collection.LoadByCertificate`: no provisioner extension (⇒ noop, true); extension that does
    not unmarshal (⇒ nil, false); extension naming a provisioner `LoadByName` does not find
    (⇒ nil, false); found. -/
inductive ExtLookup where
  | noExt | malformed | gone | found (p : Stored)
  deriving DecidableEq, Repr

structure GateIn where
  revoked : Revoked
  db : DbLookup
  ext : ExtLookup
  notYetValid : Bool       -- `now.Before(cert.NotBefore)`
  expired : Bool           -- `now.After(cert.NotAfter)`
  deriving DecidableEq, Repr

/-- The code as it stands and the two proposed repairs. -/
structure Variant where
  /-- D9 repair (commit c93b602): `authorizeRenew` refuses `provisioner.Uninitialized` by a type
      assertion on the selected provisioner (as `getProvisionerFromToken` does) -/
  refuseUninit : Bool
  /-- D17 repair (commit 33e7bf8): in the fallback branch the no-op provisioner is not accepted
      when `certificateRecordsProvisioner(cert)` (the database names a provisioner) -/
  noNoopWhenDbNames : Bool
  /-- D9-RA repair (commit df3f6ee): the `Uninitialized` test looks through `*wrappedProvisioner` -/
  unwrapUninit : Bool
  deriving DecidableEq, Repr

/-- the tree before the two `fix:` commits -/
def asCodedBefore : Variant := ⟨false, false, false⟩
/-- the tree after c93b602 (D9) and 33e7bf8 (D17), before df3f6ee -/
def fixedD9D17 : Variant := ⟨true, true, false⟩
/-- /repo HEAD: all three repairs (c93b602, 33e7bf8, df3f6ee) -/
def repaired : Variant := ⟨true, true, true⟩

/-- THE ONE-LINE SWITCH: which variant the driver (and so the correspondence check) runs. -/
def current : Variant := repaired

inductive Reason where
  | revocationCheckFailed | revoked | provisionerNotFound | uninitialized
  | notImplemented | renewDisabled | notYetValid | expired | customRefused
  deriving DecidableEq, Repr

inductive Decision where
  | allow
  | refuse (r : Reason)
  deriving DecidableEq, Repr

/-- Result of `Collection.LoadByCertificate` as (value, ok). -/
def collectionLoadByCertificate : ExtLookup → Option Prov
  | .noExt => some .noop
  | .malformed => none
  | .gone => none
  | .found p => some (.stored p false)

/-- `unsafeLoadProvisionerFromExtension`: `!ok || p.GetType() == 0` is an error (noop has type 0). -/
def loadFromExtension (e : ExtLookup) : Option Prov :=
  match collectionLoadByCertificate e with
  | some .noop => none
  | some p => some p
  | none => none

/-- `LoadProvisionerByCertificate`: database first, then the extension. `none` = error. -/
def loadByCertificate (i : GateIn) : Option Prov :=
  match i.db with
  | .found p ra => some (.stored p ra)
  | _ => loadFromExtension i.ext

/-- `DefaultAuthorizeRenew` -/
def defaultAuthorizeRenew (disableRenewal allowAfterExpiry : Bool) (i : GateIn) : Decision :=
  if disableRenewal then .refuse .renewDisabled
  else if i.notYetValid then .refuse .notYetValid
  else if i.expired && !allowAfterExpiry then .refuse .expired
  else .allow

/-- `p.AuthorizeRenew(ctx, cert)` for each kind of provisioner value. The uninitialised case
    dereferences the nil controller: a Go panic. -/
def provAuthorizeRenew (i : GateIn) : Prov → M Decision
  | .noop => .val .allow
  | .stored .base _ => .val (.refuse .notImplemented)
  | .stored .uninit _ => .crash
  | .stored (.ctl _ _ .allow) _ => .val .allow
  | .stored (.ctl _ _ .refuse) _ => .val (.refuse .customRefused)
  | .stored (.ctl d a .none) _ => .val (defaultAuthorizeRenew d a i)

/-- The first half of `authorizeRenew` after the revocation check:
    `p, err := a.LoadProvisionerByCertificate(cert)`; on error fall back to
    `a.provisioners.LoadByCertificate(cert)`. `none` = "provisioner not found". -/
def selectProvisioner (v : Variant) (i : GateIn) : Option Prov :=
  match loadByCertificate i with
  | some p => some p
  | none =>
    match collectionLoadByCertificate i.ext with
    | none => none
    | some q =>
      -- D17 repair: `if !ok || a.certificateRecordsProvisioner(cert) { not found }`. Here `q`
      -- can only be the no-op provisioner, and the database lookup has failed, so the record
      -- names a provisioner exactly when `db = gone`.
      if v.noNoopWhenDbNames && i.db == .gone then none else some q

/-- The second half: `p.AuthorizeRenew(ctx, cert)`, preceded (D9 repair) by
    `if _, ok := p.(provisioner.Uninitialized); ok { refuse }`. The assertion is on the dynamic
    type of `p`: it fails for a `*wrappedProvisioner` around an uninitialised provisioner. -/
def callAuthorizeRenew (v : Variant) (i : GateIn) (p : Prov) : M Decision :=
  match p with
  | .stored .uninit wrapped =>
    if v.refuseUninit && (!wrapped || v.unwrapUninit) then .val (.refuse .uninitialized)
    else provAuthorizeRenew i p
  | _ => provAuthorizeRenew i p

/-- `authorizeRenew`: decision and the provisioner returned alongside (used for metering only). -/
def authorizeRenew (v : Variant) (i : GateIn) : M (Decision × Option Prov) :=
  match i.revoked with
  | .err => .val (.refuse .revocationCheckFailed, none)
  | .yes => .val (.refuse .revoked, none)
  | .no =>
    match selectProvisioner v i with
    | none => .val (.refuse .provisionerNotFound, none)
    | some p =>
      match callAuthorizeRenew v i p with
      | .crash => .crash
      | .val d => .val (d, some p)

def decide (v : Variant) (i : GateIn) : M Decision :=
  match authorizeRenew v i with
  | .crash => .crash
  | .val (d, _) => .val d

/-! ## 6. `RenewContext` end to end -/

inductive Outcome where
  | refused (r : Reason)
  | signError (e : SignErr)
  | issued (c : Cert)
  deriving DecidableEq, Repr

/-- `renewContext` (the CA's own name constraints engine is an input of C05, not of this model:
    the fixture CA has no constraints, so `ValidateCertificate` accepts). -/
def renew (v : Variant) (env : Env) (i : GateIn) (old : Cert) (pk : Option Str) : M Outcome :=
  match decide v i with
  | .crash => .crash
  | .val (.refuse r) => .val (.refused r)
  | .val .allow =>
    let lifetime := (old.notAfter - old.notBefore) - env.backdate
    match caSign env (renewTemplate old pk) lifetime with
    | .error e => .val (.signError e)
    | .ok c => .val (.issued c)

/-! ## 7. Entry points (api/renew.go, api/rekey.go, AuthorizeRenewToken) -/

/-- How the certificate reached the handler. `mtls`: `r.TLS.PeerCertificates[0]`, which the TLS
    stack only exposes after verifying the chain *and the validity window* at handshake time.
    `token`: `Authorization: Bearer` renew token (x5c, time-insensitive chain check). -/
inductive Entry where
  | mtls
  | token (parses claimsVerify tokenUnused claimsValid audienceOk issuerOk : Bool)
  | nothing
  deriving DecidableEq, Repr

inductive ApiResult where
  | badRequest | unauthorized | crash | refused (r : Reason) | signError | created (c : Cert)
  deriving DecidableEq, Repr

/-- `isRAProvisioner(p)` for the provisioner `LoadProvisionerByCertificate` returned: only a
    `*wrappedProvisioner` built from a database record with `RaInfo` implements `raProvisioner`
    with non-nil RA information. -/
def isRAProvisioner : Option Prov → Bool
  | some (.stored _ wrapped) => wrapped
  | _ => false

/-- `AuthorizeRenewToken` decision skeleton: the provisioner must load (noop is an error here);
    the audience test is `!matchesAudience(…) && !isRAProvisioner(p)`: a renew token for a
    certificate issued through a registration authority is addressed to the RA's URL, so its
    audience is deliberately not compared. -/
def authorizeRenewToken (i : GateIn) : Entry → Bool
  | .token parses claimsVerify tokenUnused claimsValid audienceOk issuerOk =>
    parses && claimsVerify && (loadByCertificate i).isSome && tokenUnused && claimsValid &&
      (audienceOk || isRAProvisioner (loadByCertificate i)) && issuerOk
  | _ => false

def apiRenew (v : Variant) (env : Env) (i : GateIn) (old : Cert) (pk : Option Str) (e : Entry) : ApiResult :=
  let run : ApiResult :=
    match renew v env i old pk with
    | .crash => .crash
    | .val (.refused r) => .refused r
    | .val (.signError _) => .signError
    | .val (.issued c) => .created c
  match e with
  | .nothing => .badRequest
  | .mtls => run
  | .token .. =>
    -- rekey accepts only the TLS peer certificate
    if pk.isSome then .badRequest
    else if authorizeRenewToken i e then run else .unauthorized

end Verif.Renew
