import Verif.Model.Common
/-!
  C17 — issuance fails closed when a webhook or the database fails.

  The model is the *ordered list of steps* each request performs, executed against an
  arbitrary fault function.  A step is either an external call (a `nosql` database operation,
  a webhook HTTP attempt, a call to the certificate authority service — these are numbered
  0,1,2,… in the order the request makes them, and `Env.f : Nat → Outcome` says how the call at
  each position is answered) or an in-process decision (token validation, request validators,
  policy, SSH signing, PKCS#7 work — numbered separately, `Env.g : Nat → Bool`).  Both
  functions are arbitrary in every theorem, so a theorem covers every fault sequence.

  Go code modelled (file: function → definition here)
    authority/authorize.go: authorizeToken, UseToken            → `Kind.useToken`, `authorizeTokenSteps`
                            authorizeSign / authorizeRevoke / authorizeSSH* → `authorizeSteps`
                            authorizeRenew                      → `authorizeRenewSteps`
                            authorizeSSHCertificate             → `Kind.isRevoked`
    authority/tls.go:       signX509                            → `signX509Steps`
                            renewContext, storeRenewedCertificate → `renewContextSteps`
                            Revoke                              → `revokeTokenSteps`, `revokeMTLSSteps`, `revokeSSHSteps`
                            GenerateCertificateRevocationList (on revoke) → `crlSteps`
    authority/ssh.go:       signSSH / renewSSH / rekeySSH       → `signSSHSteps` / `renewSSHSteps` / `rekeySSHSteps`
    authority/provisioner/webhook.go: Webhook.DoWithContext (one retry after a transport
                            error or a 5xx) → `attempt`; WebhookController.Enrich / Authorize → `webhook`
    authority/provisioner/scep.go: challengeValidationController.Validate → `Kind.challenge`,
                            `Kind.challengeDone`; notificationController → `Kind.notify`
    db/db.go:               UseToken, IsRevoked, IsSSHRevoked, Revoke, RevokeSSH (CmpAndSwap),
                            StoreCertificateChain, StoreRenewedCertificate, StoreSSHCertificate
                            (one `Update` transaction) → the per-kind clauses of `execDB`
    db/simple.go:           SimpleDB → `execMem`
    cas/apiv1:              CreateCertificate / RenewCertificate / RevokeCertificate / CreateCRL
                            → `Kind.casSign`, `Req.casRevoke`, `Req.casCRL`
    acme/api/middleware.go, acme/api/order.go FinalizeOrder → `finalizeHandlerPre`
    acme/order.go:          Order.Finalize                      → `finalizeSteps`
    scep/api/api.go PKIOperation, scep/authority.go SignCSR → `pkiOperationSteps`, `signCSRSteps`
    api/{sign,renew,rekey,revoke,ssh,sshRenew,sshRekey,sshRevoke}.go: handler = authorize then
                            operate; any error → error response without certificate → `steps`, `client`

  Outcomes of an external call (what the harness realises is listed in notes/C17.md):
    ok         applied / found nothing / allow
    error      database, CAS: error returned, nothing applied;  webhook: transport error or status ≥ 500
    timeout    database, CAS: applied but the acknowledgement is lost (error returned);
               webhook: no answer before the client's deadline
    deny       database: CmpAndSwap not swapped / a value is present;  webhook: allow=false
    malformed  database: a value that does not decode;  webhook: undecodable body or an error
               status below 500 (not retried)
-/
namespace Verif.FailClosed

inductive Outcome where
  | ok | error | timeout | deny | malformed
  deriving DecidableEq, Repr, Inhabited

/-- external calls that only have to succeed -/
inductive Req where
  /-- `x509CAService.RevokeCertificate` -/
  | casRevoke
  /-- `GenerateCertificateRevocationList` on revoke: `GetCRL`, `GetRevokedCertificates`,
      `CreateCRL` (CAS), `StoreCRL` -/
  | crlRead | crlList | casCRL | crlStore
  /-- ACME: nonce consumption, account / order / authorization reads, serial index write,
      nonce for the reply -/
  | acmeNonceUse | acmeRead | acmeIndex | acmeNonceNew
  /-- ACME `Order.UpdateStatus` inside `Finalize` for an order still pending in the database:
      the authorization is written back (`UpdateAuthorization`), the order is written as ready -/
  | acmeAuthzUpdate | acmeOrderReady
  deriving DecidableEq, Repr

inductive Kind where
  /-- `db.UseToken`: CmpAndSwap(used_ott, id, nil, token) -/
  | useToken
  /-- `db.IsRevoked` / `IsSSHRevoked`: Get(revoked_*); error aborts, any value means revoked -/
  | isRevoked
  /-- `db.GetCertificate` inside `Revoke`: error ignored -/
  | readCert
  /-- `db.GetCertificateData` (provisioner lookup, `StoreRenewedCertificate`): error ignored -/
  | readData
  /-- one enriching webhook (all attempts `DoWithContext` makes for it) -/
  | enrich
  /-- one authorizing webhook -/
  | authorize
  /-- `StoreCertificateChain` / `StoreRenewedCertificate` / `StoreSSHCertificate`: one Update -/
  | store
  /-- `db.Revoke` / `RevokeSSH`: CmpAndSwap(revoked_*, serial, nil, info) -/
  | storeRev
  /-- in-process decision that can refuse the request -/
  | check
  /-- `x509CAService.CreateCertificate` / `RenewCertificate`: an external call (the CAS may be
      a remote service); produces the certificate -/
  | casSign
  /-- SSH certificates are signed in process with the authority's SSH key -/
  | sshSign
  /-- an external call with no modelled effect whose failure aborts the request -/
  | req (t : Req)
  /-- `acme.DB.CreateCertificate`, first write (the certificate object) -/
  | acmeStoreCert
  /-- `acme.DB.UpdateOrder` (status valid, certificate id) -/
  | acmeUpdateOrder
  /-- one SCEPCHALLENGE webhook: allow counts, allow=false goes on to the next, anything else aborts -/
  | challenge
  /-- end of `challengeValidationController.Validate`: no webhook allowed ⇒ refuse -/
  | challengeDone
  /-- from here on a failure is reported to the NOTIFYING webhooks (`NotifyFailure`) -/
  | arm
  /-- from here on the store writes the provisioner data with the certificate
      (`StoreCertificateChain`; the SSH sign handler's X.509 identity certificate) -/
  | withData
  /-- the provisioner failed to initialise (`provisioner.NewController` refuses a webhook whose kind
      or certificate type is not a known spelling): it is loaded as disabled and every request
      through it is refused before anything else happens -/
  | refuse
  /-- one NOTIFYING webhook: its failure is ignored by the request (it only ends the
      notification loop; `allow` is not looked at) -/
  | notify
  deriving DecidableEq, Repr

/-- What survives the request. Tables only grow. -/
structure Durable where
  tokenSpent : Bool := false
  /-- entries of x509_certs / ssh_certs -/
  certs : Nat := 0
  /-- entries of x509_certs_data -/
  datas : Nat := 0
  /-- a revocation record exists for the serial the request names -/
  revoked : Bool := false
  acmeCerts : Nat := 0
  orderValid : Bool := false
  deriving DecidableEq, Repr

structure Ev where
  kind : Kind
  out : Outcome
  deriving DecidableEq, Repr

structure St where
  d : Durable
  /-- external calls made so far; the next call has position `log.length` -/
  log : List Ev := []
  /-- in-process decisions taken so far -/
  chk : Nat := 0
  /-- a signed certificate exists in memory -/
  cert : Bool := false
  /-- provisioner data will be written with the certificate (`StoreCertificateChain` always,
      `StoreRenewedCertificate` only when the preceding read succeeded, SSH never) -/
  dataOk : Bool := false
  /-- SCEP: number of challenge webhooks that allowed -/
  allowed : Nat := 0
  /-- SCEP: a failure from here on is sent to the NOTIFYING webhooks -/
  armed : Bool := false
  /-- SCEP: a NOTIFYING webhook failed; `notificationController.Success/Failure` returned at
      that point, the remaining NOTIFYING webhooks are not called -/
  muted : Bool := false
  /-- certificates signed so far in this request -/
  made : Nat := 0
  /-- of those, how many no store call has written yet -/
  unstored : Nat := 0
  deriving Repr

structure Env where
  /-- answer of the external call at each position of the executed trace -/
  f : Nat → Outcome
  /-- result of each in-process decision (true = passes) -/
  g : Nat → Bool
  /-- a database that stores certificates and revocations is configured; `false` = the
      authority runs on `db.SimpleDB` (`db.New(nil)`): tokens are remembered in memory, every
      store / revoke method returns `ErrNotImplemented`, nothing is an external call -/
  db : Bool := true
  /-- the provisioner's webhook definitions are usable: the URL template parses and the
      signing secret is base64 (`DoWithContext` returns an error before any attempt
      otherwise) -/
  hooksUsable : Bool := true

inductive R where
  | next (s : St)
  | abort (s : St)

/-- perform the external call `k`: it is answered by `f` at the current position and logged -/
def call (e : Env) (s : St) (k : Kind) : Outcome × St :=
  (e.f s.log.length, { s with log := s.log ++ [⟨k, e.f s.log.length⟩] })

/-- `Webhook.DoWithContext`: a transport error or a 5xx is retried once (after a delay);
    a deadline, a 4xx, an undecodable body are final.  Controller: `allow=false` is an error. -/
def retryable : Outcome → Bool
  | .error => true
  | _ => false

/-- all attempts `DoWithContext` makes for one webhook; the answer that decides -/
def attempt (e : Env) (s : St) (k : Kind) : Outcome × St :=
  let r1 := call e s k
  if retryable r1.1 then call e r1.2 k else r1

def webhook (e : Env) (s : St) (k : Kind) : Bool × St :=
  let r := attempt e s k
  (r.1 == .ok, r.2)

def decide' (e : Env) (s : St) : Bool × St := (e.g s.chk, { s with chk := s.chk + 1 })

def spend (s : St) : St := { s with d := { s.d with tokenSpent := true } }
def addCert (s : St) (withData : Bool) : St :=
  { s with d := { s.d with certs := s.d.certs + 1, datas := s.d.datas + (if withData then 1 else 0) },
           unstored := s.unstored - 1 }
def signed (s : St) : St := { s with cert := true, made := s.made + 1, unstored := s.unstored + 1 }
def addRev (s : St) : St := { s with d := { s.d with revoked := true } }

/-- the steps that go to the authority database -/
def Kind.isStore : Kind → Bool
  | .useToken | .isRevoked | .readCert | .readData | .store | .storeRev => true
  | _ => false

/-- `db.SimpleDB`: `UseToken` works on an in-memory map; `IsRevoked` answers "no"; reads and
    `StoreCertificate` return `ErrNotImplemented`, which `signX509` / `renewContext` /
    `signSSH` … let through (`!errors.Is(err, db.ErrNotImplemented)`); `Revoke` returns
    `ErrNotImplemented`, which `Authority.Revoke` turns into a 501. -/
def execMem (s : St) : Kind → R
  | .useToken => if s.d.tokenSpent then .abort s else .next (spend s)
  | .storeRev => .abort s
  | _ => .next s

/-- a step against a real database / webhook / in-process decision -/
def execDB (e : Env) (s : St) : Kind → R
  | .useToken =>
    let r := call e s .useToken
    match r.1 with
    | .ok => if s.d.tokenSpent then .abort r.2 else .next (spend r.2)
    | .timeout => .abort (spend r.2)
    | _ => .abort r.2
  | .isRevoked =>
    let r := call e s .isRevoked
    if r.1 = .ok ∧ s.d.revoked = false then .next r.2 else .abort r.2
  | .readCert => .next (call e s .readCert).2
  | .readData =>
    let r := call e s .readData
    .next { r.2 with dataOk := r.1 == .ok }
  | .enrich =>
    if e.hooksUsable = false then .abort s else
    let r := webhook e s .enrich
    if r.1 then .next r.2 else .abort r.2
  | .authorize =>
    if e.hooksUsable = false then .abort s else
    let r := webhook e s .authorize
    if r.1 then .next r.2 else .abort r.2
  | .store =>
    let r := call e s .store
    match r.1 with
    | .ok => .next (addCert r.2 s.dataOk)
    | .timeout => .abort (addCert r.2 s.dataOk)
    | _ => .abort r.2
  | .storeRev =>
    let r := call e s .storeRev
    match r.1 with
    | .ok => if s.d.revoked then .abort r.2 else .next (addRev r.2)
    | .timeout => .abort (addRev r.2)
    | _ => .abort r.2
  | .check =>
    let r := decide' e s
    if r.1 then .next r.2 else .abort r.2
  | .casSign =>
    let r := call e s .casSign
    if r.1 = .ok then .next (signed r.2) else .abort r.2
  | .sshSign =>
    let r := decide' e s
    if r.1 then .next (signed r.2) else .abort r.2
  | .req t =>
    let r := call e s (.req t)
    if r.1 = .ok then .next r.2 else .abort r.2
  | .acmeStoreCert =>
    let r := call e s .acmeStoreCert
    match r.1 with
    | .ok => .next { r.2 with d := { r.2.d with acmeCerts := r.2.d.acmeCerts + 1 } }
    | .timeout => .abort { r.2 with d := { r.2.d with acmeCerts := r.2.d.acmeCerts + 1 } }
    | _ => .abort r.2
  | .acmeUpdateOrder =>
    let r := call e s .acmeUpdateOrder
    match r.1 with
    | .ok => .next { r.2 with d := { r.2.d with orderValid := true } }
    | .timeout => .abort { r.2 with d := { r.2.d with orderValid := true } }
    | _ => .abort r.2
  | .challenge =>
    if e.hooksUsable = false then .abort s else
    let r := attempt e s .challenge
    match r.1 with
    | .ok => .next { r.2 with allowed := r.2.allowed + 1 }
    | .deny => .next r.2
    | _ => .abort r.2
  | .challengeDone => if s.allowed = 0 then .abort s else .next s
  | .arm => .next { s with armed := true }
  | .refuse => .abort s
  | .withData => .next { s with dataOk := true }
  | .notify =>
    if e.hooksUsable = false then .next { s with muted := true } else
    if s.muted then .next s
    else
      let r := attempt e s .notify
      .next { r.2 with muted := !(r.1 == .ok || r.1 == .deny) }

def exec (e : Env) (s : St) (k : Kind) : R :=
  if e.db = false ∧ k.isStore = true then execMem s k else execDB e s k

/-- Execute the steps in order; the first step that refuses ends the request
    (`if err != nil { return nil, err }`).  Second component: ran to completion. -/
def run (e : Env) : List Kind → St → St × Bool
  | [], s => (s, true)
  | k :: ks, s =>
    match exec e s k with
    | .next s' => run e ks s'
    | .abort s' => (s', false)

/-! ### the operations -/

inductive Op where
  | sign | renew | rekey | revoke | revokeMTLS
  | sshSign | sshRenew | sshRekey | sshRevoke | acmeFinalize | scepEnroll
  /-- `api.SSHSign` with `addUserPublicKey` and `identityCSR`: user, add-user and X.509
      identity certificate in one request -/
  | sshSignFull
  /-- `api.SSHSign` through a provisioner whose tokens are reusable by design (Kubernetes service
      accounts: `GetTokenID` is not implemented, nothing is recorded) -/
  | sshSignReusable
  deriving DecidableEq, Repr

/-- the provisioner's webhooks (numbers of ENRICHING, AUTHORIZING, SCEPCHALLENGE, NOTIFYING
    ones) and whether a CRL is regenerated on revoke (`crl.enabled` + `generateOnRevoke`) -/
structure Cfg where
  e : Nat
  a : Nat
  ch : Nat := 0
  n : Nat := 0
  crl : Bool := false
  /-- ACME: number of identifiers (= authorizations) of the order -/
  ids : Nat := 1
  /-- ACME: the order is still `pending` in the database (the client did not poll it after the
      last challenge was validated); `Finalize` makes it ready itself -/
  pend : Bool := false
  /-- SSH renew / rekey over mTLS: the client's X.509 identity certificate is renewed in the same
      request (`renewIdentityCertificate` → `Authority.Renew`) -/
  identity : Bool := false
  /-- the provisioner the request goes through failed to initialise -/
  refused : Bool := false

/-- certificate type of a webhook controller (what the request issues) / `certType` attribute of
    a webhook definition; `unset` = the attribute is not written (hand-written ca.json) -/
inductive CertT where
  | all | x509 | ssh | unset
  /-- any other spelling (`"x509"`, `"Ssh"`, …) -/
  | unknown
  deriving DecidableEq, Repr

/-- `WebhookController.isCertTypeOK`: is this webhook consulted for this kind of certificate?
    (string comparison with `ALL`, the empty string and the controller's type name) -/
def certTypeOK (ctl wh : CertT) : Bool :=
  if ctl = .all then true
  else if wh = .all ∨ wh = .unset then true
  else ctl = wh

/-- `provisionerWebhookToLinkedca` then `webhookToCertificates` (migration into the admin
    database on the first `enableAdmin` start, and every later load): the certificate type goes
    through `Webhook_CertType_value[…]`, where a name that is not in the map reads as 0 = `ALL`. -/
def viaAdminDB : CertT → CertT
  | .unset | .unknown => .all
  | t => t

/-- `Webhook.validate` (called by `provisioner.NewController`): the kind must be one of the known
    names, the certificate type a known name or absent.  Seen from ca.json the attribute is what
    was written; seen through the admin database it is what `viaAdminDB` made of it (an unknown
    certificate type became `ALL`, an unknown kind became `NO_KIND`, which is refused). -/
def spellingOK (wh : CertT) (kindKnown : Bool) (admin : Bool) : Bool :=
  kindKnown && ((if admin then viaAdminDB wh else wh) != .unknown)

/-- What a provisioner whose enriching / authorizing webhooks are all written with
    `certType = wh` (and a known or unknown kind) amounts to for a request of type `ctl`: it is
    refused altogether, or the webhooks are consulted, or (written for the other certificate
    type) they are not. -/
def Cfg.consulted (c : Cfg) (ctl wh : CertT) (admin : Bool := false) (kindKnown : Bool := true) : Cfg :=
  if (c.e + c.a != 0) && !spellingOK wh kindKnown admin then { c with refused := true }
  else if certTypeOK ctl (if admin then viaAdminDB wh else wh) then c else { c with e := 0, a := 0 }

/-- `authorizeToken`: the token is recorded (`UseToken`) … -/
def authorizeTokenSteps : List Kind := [.useToken]
/-- … before `authorizeSign` / `authorizeRevoke` / `authorizeSSH*` validate it
    (`p.AuthorizeSign(ctx, token)`: signature, claims, audience). -/
def authorizeSteps : List Kind := authorizeTokenSteps ++ [.check]

/-- `signX509`: request validators; enriching webhooks; template, modifiers, validators,
    policy; authorizing webhooks; CAS; store. -/
def signX509Steps (c : Cfg) : List Kind :=
  [.check] ++ List.replicate c.e .enrich ++ [.check] ++ List.replicate c.a .authorize ++ [.casSign, .store]

/-- `authorizeRenew`: `IsRevoked`; provisioner lookup (database first, error falls back to the
    certificate's extension); `AuthorizeRenew`. -/
def authorizeRenewSteps : List Kind := [.isRevoked, .readData, .check]
/-- `storeRenewedCertificate` → `db.StoreRenewedCertificate`: read the old certificate's data
    (error ignored), then one transaction. -/
def storeRenewedSteps : List Kind := [.readData, .store]
/-- `renewContext` -/
def renewContextSteps : List Kind := authorizeRenewSteps ++ [.check, .casSign] ++ storeRenewedSteps

/-- `Revoke` with a token: expiry lookup (ignored error); token parsing and provisioner lookup;
    certificate lookup (ignored error); CAS; `db.Revoke`. -/
def revokeTokenBase : List Kind := [.readCert, .check, .readCert, .req .casRevoke, .storeRev]
/-- `Revoke` over mTLS: provisioner lookup by certificate (ignored error); CAS; `db.Revoke`. -/
def revokeMTLSBase : List Kind := [.readData, .req .casRevoke, .storeRev]
/-- `GenerateCertificateRevocationList`, called by `Revoke` after the record is written when
    `crl.generateOnRevoke` is set (X.509 only — the SSH branch never regenerates): stored CRL,
    list of revocations, `CreateCRL` at the CAS, `StoreCRL`.  Any error is the request's error. -/
def crlSteps (c : Cfg) : List Kind :=
  if c.crl then [.req .crlRead, .req .crlList, .req .casCRL, .req .crlStore] else []
def revokeTokenSteps (c : Cfg) : List Kind := revokeTokenBase ++ crlSteps c
def revokeMTLSSteps (c : Cfg) : List Kind := revokeMTLSBase ++ crlSteps c
/-- `Revoke` in the SSH method: token parsing; `db.RevokeSSH`. -/
def revokeSSHSteps : List Kind := [.check, .storeRev]

/-- The body of `Revoke` in source order (the three request paths are sub-sequences of it:
    `revoke_paths_in_source_order` in Props/C17); `crl` stands for the four CRL steps. -/
def revokeSourceOrder : List Kind :=
  [.readCert, .check, .readData, .storeRev, .readCert, .req .casRevoke, .storeRev]

/-- `signSSH`: option validators; enriching webhooks; template, modifiers, policy;
    authorizing webhooks; sign; certificate validators; store. -/
def signSSHSteps (c : Cfg) : List Kind :=
  [.check] ++ List.replicate c.e .enrich ++ [.check] ++ List.replicate c.a .authorize ++ [.sshSign, .check, .store]
/-- `SignSSHAddUser`: `IsValidForAddUser`; sign with the user key; `storeRenewedSSHCertificate`. -/
def signSSHAddUserSteps : List Kind := [.check, .sshSign, .store]
/-- identity certificate in `api.SSHSign`: `Authorize` again with token reuse skipped (no
    record call, validation only), then `SignWithContext` (= `signX509`; X.509 webhooks). -/
def identitySteps (c : Cfg) : List Kind := [.withData, .check] ++ signX509Steps c
/-- `renewSSH`: `authorizeSSHCertificate` (IsSSHRevoked); sign; store. -/
def renewSSHSteps : List Kind := [.isRevoked, .sshSign, .store]
/-- `rekeySSH`: `authorizeSSHCertificate`; sign; validators; store. -/
def rekeySSHSteps : List Kind := [.isRevoked, .sshSign, .check, .store]

/-- `Order.Finalize` on an order that is already `ready` (`UpdateStatus` then makes no call):
    fingerprint lookup (reads the `n` authorizations, each with its one challenge — modelled as
    `n` reads and `n` more), CSR / identifier checks and the
    provisioner's `AuthorizeSign`, `SignWithContext` (= `signX509`), `CreateCertificate`
    (certificate, then serial index), `UpdateOrder` (status valid, certificate id). -/
def finalizePre (n : Nat) : List Kind :=
  List.replicate n (.req .acmeRead) ++ List.replicate n (.req .acmeRead) ++ [.check]
/-- `acme/db/nosql` `CreateCertificate`: the certificate, then the serial index. -/
def createCertificateSteps : List Kind := [.acmeStoreCert, .req .acmeIndex]
/-- `acme/db/nosql` `UpdateOrder`: read the stored order, then compare-and-swap. -/
def updateOrderSteps : List Kind := [.req .acmeRead, .acmeUpdateOrder]
def finalizePost : List Kind := createCertificateSteps ++ updateOrderSteps
def finalizeSteps (n : Nat) (c : Cfg) : List Kind := finalizePre n ++ signX509Steps c ++ finalizePost

/-- `Order.UpdateStatus` on a pending order: for each authorization `GetAuthorization` (the
    authorization and its challenge), `az.UpdateStatus` → `UpdateAuthorization` (read the stored
    one, compare-and-swap); then `UpdateOrder` (read, compare-and-swap to `ready`). -/
def authzUpdates : Nat → List Kind
  | 0 => []
  | n + 1 => [.req .acmeRead, .req .acmeRead, .req .acmeRead, .req .acmeAuthzUpdate] ++ authzUpdates n
def updateStatusSteps (c : Cfg) : List Kind :=
  if c.pend then authzUpdates c.ids ++ [.req .acmeRead, .req .acmeOrderReady] else []

/-- The JWS middleware in front of `acme/api.FinalizeOrder` (`acme/api/middleware.go`):
    `addNonce` creates the reply nonce, `parseJWS`/`validateJWS` consume the request nonce,
    `lookupJWK` reads the account named by the key id, `verifyAndExtractJWSPayload` checks the
    signature; the handler parses the payload, reads the order and checks that it belongs to the
    account and the provisioner.  Each failure is an error response. -/
def finalizeHandlerPre : List Kind :=
  [.req .acmeNonceNew, .check, .req .acmeNonceUse, .req .acmeRead, .check, .req .acmeRead, .check]

/-- `scep.Authority.SignCSR`: the provisioner's sign options and template, `SignWithContext`
    (= `signX509`, with the provisioner's ENRICHING / AUTHORIZING webhooks), encryption of the
    certificate to the requester (fails for a requester without an RSA key), signing of the
    reply. -/
def signCSRSteps (c : Cfg) : List Kind := [.check] ++ signX509Steps c ++ [.check, .check]

/-- `provisioner.SCEP.ValidateChallenge`: with SCEPCHALLENGE webhooks,
    `challengeValidationController.Validate` (the first webhook error aborts; at least one must
    allow); otherwise the static comparison. -/
def validateChallengeSteps (c : Cfg) : List Kind :=
  if c.ch = 0 then [.check] else List.replicate c.ch .challenge ++ [.challengeDone]

/-- `scep/api.PKIOperation` for a PKCSReq: parse and decrypt; validate the challenge; sign;
    on failure of the signing `NotifyFailure`, on success `NotifySuccess` (errors of either
    ignored). -/
def pkiOperationSteps (c : Cfg) : List Kind :=
  [.check] ++ validateChallengeSteps c ++ [.arm] ++ signCSRSteps c ++ List.replicate c.n .notify

/-- `api.renewIdentityCertificate`: nothing without a TLS peer certificate, else `renewContext` -/
def identityRenewSteps (c : Cfg) : List Kind := if c.identity then renewContextSteps else []

def stepsOf : Op → Cfg → List Kind
  | .sign, c => authorizeSteps ++ signX509Steps c
  | .renew, _ => renewContextSteps
  | .rekey, _ => renewContextSteps
  | .revoke, c => authorizeSteps ++ revokeTokenSteps c
  | .revokeMTLS, c => revokeMTLSSteps c
  | .sshSign, c => authorizeSteps ++ signSSHSteps c
  | .sshRenew, c => authorizeSteps ++ renewSSHSteps ++ identityRenewSteps c
  | .sshRekey, c => authorizeSteps ++ rekeySSHSteps ++ identityRenewSteps c
  | .sshRevoke, _ => authorizeSteps ++ revokeSSHSteps
  | .acmeFinalize, c => finalizeHandlerPre ++ updateStatusSteps c ++ finalizeSteps c.ids c
  | .scepEnroll, c => pkiOperationSteps c
  | .sshSignFull, c => authorizeSteps ++ signSSHSteps c ++ signSSHAddUserSteps ++ identitySteps c
  | .sshSignReusable, c => [.check] ++ signSSHSteps c

/-- the whole request; a provisioner that failed to initialise refuses it first -/
def steps (op : Op) (c : Cfg) : List Kind := (if c.refused then [Kind.refuse] else []) ++ stepsOf op c

def Op.usesToken : Op → Bool
  | .sign | .revoke | .sshSign | .sshRenew | .sshRekey | .sshRevoke | .sshSignFull => true
  | _ => false

def Op.revokes : Op → Bool
  | .revoke | .revokeMTLS | .sshRevoke => true
  | _ => false

/-- `StoreCertificateChain` writes the provisioner data with the certificate. -/
def Op.writesData : Op → Bool
  | .sign | .acmeFinalize | .scepEnroll => true
  | _ => false

def init (op : Op) (d : Durable) : St := { d := d, dataOk := op.writesData }

/-- `NotifyFailure`: every NOTIFYING webhook is told; nothing else happens -/
def notifyFailure (e : Env) (c : Cfg) (s : St) : St := (run e (List.replicate c.n .notify) s).1

/-- the whole request: the steps in order; a failure after `arm` (SCEP) is additionally sent
    to the NOTIFYING webhooks before the failure reply -/
def runOp (e : Env) (op : Op) (c : Cfg) (d : Durable) : St × Bool :=
  let r := run e (steps op c) (init op d)
  if r.2 = false ∧ r.1.armed = true then (notifyFailure e c r.1, false) else r

/-- A restart of the authority keeps what is in the database and loses what is in memory:
    with `db.SimpleDB` the set of used tokens is gone. -/
def restart (db : Bool) (d : Durable) : Durable :=
  if db then d else { d with tokenSpent := false }

/-- `CA.Reload` (SIGHUP): a new authority is built from the configuration on disk and is handed
    the database object the old one had open — the bbolt store, or `db.SimpleDB` with its in-memory
    set of used tokens.  Nothing is lost, with or without a database. -/
def reload (d : Durable) : Durable := d

/-- the options `CA.Reload` passes unconditionally to the `New` that builds the reloaded CA
    (re-derived from the source); `WithDatabase` among them is what `reload` above relies on -/
def reloadOptions : List String :=
  ["WithConfigFile", "WithDatabase", "WithIssuerPassword", "WithLinkedCAToken", "WithPassword", "WithQuiet",
   "WithSSHHostPassword", "WithSSHUserPassword"]

/-- For every provisioner type: the number of ways its `GetTokenID` can return an error (for a
    token it cannot parse: 2 = parse error + claims error) and whether it may return
    `ErrAllowTokenReuse`.  `Authority.UseToken` records nothing when `GetTokenID` fails, so a token
    that parses must get an id (possibly empty, then a hash of the token is used): the token types
    driven by the harness (JWK, X5C, SSHPOP) have no further error return. -/
def tokenIDErrors : List (String × Nat × Bool) :=
  [("ACME", 1, false), ("AWS", 1, false), ("Azure", 3, true), ("GCP", 2, false), ("JWK", 2, false),
   ("K8sSA", 1, false), ("MockProvisioner", 2, false), ("Nebula", 2, false), ("OIDC", 2, false),
   ("SCEP", 1, false), ("SSHPOP", 2, false), ("X5C", 2, false), ("noop", 0, false)]

/-- what the client holds after the response -/
inductive Client where
  | error | certificate | revoked
  deriving DecidableEq, Repr

/-- every handler: an error from any step is rendered as an error response (no certificate,
    no `status: ok`); otherwise the certificate / the acknowledgement is sent. -/
def client (op : Op) (r : St × Bool) : Client :=
  if r.2 then (if op.revokes then .revoked else .certificate) else .error

/-! ### who signs, and who calls the signers (compared with the source on every run) -/

/-- every function of package `authority` that asks the CAS or the SSH key for a signature on a
    certificate, with the step segment that models it -/
def signerTable (c : Cfg) : List (String × List Kind) :=
  [("signX509", signX509Steps c), ("renewContext", renewContextSteps), ("signSSH", signSSHSteps c),
   ("renewSSH", renewSSHSteps), ("rekeySSH", rekeySSHSteps), ("SignSSHAddUser", signSSHAddUserSteps)]

/-- signs the CA's own server certificate at start-up and on rotation; never handed to a client of
    the API, not stored -/
def internalSigners : List String := ["GetTLSCertificate"]

/-- server-side functions (api, acme, scep) that call an issuing entry point of the authority:
    (caller, entry point, operation that models the request, segment that models the entry point) -/
def callerTable (c : Cfg) : List (String × String × Op × List Kind) :=
  [("Sign", "SignWithContext", .sign, signX509Steps c),
   ("Renew", "RenewContext", .renew, renewContextSteps),
   ("Rekey", "Rekey", .rekey, renewContextSteps),
   ("SSHSign", "SignSSH", .sshSignFull, signSSHSteps c),
   ("SSHSign", "SignSSHAddUser", .sshSignFull, signSSHAddUserSteps),
   ("SSHSign", "SignWithContext", .sshSignFull, signX509Steps c),
   ("SSHRenew", "RenewSSH", .sshRenew, renewSSHSteps),
   ("SSHRekey", "RekeySSH", .sshRekey, rekeySSHSteps),
   ("renewIdentityCertificate", "Renew", .sshRenew, renewContextSteps),
   ("Finalize", "SignWithContext", .acmeFinalize, signX509Steps c),
   ("SignCSR", "SignWithContext", .scepEnroll, signX509Steps c)]

/-- Which store each record-keeping function of package `authority` consults, in source order
    (linked CA first when it implements the method, then the local database).  The nosql admin
    store that `authority.enableAdmin` puts into `adminDB` implements none of these methods
    (`adminStoreMethods`), so with it the local database keeps all records: the model has no
    case distinction for `enableAdmin`. -/
def storerOrder : List (String × List String) :=
  [("storeCertificate", ["a.adminDB", "a.db"]), ("storeRenewedCertificate", ["a.adminDB", "a.db"]),
   ("storeSSHCertificate", ["a.adminDB", "a.db"]), ("storeRenewedSSHCertificate", ["a.adminDB", "a.db"]),
   ("revoke", ["a.adminDB", "a.db"]), ("revokeSSH", ["a.adminDB", "a.db"]),
   ("IsRevoked", ["a.adminDB", "a.db"]), ("authorizeSSHCertificate", ["a.adminDB", "a.db"])]
def adminStoreMethods : List String := []

/-- For every provisioner type: the certificate type of the webhook controller its
    `AuthorizeSign` / `AuthorizeSSHSign` hands to the signing code (`-` = none).  `base` refuses
    every request, `noop` and `MockProvisioner` are not configurable provisioners. -/
def hookControllers : List (String × String × String) :=
  [("ACME", "AuthorizeSign", "X509"),
   ("AWS", "AuthorizeSSHSign", "SSH"), ("AWS", "AuthorizeSign", "X509"),
   ("Azure", "AuthorizeSSHSign", "SSH"), ("Azure", "AuthorizeSign", "X509"),
   ("GCP", "AuthorizeSSHSign", "SSH"), ("GCP", "AuthorizeSign", "X509"),
   ("JWK", "AuthorizeSSHSign", "SSH"), ("JWK", "AuthorizeSign", "X509"),
   ("K8sSA", "AuthorizeSSHSign", "SSH"), ("K8sSA", "AuthorizeSign", "X509"),
   ("MockProvisioner", "AuthorizeSSHSign", "-"), ("MockProvisioner", "AuthorizeSign", "-"),
   ("Nebula", "AuthorizeSSHSign", "SSH"), ("Nebula", "AuthorizeSign", "X509"),
   ("OIDC", "AuthorizeSSHSign", "SSH"), ("OIDC", "AuthorizeSign", "X509"),
   ("SCEP", "AuthorizeSign", "X509"),
   ("X5C", "AuthorizeSSHSign", "SSH"), ("X5C", "AuthorizeSign", "X509"),
   ("base", "AuthorizeSSHSign", "-"), ("base", "AuthorizeSign", "-"),
   ("noop", "AuthorizeSSHSign", "-"), ("noop", "AuthorizeSign", "-")]
def nonIssuingTypes : List String := ["base", "noop", "MockProvisioner"]

/-- POST routes of `api.Route` (mounted under `/1.0` and at the root): path, handler, and the
    operations that model the handler (`none` = the handler issues and revokes nothing) -/
def routeTable : List (String × String × List Op) :=
  [("/re-sign", "Renew", [.renew]), ("/rekey", "Rekey", [.rekey]), ("/renew", "Renew", [.renew]),
   ("/revoke", "Revoke", [.revoke, .revokeMTLS]), ("/sign-ssh", "SSHSign", [.sshSign, .sshSignFull]),
   ("/sign", "Sign", [.sign]), ("/ssh/bastion", "SSHBastion", []), ("/ssh/check-host", "SSHCheckHost", []),
   ("/ssh/config/{type}", "SSHConfig", []), ("/ssh/config", "SSHConfig", []),
   ("/ssh/rekey", "SSHRekey", [.sshRekey]), ("/ssh/renew", "SSHRenew", [.sshRenew]),
   ("/ssh/revoke", "SSHRevoke", [.sshRevoke]), ("/ssh/sign", "SSHSign", [.sshSign, .sshSignFull])]

/-- SCEP message types for which `PKIOperation` validates the challenge, and those
    `DecryptPKIEnvelope` treats as carrying a certificate request -/
def challengedTypes : List String := ["PKCSReq", "RenewalReq", "UpdateReq"]
def csrTypes : List String := ["PKCSReq", "RenewalReq", "UpdateReq"]

/-! ### every certificate made is stored -/

/-- effect of one step, when it lets the request continue, on the number of certificates
    signed but not yet written -/
def pendingStep (u : Nat) : Kind → Nat
  | .casSign | .sshSign => u + 1
  | .store => u - 1
  | _ => u

/-- number of signed, unwritten certificates after the whole list ran (database configured) -/
def pending (ks : List Kind) (u : Nat) : Nat := ks.foldl pendingStep u

/-! ### what a completed request's trace may contain -/

def Kind.tolerated : Kind → Bool
  | .readCert | .readData | .notify => true
  | _ => false

def Kind.isWebhook : Kind → Bool
  | .enrich | .authorize | .challenge | .notify => true
  | _ => false

/-- an answer that lets the request go on: `ok`; anything at a call whose failure the code
    ignores; `allow=false` from one SCEP challenge webhook (another one may still allow) -/
def Ev.harmless (ev : Ev) : Bool :=
  ev.out == .ok || ev.kind.tolerated || (ev.kind == .challenge && ev.out == .deny)

/-- A trace is *benign* when every call in it was answered harmlessly, except webhook attempts
    that failed retryably and were immediately followed by a harmless second attempt against
    the same kind of webhook. -/
def benign : List Ev → Bool
  | [] => true
  | [ev] => ev.harmless
  | ev :: ev2 :: rest =>
    if ev.harmless then benign (ev2 :: rest)
    else ev.kind.isWebhook && ev.out == .error && ev2.kind == ev.kind && ev2.harmless && benign rest

/-! ### rendering (driver) -/

def Outcome.str : Outcome → String
  | .ok => "ok" | .error => "error" | .timeout => "timeout" | .deny => "deny" | .malformed => "malformed"

def Kind.str : Kind → String
  | .useToken => "useToken" | .isRevoked => "isRevoked" | .readCert => "readCert" | .readData => "readData"
  | .enrich => "enrich" | .authorize => "authorize" | .store => "store" | .storeRev => "storeRev"
  | .check => "check" | .casSign => "casSign" | .sshSign => "sshSign"
  | .req .casRevoke => "casRevoke" | .req .crlRead => "crlRead" | .req .crlList => "crlList"
  | .req .casCRL => "casCRL" | .req .crlStore => "crlStore" | .req .acmeNonceUse => "acmeNonceUse"
  | .req .acmeRead => "acmeRead" | .req .acmeIndex => "acmeIndex" | .req .acmeNonceNew => "acmeNonceNew"
  | .req .acmeAuthzUpdate => "acmeAuthzUpdate" | .req .acmeOrderReady => "acmeOrderReady"
  | .acmeStoreCert => "acmeStoreCert" | .acmeUpdateOrder => "acmeUpdateOrder"
  | .challenge => "challenge" | .challengeDone => "challengeDone" | .arm => "arm" | .notify => "notify"
  | .withData => "withData" | .refuse => "refuse"

/-- How the source must treat the error of a call of this kind (compared with the go/ast
    extraction): `!` the error aborts before the success return, `!~` same but
    `db.ErrNotImplemented` is let through, `?` the error is ignored. -/
def Kind.guard : Kind → String
  | .readCert | .readData | .notify => "?"
  | .store => "!~"
  | _ => "!"

end Verif.FailClosed
