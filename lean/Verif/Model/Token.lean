import Verif.Model.Common
/-!
  Model for C01 — "certificates are issued only against a genuine provisioner credential".

  One function, `authorize cfg now op tok`, models the token path of

    authority/authorize.go          Authority.Authorize, authorizeSign/Revoke/SSHSign/SSHRenew/SSHRekey/SSHRevoke,
                                    authorizeToken, getProvisionerFromToken        (`authorize`)
    authority/provisioner/collection.go
                                    Collection.LoadByToken, LoadByTokenID, matchesAudience,
                                    extractFragment (input), stripPort (input)     (`loadByToken`, `audMatch`)
    authority/config/config.go      Config.GetAudiences, toHostname                (`getAudiences`)
    authority/provisioner/provisioner.go
                                    Audiences.All, Audiences.WithFragment, base.Authorize*   (`Auds.all`, `render`, `baseReject`)
    authority/provisioner/jwk.go    JWK.authorizeToken, AuthorizeSign/Revoke/SSHSign/SSHRevoke (`jwkOp`)
    authority/provisioner/x5c.go    X5C.authorizeToken, AuthorizeSign/Revoke/SSHSign          (`x5cOp`)
    authority/provisioner/sshpop.go SSHPOP.authorizeToken, AuthorizeSSHRevoke/Renew/Rekey,
                                    controller.go DefaultAuthorizeSSHRenew                    (`sshpopOp`)
    authority/provisioner/oidc.go   OIDC.authorizeToken, ValidatePayload, Authorize*          (`oidcOp`)
    authority/provisioner/k8sSA.go  K8sSA.authorizeToken, AuthorizeSign/Revoke/SSHSign        (`k8sOp`)
    authority/provisioner/nebula.go Nebula.authorizeToken, Authorize*                         (`nebulaOp`)
    authority/provisioner/acme.go, scep.go   AuthorizeSign / AuthorizeRevoke (token ignored)  (`tokenlessOp`)
    authority/provisioner/aws.go, gcp.go, azure.go   authorizeToken, AuthorizeSign, AuthorizeSSHSign
                                    (`awsOp`, `gcpOp`, `azureOp`; modelled from the source, not exercised by the harness)
    go-jose jwt.Claims.ValidateWithLeeway                                                     (`validate`)

  Not modelled: `Authority.UseToken` (one-time use, property C02), the contents of the returned sign options, template rendering (no templates configured),
  the `validAfter`/`validBefore` casts of `step.ssh` options (D7, property C18).

  Everything outside the repository is an *input*: the parsed token (`Tok`: unverified claims, the
  fragment `url.Parse` finds in the audiences, the port-stripped form of every audience) and one
  record of crypto facts per configured provisioner (`Cr`: "the signature verifies under this
  provisioner's key material", "the x5c chain verifies to its pool with client-auth usage", …),
  computed by the harness with go-jose / crypto/x509 / x/crypto/ssh against every configured key.
  Time: `now` is the instant `time.Now()` returns, in nanoseconds; claims are whole seconds.
-/
namespace Verif.Token
open Verif

/-- `provisioner.Method` restricted to the six token operations (`SignIdentityMethod` = `sign`). -/
inductive Op where
  | sign | sshSign | sshRenew | sshRekey | revoke | sshRevoke
  deriving DecidableEq, Repr

inductive PType where
  | jwk | x5c | sshpop | oidc | k8ssa | nebula | acme | scep | aws | gcp | azure
  deriving DecidableEq, Repr

/-- why a request is refused (diagnostic only; the correspondence compares accept / reject / crash) -/
inductive Reject where
  | sshNotEnabled          -- Authority.Authorize: no SSH CA keys (501)
  | parse                  -- jose.ParseSigned / UnsafeClaimsWithoutVerification failed
  | notFound               -- LoadByToken: no provisioner / audience does not match
  | tokenless              -- ACME / SCEP provisioner named by the token (refused since 719d1fc)
  | disabled               -- provisioner.Uninitialized
  | issuedBeforeStart      -- iat before the start of the CA
  | notImplemented         -- base.Authorize*: the provisioner type does not serve this operation
  | sshDisabled            -- Claimer.IsSSHCAEnabled() = false
  | header                 -- x5c / sshpop / nebula header missing or unusable
  | chain                  -- certificate in the header does not verify against the configured roots / CA keys
  | keyUsage               -- x5c leaf without digitalSignature
  | signature              -- token does not verify under the key
  | issuer | notYetValid | expired | issuedInFuture
  | audience | subject
  | azp | domain | group | notAdmin | identity
  | notSSHToken | sshCertType
  | certNotYetValid | certExpired | certNotHost | serialMismatch | renewDisabled
  | cloudDocument | cloudFilter | cloudAge | tenant
  deriving DecidableEq, Repr

/-- refusals that happen in `authorizeToken` before `UseToken` records the token (everything up to and
    including the issued-at gate); every other refusal comes from the provisioner, after `UseToken` -/
def Reject.beforeUseToken : Reject → Bool
  | .sshNotEnabled | .parse | .notFound | .tokenless | .disabled | .issuedBeforeStart => true
  | _ => false

/-- Result of `Authority.Authorize`: accepted (with a value), refused with an error, or a Go panic.
    (`Out α` is `M (Except Reject α)` flattened.) -/
inductive Out (α : Type) where
  | ok : α → Out α
  | reject : Reject → Out α
  | crash : Out α
  deriving Repr, DecidableEq

def Out.bind {α β : Type} (x : Out α) (f : α → Out β) : Out β :=
  match x with
  | .ok a => f a
  | .reject r => .reject r
  | .crash => .crash

instance : Monad Out where
  pure := .ok
  bind := Out.bind

/-- `if !cond { return err }` -/
def need (cond : Bool) (r : Reject) : Out Unit := if cond then .ok () else .reject r

/-! ### configuration -/

/-- one entry of `Config.DNSNames`, with what `net.ParseIP` / `url.Parse` say about it (inputs) -/
structure Host where
  name : Str
  v6 : Bool        -- `net.ParseIP(name)` is an IPv6 address: `toHostname` adds brackets
  parses : Bool    -- `url.Parse("https://" + hostname + path)` succeeds
  norm : Str       -- the host as `URL.String()` prints it after parsing (`WithFragment` re-serialises)
  stripped : Str   -- the host after `u.Host = u.Hostname()` as `URL.String()` prints it (`stripPort`)
  deriving DecidableEq, Repr

def Host.hostname (h : Host) : Str := if h.v6 then s "[" ++ h.name ++ s "]" else h.name

/-- An audience of the CA, symbolically: the legacy constant or `https://<host><path>`. -/
inductive Aud where
  | legacy
  | url (h : Host) (path : Str)
  deriving DecidableEq, Repr

/-- `provisioner.Audiences` -/
structure Auds where
  sign : List Aud
  renew : List Aud
  revoke : List Aud
  sshSign : List Aud
  sshRevoke : List Aud
  sshRenew : List Aud
  sshRekey : List Aud
  deriving Repr

def pSign : List Str := [s "/1.0/sign", s "/sign", s "/1.0/ssh/sign", s "/ssh/sign"]
def pRenew : List Str := [s "/1.0/renew", s "/renew"]
def pRevoke : List Str := [s "/1.0/revoke", s "/revoke"]
def pSSHSign : List Str := [s "/1.0/ssh/sign", s "/ssh/sign", s "/1.0/sign", s "/sign"]
def pSSHRevoke : List Str := [s "/1.0/ssh/revoke", s "/ssh/revoke"]
def pSSHRenew : List Str := [s "/1.0/ssh/renew", s "/ssh/renew"]
def pSSHRekey : List Str := [s "/1.0/ssh/rekey", s "/ssh/rekey"]

def urls (hosts : List Host) (paths : List Str) : List Aud :=
  hosts.flatMap fun h => paths.map fun p => Aud.url h p

/-- `Config.GetAudiences`: the legacy constant heads the sign and revoke lists; every DNS name
    contributes the versioned and unversioned URL of each operation; the sign and ssh-sign lists
    contain each other's URLs. -/
def getAudiences (hosts : List Host) : Auds :=
  { sign := Aud.legacy :: urls hosts pSign
    renew := urls hosts pRenew
    revoke := Aud.legacy :: urls hosts pRevoke
    sshSign := urls hosts pSSHSign
    sshRevoke := urls hosts pSSHRevoke
    sshRenew := urls hosts pSSHRenew
    sshRekey := urls hosts pSSHRekey }

/-- `Audiences.All` -/
def Auds.all (a : Auds) : List Aud :=
  a.sign ++ a.renew ++ a.revoke ++ a.sshSign ++ a.sshRevoke ++ a.sshRenew ++ a.sshRekey

def legacyStr : Str := s "step-certificate-authority"

/-- The audience as the string the code compares, and its `stripPort` image.
    `frag = none`: the list as `GetAudiences` built it; `frag = some fe`: after
    `WithFragment(f)`, `fe` being `f` escaped as a URL fragment. -/
def Aud.render (frag : Option Str) : Aud → Str × Str
  | .legacy =>
    match frag with
    | none => (legacyStr, legacyStr)
    | some fe => let r := s "/" ++ legacyStr ++ s "#" ++ fe; (r, r)
  | .url h p =>
    let raw := s "https://" ++ h.hostname ++ p
    if h.parses then
      match frag with
      | none => (raw, s "https://" ++ h.stripped ++ p)
      | some fe => (s "https://" ++ h.norm ++ p ++ s "#" ++ fe, s "https://" ++ h.stripped ++ p ++ s "#" ++ fe)
    else (raw, raw)

structure Prov where
  ty : PType
  name : Str
  kid : Str              -- JWK: Key.KeyID
  clientId : Str         -- OIDC: ClientID; Azure: TenantID
  audience : Str         -- Azure: Audience (after `Init`: the default management URL when empty)
  oidcIssuer : Str       -- OIDC: issuer of the discovery document
  nameEsc : Str          -- `GetIDForToken()` escaped as a URL fragment (X5C, SSHPOP, Nebula audiences)
  init : Bool            -- false: `Init` failed, the collection holds `provisioner.Uninitialized`
  sshEnabled : Bool      -- `Claimer.IsSSHCAEnabled()`
  disableRenewal : Bool  -- `Claimer.IsDisableRenewal()`
  renewAfterExpiry : Bool -- `Claimer.AllowRenewalAfterExpiry()`
  deriving Repr

def k8sIssuer : Str := s "kubernetes/serviceaccount"

/-- `GetIDForToken()` of each provisioner type -/
def Prov.tokenId (p : Prov) : Str :=
  match p.ty with
  | .jwk => p.name ++ s ":" ++ p.kid
  | .x5c => s "x5c/" ++ p.name
  | .sshpop => s "sshpop/" ++ p.name
  | .oidc => p.clientId
  | .k8ssa => s "k8ssa/k8sSA-default"
  | .nebula => s "nebula/" ++ p.name
  | .acme => s "acme/" ++ p.name
  | .scep => s "scep/" ++ p.name
  | .aws => s "aws/" ++ p.name
  | .gcp => s "gcp/" ++ p.name
  | .azure => p.clientId

/-- `GetTokenID` succeeds, so `UseToken` records the token (K8sSA, ACME and SCEP return an error and
    the token is not recorded) -/
def Prov.tracksTokens (p : Prov) : Bool :=
  match p.ty with
  | .k8ssa | .acme | .scep => false
  | _ => true

/-- the `iss` the provisioner's `authorizeToken` passes as `jose.Expected.Issuer` -/
def gcpIssuer : Str := s "https://accounts.google.com"
def awsIssuer : Str := s "ec2.amazonaws.com"

def Prov.expIssuer (p : Prov) : Str :=
  match p.ty with
  | .oidc | .azure => p.oidcIssuer
  | .k8ssa => k8sIssuer
  | .gcp => gcpIssuer
  | .aws => awsIssuer
  | _ => p.name

/-- how an SSH public key is known to the authority (`authority.go init`, `WithSSH*Signer`, `config.SSH.Keys`) -/
inductive KeyClass where
  | own        -- the CA's signing key of that type: in the roots list and heading the federation list
  | retired    -- `ssh.keys` entry with `federated: false` (a rotated-out key of this CA): roots list only
  | federated  -- `ssh.keys` entry with `federated: true` (another CA): federation list only
  deriving DecidableEq, Repr

structure SshKey where
  user : Bool            -- type "user" (else "host")
  cls : KeyClass
  deriving DecidableEq, Repr

structure Config where
  hosts : List Host
  provs : List Prov
  sshCA : Bool           -- the authority has an SSH user or host signing key
  disableIat : Bool      -- AuthorityConfig.DisableIssuedAtCheck
  startTime : Int        -- the instant the authority was constructed, truncated to the second (seconds); measured
                         -- by the harness around `authority.New` / `NewEmbedded` / restart, not read back from the authority
  sshKeys : List SshKey := []  -- every SSH public key the authority knows, own and configured
  deriving Repr

/-- `generateProvisionerConfig`: SSHPOP provisioners get `GetSSHRoots()` — the CA's own keys and the
    retired ones, per certificate type — and **not** the federation list. -/
def Config.sshRoot (cfg : Config) (user : Bool) (k : Nat) : Bool :=
  match cfg.sshKeys[k]? with
  | some key => key.user == user && key.cls != .federated
  | none => false

/-! ### the presented token, parsed -/

/-- one element of the token's `aud`, with its `stripPort` image (input: `url.Parse`) -/
structure TAud where
  raw : Str
  stripped : Str
  deriving DecidableEq, Repr

/-- crypto (and OIDC directory) facts about the token relative to *one* configured provisioner -/
structure Cr where
  sig : Bool      -- JWK: `jwt.Claims(p.Key)` succeeds; K8sSA: under one of `p.pubKeys`; OIDC: under one
                  -- key `keyStore.Get(kid)` returns; X5C / SSHPOP / Nebula: under the key of the
                  -- certificate carried in the header
  chain : Bool    -- X5C: header chain verifies to `p.rootPool` with ExtKeyUsageClientAuth;
                  -- SSHPOP: (not used: see `Pop.signer` and `Config.sshRoot`)
                  -- Nebula: `c.Verify(now, p.caPool)`
  digSig : Bool   -- X5C: the verified leaf has KeyUsageDigitalSignature
  admin : Bool    -- OIDC: `claims.IsAdmin(o.Admins)`
  domainOk : Bool -- OIDC: e-mail domain test of ValidatePayload passes
  groupOk : Bool  -- OIDC: group filter of ValidatePayload passes
  identOk : Bool  -- OIDC: `ctl.GetIdentity(email)` succeeds
  vpanic : Bool   -- Nebula: the library call `c.Verify(now, p.caPool)` itself aborts (nebula v1.9.5 hands a
                  -- 65-byte P-256 CA key to `ed25519.Verify` when the presented certificate says curve 25519)
  deriving DecidableEq, Repr

/-- facts about a cloud identity token relative to *one* configured AWS / GCP / Azure provisioner:
    the outcome of the provisioner's own filters on the (verified) payload, computed as coded -/
structure Cl where
  fields : Bool   -- GCP: instance id, name, project id, zone non-empty; AWS: identity document parses and
                  -- accountId, instanceId, privateIp, region non-empty; Azure: `xms_mirid` matches the resource pattern
  subject : Bool  -- GCP: ServiceAccounts empty or contains sub / email; AWS: DisableCustomSANs off or sub is the
                  -- instance id, private IP or internal DNS name; Azure: (unused, true)
  scope : Bool    -- GCP: ProjectIDs filter; AWS: Accounts filter; Azure: ResourceGroups, SubscriptionIDs and ObjectIDs filters
  age : Bool      -- GCP / AWS: InstanceAge unset or the instance is young enough at `now`; Azure: (unused, true)
  sshKind : Bool  -- GCP: the requested SSH certificate type is not disabled (DisableSSHCAHost / DisableSSHCAUser) and is user or host
  deriving DecidableEq, Repr

def Cl.none : Cl := ⟨false, false, false, false, false⟩

def Cr.none : Cr := ⟨false, false, false, false, false, false, false, false⟩

/-- the SSH certificate in the `sshpop` header -/
structure Pop where
  after : Nat          -- ValidAfter (uint64)
  before : Nat         -- ValidBefore (uint64; 2^64-1 = forever)
  host : Bool          -- CertType == ssh.HostCert
  user : Bool          -- CertType == ssh.UserCert (neither: the host keys are tried)
  serialIsSub : Bool   -- claims.Subject == FormatUint(cert.Serial)
  signer : Option Nat := none  -- index in `Config.sshKeys` of the key under which the certificate's
                       -- signature verifies (crypto input, tried against every known key); none: a foreign key
  deriving DecidableEq, Repr

structure Tok where
  parsed : Bool        -- `jose.ParseSigned` and `UnsafeClaimsWithoutVerification(&Claims)` succeed
  kid : Str            -- protected header `kid`
  iss : Str
  sub : Str
  aud : List TAud
  exp : Option Int
  nbf : Option Int
  iat : Option Int
  azp : Str
  tid : Str
  email : Str
  lbtOk : Bool         -- the second unverified decode (`loadByTokenPayload`) succeeds
  fragment : Str       -- `extractFragment(aud)`
  fragEsc : Str        -- the same, escaped as `URL.String()` prints a fragment
  hasSSH : Bool        -- `claims.Step != nil && claims.Step.SSH != nil`
  sshTypeOk : Bool     -- `step.ssh.certType` is empty or `sshutil.CertTypeFromString` accepts it
  nebSshOk : Bool      -- Nebula: `step.ssh.principals` are the certificate's name or IPs and
                       -- `step.ssh.certType` is empty or exactly "host" (true when there is no `step.ssh`)
  nebSansOk : Bool := true  -- Nebula sign: the token's `sans` are empty or all the certificate's name / IPs
  pop : Option Pop     -- `ExtractSSHPOPCert` result
  cr : List Cr         -- one per configured provisioner, same order as `Config.provs`
  cl : List Cl := []   -- cloud facts, one per configured provisioner (absent = all false)
  deriving Repr

def Tok.crAt (t : Tok) (i : Nat) : Cr := (t.cr[i]?).getD Cr.none
def Tok.clAt (t : Tok) (i : Nat) : Cl := (t.cl[i]?).getD Cl.none

/-! ### lookup -/

/-- `matchesAudience(as, bs)`: `as` the token's audiences, `bs` the CA's (rendered) -/
def audMatch (as : List TAud) (bs : List (Str × Str)) : Bool :=
  !bs.isEmpty && !as.isEmpty &&
  bs.any fun b => as.any fun a => b.1 == a.raw || a.stripped == b.2

/-- `Collection.LoadByTokenID`: the provisioner stored under that id (ids are unique in a collection) -/
def findId (id : Str) : List Prov → Nat → Option (Nat × Prov)
  | [], _ => none
  | p :: ps, i => if p.tokenId == id then some (i, p) else findId id ps (i + 1)

def byTokenId (cfg : Config) (id : Str) : Option (Nat × Prov) := findId id cfg.provs 0

def orElse' {α : Type} (a : Option α) (b : Unit → Option α) : Option α :=
  match a with
  | some x => some x
  | none => b ()

/-- the CA audiences `LoadByToken` compares the token's with: all seven lists, re-rendered with
    the token's own fragment when it has one -/
def lookupAuds (cfg : Config) (t : Tok) : List (Str × Str) :=
  if t.fragment.isEmpty then (getAudiences cfg.hosts).all.map (Aud.render none)
  else (getAudiences cfg.hosts).all.map (Aud.render (some t.fragEsc))

/-- second half of `LoadByToken`: no audience of the CA matched; the id is taken from
    `iss` (Kubernetes), `azp`, `tid` or the first audience -/
def loadByClaims (cfg : Config) (t : Tok) : Option (Nat × Prov) :=
  if !t.lbtOk then none
  else if t.iss == k8sIssuer then byTokenId cfg (s "k8ssa/k8sSA-default")
  else match t.aud with
    | [] => none
    | a0 :: _ =>
      orElse' (if !t.azp.isEmpty then byTokenId cfg t.azp else none) fun _ =>
      orElse' (if !t.tid.isEmpty then
                 orElse' (if !t.email.isEmpty then byTokenId cfg a0.raw else none) fun _ =>
                 byTokenId cfg t.tid
               else none) fun _ =>
      byTokenId cfg a0.raw

/-- `Collection.LoadByToken` -/
def loadByToken (cfg : Config) (t : Tok) : Option (Nat × Prov) :=
  if audMatch t.aud (lookupAuds cfg t) then
    if !t.fragment.isEmpty then byTokenId cfg t.fragment
    else byTokenId cfg (t.iss ++ s ":" ++ t.kid)
  else loadByClaims cfg t

/-! ### claim validation -/

def ns : Int := 1000000000
def leeway : Int := 60 * ns

/-- `Claims.ValidateWithLeeway(Expected{Issuer: iss, Time: now}, time.Minute)`
    (and `Claims.Validate(Expected{Issuer})`, which uses `time.Now()` and the same default leeway) -/
def validate (expIss : Str) (now : Int) (t : Tok) : Out Unit := do
  need (expIss.isEmpty || expIss == t.iss) .issuer
  need (match t.nbf with | some nbf => !(now + leeway < nbf * ns) | none => true) .notYetValid
  need (match t.exp with | some exp => !(now - leeway > exp * ns) | none => true) .expired
  need (match t.iat with | some iat => !(now + leeway < iat * ns) | none => true) .issuedInFuture

/-- the audience list a provisioner's controller holds for `op`, rendered:
    X5C, SSHPOP and Nebula use `config.Audiences.WithFragment(p.GetIDForToken())` -/
def opAuds (a : Auds) : Op → List Aud
  | .sign => a.sign
  | .sshSign => a.sshSign
  | .sshRenew => a.sshRenew
  | .sshRekey => a.sshRekey
  | .revoke => a.revoke
  | .sshRevoke => a.sshRevoke

/-- X5C, SSHPOP, Nebula, AWS and GCP replace `config.Audiences` by `config.Audiences.WithFragment(p.GetIDForToken())` in `Init` -/
def Prov.audFrag (p : Prov) : Option Str :=
  match p.ty with
  | .x5c | .sshpop | .nebula | .aws | .gcp => some p.nameEsc
  | _ => none

def provAuds (cfg : Config) (p : Prov) (op : Op) : List (Str × Str) :=
  (opAuds (getAudiences cfg.hosts) op).map (Aud.render p.audFrag)

/-- tail shared by JWK / X5C / SSHPOP / Nebula `authorizeToken`: claims, audience, subject -/
def claimsAudSub (cfg : Config) (p : Prov) (now : Int) (op : Op) (t : Tok) : Out Unit := do
  validate p.expIssuer now t
  need (audMatch t.aud (provAuds cfg p op)) .audience
  need (!t.sub.isEmpty) .subject

def baseReject : Out Unit := .reject .notImplemented

/-- tail of `AuthorizeSSHSign` for JWK / X5C: the token must carry `step.ssh` with a known cert type -/
def sshOptsTail (t : Tok) : Out Unit := do
  need t.hasSSH .notSSHToken
  need t.sshTypeOk .sshCertType

def jwkTok (cfg : Config) (p : Prov) (c : Cr) (now : Int) (op : Op) (t : Tok) : Out Unit := do
  need c.sig .signature
  claimsAudSub cfg p now op t

def jwkOp (cfg : Config) (p : Prov) (c : Cr) (now : Int) (op : Op) (t : Tok) : Out Unit :=
  match op with
  | .sign | .revoke | .sshRevoke => jwkTok cfg p c now op t
  | .sshSign => do
    need p.sshEnabled .sshDisabled
    jwkTok cfg p c now op t
    sshOptsTail t
  | .sshRenew | .sshRekey => baseReject

def x5cTok (cfg : Config) (p : Prov) (c : Cr) (now : Int) (op : Op) (t : Tok) : Out Unit := do
  need c.chain .chain
  need c.digSig .keyUsage
  need c.sig .signature
  claimsAudSub cfg p now op t

def x5cOp (cfg : Config) (p : Prov) (c : Cr) (now : Int) (op : Op) (t : Tok) : Out Unit :=
  match op with
  | .sign | .revoke => x5cTok cfg p c now op t
  | .sshSign => do
    need p.sshEnabled .sshDisabled
    x5cTok cfg p c now op t
    sshOptsTail t
  | .sshRevoke | .sshRenew | .sshRekey => baseReject

def maxInt64 : Nat := 9223372036854775807
def certForever : Nat := 18446744073709551615

/-- the validity test of `SSHPOP.authorizeToken(checkValidity)`: `cast.SafeInt64`, a bound above
    MaxInt64 is refused, "forever" (2^64-1) has no upper bound. Never aborts. -/
def certWindowTok (pc : Pop) (now : Int) : Out Unit :=
  let unixNow := now / ns
  if pc.after > maxInt64 || unixNow < (pc.after : Int) then .reject .certNotYetValid
  else if pc.before != certForever && (pc.before > maxInt64 || unixNow ≥ (pc.before : Int)) then .reject .certExpired
  else .ok ()

/-- the validity test of `DefaultAuthorizeSSHRenew` (controller.go, since 763c7e1): `cast.SafeInt64`;
    `ValidBefore` is looked at only when it is not "forever" and renewal after expiry is not
    allowed (`lenient`). Never aborts. -/
def certWindow (pc : Pop) (now : Int) (lenient : Bool) : Out Unit :=
  let unixNow := now / ns
  if pc.after > maxInt64 || unixNow < (pc.after : Int) then .reject .certNotYetValid
  else if pc.before != certForever && !lenient && (pc.before > maxInt64 || unixNow ≥ (pc.before : Int)) then
    .reject .certExpired
  else .ok ()

def sshpopTok (cfg : Config) (p : Prov) (c : Cr) (now : Int) (op : Op) (t : Tok) (checkValidity : Bool) : Out Pop :=
  match t.pop with
  | none => .reject .header
  | some pc => do
    if checkValidity then certWindowTok pc now
    -- `keys` = user keys for a user certificate, host keys otherwise; some key of that list verifies it
    need (match pc.signer with | some k => cfg.sshRoot pc.user k | none => false) .chain
    need c.sig .signature
    claimsAudSub cfg p now op t
    pure pc

def sshpopOp (cfg : Config) (p : Prov) (c : Cr) (now : Int) (op : Op) (t : Tok) : Out Unit :=
  match op with
  | .sshRevoke => do
    let pc ← sshpopTok cfg p c now op t true
    need pc.serialIsSub .serialMismatch
  | .sshRenew => do
    let pc ← sshpopTok cfg p c now op t false
    need pc.host .certNotHost
    need (!p.disableRenewal) .renewDisabled
    certWindow pc now p.renewAfterExpiry
  | .sshRekey => do
    let pc ← sshpopTok cfg p c now op t true
    need pc.host .certNotHost
  | .sign | .revoke | .sshSign => baseReject

/-- `OIDC.authorizeToken` + `ValidatePayload`: the audience test is "`aud` contains the client id"
    (plain string equality), not the URL match; the subject must be non-empty (fix 1529327). -/
def oidcTok (p : Prov) (c : Cr) (now : Int) (t : Tok) : Out Unit := do
  need c.sig .signature
  need (p.oidcIssuer.isEmpty || p.oidcIssuer == t.iss) .issuer
  need (t.aud.any fun a => a.raw == p.clientId) .audience
  validate [] now t
  need (!t.sub.isEmpty) .subject          -- since 1529327
  need (t.azp.isEmpty || t.azp == p.clientId) .azp
  need c.domainOk .domain
  need c.groupOk .group

def oidcOp (p : Prov) (c : Cr) (now : Int) (op : Op) (t : Tok) : Out Unit :=
  match op with
  | .sign => oidcTok p c now t
  | .revoke | .sshRevoke => do
    oidcTok p c now t
    need c.admin .notAdmin
  | .sshSign => do
    need p.sshEnabled .sshDisabled
    oidcTok p c now t
    need (!t.sub.isEmpty) .subject
    need (t.email.isEmpty || c.identOk) .identity
  | .sshRenew | .sshRekey => baseReject

/-- `K8sSA.authorizeToken`: the `audiences` argument is discarded (`_ = audiences`). -/
def k8sTok (p : Prov) (c : Cr) (now : Int) (t : Tok) : Out Unit := do
  need c.sig .signature
  validate p.expIssuer now t
  need (!t.sub.isEmpty) .subject

def k8sOp (p : Prov) (c : Cr) (now : Int) (op : Op) (t : Tok) : Out Unit :=
  match op with
  | .sign | .revoke => k8sTok p c now t
  | .sshSign => do
    need p.sshEnabled .sshDisabled
    k8sTok p c now t
  | .sshRevoke | .sshRenew | .sshRekey => baseReject

def nebulaChk (cfg : Config) (p : Prov) (c : Cr) (now : Int) (op : Op) (t : Tok) : Out Unit := do
  need c.chain .chain
  need c.sig .signature
  claimsAudSub cfg p now op t

def nebulaTok (cfg : Config) (p : Prov) (c : Cr) (now : Int) (op : Op) (t : Tok) : Out Unit :=
  if c.vpanic then .crash else nebulaChk cfg p c now op t

/-- Nebula -/
def nebulaOp (cfg : Config) (p : Prov) (c : Cr) (now : Int) (op : Op) (t : Tok) : Out Unit :=
  match op with
  | .sign => do
    nebulaTok cfg p c now op t
    need t.nebSansOk .subject             -- validateNebulaTokenSANs, fix 62bb26c
  | .revoke => nebulaTok cfg p c now op t
  | .sshSign => do
    need p.sshEnabled .sshDisabled
    nebulaTok cfg p c now op t
    need (!t.hasSSH || t.nebSshOk) .sshCertType
  | .sshRevoke => do
    need p.sshEnabled .sshDisabled
    nebulaTok cfg p c now op t
  | .sshRenew | .sshRekey => baseReject

/-! #### cloud identity provisioners (`aws.go`, `gcp.go`, `azure.go`): sign and ssh-sign only; both use
  the **sign** audience list (`p.ctl.Audiences.Sign`); an empty subject is refused since 6a9c1d5 -/

/-- `GCP.authorizeToken`: `c.sig` = some key `keyStore.Get(kid)` returns verifies the token -/
def gcpTok (cfg : Config) (p : Prov) (c : Cr) (l : Cl) (now : Int) (t : Tok) : Out Unit := do
  need c.sig .signature
  validate p.expIssuer now t
  need (audMatch t.aud (provAuds cfg p .sign)) .audience
  need l.subject .cloudFilter
  need l.scope .cloudFilter
  need l.age .cloudAge
  need (!t.sub.isEmpty) .subject          -- since 6a9c1d5
  need l.fields .cloudDocument

def gcpOp (cfg : Config) (p : Prov) (c : Cr) (l : Cl) (now : Int) (op : Op) (t : Tok) : Out Unit :=
  match op with
  | .sign => gcpTok cfg p c l now t
  | .sshSign => do
    need p.sshEnabled .sshDisabled
    need l.sshKind .sshCertType
    gcpTok cfg p c l now t
  | _ => baseReject

/-- `AWS.authorizeToken`: `c.sig` = the token verifies under the HMAC key it carries itself
    (`amazon.signature`), `c.chain` = `checkSignature(document, signature)` against the AWS certificates -/
def awsTok (cfg : Config) (p : Prov) (c : Cr) (l : Cl) (now : Int) (t : Tok) : Out Unit := do
  need c.sig .signature
  need c.chain .chain
  need l.fields .cloudDocument
  validate p.expIssuer now t
  need (audMatch t.aud (provAuds cfg p .sign)) .audience
  need (!t.sub.isEmpty) .subject          -- since 6a9c1d5
  need l.subject .subject
  need l.scope .cloudFilter
  need l.age .cloudAge

def awsOp (cfg : Config) (p : Prov) (c : Cr) (l : Cl) (now : Int) (op : Op) (t : Tok) : Out Unit :=
  match op with
  | .sign => awsTok cfg p c l now t
  | .sshSign => do
    need p.sshEnabled .sshDisabled
    awsTok cfg p c l now t
  | _ => baseReject

/-- `Azure.authorizeToken`: audience = `p.Audience` by string equality, issuer of the discovery
    document, tenant, resource id pattern -/
def azureTok (p : Prov) (c : Cr) (l : Cl) (now : Int) (t : Tok) : Out Unit := do
  need c.sig .signature
  need (p.oidcIssuer.isEmpty || p.oidcIssuer == t.iss) .issuer
  need (t.aud.any fun a => a.raw == p.audience) .audience
  validate [] now t
  need (!t.sub.isEmpty) .subject          -- since 6a9c1d5
  need (t.tid == p.clientId) .tenant
  need l.fields .cloudDocument

/-- the resource-group / subscription / object-id filters are applied by `AuthorizeSign` only;
    `AuthorizeSSHSign` does not apply them -/
def azureOp (p : Prov) (c : Cr) (l : Cl) (now : Int) (op : Op) (t : Tok) : Out Unit :=
  match op with
  | .sign => do
    azureTok p c l now t
    need l.scope .cloudFilter
  | .sshSign => do
    need p.sshEnabled .sshDisabled
    azureTok p c l now t
  | _ => baseReject

/-- ACME and SCEP provisioners are stored in the same collection under `acme/<name>`, `scep/<name>`;
    their `AuthorizeSign` (ACME: also `AuthorizeRevoke`) ignore the token argument altogether.
    Since 719d1fc `getProvisionerFromToken` never hands a token to them (see `authorize`). -/
def tokenlessOp (ty : PType) (op : Op) : Out Unit :=
  match ty, op with
  | _, .sign => .ok ()
  | .acme, .revoke => .ok ()
  | _, _ => baseReject

def provOp (cfg : Config) (p : Prov) (c : Cr) (l : Cl) (now : Int) (op : Op) (t : Tok) : Out Unit :=
  match p.ty with
  | .aws => awsOp cfg p c l now op t
  | .gcp => gcpOp cfg p c l now op t
  | .azure => azureOp p c l now op t
  | .jwk => jwkOp cfg p c now op t
  | .x5c => x5cOp cfg p c now op t
  | .sshpop => sshpopOp cfg p c now op t
  | .oidc => oidcOp p c now op t
  | .k8ssa => k8sOp p c now op t
  | .nebula => nebulaOp cfg p c now op t
  | .acme => tokenlessOp .acme op
  | .scep => tokenlessOp .scep op

def needsSSHCA : Op → Bool
  | .sshSign | .sshRenew | .sshRekey => true
  | _ => false

/-- `claims.IssuedAt != nil && claims.IssuedAt.Time().Before(a.startTime)` -/
def issuedBefore (cfg : Config) (t : Tok) : Bool :=
  match t.iat with
  | some iat => iat < cfg.startTime
  | none => false

/-- `Authority.Authorize(ctx with method op, token)`: the index (in `cfg.provs`) of the provisioner
    whose `Authorize<Op>` accepted the token. -/
def authorize (cfg : Config) (now : Int) (op : Op) (t : Tok) : Out Nat := do
  need (!needsSSHCA op || cfg.sshCA) .sshNotEnabled
  need t.parsed .parse
  match loadByToken cfg t with
  | none => .reject .notFound
  | some (i, p) =>
    -- ACME and SCEP provisioners ignore the token: refused here (fix 719d1fc), before the
    -- Uninitialized test (`Uninitialized{acme}.GetType()` still reports ACME)
    need (p.ty != .acme && p.ty != .scep) .tokenless
    need p.init .disabled
    need (cfg.disableIat || !issuedBefore cfg t) .issuedBeforeStart
    provOp cfg p (t.crAt i) (t.clAt i) now op t
    pure i

/-! ### the six token handlers of `api/`: every control-flow path, as the source has it

  Each path is the sequence of events met from the top of the handler to a `return` (or its end):
  `auth` a call of `a.Authorize`; `authErr` / `authOk` entering the error branch of the
  `if err != nil` that guards it / falling through; `eff name` a call of an authority method or
  helper that signs, renews, rekeys or revokes; `noToken` the branch of `Revoke` for a request
  without token (mTLS); `ret` a return; `unknown` anything the extractor does not recognise.
  The harness stage `handlers` re-derives these lists from the source on every run (go/ast) and
  the driver prints this table, so a change of the handlers breaks the correspondence.
-/
inductive Ev where
  | auth | authOk | authErr
  | eff (name : String)
  | noToken | ret
  | unknown (what : String)
  deriving DecidableEq, Repr

def Ev.show : Ev → String
  | .auth => "A" | .authOk => "Aok" | .authErr => "Aerr"
  | .eff n => "E:" ++ n
  | .noToken => "nott" | .ret => "ret"
  | .unknown w => w

def handlerPaths : List (String × List (List Ev)) :=
  [
    ("Sign",
      [[.auth, .authErr, .ret],
       [.auth, .authOk, .eff "SignWithContext"],
       [.auth, .authOk, .eff "SignWithContext", .ret],
       [.ret]]),
    ("SSHSign",
      [[.auth, .authErr, .ret],
       [.auth, .authOk, .eff "SignSSH"],
       [.auth, .authOk, .eff "SignSSH", .auth, .authErr, .ret],
       [.auth, .authOk, .eff "SignSSH", .auth, .authOk, .eff "SignWithContext"],
       [.auth, .authOk, .eff "SignSSH", .auth, .authOk, .eff "SignWithContext", .ret],
       [.auth, .authOk, .eff "SignSSH", .eff "SignSSHAddUser"],
       [.auth, .authOk, .eff "SignSSH", .eff "SignSSHAddUser", .auth, .authErr, .ret],
       [.auth, .authOk, .eff "SignSSH", .eff "SignSSHAddUser", .auth, .authOk, .eff "SignWithContext"],
       [.auth, .authOk, .eff "SignSSH", .eff "SignSSHAddUser", .auth, .authOk, .eff "SignWithContext", .ret],
       [.auth, .authOk, .eff "SignSSH", .eff "SignSSHAddUser", .ret],
       [.auth, .authOk, .eff "SignSSH", .ret],
       [.ret]]),
    ("SSHRenew",
      [[.auth, .authErr, .ret],
       [.auth, .authOk, .eff "RenewSSH", .eff "renewIdentityCertificate"],
       [.auth, .authOk, .eff "RenewSSH", .eff "renewIdentityCertificate", .ret],
       [.auth, .authOk, .eff "RenewSSH", .ret],
       [.auth, .authOk, .ret],
       [.ret]]),
    ("SSHRekey",
      [[.auth, .authErr, .ret],
       [.auth, .authOk, .eff "RekeySSH", .eff "renewIdentityCertificate"],
       [.auth, .authOk, .eff "RekeySSH", .eff "renewIdentityCertificate", .ret],
       [.auth, .authOk, .eff "RekeySSH", .ret],
       [.auth, .authOk, .ret],
       [.ret]]),
    ("SSHRevoke",
      [[.auth, .authErr, .ret],
       [.auth, .authOk, .eff "Revoke"],
       [.auth, .authOk, .eff "Revoke", .ret],
       [.ret]]),
    ("Revoke",
      [[.auth, .authErr, .ret],
       [.auth, .authOk, .eff "Revoke"],
       [.auth, .authOk, .eff "Revoke", .ret],
       [.noToken, .eff "Revoke"],
       [.noToken, .eff "Revoke", .ret],
       [.noToken, .ret],
       [.ret]]) ]

/-! ### the functions of `authority/authorize.go` that `authorize` mirrors, and the method sets of the
  provisioner types, as the source has them

  `flows` is the statement skeleton of `Authorize`, the six `authorize<Op>`, `authorizeToken`,
  `getProvisionerFromToken` and `generateProvisionerConfig` (provisioners.go): `call n g` a call on `a` / `p` / `tok` / `jose` (`g = returns`: its error
  is tested by the adjacent `if err != nil { …; return }`), `cond c t e` any other `if` with its
  condition as source text, `sw tag cases` a switch, `ret calls` a return. `declared` lists which of the
  six `Authorize*` methods each provisioner type declares itself and whether it embeds `*base`.
  Both are re-derived from the source (go/ast, harness stage `handlers`) on every run and compared
  with this copy through the driver.
-/
inductive Guard where
  | none | returns | other
  deriving DecidableEq, Repr

inductive Fl where
  | call (name : String) (g : Guard)
  | cond (c : String) (t : List Fl) (e : List Fl)
  | sw (tag : String) (cases : List (String × List Fl))
  | ret (calls : List String)
  | unknown (what : String)

def flows : List (String × List Fl) :=
  [
    ("Authorize",
      [.sw "m := provisioner.MethodFromContext(ctx); m" [("case provisioner.SignMethod, provisioner.SignIdentityMethod", [.call "a.authorizeSign" .none, .ret []]), ("case provisioner.RevokeMethod", [.ret ["a.authorizeRevoke"]]), ("case provisioner.SSHSignMethod", [.cond "a.sshCAHostCertSignKey == nil && a.sshCAUserCertSignKey == nil" [.ret []] [], .call "a.authorizeSSHSign" .none, .ret []]), ("case provisioner.SSHRenewMethod", [.cond "a.sshCAHostCertSignKey == nil && a.sshCAUserCertSignKey == nil" [.ret []] [], .call "a.authorizeSSHRenew" .none, .ret []]), ("case provisioner.SSHRevokeMethod", [.ret ["a.authorizeSSHRevoke"]]), ("case provisioner.SSHRekeyMethod", [.cond "a.sshCAHostCertSignKey == nil && a.sshCAUserCertSignKey == nil" [.ret []] [], .call "a.authorizeSSHRekey" .none, .ret []]), ("default", [.ret []])]]),
    ("authorizeSign",
      [.call "a.authorizeToken" .returns, .call "p.AuthorizeSign" .returns, .ret []]),
    ("authorizeRevoke",
      [.call "a.authorizeToken" .returns, .call "p.AuthorizeRevoke" .returns, .ret []]),
    ("authorizeSSHSign",
      [.call "a.authorizeToken" .returns, .call "p.AuthorizeSSHSign" .returns, .ret []]),
    ("authorizeSSHRenew",
      [.call "a.authorizeToken" .returns, .call "p.AuthorizeSSHRenew" .returns, .ret []]),
    ("authorizeSSHRekey",
      [.call "a.authorizeToken" .returns, .call "p.AuthorizeSSHRekey" .returns, .ret []]),
    ("authorizeSSHRevoke",
      [.call "a.authorizeToken" .returns, .call "p.AuthorizeSSHRevoke" .returns, .ret []]),
    ("authorizeToken",
      [.call "a.getProvisionerFromToken" .returns, .cond "a.config.AuthorityConfig != nil && !a.config.AuthorityConfig.DisableIssuedAtCheck" [.cond "claims.IssuedAt != nil && claims.IssuedAt.Time().Before(a.startTime)" [.ret []] []] [], .cond "!SkipTokenReuseFromContext(ctx)" [.call "a.UseToken" .returns] [], .ret []]),
    ("getProvisionerFromToken",
      [.call "jose.ParseSigned" .returns, .call "tok.UnsafeClaimsWithoutVerification" .returns, .call "a.LoadProvisionerByToken" .returns, .sw "p.GetType()" [("case provisioner.TypeACME, provisioner.TypeSCEP", [.ret ["p.GetName"]])], .cond "_, ok := p.(provisioner.Uninitialized); ok" [.ret ["p.GetName"]] [], .ret []]),
    ("generateProvisionerConfig",
      [.cond "err != nil" [.ret []] [], .call "a.GetSSHRoots" .returns, .ret []]) ]

def declared : List (String × List String × Bool) :=
  [
    ("JWK", ["AuthorizeRevoke", "AuthorizeSSHRevoke", "AuthorizeSSHSign", "AuthorizeSign"], true),
    ("X5C", ["AuthorizeRevoke", "AuthorizeSSHSign", "AuthorizeSign"], true),
    ("SSHPOP", ["AuthorizeSSHRekey", "AuthorizeSSHRenew", "AuthorizeSSHRevoke"], true),
    ("OIDC", ["AuthorizeRevoke", "AuthorizeSSHRevoke", "AuthorizeSSHSign", "AuthorizeSign"], true),
    ("K8sSA", ["AuthorizeRevoke", "AuthorizeSSHSign", "AuthorizeSign"], true),
    ("Nebula", ["AuthorizeRevoke", "AuthorizeSSHRekey", "AuthorizeSSHRenew", "AuthorizeSSHRevoke", "AuthorizeSSHSign", "AuthorizeSign"], false),
    ("ACME", ["AuthorizeRevoke", "AuthorizeSign"], true),
    ("SCEP", ["AuthorizeSign"], true),
    ("AWS", ["AuthorizeSSHSign", "AuthorizeSign"], true),
    ("GCP", ["AuthorizeSSHSign", "AuthorizeSign"], true),
    ("Azure", ["AuthorizeSSHSign", "AuthorizeSign"], true) ]

/-- every function of package `api` that calls `Authorize` or a method / helper that signs, renews,
    rekeys or revokes: (name, calls Authorize, those calls); re-derived from api/*.go on every run -/
def apiSurface : List (String × Bool × List String) :=
  [
    ("Rekey", false, ["Rekey"]),
    ("Renew", false, ["RenewContext"]),
    ("Revoke", true, ["Revoke"]),
    ("SSHRekey", true, ["RekeySSH", "renewIdentityCertificate"]),
    ("SSHRenew", true, ["RenewSSH", "renewIdentityCertificate"]),
    ("SSHRevoke", true, ["Revoke"]),
    ("SSHSign", true, ["SignSSH", "SignSSHAddUser", "SignWithContext"]),
    ("Sign", true, ["SignWithContext"]),
    ("renewIdentityCertificate", false, ["Renew"]) ]

/-- the routes `api.Route` registers: (method, pattern, handler), in source order; re-derived on every run -/
def apiRoutes : List (String × String × String) :=
  [
    ("GET", "/version", "Version"),
    ("GET", "/health", "Health"),
    ("GET", "/root/{sha}", "Root"),
    ("POST", "/sign", "Sign"),
    ("POST", "/renew", "Renew"),
    ("POST", "/rekey", "Rekey"),
    ("POST", "/revoke", "Revoke"),
    ("GET", "/crl", "CRL"),
    ("GET", "/provisioners", "Provisioners"),
    ("GET", "/provisioners/{kid}/encrypted-key", "ProvisionerKey"),
    ("GET", "/roots", "Roots"),
    ("GET", "/roots.pem", "RootsPEM"),
    ("GET", "/intermediates", "Intermediates"),
    ("GET", "/intermediates.pem", "IntermediatesPEM"),
    ("GET", "/federation", "Federation"),
    ("POST", "/ssh/sign", "SSHSign"),
    ("POST", "/ssh/renew", "SSHRenew"),
    ("POST", "/ssh/revoke", "SSHRevoke"),
    ("POST", "/ssh/rekey", "SSHRekey"),
    ("GET", "/ssh/roots", "SSHRoots"),
    ("GET", "/ssh/federation", "SSHFederation"),
    ("POST", "/ssh/config", "SSHConfig"),
    ("POST", "/ssh/config/{type}", "SSHConfig"),
    ("POST", "/ssh/check-host", "SSHCheckHost"),
    ("GET", "/ssh/hosts", "SSHGetHosts"),
    ("POST", "/ssh/bastion", "SSHBastion"),
    ("POST", "/re-sign", "Renew"),
    ("POST", "/sign-ssh", "SSHSign"),
    ("GET", "/ssh/get-hosts", "SSHGetHosts") ]

/-- the `provisioner.Method` constants each token handler of package `api` puts into the request
    context, in source order; re-derived from the source on every run -/
def handlerMethods : List (String × List String) :=
  [ ("Sign", ["SignMethod"]),
    ("SSHSign", ["SSHSignMethod", "SignIdentityMethod"]),
    ("SSHRenew", ["SSHRenewMethod"]),
    ("SSHRekey", ["SSHRekeyMethod"]),
    ("SSHRevoke", ["SSHRevokeMethod"]),
    ("Revoke", ["RevokeMethod"]) ]

mutual
partial def Fl.show : Fl → String
  | .call n g => "C(" ++ n ++ ")" ++ (match g with | .none => "" | .returns => "!" | .other => "?")
  | .ret [] => "R"
  | .ret cs => "R(" ++ ",".intercalate cs ++ ")"
  | .cond c t [] => "I[" ++ c ++ "]{" ++ Fl.showList t ++ "}"
  | .cond c t e => "I[" ++ c ++ "]{" ++ Fl.showList t ++ "}E{" ++ Fl.showList e ++ "}"
  | .sw tag cs => "S[" ++ tag ++ "]{" ++ ";;".intercalate (cs.map fun x => x.1 ++ ":" ++ Fl.showList x.2) ++ "}"
  | .unknown w => "X:" ++ w
partial def Fl.showList (l : List Fl) : String := ",".intercalate (l.map Fl.show)
end

/-! ### the provisioner collection (`authority/provisioner/collection.go`: `Store`, `Remove`, `Update`)

  What `Config.provs` stands for: the provisioners the collection currently indexes. A provisioner
  is seen through the three keys it is indexed by (`GetID`, `GetName`, `GetIDForToken`); the three
  `sync.Map`s are functions `Str → Option CP`. `Store` = three `LoadOrStore`s, each failure undoing
  the earlier ones (net effect: unchanged); `Remove` deletes the three entries of the provisioner
  stored under the id; `Update` = the two "new name / new token id already taken" tests, then
  `Remove(old)` and `Store(new)`. (`byKey` and the `sorted` list play no part in token lookups.)
-/
structure CP where
  id : Str
  name : Str
  tok : Str
  deriving DecidableEq, Repr

abbrev CMap := Str → Option CP
def CMap.set (m : CMap) (k : Str) (v : CP) : CMap := fun x => if x = k then some v else m x
def CMap.del (m : CMap) (k : Str) : CMap := fun x => if x = k then none else m x

structure Coll where
  byID : CMap
  byName : CMap
  byTok : CMap

def Coll.empty : Coll := ⟨fun _ => none, fun _ => none, fun _ => none⟩

def Coll.store (c : Coll) (p : CP) : Coll × Bool :=
  match c.byID p.id with
  | some _ => (c, false)
  | none =>
    match c.byName p.name with
    | some _ => (c, false)     -- stored under its id, then taken out again
    | none =>
      match c.byTok p.tok with
      | some _ => (c, false)
      | none => (⟨c.byID.set p.id p, c.byName.set p.name p, c.byTok.set p.tok p⟩, true)

def Coll.remove (c : Coll) (id : Str) : Coll × Bool :=
  match c.byID id with
  | none => (c, false)
  | some q => (⟨c.byID.del id, c.byName.del q.name, c.byTok.del q.tok⟩, true)

def Coll.update (c : Coll) (nu : CP) : Coll × Bool :=
  match c.byID nu.id with
  | none => (c, false)
  | some old =>
    if old.name ≠ nu.name ∧ (c.byName nu.name).isSome then (c, false)
    else if old.tok ≠ nu.tok ∧ (c.byTok nu.tok).isSome then (c, false)
    else
      let r := c.remove old.id
      if !r.2 then r else r.1.store nu


inductive COp where
  | store (p : CP) | remove (id : Str) | update (p : CP)

def Coll.step (c : Coll) : COp → Coll
  | .store p => (c.store p).1
  | .remove id => (c.remove id).1
  | .update p => (c.update p).1

def Coll.run (ops : List COp) : Coll := ops.foldl Coll.step Coll.empty


end Verif.Token
