import Verif.Model.Common
/-
  Model of the ACME challenge validators of /repo/acme/challenge.go and of
  `challengeTypes` / `trimIfWildcard` of /repo/acme/api/order.go.

  Go function                               model definition
  ----------------------------------------  -----------------------------------------
  KeyAuthorization                          `keyAuth`          (thumbprint is an input)
  strings.TrimSpace (UTF-8 aware)           `goTrimSpace`
  rootedName / http01ChallengeHost /
    tlsAlpn01ChallengeHost /
    dns01ChallengeHost / net.JoinHostPort   `rootedName` `http01Host` `tlsAlpn01Host` `dns01Host` `joinHostPort`
  serverName / reverseAddr / uitoa          `serverName` `reverseAddr` `itoa`     (index out of range = `.crash`)
  net.IP.To4 / net.IP.Equal                 `to4` `ipEqual`
  storeError + db.UpdateChallenge           `store`            (a failing UpdateChallenge keeps the stored record)
  Challenge.Validate (dispatch)             `validate`
  http01Validate                            `http01Validate`
  dns01Validate                             `dns01Validate`
  tlsAlert / tlsalpn01Validate              `tlsalpn01Validate`
  deviceAttest01Validate                    `deviceAttest01Validate`
  doStepAttestationFormat                   `doStep`
  doAppleAttestationFormat                  `doApple`
  doTPMAttestationFormat                    `doTpm`           (decision order only, see below)
  api.trimIfWildcard / api.challengeTypes   `trimIfWildcard` `challengeTypes`

  External calls are input fields or oracle parameters:
    * the JWK thumbprint (`jwk.Thumbprint` + base64url)  -> `Ch.thumb`   (`none` = Thumbprint failed)
    * SHA-256                                             -> oracle `H : Str → Str` (`Hash.raw`), and
      base64url(SHA-256 x)                                -> oracle `Hash.b64`
    * `net.ParseIP(ch.Value)`                             -> `Ch.ip` (16 bytes when it parses)
    * `asn1.Unmarshal(ext.Value, &[]byte)`                -> `Ext.octets` (`some v` iff err == nil ∧ rest empty)
    * X.509 parsing / chain verification, CBOR, JSON, base64 decoding, signature
      verification (`verifies : Str → Bool`, "the attestation signature verifies over this message
      under the leaf key"), key fingerprints             -> fields of `DaIn`, `StepFacts`, `AppleFacts`, `TpmFacts`
    * the provisioner (`IsAttestationFormatEnabled`, `GetAttestationRoots`) -> fields
    * package variables `StrictFQDN`, `InsecurePortHTTP01`, `InsecurePortTLSALPN01` -> `Cfg`
  Not modelled: wire-oidc-01 / wire-dpop-01 (`validate` returns `.unmodelled`), the `validated`
  timestamp, error detail strings, `url.URL.String()` escaping (the harness compares request
  URLs only for identifiers/tokens made of unreserved characters).
  The validation client is assumed to honour Go's convention that exactly one of
  (result, error) is non-nil and that a non-nil `*http.Response` has a non-nil `Body`.
-/
namespace Verif.AcmeChallenge
open Verif Verif.Str

/-! ### strings -/

/-- `strings.TrimPrefix` -/
def trimPrefix (p a : Str) : Str := if p.isPrefixOf a then a.drop p.length else a

/-- `strconv.Itoa` / `uitoa` on a non-negative value -/
def itoa (n : Nat) : Str := (Nat.toDigits 10 n).map Char.toNat

/-- UTF-8 encodings of the runes for which `unicode.IsSpace` is true. -/
def spaceSeqs : List Str :=
  [[32], [9], [10], [11], [12], [13],
   [0xC2, 0x85], [0xC2, 0xA0], [0xE1, 0x9A, 0x80],
   [0xE2, 0x80, 0x80], [0xE2, 0x80, 0x81], [0xE2, 0x80, 0x82], [0xE2, 0x80, 0x83],
   [0xE2, 0x80, 0x84], [0xE2, 0x80, 0x85], [0xE2, 0x80, 0x86], [0xE2, 0x80, 0x87],
   [0xE2, 0x80, 0x88], [0xE2, 0x80, 0x89], [0xE2, 0x80, 0x8A],
   [0xE2, 0x80, 0xA8], [0xE2, 0x80, 0xA9], [0xE2, 0x80, 0xAF], [0xE2, 0x81, 0x9F],
   [0xE3, 0x80, 0x80]]

/-- length of the space rune encoded at the front of `a` (0 when the front is not a space rune) -/
def spaceLenFront (a : Str) : Nat :=
  match spaceSeqs.find? (fun q => q.isPrefixOf a) with
  | some q => q.length
  | none => 0

/-- the same looking from the end (argument is the reversed string) -/
def spaceLenBack (r : Str) : Nat :=
  match spaceSeqs.find? (fun q => q.reverse.isPrefixOf r) with
  | some q => q.length
  | none => 0

/-- `strings.TrimLeftFunc(a, unicode.IsSpace)`; `fuel` bounds the recursion by the length -/
def trimLeftSpace : Nat → Str → Str
  | 0, a => a
  | fuel + 1, a =>
    match spaceLenFront a with
    | 0 => a
    | n => trimLeftSpace fuel (a.drop n)

def trimRightSpaceRev : Nat → Str → Str
  | 0, r => r
  | fuel + 1, r =>
    match spaceLenBack r with
    | 0 => r
    | n => trimRightSpaceRev fuel (r.drop n)

/-- `strings.TrimSpace` on arbitrary bytes: leading and trailing runes with
    `unicode.IsSpace` are removed; an invalid UTF-8 byte is `RuneError`, not a space. -/
def goTrimSpace (a : Str) : Str :=
  let l := trimLeftSpace a.length a
  (trimRightSpaceRev l.length l.reverse).reverse

/-! ### key authorization and digests -/

/-- the two digest encodings the validators use, as oracles -/
structure Hash where
  raw : Str → Str        -- sha256.Sum256
  b64 : Str → Str        -- base64.RawURLEncoding(sha256.Sum256)

/-- `fmt.Sprintf("%s.%s", token, base64url(thumbprint))` -/
def keyAuth (token thumb : Str) : Str := token ++ [46] ++ thumb

/-! ### stored challenge, outcome -/

inductive Status where
  | pending | valid | invalid | other
  deriving Repr, DecidableEq

/-- ACME problem type stored in `ch.Error` (only the types the validators use) -/
inductive ErrT where
  | none | connection | dns | rejectedIdentifier | badAttestationStatement
  deriving Repr, DecidableEq

inductive ChType where
  | http01 | dns01 | tlsalpn01 | deviceAttest01 | wireOidc01 | wireDpop01 | unknown
  deriving Repr, DecidableEq

/-- return value of the validator -/
inductive Ret where
  | ok           -- nil
  | ise          -- an *acme.Error with status 500 (or any wrapped internal error)
  deriving Repr, DecidableEq

/-- package-level configuration variables -/
structure Cfg where
  strictFQDN : Bool
  portHTTP : Nat       -- InsecurePortHTTP01 (0 = unset)
  portTLS : Nat        -- InsecurePortTLSALPN01 (0 = unset)
  deriving Repr, DecidableEq

/-- the stored challenge as the validators read it -/
structure Ch where
  typ : ChType
  status : Status
  err : ErrT           -- error left by an earlier attempt
  value : Str          -- identifier value copied from the authorization at creation
  token : Str
  thumb : Option Str   -- base64url thumbprint of the *requesting account's* key
  ip : Option Str      -- net.ParseIP(value) as 16 bytes
  deriving Repr, DecidableEq

/-- what the validation client was asked to contact -/
inductive Target where
  | none
  | httpGet (url : Str)
  | txt (name : Str)
  | tls (addr sni : Str)
  deriving Repr, DecidableEq

/-- persistent effect of one `Validate` call -/
structure Outcome where
  status : Status      -- stored challenge status afterwards
  err : ErrT           -- stored challenge error afterwards
  ret : Ret
  target : Target
  authzFp : Bool       -- the authorization's fingerprint was rewritten (device-attest-01)
  deriving Repr, DecidableEq

/-- `db.UpdateChallenge(ch)` with the new (status, error): when the database refuses the
    write the stored record is unchanged and the validator returns an internal error. -/
def store (dbOk : Bool) (ch : Ch) (st : Status) (e : ErrT) (t : Target) : Outcome :=
  if dbOk then ⟨st, e, .ok, t, false⟩ else ⟨ch.status, ch.err, .ise, t, false⟩

/-- `storeError(ctx, db, ch, markInvalid, err)` -/
def storeError (dbOk : Bool) (ch : Ch) (markInvalid : Bool) (e : ErrT) (t : Target) : Outcome :=
  store dbOk ch (if markInvalid then .invalid else ch.status) e t

/-- a return without any database write -/
def noWrite (ch : Ch) (t : Target) : Outcome := ⟨ch.status, ch.err, .ise, t, false⟩

/-! ### target derivation -/

/-- `rootedName` -/
def rootedName (cfg : Cfg) (name : Str) : Str :=
  if cfg.strictFQDN then
    if name = [] ∨ name.getLast? ≠ some 46 then name ++ [46] else name
  else name

/-- `net.IP.To4` on a 4- or 16-byte address -/
def to4 (ip : Str) : Option Str :=
  if ip.length = 4 then some ip
  else if ip.length = 16 ∧ ip.take 10 = List.replicate 10 0 ∧ ip[10]? = some 255 ∧ ip[11]? = some 255 then
    some (ip.drop 12)
  else none

/-- `net.IP.Equal` -/
def ipEqual (a b : Str) : Bool :=
  if a.length = b.length then a == b
  else if a.length = 4 ∧ b.length = 16 then to4 b == some a
  else if a.length = 16 ∧ b.length = 4 then to4 a == some b
  else false

/-- `http01ChallengeHost` -/
def http01Host (cfg : Cfg) (value : Str) (ip : Option Str) : Str :=
  match ip with
  | some a => if (to4 a).isNone then [91] ++ value ++ [93] else value
  | none => rootedName cfg value

/-- `tlsAlpn01ChallengeHost` -/
def tlsAlpn01Host (cfg : Cfg) (value : Str) (ip : Option Str) : Str :=
  match ip with
  | some _ => value
  | none => rootedName cfg value

/-- `dns01ChallengeHost` -/
def dns01Host (cfg : Cfg) (domain : Str) : Str := s "_acme-challenge." ++ rootedName cfg domain

/-- `net.JoinHostPort` -/
def joinHostPort (host port : Str) : Str :=
  if has 58 host then [91] ++ host ++ [93, 58] ++ port else host ++ [58] ++ port

def idx (l : Str) (i : Nat) : M Nat :=
  match l[i]? with
  | some v => .val v
  | none => .crash

def hexit (n : Nat) : Nat := if n < 10 then 48 + n else 87 + n

/-- `reverseAddr`: the IPv4 branch indexes `ip[12..15]` whatever the slice length is -/
def reverseAddr (ip : Str) : M Str :=
  if (to4 ip).isSome then do
    let a ← idx ip 15
    let b ← idx ip 14
    let c ← idx ip 13
    let d ← idx ip 12
    pure (itoa a ++ [46] ++ itoa b ++ [46] ++ itoa c ++ [46] ++ itoa d ++ s ".in-addr.arpa.")
  else
    .val (ip.reverse.flatMap (fun v => [hexit (v % 16), 46, hexit (v / 16), 46]) ++ s "ip6.arpa.")

/-- `serverName` -/
def serverName (value : Str) (ip : Option Str) : M Str :=
  match ip with
  | some a => reverseAddr a
  | none => .val value

def wellKnown : Str := s "/.well-known/acme-challenge/"

/-- the URL handed to `vc.Get` -/
def http01URL (cfg : Cfg) (ch : Ch) : Str :=
  s "http://" ++ http01Host cfg ch.value ch.ip ++
    (if cfg.portHTTP = 0 then [] else [58] ++ itoa cfg.portHTTP) ++ wellKnown ++ ch.token

/-- the name handed to `vc.LookupTxt` -/
def dns01Name (cfg : Cfg) (ch : Ch) : Str := dns01Host cfg (trimPrefix (s "*.") ch.value)

/-- the address handed to `vc.TLSDial` -/
def tlsAddr (cfg : Cfg) (ch : Ch) : Str :=
  joinHostPort (tlsAlpn01Host cfg ch.value ch.ip) (if cfg.portTLS = 0 then s "443" else itoa cfg.portTLS)

/-! ### http-01 -/

/-- everything `vc.Get` + `io.ReadAll` can deliver -/
inductive HttpResp where
  | err                                        -- Get returned an error (any class)
  | resp (status : Int) (body : Option Str)    -- `none`: reading the body failed
  deriving Repr, DecidableEq

def http01Validate (cfg : Cfg) (dbOk : Bool) (ch : Ch) (r : HttpResp) : Outcome :=
  let t := Target.httpGet (http01URL cfg ch)
  match r with
  | .err => storeError dbOk ch false .connection t
  | .resp status body =>
    if status ≥ 400 then storeError dbOk ch false .connection t
    else match body with
      | none => noWrite ch t
      | some b =>
        match ch.thumb with
        | none => noWrite ch t
        | some th =>
          if goTrimSpace b ≠ keyAuth ch.token th then storeError dbOk ch true .rejectedIdentifier t
          else store dbOk ch .valid .none t

/-! ### dns-01 -/

/-- `vc.LookupTxt` result: `none` = error (any class) -/
abbrev TxtResp := Option (List Str)

def dns01Validate (h : Hash) (cfg : Cfg) (dbOk : Bool) (ch : Ch) (r : TxtResp) : Outcome :=
  let t := Target.txt (dns01Name cfg ch)
  match r with
  | none => storeError dbOk ch false .dns t
  | some records =>
    match ch.thumb with
    | none => noWrite ch t
    | some th =>
      if records.contains (h.b64 (keyAuth ch.token th)) then store dbOk ch .valid .none t
      else storeError dbOk ch false .rejectedIdentifier t

/-! ### tls-alpn-01 -/

inductive ExtId where
  | acme          -- 1.3.6.1.5.5.7.1.31
  | acmeObsolete  -- 1.3.6.1.5.5.7.1.30.1
  | other
  deriving Repr, DecidableEq

structure Ext where
  id : ExtId
  critical : Bool
  octets : Option Str   -- asn1.Unmarshal(value, &[]byte): `some v` iff no error and no trailing bytes
  deriving Repr, DecidableEq

structure Leaf where
  dns : List Str
  ips : List Str        -- 4- or 16-byte addresses
  exts : List Ext
  deriving Repr, DecidableEq

/-- everything `vc.TLSDial` can deliver.  `alert n`: `errors.As` finds a `*net.OpError` whose
    `Err` has reflect kind uint8 and value `n`; `other`: any other error. -/
inductive DialRes where
  | alert (n : Nat)
  | other
  | conn (leaf : Option Leaf) (proto : Str)   -- `none`: no peer certificates
  deriving Repr, DecidableEq

def acmeTls1 : Str := s "acme-tls/1"

/-- the extension loop: the first extension with the acme identifier OID decides -/
def extLoop (dbOk : Bool) (ch : Ch) (digest : Str) (t : Target) : List Ext → Bool → Outcome
  | [], _ => storeError dbOk ch true .rejectedIdentifier t   -- obsolete OID seen / extension missing
  | e :: rest, obsolete =>
    match e.id with
    | .acme =>
      if !e.critical then storeError dbOk ch true .rejectedIdentifier t
      else match e.octets with
        | none => storeError dbOk ch true .rejectedIdentifier t
        | some v =>
          if digest.length ≠ v.length then storeError dbOk ch true .rejectedIdentifier t
          else if digest ≠ v then storeError dbOk ch true .rejectedIdentifier t
          else store dbOk ch .valid .none t
    | .acmeObsolete => extLoop dbOk ch digest t rest true
    | .other => extLoop dbOk ch digest t rest obsolete

def leafNameOk (ch : Ch) (l : Leaf) : Bool :=
  if l.dns.length = 0 then
    match l.ips, ch.ip with
    | [a], some b => ipEqual a b
    | _, _ => false          -- `IP.Equal(nil)` is false for a 4/16-byte address
  else
    match l.dns with
    | [d] => foldEq d ch.value
    | _ => false

def tlsalpn01Validate (h : Hash) (cfg : Cfg) (dbOk : Bool) (ch : Ch) (r : DialRes) : M Outcome := do
  let sni ← serverName ch.value ch.ip
  let t := Target.tls (tlsAddr cfg ch) sni
  match r with
  | .alert n =>
    if n % 256 = 120 then pure (storeError dbOk ch true .rejectedIdentifier t)
    else pure (storeError dbOk ch false .connection t)
  | .other => pure (storeError dbOk ch false .connection t)
  | .conn none _ => pure (storeError dbOk ch true .rejectedIdentifier t)
  | .conn (some leaf) proto =>
    if proto ≠ acmeTls1 then pure (storeError dbOk ch true .rejectedIdentifier t)
    else if !leafNameOk ch leaf then pure (storeError dbOk ch true .rejectedIdentifier t)
    else match ch.thumb with
      | none => pure (noWrite ch t)
      | some th => pure (extLoop dbOk ch (h.raw (keyAuth ch.token th)) t leaf.exts false)

/-! ### device-attest-01 -/

/-- facts about `attStmt["x5c"]`, shared by the three formats -/
structure X5c where
  present : Bool     -- the entry is an array
  len : Nat
  leafOk : Bool      -- x5c[0] is a byte string and parses as a certificate
  restOk : Bool      -- every further entry is a byte string and parses
  chainOk : Bool     -- leaf.Verify(roots, intermediates, now, any EKU) succeeded, where roots are the
                     -- provisioner's attestation roots or (step/apple only) the built-in vendor root
  deriving Repr, DecidableEq

/-- result of a format function: the extracted data, a problem that is stored
    (status 400), or an internal error returned unstored -/
inductive Fmt (α : Type) where
  | data : α → Fmt α
  | bad : ErrT → Fmt α
  | ise : Fmt α
  | nilErr : Fmt α   -- `WrapError(typ, nil, …)`: a nil `*Error` inside a non-nil `error`; the caller's
                     -- `errors.As` succeeds with a nil pointer and `acmeError.Status` panics.  Since fix
                     -- b9777f2 no format function produces it (theorem `device_attest_total`).

def x5cCheck (emptyErr : ErrT) (x : X5c) : Option (Fmt Unit) :=
  if !x.present then some (.bad .badAttestationStatement)
  else if x.len = 0 then some (.bad emptyErr)
  else if !x.leafOk then some (.bad .badAttestationStatement)
  else if !x.restOk then some (.bad .badAttestationStatement)
  else if !x.chainOk then some (.bad .badAttestationStatement)
  else none

inductive KeyKind where
  | ecP256 | ecOther | rsa | ed25519 | unsupported
  deriving Repr, DecidableEq

inductive SerialExt where
  | absent
  | malformed               -- asn1.Unmarshal returned an error
  | trailing                -- asn1.Unmarshal succeeded but left trailing bytes (err == nil)
  | value (decimal : Str)   -- strconv.Itoa of the INTEGER
  deriving Repr, DecidableEq

structure StepFacts where
  x5c : X5c
  sigPresent : Bool          -- attStmt["sig"] is a byte string
  sigCborOk : Bool           -- it CBOR-decodes to a byte string
  key : KeyKind              -- type of the leaf public key
  verifies : Str → Bool      -- the decoded signature verifies over this message under the leaf key
  fpOk : Bool                -- keyutil.Fingerprint(leaf key) succeeded
  serial : SerialExt         -- first extension 1.3.6.1.4.1.41482.3.7

/-- `doStepAttestationFormat`: `some serialString` on success -/
def doStep (ch : Ch) (f : StepFacts) : Fmt Str :=
  match x5cCheck .rejectedIdentifier f.x5c with
  | some (.bad e) => .bad e
  | some _ => .ise
  | none =>
    if !f.sigPresent then .bad .badAttestationStatement
    else if !f.sigCborOk then .bad .badAttestationStatement
    else match ch.thumb with
      | none => .ise
      | some th =>
        if f.key = .ecOther then .bad .badAttestationStatement    -- NewDetailedError "unsupported elliptic curve" (fix b9777f2)
        else if f.key = .unsupported then .bad .badAttestationStatement
        else if !f.verifies (keyAuth ch.token th) then .bad .badAttestationStatement
        else if !f.fpOk then .ise
        else match f.serial with
          | .absent => .data []
          | .malformed => .bad .badAttestationStatement
          | .trailing => .bad .badAttestationStatement   -- NewError "…: trailing data" (fix b9777f2)
          | .value d => .data d

structure AppleFacts where
  x5c : X5c
  fpOk : Bool
  serial : Str    -- value of extension 1.2.840.113635.100.8.9.1 ("" when absent)
  udid : Str      -- value of extension 1.2.840.113635.100.8.9.2 ("" when absent)
  nonce : Str     -- value of extension 1.2.840.113635.100.8.11.1 ("" when absent)
  deriving Repr, DecidableEq

def doApple (f : AppleFacts) : Fmt AppleFacts :=
  match x5cCheck .badAttestationStatement f.x5c with
  | some (.bad e) => .bad e
  | some _ => .ise
  | none => if !f.fpOk then .ise else .data f

/-- `doTPMAttestationFormat`, condensed: `pre` is the first failing structural step before the
    key-authorization comparison (none of them reads the challenge), `post` after it. -/
inductive TpmPre where
  | ok
  | bad      -- ver / x5c / chain / AK certificate / SAN / pubArea / sig / certInfo / alg /
             -- certification-parameter verification / attestation-data decoding failed (status 400)
  | noRoots  -- GetAttestationRoots() not ok (internal error)
  deriving Repr, DecidableEq

structure TpmFacts where
  pre : TpmPre               -- `ok` means: ver = "2.0", x5c parses, the AK certificate verifies to the
                             -- *configured* roots and meets the AK requirements, and certInfo is signed by
                             -- the AK and names pubArea (attest.CertificationParameters.Verify)
  extraData : Str            -- tpmCertInfo.ExtraData
  postBad : Bool             -- DecodePublic / pub.Key failed (status 400)
  fpOk : Bool
  permanentIdentifiers : List Str
  deriving Repr, DecidableEq

def doTpm (h : Hash) (ch : Ch) (f : TpmFacts) : Fmt (List Str) :=
  match f.pre with
  | .bad => .bad .badAttestationStatement
  | .noRoots => .ise
  | .ok =>
    match ch.thumb with
    | none => .ise
    | some th =>
      if h.raw (keyAuth ch.token th) ≠ f.extraData then .bad .badAttestationStatement
      else if f.postBad then .bad .badAttestationStatement
      else if !f.fpOk then .ise
      else .data f.permanentIdentifiers

inductive AttFormat where
  | apple | step | tpm | other
  deriving Repr, DecidableEq

inductive FmtFacts where
  | apple (f : AppleFacts)
  | step (f : StepFacts)
  | tpm (f : TpmFacts)
  | none

/-- what the validator extracts from the request payload and its environment, in the order the
    code looks at it -/
structure DaIn where
  authzOk : Bool         -- db.GetAuthorization succeeded
  jsonOk : Bool          -- json.Unmarshal(payload)
  errField : Bool        -- payload.error ≠ ""
  b64Ok : Bool           -- base64url decoding of attObj
  emptyObj : Bool        -- decoded attObj is empty or "{}"
  cborWellformed : Bool
  cborOk : Bool          -- cbor.Unmarshal into the attestation object
  format : AttFormat
  enabled : Bool         -- prov.IsAttestationFormatEnabled(format)
  facts : FmtFacts
  fpNonEmpty : Bool      -- the extracted key fingerprint is not "" (always, when fpOk)
  authzDbOk : Bool       -- db.UpdateAuthorization succeeds

def daFinish (dbOk : Bool) (ch : Ch) (i : DaIn) : Outcome :=
  if i.fpNonEmpty ∧ !i.authzDbOk then noWrite ch .none
  else { store dbOk ch .valid .none .none with authzFp := i.fpNonEmpty }

def daBad (dbOk : Bool) (ch : Ch) (e : ErrT) : Outcome := storeError dbOk ch true e .none

/-- the `apple` arm of the format switch -/
def daApple (h : Hash) (dbOk : Bool) (ch : Ch) (i : DaIn) (f : AppleFacts) : M Outcome :=
  match doApple f with
  | .ise => .val (noWrite ch .none)
  | .nilErr => .crash
  | .bad e => .val (daBad dbOk ch e)
  | .data d =>
    if d.nonce.length ≠ 0 ∧ d.nonce ≠ h.raw ch.token then .val (daBad dbOk ch .badAttestationStatement)
    else if d.udid ≠ ch.value ∧ d.serial ≠ ch.value then .val (daBad dbOk ch .badAttestationStatement)
    else .val (daFinish dbOk ch i)

/-- the `step` arm -/
def daStep (dbOk : Bool) (ch : Ch) (i : DaIn) (f : StepFacts) : M Outcome :=
  match doStep ch f with
  | .ise => .val (noWrite ch .none)
  | .nilErr => .crash
  | .bad e => .val (daBad dbOk ch e)
  | .data serial =>
    if serial ≠ ch.value then .val (daBad dbOk ch .badAttestationStatement)
    else .val (daFinish dbOk ch i)

/-- the `tpm` arm -/
def daTpm (h : Hash) (dbOk : Bool) (ch : Ch) (i : DaIn) (f : TpmFacts) : M Outcome :=
  match doTpm h ch f with
  | .ise => .val (noWrite ch .none)
  | .nilErr => .crash
  | .bad e => .val (daBad dbOk ch e)
  | .data pids =>
    if pids.length > 0 ∧ !pids.contains ch.value then .val (daBad dbOk ch .badAttestationStatement)
    else .val (daFinish dbOk ch i)

/-- `switch format { … }` -/
def daCore (h : Hash) (dbOk : Bool) (ch : Ch) (i : DaIn) : M Outcome :=
  match i.format, i.facts with
  | .apple, .apple f => daApple h dbOk ch i f
  | .step, .step f => daStep dbOk ch i f
  | .tpm, .tpm f => daTpm h dbOk ch i f
  | _, _ => .val (daBad dbOk ch .badAttestationStatement)

def deviceAttest01Validate (h : Hash) (dbOk : Bool) (ch : Ch) (i : DaIn) : M Outcome :=
  if !i.authzOk then .val (noWrite ch .none)
  else if !i.jsonOk then .val (noWrite ch .none)
  else if i.errField then .val (daBad dbOk ch .rejectedIdentifier)
  else if !i.b64Ok then .val (daBad dbOk ch .badAttestationStatement)
  else if i.emptyObj then .val (daBad dbOk ch .badAttestationStatement)
  else if !i.cborWellformed then .val (daBad dbOk ch .badAttestationStatement)
  else if !i.cborOk then .val (noWrite ch .none)
  else if !i.enabled then .val (daBad dbOk ch .badAttestationStatement)
  else daCore h dbOk ch i

/-! ### Challenge.Validate -/

/-- the response of the outside world to the one request a validator makes -/
inductive World where
  | http (r : HttpResp)
  | txt (r : TxtResp)
  | tls (r : DialRes)
  | attest (i : DaIn)
  | nothing

inductive VOut where
  | done (o : Outcome)
  | crash
  | unmodelled        -- wire challenges
  | mismatch          -- driver only: the world value does not fit the challenge type

def validate (h : Hash) (cfg : Cfg) (dbOk : Bool) (ch : Ch) (w : World) : VOut :=
  if ch.status ≠ .pending then .done ⟨ch.status, ch.err, .ok, .none, false⟩
  else match ch.typ, w with
    | .http01, .http r => .done (http01Validate cfg dbOk ch r)
    | .dns01, .txt r => .done (dns01Validate h cfg dbOk ch r)
    | .tlsalpn01, .tls r =>
      match tlsalpn01Validate h cfg dbOk ch r with
      | .val o => .done o
      | .crash => .crash
    | .deviceAttest01, .attest i =>
      match deviceAttest01Validate h dbOk ch i with
      | .val o => .done o
      | .crash => .crash
    | .wireOidc01, _ => .unmodelled
    | .wireDpop01, _ => .unmodelled
    | .unknown, _ => .done (noWrite ch .none)
    | _, _ => .mismatch

/-- `Authorization.UpdateStatus` on a pending, unexpired authorization that owns exactly this
    challenge: it turns valid iff the stored challenge is valid (C10 proves the general form). -/
def authzAfter (o : Outcome) : Status := if o.status = .valid then .valid else .pending

/-- the stored authorization record as far as status decisions read it -/
structure AzRec where
  status : Status
  expired : Bool      -- now.After(ExpiresAt)
  deriving Repr, DecidableEq

/-- what `deviceAttest01Validate` leaves in the authorization record: it loads the record,
    sets `Fingerprint` and writes it back — status and expiry are written back as loaded
    (when nothing is written they are untouched anyway). -/
def daAuthzRecord (before : AzRec) (_ : Outcome) : AzRec := before

/-- "one of the authorization's challenges is valid": `deviceAttest01Validate` loads the authorization
    whose id came with the request (`ch.AuthorizationID`, set by the handler from the URL). When that
    is another identifier's authorization (`foreign`), this challenge is not among its challenges and
    its own ones are untouched (here: pending). -/
def ownChallengeValid (foreign : Bool) (o : Outcome) : Bool := !foreign && decide (o.status = .valid)

/-- `Authorization.UpdateStatus` — the only writer of an authorization's status: terminal states
    stay, an expired pending authorization turns invalid, a pending one turns valid iff one of its
    challenges is valid. -/
def authzUpdateStatus (az : AzRec) (challengeValid : Bool) : Status :=
  match az.status with
  | .invalid => .invalid
  | .valid => .valid
  | .pending => if az.expired then .invalid else if challengeValid then .valid else .pending
  | .other => .other

/-! ### challenge types offered for an identifier (acme/api/order.go) -/

inductive IdType where
  | ip | dns | permanentIdentifier | wireUser | wireDevice | other
  deriving Repr, DecidableEq

/-- `trimIfWildcard` -/
def trimIfWildcard (value : Str) : Str × Bool :=
  if (s "*.").isPrefixOf value then (trimPrefix (s "*.") value, true) else (value, false)

/-- `challengeTypes` -/
def challengeTypes (t : IdType) (wildcard : Bool) : List ChType :=
  match t with
  | .ip => [.http01, .tlsalpn01]
  | .dns => if !wildcard then [.dns01, .http01, .tlsalpn01] else [.dns01]
  | .permanentIdentifier => [.deviceAttest01]
  | .wireUser => [.wireOidc01]
  | .wireDevice => [.wireDpop01]
  | .other => []

/-- `newAuthorization`: stored identifier value, wildcard flag and the challenge types created
    (before the provisioner's `IsChallengeEnabled` filter, which only removes entries) -/
def newAuthorization (t : IdType) (raw : Str) : Str × Bool × List ChType :=
  let (v, w) := trimIfWildcard raw
  (v, w, challengeTypes t w)

end Verif.AcmeChallenge
