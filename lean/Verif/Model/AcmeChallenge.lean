import Verif.Model.Common
/-
  Model of the ACME challenge validators of /repo/acme/challenge.go and of
  `challengeTypes` / `trimIfWildcard` of /repo/acme/api/order.go.

  Go function                               model definition
  ----------------------------------------  -----------------------------------------
  KeyAuthorization                          `keyAuth`          (thumbprint is an input)
  strings.TrimSpace (UTF-8 aware)           `goTrimSpace`
  rootedName / http01ChallengeHost /
    tlsAlpn01ChallengeHost /
    dns01ChallengeHost / net.JoinHostPort   `rootedName` `http01Host` `tlsAlpn01Host` `dns01Host` `joinHostPort`
  serverName / reverseAddr / uitoa          `serverName` `reverseAddr` `itoa`     (index out of range = `.crash`)
  net.IP.To4 / net.IP.Equal                 `to4` `ipEqual`
  storeError + db.UpdateChallenge           `store`            (a failing UpdateChallenge keeps the stored record)
  Challenge.Validate (dispatch)             `validate`
  http01Validate                            `http01Validate`
  dns01Validate                             `dns01Validate`
  tlsAlert / tlsalpn01Validate              `tlsalpn01Validate`
  deviceAttest01Validate                    `deviceAttest01Validate`
  doStepAttestationFormat                   `doStep`
  doAppleAttestationFormat                  `doApple`
  doTPMAttestationFormat                    `doTpm`           (decision order only, see below)
  api.trimIfWildcard / api.challengeTypes   `trimIfWildcard` `challengeTypes`

  External calls are input fields or oracle parameters:
    * the JWK thumbprint (`jwk.Thumbprint` + base64url)  -> `Ch.thumb`   (`none` = Thumbprint failed)
    * SHA-256                                             -> oracle `H : Str → Str` (`Hash.raw`), and
      base64url(SHA-256 x)                                -> oracle `Hash.b64`
    * `net.ParseIP(ch.Value)`                             -> `Ch.ip` (16 bytes when it parses)
    * `asn1.Unmarshal(ext.Value, &[]byte)`                -> `Ext.octets` (`some v` iff err == nil ∧ rest empty)
    * X.509 parsing / chain verification, CBOR, JSON, base64 decoding, signature
      verification (`verifies : Str → Bool`, "the attestation signature verifies over this message
      under the leaf key"), key fingerprints             -> fields of `DaIn`, `StepFacts`, `AppleFacts`, `TpmFacts`
    * the provisioner (`IsAttestationFormatEnabled`, `GetAttestationRoots`) -> fields
    * package variables `StrictFQDN`, `InsecurePortHTTP01`, `InsecurePortTLSALPN01` -> `Cfg`
  Not modelled: wire-oidc-01 / wire-dpop-01 (`validate` returns `.unmodelled`), the `validated`
  timestamp, error detail strings, `url.URL.String()` escaping (the harness compares request
  URLs only for identifiers/tokens made of unreserved characters).
  The validation client is assumed to honour Go's convention that exactly one of
  (result, error) is non-nil and that a non-nil `*http.Response` has a non-nil `Body`.
-/
namespace Verif.AcmeChallenge
open Verif Verif.Str

/-! ### strings -/

/-- `strings.TrimPrefix` -/
def trimPrefix (p a : Str) : Str := if p.isPrefixOf a then a.drop p.length else a

/-- `strconv.Itoa` / `uitoa` on a non-negative value -/
def itoa (n : Nat) : Str := (Nat.toDigits 10 n).map Char.toNat

/-- UTF-8 encodings of the runes for which `unicode.IsSpace` is true. -/
def spaceSeqs : List Str :=
  [[32], [9], [10], [11], [12], [13],
   [0xC2, 0x85], [0xC2, 0xA0], [0xE1, 0x9A, 0x80],
   [0xE2, 0x80, 0x80], [0xE2, 0x80, 0x81], [0xE2, 0x80, 0x82], [0xE2, 0x80, 0x83],
   [0xE2, 0x80, 0x84], [0xE2, 0x80, 0x85], [0xE2, 0x80, 0x86], [0xE2, 0x80, 0x87],
   [0xE2, 0x80, 0x88], [0xE2, 0x80, 0x89], [0xE2, 0x80, 0x8A],
   [0xE2, 0x80, 0xA8], [0xE2, 0x80, 0xA9], [0xE2, 0x80, 0xAF], [0xE2, 0x81, 0x9F],
   [0xE3, 0x80, 0x80]]

/-- length of the space rune encoded at the front of `a` (0 when the front is not a space rune) -/
def spaceLenFront (a : Str) : Nat :=
  match spaceSeqs.find? (fun q => q.isPrefixOf a) with
  | some q => q.length
  | none => 0

/-- the same looking from the end (argument is the reversed string) -/
def spaceLenBack (r : Str) : Nat :=
  match spaceSeqs.find? (fun q => q.reverse.isPrefixOf r) with
  | some q => q.length
  | none => 0

/-- `strings.TrimLeftFunc(a, unicode.IsSpace)`; `fuel` bounds the recursion by the length -/
def trimLeftSpace : Nat → Str → Str
  | 0, a => a
  | fuel + 1, a =>
    match spaceLenFront a with
    | 0 => a
    | n => trimLeftSpace fuel (a.drop n)

def trimRightSpaceRev : Nat → Str → Str
  | 0, r => r
  | fuel + 1, r =>
    match spaceLenBack r with
    | 0 => r
    | n => trimRightSpaceRev fuel (r.drop n)

/-- `strings.TrimSpace` on arbitrary bytes: leading and trailing runes with
    `unicode.IsSpace` are removed; an invalid UTF-8 byte is `RuneError`, not a space. -/
def goTrimSpace (a : Str) : Str :=
  let l := trimLeftSpace a.length a
  (trimRightSpaceRev l.length l.reverse).reverse

/-! ### key authorization and digests -/

/-- the two digest encodings the validators use, as oracles -/
structure Hash where
  raw : Str → Str        -- sha256.Sum256
  b64 : Str → Str        -- base64.RawURLEncoding(sha256.Sum256)

/-- `fmt.Sprintf("%s.%s", token, base64url(thumbprint))` -/
def keyAuth (token thumb : Str) : Str := token ++ [46] ++ thumb

/-! ### stored challenge, outcome -/

inductive Status where
  | pending | valid | invalid | other
  deriving Repr, DecidableEq

/-- ACME problem type stored in `ch.Error` (only the types the validators use) -/
inductive ErrT where
  | none | connection | dns | rejectedIdentifier | badAttestationStatement
  deriving Repr, DecidableEq

inductive ChType where
  | http01 | dns01 | tlsalpn01 | deviceAttest01 | wireOidc01 | wireDpop01 | unknown
  deriving Repr, DecidableEq

/-- return value of the validator -/
inductive Ret where
  | ok           -- nil
  | ise          -- an *acme.Error with status 500 (or any wrapped internal error)
  | unauthorized -- an *acme.Error of type unauthorized (status 401) returned without any store
  | notFound     -- a problem of type malformed (status 400) returned without any store: the store's own
                 -- "… not found" (which `WrapErrorISE` passes through unchanged), or an unparsable
                 -- Wire challenge payload
  deriving Repr, DecidableEq

/-- package-level configuration variables -/
structure Cfg where
  strictFQDN : Bool
  portHTTP : Nat       -- InsecurePortHTTP01 (0 = unset)
  portTLS : Nat        -- InsecurePortTLSALPN01 (0 = unset)
  deriving Repr, DecidableEq

/-- the stored challenge as the validators read it -/
structure Ch where
  typ : ChType
  status : Status
  err : ErrT           -- error left by an earlier attempt
  value : Str          -- identifier value copied from the authorization at creation
  token : Str
  thumb : Option Str   -- base64url thumbprint of the *requesting account's* key
  ip : Option Str      -- net.ParseIP(value) as 16 bytes
  deriving Repr, DecidableEq

/-- what the validation client was asked to contact -/
inductive Target where
  | none
  | httpGet (url : Str)
  | txt (name : Str)
  | tls (addr sni : Str)
  deriving Repr, DecidableEq

/-- persistent effect of one `Validate` call -/
structure Outcome where
  status : Status      -- stored challenge status afterwards
  err : ErrT           -- stored challenge error afterwards
  ret : Ret
  target : Target
  authzFp : Bool       -- the authorization's fingerprint was rewritten (device-attest-01)
  deriving Repr, DecidableEq

/-- `db.UpdateChallenge(ch)` with the new (status, error): when the database refuses the
    write the stored record is unchanged and the validator returns an internal error. -/
def store (dbOk : Bool) (ch : Ch) (st : Status) (e : ErrT) (t : Target) : Outcome :=
  if dbOk then ⟨st, e, .ok, t, false⟩ else ⟨ch.status, ch.err, .ise, t, false⟩

/-- `storeError(ctx, db, ch, markInvalid, err)` -/
def storeError (dbOk : Bool) (ch : Ch) (markInvalid : Bool) (e : ErrT) (t : Target) : Outcome :=
  store dbOk ch (if markInvalid then .invalid else ch.status) e t

/-- a return without any database write -/
def noWrite (ch : Ch) (t : Target) : Outcome := ⟨ch.status, ch.err, .ise, t, false⟩

/-! ### target derivation -/

/-- `rootedName` -/
def rootedName (cfg : Cfg) (name : Str) : Str :=
  if cfg.strictFQDN then
    if name = [] ∨ name.getLast? ≠ some 46 then name ++ [46] else name
  else name

/-- `net.IP.To4` on a 4- or 16-byte address -/
def to4 (ip : Str) : Option Str :=
  if ip.length = 4 then some ip
  else if ip.length = 16 ∧ ip.take 10 = List.replicate 10 0 ∧ ip[10]? = some 255 ∧ ip[11]? = some 255 then
    some (ip.drop 12)
  else none

/-- `net.IP.Equal` -/
def ipEqual (a b : Str) : Bool :=
  if a.length = b.length then a == b
  else if a.length = 4 ∧ b.length = 16 then to4 b == some a
  else if a.length = 16 ∧ b.length = 4 then to4 a == some b
  else false

/-- `http01ChallengeHost` -/
def http01Host (cfg : Cfg) (value : Str) (ip : Option Str) : Str :=
  match ip with
  | some a => if (to4 a).isNone then [91] ++ value ++ [93] else value
  | none => rootedName cfg value

/-- `tlsAlpn01ChallengeHost` -/
def tlsAlpn01Host (cfg : Cfg) (value : Str) (ip : Option Str) : Str :=
  match ip with
  | some _ => value
  | none => rootedName cfg value

/-- `dns01ChallengeHost` -/
def dns01Host (cfg : Cfg) (domain : Str) : Str := s "_acme-challenge." ++ rootedName cfg domain

/-- `net.JoinHostPort` -/
def joinHostPort (host port : Str) : Str :=
  if has 58 host then [91] ++ host ++ [93, 58] ++ port else host ++ [58] ++ port

def idx (l : Str) (i : Nat) : M Nat :=
  match l[i]? with
  | some v => .val v
  | none => .crash

def hexit (n : Nat) : Nat := if n < 10 then 48 + n else 87 + n

/-- `reverseAddr`: the IPv4 branch indexes `ip[12..15]` whatever the slice length is -/
def reverseAddr (ip : Str) : M Str :=
  if (to4 ip).isSome then do
    let a ← idx ip 15
    let b ← idx ip 14
    let c ← idx ip 13
    let d ← idx ip 12
    pure (itoa a ++ [46] ++ itoa b ++ [46] ++ itoa c ++ [46] ++ itoa d ++ s ".in-addr.arpa.")
  else
    .val (ip.reverse.flatMap (fun v => [hexit (v % 16), 46, hexit (v / 16), 46]) ++ s "ip6.arpa.")

/-- `serverName` -/
def serverName (value : Str) (ip : Option Str) : M Str :=
  match ip with
  | some a => reverseAddr a
  | none => .val value

def wellKnown : Str := s "/.well-known/acme-challenge/"

/-! `(&url.URL{Scheme, Host, Path}).String()`: host and path are percent-escaped bytewise
    (`net/url` `escape` with `encodeHost` / `encodePath`; upper-case hex). -/

def isAlnum (c : Nat) : Bool := (48 ≤ c && c ≤ 57) || (65 ≤ c && c ≤ 90) || (97 ≤ c && c ≤ 122)

/-- `!shouldEscape(c, encodeHost)`: unreserved, sub-delims and `: [ ] < > "` -/
def hostKeep (c : Nat) : Bool := isAlnum c || (s "-_.~!$&'()*+,;=:[]<>\"").contains c

/-- `!shouldEscape(c, encodePath)`: unreserved and `$ & + , / : ; = @` -/
def pathKeep (c : Nat) : Bool := isAlnum c || (s "-_.~$&+,/:;=@").contains c

def hexUpper (n : Nat) : Nat := if n < 10 then 48 + n else 55 + n

def escapeWith (keep : Nat → Bool) (a : Str) : Str :=
  a.flatMap fun c => if keep c then [c] else [37, hexUpper (c / 16), hexUpper (c % 16)]

/-- the URL handed to `vc.Get` -/
def http01URL (cfg : Cfg) (ch : Ch) : Str :=
  s "http://" ++ escapeWith hostKeep (http01Host cfg ch.value ch.ip ++
    (if cfg.portHTTP = 0 then [] else [58] ++ itoa cfg.portHTTP)) ++ wellKnown ++ escapeWith pathKeep ch.token

/-- the name handed to `vc.LookupTxt` -/
def dns01Name (cfg : Cfg) (ch : Ch) : Str := dns01Host cfg (trimPrefix (s "*.") ch.value)

/-- the address handed to `vc.TLSDial` -/
def tlsAddr (cfg : Cfg) (ch : Ch) : Str :=
  joinHostPort (tlsAlpn01Host cfg ch.value ch.ip) (if cfg.portTLS = 0 then s "443" else itoa cfg.portTLS)

/-! ### http-01 -/

/-- everything `vc.Get` + `io.ReadAll` can deliver -/
inductive HttpResp where
  | err                                        -- Get returned an error (any class)
  | resp (status : Int) (body : Option Str)    -- `none`: reading the body failed
  deriving Repr, DecidableEq

/-- acme/client.go `client.Get`, i.e. `http.Client.Get` with the default redirect policy, against a
    host that answers after `redirects` redirects with `status` and `body`: a refused connection or a
    tenth redirect is an error; otherwise the validator receives the final status and the *whole*
    body the host sent (nothing is cut off, nothing is added). -/
def clientGet (refused : Bool) (redirects : Nat) (status : Int) (body : Str) : HttpResp :=
  if refused then .err else if redirects ≥ 10 then .err else .resp status (some body)

def http01Validate (cfg : Cfg) (dbOk : Bool) (ch : Ch) (r : HttpResp) : Outcome :=
  let t := Target.httpGet (http01URL cfg ch)
  match r with
  | .err => storeError dbOk ch false .connection t
  | .resp status body =>
    if status ≥ 400 then storeError dbOk ch false .connection t
    else match body with
      | none => noWrite ch t
      | some b =>
        match ch.thumb with
        | none => noWrite ch t
        | some th =>
          if goTrimSpace b ≠ keyAuth ch.token th then storeError dbOk ch true .rejectedIdentifier t
          else store dbOk ch .valid .none t

/-! ### dns-01 -/

/-- `vc.LookupTxt` result: `none` = error (any class) -/
abbrev TxtResp := Option (List Str)

/-- acme/client.go `client.LookupTxt`, i.e. `net.LookupTXT`, against a name server that answers with
    `records` (or fails): a failure, or an answer without TXT records, is an error; otherwise the
    validator receives every record *exactly as published* — no trimming, no unquoting. -/
def clientLookupTxt (fail : Bool) (records : List Str) : TxtResp :=
  if fail ∨ records = [] then none else some records

def dns01Validate (h : Hash) (cfg : Cfg) (dbOk : Bool) (ch : Ch) (r : TxtResp) : Outcome :=
  let t := Target.txt (dns01Name cfg ch)
  match r with
  | none => storeError dbOk ch false .dns t
  | some records =>
    match ch.thumb with
    | none => noWrite ch t
    | some th =>
      if records.contains (h.b64 (keyAuth ch.token th)) then store dbOk ch .valid .none t
      else storeError dbOk ch false .rejectedIdentifier t

/-! ### tls-alpn-01 -/

inductive ExtId where
  | acme          -- 1.3.6.1.5.5.7.1.31
  | acmeObsolete  -- 1.3.6.1.5.5.7.1.30.1
  | other
  deriving Repr, DecidableEq

structure Ext where
  id : ExtId
  critical : Bool
  octets : Option Str   -- asn1.Unmarshal(value, &[]byte): `some v` iff no error and no trailing bytes
  deriving Repr, DecidableEq

structure Leaf where
  dns : List Str
  ips : List Str        -- 4- or 16-byte addresses
  exts : List Ext
  deriving Repr, DecidableEq

/-- everything `vc.TLSDial` can deliver.  `alert n`: `errors.As` finds a `*net.OpError` whose
    `Err` has reflect kind uint8 and value `n`; `other`: any other error. -/
inductive DialRes where
  | alert (n : Nat)
  | other
  | conn (leaf : Option Leaf) (proto : Str)   -- `none`: no peer certificates
  deriving Repr, DecidableEq

def acmeTls1 : Str := s "acme-tls/1"

/-- the extension loop: the first extension with the acme identifier OID decides -/
def extLoop (dbOk : Bool) (ch : Ch) (digest : Str) (t : Target) : List Ext → Bool → Outcome
  | [], _ => storeError dbOk ch true .rejectedIdentifier t   -- obsolete OID seen / extension missing
  | e :: rest, obsolete =>
    match e.id with
    | .acme =>
      if !e.critical then storeError dbOk ch true .rejectedIdentifier t
      else match e.octets with
        | none => storeError dbOk ch true .rejectedIdentifier t
        | some v =>
          if digest.length ≠ v.length then storeError dbOk ch true .rejectedIdentifier t
          else if digest ≠ v then storeError dbOk ch true .rejectedIdentifier t
          else store dbOk ch .valid .none t
    | .acmeObsolete => extLoop dbOk ch digest t rest true
    | .other => extLoop dbOk ch digest t rest obsolete

/-- `strings.EqualFold(d, v)` for an ASCII `d` (a parsed dNSName is an IA5String) and arbitrary
    bytes `v`: rune by rune, ASCII letters match ignoring case, and the only non-ASCII runes whose
    simple case folding reaches an ASCII letter are U+212A KELVIN SIGN (k) and U+017F LATIN SMALL
    LETTER LONG S (s); any other non-ASCII rune, and any invalid UTF-8 byte (`RuneError`), matches
    no ASCII byte. -/
def equalFoldAscii : Str → Str → Bool
  | [], [] => true
  | c :: ds, b :: vs =>
    if b < 128 then lo c == lo b && equalFoldAscii ds vs
    else match b, vs with
      | 0xE2, 0x84 :: 0xAA :: vs' => lo c == 107 && equalFoldAscii ds vs'
      | 0xC5, 0xBF :: vs' => lo c == 115 && equalFoldAscii ds vs'
      | _, _ => false
  | _, _ => false

def leafNameOk (ch : Ch) (l : Leaf) : Bool :=
  if l.dns.length = 0 then
    match l.ips, ch.ip with
    | [a], some b => ipEqual a b
    | _, _ => false          -- `IP.Equal(nil)` is false for a 4/16-byte address
  else
    match l.dns with
    | [d] => equalFoldAscii d ch.value
    | _ => false

def tlsalpn01Validate (h : Hash) (cfg : Cfg) (dbOk : Bool) (ch : Ch) (r : DialRes) : M Outcome := do
  let sni ← serverName ch.value ch.ip
  let t := Target.tls (tlsAddr cfg ch) sni
  match r with
  | .alert n =>
    if n % 256 = 120 then pure (storeError dbOk ch true .rejectedIdentifier t)
    else pure (storeError dbOk ch false .connection t)
  | .other => pure (storeError dbOk ch false .connection t)
  | .conn none _ => pure (storeError dbOk ch true .rejectedIdentifier t)
  | .conn (some leaf) proto =>
    if proto ≠ acmeTls1 then pure (storeError dbOk ch true .rejectedIdentifier t)
    else if !leafNameOk ch leaf then pure (storeError dbOk ch true .rejectedIdentifier t)
    else match ch.thumb with
      | none => pure (noWrite ch t)
      | some th => pure (extLoop dbOk ch (h.raw (keyAuth ch.token th)) t leaf.exts false)

/-! ### device-attest-01 -/

/-- facts about `attStmt["x5c"]`, shared by the three formats -/
structure X5c where
  present : Bool     -- the entry is an array
  len : Nat
  leafOk : Bool      -- x5c[0] is a byte string and parses as a certificate
  restOk : Bool      -- every further entry is a byte string and parses
  chainOk : Bool     -- leaf.Verify(roots, intermediates, now, any EKU) succeeded, where roots are the
                     -- provisioner's attestation roots or (step/apple only) the built-in vendor root
  deriving Repr, DecidableEq

/-- result of a format function: the extracted data, a problem that is stored
    (status 400), or an internal error returned unstored -/
inductive Fmt (α : Type) where
  | data : α → Fmt α
  | bad : ErrT → Fmt α
  | ise : Fmt α
  | nilErr : Fmt α   -- `WrapError(typ, nil, …)`: a nil `*Error` inside a non-nil `error`; the caller's
                     -- `errors.As` succeeds with a nil pointer and `acmeError.Status` panics.  Since fix
                     -- b9777f2 no format function produces it (theorem `device_attest_total`).

def x5cCheck (emptyErr : ErrT) (x : X5c) : Option (Fmt Unit) :=
  if !x.present then some (.bad .badAttestationStatement)
  else if x.len = 0 then some (.bad emptyErr)
  else if !x.leafOk then some (.bad .badAttestationStatement)
  else if !x.restOk then some (.bad .badAttestationStatement)
  else if !x.chainOk then some (.bad .badAttestationStatement)
  else none

inductive KeyKind where
  | ecP256 | ecOther | rsa | ed25519 | unsupported
  deriving Repr, DecidableEq

inductive SerialExt where
  | absent
  | malformed               -- asn1.Unmarshal returned an error
  | trailing                -- asn1.Unmarshal succeeded but left trailing bytes (err == nil)
  | value (decimal : Str)   -- strconv.Itoa of the INTEGER
  deriving Repr, DecidableEq

structure StepFacts where
  x5c : X5c
  sigPresent : Bool          -- attStmt["sig"] is a byte string
  sigCborOk : Bool           -- it CBOR-decodes to a byte string
  key : KeyKind              -- type of the leaf public key
  verifies : Str → Bool      -- the decoded signature verifies over this message under the leaf key
  fpOk : Bool                -- keyutil.Fingerprint(leaf key) succeeded
  serial : SerialExt         -- first extension 1.3.6.1.4.1.41482.3.7

/-- `doStepAttestationFormat`: `some serialString` on success -/
def doStep (ch : Ch) (f : StepFacts) : Fmt Str :=
  match x5cCheck .rejectedIdentifier f.x5c with
  | some (.bad e) => .bad e
  | some _ => .ise
  | none =>
    if !f.sigPresent then .bad .badAttestationStatement
    else if !f.sigCborOk then .bad .badAttestationStatement
    else match ch.thumb with
      | none => .ise
      | some th =>
        if f.key = .ecOther then .bad .badAttestationStatement    -- NewDetailedError "unsupported elliptic curve" (fix b9777f2)
        else if f.key = .unsupported then .bad .badAttestationStatement
        else if !f.verifies (keyAuth ch.token th) then .bad .badAttestationStatement
        else if !f.fpOk then .ise
        else match f.serial with
          | .absent => .data []
          | .malformed => .bad .badAttestationStatement
          | .trailing => .bad .badAttestationStatement   -- NewError "…: trailing data" (fix b9777f2)
          | .value d => .data d

structure AppleFacts where
  x5c : X5c
  fpOk : Bool
  serial : Str    -- value of extension 1.2.840.113635.100.8.9.1 ("" when absent)
  udid : Str      -- value of extension 1.2.840.113635.100.8.9.2 ("" when absent)
  nonce : Str     -- value of extension 1.2.840.113635.100.8.11.1 ("" when absent)
  deriving Repr, DecidableEq

def doApple (f : AppleFacts) : Fmt AppleFacts :=
  match x5cCheck .badAttestationStatement f.x5c with
  | some (.bad e) => .bad e
  | some _ => .ise
  | none => if !f.fpOk then .ise else .data f

/-- `doTPMAttestationFormat`, condensed: `pre` is the first failing structural step before the
    key-authorization comparison (none of them reads the challenge), `post` after it. -/
inductive TpmPre where
  | ok
  | bad      -- ver / x5c / chain / AK certificate / SAN / pubArea / sig / certInfo / alg /
             -- certification-parameter verification / attestation-data decoding failed (status 400)
  | noRoots  -- GetAttestationRoots() not ok (internal error)
  deriving Repr, DecidableEq

structure TpmFacts where
  pre : TpmPre               -- `ok` means: ver = "2.0", x5c parses, the AK certificate verifies to the
                             -- *configured* roots and meets the AK requirements, and certInfo is signed by
                             -- the AK and names pubArea (attest.CertificationParameters.Verify)
  extraData : Str            -- tpmCertInfo.ExtraData
  postBad : Bool             -- DecodePublic / pub.Key failed (status 400)
  fpOk : Bool
  permanentIdentifiers : List Str
  deriving Repr, DecidableEq

def doTpm (h : Hash) (ch : Ch) (f : TpmFacts) : Fmt (List Str) :=
  match f.pre with
  | .bad => .bad .badAttestationStatement
  | .noRoots => .ise
  | .ok =>
    match ch.thumb with
    | none => .ise
    | some th =>
      if h.raw (keyAuth ch.token th) ≠ f.extraData then .bad .badAttestationStatement
      else if f.postBad then .bad .badAttestationStatement
      else if !f.fpOk then .ise
      else .data f.permanentIdentifiers

inductive AttFormat where
  | apple | step | tpm | other
  deriving Repr, DecidableEq

inductive FmtFacts where
  | apple (f : AppleFacts)
  | step (f : StepFacts)
  | tpm (f : TpmFacts)
  | none

/-- what the validator extracts from the request payload and its environment, in the order the
    code looks at it -/
structure DaIn where
  authzOk : Bool         -- db.GetAuthorization succeeded
  authzMissing : Bool    -- … it failed because no such authorization exists (only read when authzOk = false)
  authzOtherAccount : Bool -- the loaded authorization belongs to another account than the challenge (fix 365cae8)
  authzNotOwn : Bool     -- the loaded authorization lists challenges and this one is not among them (fix e055659)
  jsonOk : Bool          -- json.Unmarshal(payload)
  errField : Bool        -- payload.error ≠ ""
  b64Ok : Bool           -- base64url decoding of attObj
  emptyObj : Bool        -- decoded attObj is empty or "{}"
  cborWellformed : Bool
  cborOk : Bool          -- cbor.Unmarshal into the attestation object
  format : AttFormat
  enabled : Bool         -- prov.IsAttestationFormatEnabled(format)
  facts : FmtFacts
  fpNonEmpty : Bool      -- the extracted key fingerprint is not "" (always, when fpOk)
  authzDbOk : Bool       -- db.UpdateAuthorization succeeds

def daFinish (dbOk : Bool) (ch : Ch) (i : DaIn) : Outcome :=
  if i.fpNonEmpty ∧ !i.authzDbOk then noWrite ch .none
  else { store dbOk ch .valid .none .none with authzFp := i.fpNonEmpty }

def daBad (dbOk : Bool) (ch : Ch) (e : ErrT) : Outcome := storeError dbOk ch true e .none

/-- the `apple` arm of the format switch -/
def daApple (h : Hash) (dbOk : Bool) (ch : Ch) (i : DaIn) (f : AppleFacts) : M Outcome :=
  match doApple f with
  | .ise => .val (noWrite ch .none)
  | .nilErr => .crash
  | .bad e => .val (daBad dbOk ch e)
  | .data d =>
    if d.nonce ≠ h.raw ch.token then .val (daBad dbOk ch .badAttestationStatement)   -- unconditional since fix 9ce0826
    else if d.udid ≠ ch.value ∧ d.serial ≠ ch.value then .val (daBad dbOk ch .badAttestationStatement)
    else .val (daFinish dbOk ch i)

/-- the `step` arm -/
def daStep (dbOk : Bool) (ch : Ch) (i : DaIn) (f : StepFacts) : M Outcome :=
  match doStep ch f with
  | .ise => .val (noWrite ch .none)
  | .nilErr => .crash
  | .bad e => .val (daBad dbOk ch e)
  | .data serial =>
    if serial ≠ ch.value then .val (daBad dbOk ch .badAttestationStatement)
    else .val (daFinish dbOk ch i)

/-- the `tpm` arm -/
def daTpm (h : Hash) (dbOk : Bool) (ch : Ch) (i : DaIn) (f : TpmFacts) : M Outcome :=
  match doTpm h ch f with
  | .ise => .val (noWrite ch .none)
  | .nilErr => .crash
  | .bad e => .val (daBad dbOk ch e)
  | .data pids =>
    if pids.length > 0 ∧ !pids.contains ch.value then .val (daBad dbOk ch .badAttestationStatement)
    else .val (daFinish dbOk ch i)

/-- `switch format { … }` -/
def daCore (h : Hash) (dbOk : Bool) (ch : Ch) (i : DaIn) : M Outcome :=
  match i.format, i.facts with
  | .apple, .apple f => daApple h dbOk ch i f
  | .step, .step f => daStep dbOk ch i f
  | .tpm, .tpm f => daTpm h dbOk ch i f
  | _, _ => .val (daBad dbOk ch .badAttestationStatement)

def deviceAttest01Validate (h : Hash) (dbOk : Bool) (ch : Ch) (i : DaIn) : M Outcome :=
  if !i.authzOk then .val { noWrite ch .none with ret := if i.authzMissing then .notFound else .ise }
  else if i.authzOtherAccount then .val { noWrite ch .none with ret := .unauthorized }
  else if i.authzNotOwn then .val { noWrite ch .none with ret := .unauthorized }
  else if !i.jsonOk then .val (noWrite ch .none)
  else if i.errField then .val (daBad dbOk ch .rejectedIdentifier)
  else if !i.b64Ok then .val (daBad dbOk ch .badAttestationStatement)
  else if i.emptyObj then .val (daBad dbOk ch .badAttestationStatement)
  else if !i.cborWellformed then .val (daBad dbOk ch .badAttestationStatement)
  else if !i.cborOk then .val (noWrite ch .none)
  else if !i.enabled then .val (daBad dbOk ch .badAttestationStatement)
  else daCore h dbOk ch i


/-! ### wire-dpop-01 and wire-oidc-01

  `wireDPOP01Validate` / `parseAndVerifyWireAccessToken` and `wireOIDC01Validate` /
  `validateWireOIDCClaims`.  Every refusal of the token checks stores the same problem
  (invalid, rejectedIdentifier), so the checks are modelled as one conjunction over extracted
  facts: parsing and signature verification are input bits, every *comparison* is made here. -/

/-- one compact JWS as the validators look at it -/
structure Jws where
  parses : Bool          -- jose.ParseSigned
  oneHeader : Bool       -- len(Headers) == 1
  kid : Option Str       -- Headers[0].KeyID, or KeyToID(embedded JWK) when that is empty; none = derivation failed
  sigOk : Bool           -- Claims(key, …): the signature verifies under the key the validator uses
  timeOk : Bool          -- the exp / nbf / iat part of ValidateWithLeeway(now, 1 min)
  expTooFar : Bool       -- exp later than now + 1 h
  deriving Repr, DecidableEq

structure DpopFacts where
  provOk : Bool          -- provisioner with Wire options and a linker are in the context
  payloadOk : Bool       -- json.Unmarshal(payload)
  idOk : Bool            -- wire.ParseDeviceID(ch.Value) and wire.ParseClientID succeed
  targetOk : Bool        -- DPOP target template evaluates
  -- expected values, computed by the validator from its own state
  serverKid : Option Str -- KeyToID(configured wire-server key)
  accountKid : Str       -- accountJWK.KeyID (the requesting account's key id)
  issuer : Str           -- evaluated DPoP target
  audience : Str         -- linker URL of this challenge: …/challenge/<authz id>/<challenge id>
  clientId : Str         -- from the stored identifier value
  handle : Str
  name : Str
  -- the access token (signed by wire-server)
  tok : Jws              -- sigOk: under the *configured* wire-server key
  atIss : Str
  atAud : List Str
  atChal : Str
  atCnfKid : Str
  atClientId : Str
  atScope : Str
  atNonce : Str
  -- the DPoP proof inside it (signed by the client)
  pf : Jws               -- sigOk: under the *requesting account's* public key
  pfAud : List Str
  pfHtu : Str
  pfSub : Str
  pfNonce : Str
  pfChal : Str
  mapOk : Bool           -- second Claims() into a map
  mapChal : Option Str   -- claim "chal" when it is a string
  mapHandle : Option Str
  mapName : Option Str
  -- afterwards
  ordersOk : Bool        -- GetAllOrdersByAccountID succeeded and returned at least one order
  tokenStoreOk : Bool    -- CreateDpopToken

/-- `parseAndVerifyWireAccessToken` returns no error -/
def dpopTokenOk (ch : Ch) (f : DpopFacts) : Bool :=
  f.tok.parses && f.tok.oneHeader && f.serverKid.isSome && f.tok.kid.isSome && f.tok.kid == f.serverKid && f.tok.sigOk &&
  f.tok.timeOk && f.atIss == f.issuer && f.atAud.contains f.audience &&
  f.atChal != [] && f.atCnfKid != [] && f.atCnfKid == f.accountKid && f.atClientId == f.clientId &&
  !f.tok.expTooFar && f.atScope == s "wire_client_id" &&
  f.pf.parses && f.pf.oneHeader && f.pf.kid == some f.accountKid && f.pf.sigOk &&
  f.pf.timeOk && f.pfAud.contains f.audience &&
  f.pfHtu != [] && f.pfHtu == f.issuer && !f.pf.expTooFar && f.pfSub == f.clientId &&
  f.pfNonce != [] && f.pfNonce == f.atNonce && f.pfChal != [] && f.pfChal == f.atChal &&
  f.mapOk && f.mapChal.isSome && f.mapChal != some [] && f.mapChal == some ch.token &&
  f.mapHandle.isSome && f.mapHandle != some [] && f.mapHandle == some f.handle &&
  f.mapName.isSome && f.mapName != some [] && f.mapName == some f.name

/-- both Wire validators end alike: the challenge is stored valid *before* the account's orders are
    looked up and the token is kept; a failure there returns an internal error -/
def wireFinish (dbOk : Bool) (ch : Ch) (afterOk : Bool) : Outcome :=
  let o := store dbOk ch .valid .none .none
  if o.ret = .ok ∧ !afterOk then { o with ret := .ise } else o

def wireDpop01Validate (dbOk : Bool) (ch : Ch) (f : DpopFacts) : Outcome :=
  if !f.provOk then noWrite ch .none
  else if !f.payloadOk then { noWrite ch .none with ret := .notFound }
  else if !f.idOk then noWrite ch .none
  else if !f.targetOk then noWrite ch .none
  else if !dpopTokenOk ch f then storeError dbOk ch true .rejectedIdentifier .none
  else wireFinish dbOk ch (f.ordersOk && f.tokenStoreOk)

structure OidcFacts where
  provOk : Bool
  payloadOk : Bool
  idOk : Bool            -- wire.ParseUserID(ch.Value)
  verifierOk : Bool      -- an OIDC verifier is available
  verifyOk : Bool        -- verifier.Verify: signature under the IdP's keys, issuer, client id, expiry
  claimsOk : Bool        -- idToken.Claims into the struct
  keyauth : Str          -- claim "keyauth"
  acmeAud : Str          -- claim "acme_aud"
  audience : Str         -- linker URL of this challenge
  transformOk : Bool     -- claims into a map and the transformation template
  tName : Option Str     -- transformed["name"] when present and a string ([] for a non-string is not produced: none)
  tHandle : Option Str   -- transformed["preferred_username"]
  name : Str             -- from the stored identifier value
  handle : Str
  ordersOk : Bool
  tokenStoreOk : Bool

/-- the checks before the key authorization is computed -/
def oidcPre (f : OidcFacts) : Bool := f.verifyOk && f.claimsOk

/-- the comparisons: `keyauth` claim, `acme_aud` claim, transformed name and handle -/
def oidcPost (ch : Ch) (th : Str) (f : OidcFacts) : Bool :=
  keyAuth ch.token th == f.keyauth && f.acmeAud == f.audience && f.transformOk &&
  f.tName == some f.name && f.tHandle == some f.handle

def wireOidc01Validate (dbOk : Bool) (ch : Ch) (f : OidcFacts) : Outcome :=
  if !f.provOk then noWrite ch .none
  else if !f.payloadOk then { noWrite ch .none with ret := .notFound }
  else if !f.idOk then noWrite ch .none
  else if !f.verifierOk then noWrite ch .none
  else if !oidcPre f then storeError dbOk ch true .rejectedIdentifier .none
  else match ch.thumb with
    | none => noWrite ch .none
    | some th =>
      if !oidcPost ch th f then storeError dbOk ch true .rejectedIdentifier .none
      else wireFinish dbOk ch (f.ordersOk && f.tokenStoreOk)

/-! ### Challenge.Validate -/

/-- the response of the outside world to the one request a validator makes -/
inductive World where
  | http (r : HttpResp)
  | txt (r : TxtResp)
  | tls (r : DialRes)
  | attest (i : DaIn)
  | dpop (f : DpopFacts)
  | oidc (f : OidcFacts)
  | nothing

inductive VOut where
  | done (o : Outcome)
  | crash
  | unmodelled        -- (no longer produced: every dispatched type is modelled)
  | mismatch          -- driver only: the world value does not fit the challenge type

def validate (h : Hash) (cfg : Cfg) (dbOk : Bool) (ch : Ch) (w : World) : VOut :=
  if ch.status ≠ .pending then .done ⟨ch.status, ch.err, .ok, .none, false⟩
  else match ch.typ, w with
    | .http01, .http r => .done (http01Validate cfg dbOk ch r)
    | .dns01, .txt r => .done (dns01Validate h cfg dbOk ch r)
    | .tlsalpn01, .tls r =>
      match tlsalpn01Validate h cfg dbOk ch r with
      | .val o => .done o
      | .crash => .crash
    | .deviceAttest01, .attest i =>
      match deviceAttest01Validate h dbOk ch i with
      | .val o => .done o
      | .crash => .crash
    | .wireOidc01, .oidc f => .done (wireOidc01Validate dbOk ch f)
    | .wireDpop01, .dpop f => .done (wireDpop01Validate dbOk ch f)
    | .unknown, _ => .done (noWrite ch .none)
    | _, _ => .mismatch

/-- `Authorization.UpdateStatus` on a pending, unexpired authorization that owns exactly this
    challenge: it turns valid iff the stored challenge is valid (C10 proves the general form). -/
def authzAfter (o : Outcome) : Status := if o.status = .valid then .valid else .pending

/-- the stored authorization record as far as status decisions read it -/
structure AzRec where
  status : Status
  expired : Bool      -- now.After(ExpiresAt)
  deriving Repr, DecidableEq

/-- what `deviceAttest01Validate` leaves in the authorization record: it loads the record,
    sets `Fingerprint` and writes it back — status and expiry are written back as loaded
    (when nothing is written they are untouched anyway). -/
def daAuthzRecord (before : AzRec) (_ : Outcome) : AzRec := before

/-- "one of the authorization's challenges is valid": `deviceAttest01Validate` loads the authorization
    whose id came with the request (`ch.AuthorizationID`, set by the handler from the URL). When that
    is another identifier's authorization (`foreign`), this challenge is not among its challenges and
    its own ones are untouched (here: pending). -/
def ownChallengeValid (foreign : Bool) (o : Outcome) : Bool := !foreign && decide (o.status = .valid)

/-- `Authorization.UpdateStatus` — the only writer of an authorization's status: terminal states
    stay, an expired pending authorization turns invalid, a pending one turns valid iff one of its
    challenges is valid. -/
def authzUpdateStatus (az : AzRec) (challengeValid : Bool) : Status :=
  match az.status with
  | .invalid => .invalid
  | .valid => .valid
  | .pending => if az.expired then .invalid else if challengeValid then .valid else .pending
  | .other => .other


/-! ### the request handler `api.GetChallenge` (acme/api/handler.go) and the authorization poll -/

/-- which authorization the `{authzID}` URL parameter names, relative to the challenge `{chID}` names
    (the store looks the challenge up by `chID` alone) -/
inductive AzUrl where
  | own        -- the authorization that lists this challenge
  | foreign    -- some other existing authorization of the same account (its own challenges are not this one)
  | foreignOther -- an existing authorization of another account
  | missing    -- no such authorization
  deriving Repr, DecidableEq

structure HReq where
  authed : Bool        -- the middleware in front (extractPayloadByKid) let the request through: signed by
                       -- an existing, active account of this provisioner referenced by `kid`, with *its* key
  chExists : Bool      -- db.GetChallenge(chID) finds a challenge
  owner : Bool         -- acc.ID == ch.AccountID for the account that signed the request
  azUrl : AzUrl
  deriving Repr, DecidableEq

inductive HCode where
  | ok            -- 200, challenge object in the body
  | unauthorized  -- 401
  | notFound      -- the store's "challenge not found" problem (400 malformed)
  | ise           -- 500
  deriving Repr, DecidableEq

structure HOut where
  code : HCode
  effect : Outcome     -- stored challenge afterwards, request made, fingerprint written (into the URL's authorization)
  deriving Repr, DecidableEq

/-- nothing happened: stored challenge untouched, no request made -/
def untouched (ch : Ch) : Outcome := ⟨ch.status, ch.err, .ok, .none, false⟩

/-- the world as `deviceAttest01Validate` sees it when the authorization id comes from the URL:
    `db.GetAuthorization` succeeds iff the URL names an existing authorization -/
def worldVia (azUrl : AzUrl) : World → World
  | .attest i =>
    match azUrl with
    | .missing => .attest { i with authzOk := false, authzMissing := true }
    | .foreignOther => .attest { i with authzOtherAccount := true }
    | .foreign => .attest { i with authzNotOwn := true }     -- another authorization of the same account: it has challenges of its own
    | .own => .attest i
  | w => w

/-- `api.GetChallenge`: the account must own the challenge; the JWK handed to `Validate` is the
    requesting account's key (`ch.thumb` is its thumbprint); `ch.AuthorizationID` := URL parameter. -/
def getChallenge (h : Hash) (cfg : Cfg) (dbOk : Bool) (ch : Ch) (w : World) (req : HReq) : M HOut :=
  if !req.authed then .val ⟨.notFound, untouched ch⟩   -- refused by the middleware (a 4xx problem); the handler does not run
  else if !req.chExists then .val ⟨.notFound, untouched ch⟩
  else if !req.owner then .val ⟨.unauthorized, untouched ch⟩
  else match validate h cfg dbOk ch (worldVia req.azUrl w) with
    | .done o => .val ⟨match o.ret with | .ok => .ok | .ise => .ise | .notFound => .notFound | .unauthorized => .unauthorized, o⟩
    | .crash => .crash
    | .unmodelled => .val ⟨.ise, untouched ch⟩      -- not modelled (wire): never produced by the harness
    | .mismatch => .val ⟨.ise, untouched ch⟩

/-- `Authorization.UpdateStatus` over the whole challenge list of the authorization: only a *valid*
    challenge makes it valid — any number of invalid or pending ones leaves it as it is -/
def authzUpdateStatusL (az : AzRec) (challenges : List Status) : Status :=
  authzUpdateStatus az (challenges.any (· == .valid))

/-- status of the authorization that owns the challenge after `api.GetAuthorization` (which runs
    `UpdateStatus`), and of the authorization named by the URL when it is another one -/
def pollOwn (own : AzRec) (e : Outcome) : Status := authzUpdateStatus own (decide (e.status = .valid))
def pollForeign (foreign : AzRec) : Status := authzUpdateStatus foreign false

/-! ### challenge types offered for an identifier (acme/api/order.go) -/

inductive IdType where
  | ip | dns | permanentIdentifier | wireUser | wireDevice | other
  deriving Repr, DecidableEq

/-- `trimIfWildcard` -/
def trimIfWildcard (value : Str) : Str × Bool :=
  if (s "*.").isPrefixOf value then (trimPrefix (s "*.") value, true) else (value, false)

/-- `challengeTypes` -/
def challengeTypes (t : IdType) (wildcard : Bool) : List ChType :=
  match t with
  | .ip => [.http01, .tlsalpn01]
  | .dns => if !wildcard then [.dns01, .http01, .tlsalpn01] else [.dns01]
  | .permanentIdentifier => [.deviceAttest01]
  | .wireUser => [.wireOidc01]
  | .wireDevice => [.wireDpop01]
  | .other => []

/-- `newAuthorization`: stored identifier value, wildcard flag and the challenge types created
    (before the provisioner's `IsChallengeEnabled` filter, which only removes entries) -/
def newAuthorization (t : IdType) (raw : Str) : Str × Bool × List ChType :=
  -- since fix 77ebdfa only DNS identifiers have a wildcard form; every other type keeps its value as given
  let (v, w) := if t = .dns then trimIfWildcard raw else (raw, false)
  (v, w, challengeTypes t w)


/-! ### provisioner configuration glue (authority/provisioner/acme.go, authority/provisioners.go)

  Which challenge types and attestation formats a provisioner offers: `ACME.IsChallengeEnabled`,
  `ACME.IsAttestationFormatEnabled`, the filter in `api.newAuthorization`, and the conversion the
  configuration goes through when it is migrated into / served from the admin database
  (`ProvisionerToLinkedca` ∘ `ProvisionerToCertificates`: `challengesToLinkedca`,
  `challengesToCertificates`, `attestationFormatsTo…`, `provisionerPEMTo…`). -/

/-- canonical (lower-case) name of a challenge type -/
def ChType.name : ChType → Str
  | .http01 => s "http-01" | .dns01 => s "dns-01" | .tlsalpn01 => s "tls-alpn-01"
  | .deviceAttest01 => s "device-attest-01" | .wireOidc01 => s "wire-oidc-01" | .wireDpop01 => s "wire-dpop-01"
  | .unknown => s "unknown"

structure ProvCfg where
  challenges : List Str    -- `challenges` as configured (any letter case; `Init` accepts the six names)
  formats : List Str       -- `attestationFormats` as configured
  roots : Nat              -- number of certificates in `attestationRoots`
  deriving Repr, DecidableEq

/-- the linkedca enumeration has exactly these challenge types / attestation formats -/
def linkedcaChallenges : List Str := [s "http-01", s "dns-01", s "tls-alpn-01", s "device-attest-01"]
def linkedcaFormats : List Str := [s "apple", s "step", s "tpm"]

/-- configuration → admin database → configuration: names are lower-cased (`String()`), names the
    linkedca enumeration does not have are *skipped*, PEM blocks are kept -/
def migrate (p : ProvCfg) : ProvCfg :=
  { challenges := (p.challenges.map lower).filter (linkedcaChallenges.contains ·),
    formats := (p.formats.map lower).filter (linkedcaFormats.contains ·),
    roots := p.roots }

/-- `ACME.IsChallengeEnabled`: an empty list means http-01, dns-01, tls-alpn-01 -/
def isChallengeEnabled (p : ProvCfg) (c : ChType) : Bool :=
  let l := if p.challenges = [] then [s "http-01", s "dns-01", s "tls-alpn-01"] else p.challenges
  l.any (fun n => foldEq n c.name)

/-- `ACME.IsAttestationFormatEnabled`: an empty list means apple, step, tpm -/
def isFormatEnabled (p : ProvCfg) (f : Str) : Bool :=
  let l := if p.formats = [] then linkedcaFormats else p.formats
  l.any (fun n => foldEq n f)

/-- `api.newAuthorization` with the provisioner's filter: the challenges actually created -/
def offered (p : ProvCfg) (t : IdType) (raw : Str) : Str × Bool × List ChType :=
  let (v, w, tys) := newAuthorization t raw
  (v, w, tys.filter (isChallengeEnabled p))

/-! ### facts about the source text, re-derived with go/ast on every run (stage `src`)

  The harness `harness/cmd/c11_src` parses `$VERIF_REPO/acme` and `$VERIF_REPO/acme/api` and prints
  these facts; the driver prints the tables below (op=src); `./check` compares them literally.  The
  `src_*` theorems say what the tables mean for the model. -/
namespace Src

/-- every assignment `<x>.Status = <v>` in package acme with `v` one of the object statuses
    valid / invalid / ready / pending / processing: (function, variable, value) -/
def statusWriters : List (String × String × String) :=
  [("Authorization.UpdateStatus", "az", "StatusInvalid"), ("Authorization.UpdateStatus", "az", "StatusValid"),
   ("Order.Finalize", "o", "StatusValid"), ("Order.UpdateStatus", "o", "StatusInvalid"), ("Order.UpdateStatus", "o", "StatusReady"),
   ("deviceAttest01Validate", "ch", "StatusValid"), ("dns01Validate", "ch", "StatusValid"), ("http01Validate", "ch", "StatusValid"),
   ("storeError", "ch", "StatusInvalid"), ("tlsalpn01Validate", "ch", "StatusValid"),
   ("wireDPOP01Validate", "ch", "StatusValid"), ("wireOIDC01Validate", "ch", "StatusValid")]

/-- `.Status` assignments in package acme/api -/
def apiStatusWriters : List (String × String × String) := []

/-- functions of package acme calling `db.UpdateAuthorization` / `db.UpdateChallenge` -/
def authzUpdaters : List String := ["Authorization.UpdateStatus", "deviceAttest01Validate"]
def apiAuthzUpdaters : List String := []
def challUpdaters : List String :=
  ["deviceAttest01Validate", "dns01Validate", "http01Validate", "storeError", "tlsalpn01Validate",
   "wireDPOP01Validate", "wireOIDC01Validate"]

/-- `Challenge.Validate`: the statement before the switch, and case constant ↦ function returned -/
def dispatchGuard : String := "pending-only"
def dispatch : List (String × String) :=
  [("HTTP01", "http01Validate"), ("DNS01", "dns01Validate"), ("TLSALPN01", "tlsalpn01Validate"),
   ("DEVICEATTEST01", "deviceAttest01Validate"), ("WIREOIDC01", "wireOIDC01Validate"),
   ("WIREDPOP01", "wireDPOP01Validate"), ("default", "NewErrorISE")]

/-- `api.challengeTypes`: identifier type ↦ (base list, optional guarded append) -/
def types : List (String × List String × Option (String × List String)) :=
  [("acme.IP", ["acme.HTTP01", "acme.TLSALPN01"], none),
   ("acme.DNS", ["acme.DNS01"], some ("!az.Wildcard", ["acme.HTTP01", "acme.TLSALPN01"])),
   ("acme.PermanentIdentifier", ["acme.DEVICEATTEST01"], none),
   ("acme.WireUser", ["acme.WIREOIDC01"], none),
   ("acme.WireDevice", ["acme.WIREDPOP01"], none),
   ("default", [], none)]

/-- `api.GetChallenge`: top-level order and data flow -/
def handlerOrder : String :=
  "ownership-then-validate;validate(ctx+db+jwk+payload.value);jwk=jwkFromContext();jwk-assignments=1;ch=db.GetChallenge;ch.AuthorizationID=azID;azID=chi.URLParam:authzID"

/-- acme/client.go: the validation client used when the context carries none (ca.go installs
    `acme.NewClient()`): a plain `http.Client` (30 s, environment proxy, no redirect policy of its
    own, certificate verification off for https redirects), `net.LookupTXT`, `tls.DialWithDialer` -/
def clientShape : String :=
  "NewClient:http{,Timeout=30*time.Second,Transport{,Proxy=http.ProxyFromEnvironment,TLSClientConfig{,InsecureSkipVerify=true,dialer{,Timeout=30*time.Second;client.Get=c.http.Get(url);client.LookupTxt=net.LookupTXT(name);client.TLSDial=tls.DialWithDialer(c.dialer,network,addr,config);MustClientFromContext=NewClient()|c"

/-- the route of the challenge URL and of the authorization URL, with the middleware compositions -/
def routeMiddleware : String :=
  ";extractPayloadByKid=validatingMiddleware(lookupJWK(verifyAndExtractJWSPayload(next)));extractPayloadByJWK=validatingMiddleware(extractJWK(verifyAndExtractJWSPayload(next)));extractPayloadByKidOrJWK=validatingMiddleware(extractOrLookupJWK(verifyAndExtractJWSPayload(next)));validatingMiddleware=commonMiddleware(addNonce(addDirLink(verifyContentType(parseJWS(validateJWS(next))))))"
def routeChallenge : String :=
  "POST getPath(acme.ChallengeLinkType,\"{provisionerID}\",\"{authzID}\",\"{chID}\") extractPayloadByKid(GetChallenge)" ++ routeMiddleware
def routeAuthz : String :=
  "POST getPath(acme.AuthzLinkType,\"{provisionerID}\",\"{authzID}\") extractPayloadByKid(isPostAsGet(GetAuthorization))" ++ routeMiddleware

/-- string constants: provisioner.ACMEChallenge, provisioner.ACMEAttestationFormat, acme.ChallengeType -/
def constProvChallenges : List (String × String) :=
  [("HTTP_01", "http-01"), ("DNS_01", "dns-01"), ("TLS_ALPN_01", "tls-alpn-01"), ("DEVICE_ATTEST_01", "device-attest-01"),
   ("WIREOIDC_01", "wire-oidc-01"), ("WIREDPOP_01", "wire-dpop-01")]
def constProvFormats : List (String × String) := [("APPLE", "apple"), ("STEP", "step"), ("TPM", "tpm")]
def constAcmeChallenges : List (String × String) :=
  [("HTTP01", "http-01"), ("DNS01", "dns-01"), ("TLSALPN01", "tls-alpn-01"), ("DEVICEATTEST01", "device-attest-01"),
   ("WIREOIDC01", "wire-oidc-01"), ("WIREDPOP01", "wire-dpop-01")]

/-- the conversion switches of authority/provisioners.go: (what is switched on, case ↦ appended value) -/
def convChallengesToLinkedca : String × List (String × String) :=
  ("provisioner.ACMEChallenge(ch.String())",
   [("provisioner.HTTP_01", "linkedca.ACMEProvisioner_HTTP_01"), ("provisioner.DNS_01", "linkedca.ACMEProvisioner_DNS_01"),
    ("provisioner.TLS_ALPN_01", "linkedca.ACMEProvisioner_TLS_ALPN_01"),
    ("provisioner.DEVICE_ATTEST_01", "linkedca.ACMEProvisioner_DEVICE_ATTEST_01")])
def convChallengesToCertificates : String × List (String × String) :=
  ("ch",
   [("linkedca.ACMEProvisioner_HTTP_01", "provisioner.HTTP_01"), ("linkedca.ACMEProvisioner_DNS_01", "provisioner.DNS_01"),
    ("linkedca.ACMEProvisioner_TLS_ALPN_01", "provisioner.TLS_ALPN_01"),
    ("linkedca.ACMEProvisioner_DEVICE_ATTEST_01", "provisioner.DEVICE_ATTEST_01")])
def convFormatsToLinkedca : String × List (String × String) :=
  ("provisioner.ACMEAttestationFormat(f.String())",
   [("provisioner.APPLE", "linkedca.ACMEProvisioner_APPLE"), ("provisioner.STEP", "linkedca.ACMEProvisioner_STEP"),
    ("provisioner.TPM", "linkedca.ACMEProvisioner_TPM")])
def convFormatsToCertificates : String × List (String × String) :=
  ("f",
   [("linkedca.ACMEProvisioner_APPLE", "provisioner.APPLE"), ("linkedca.ACMEProvisioner_STEP", "provisioner.STEP"),
    ("linkedca.ACMEProvisioner_TPM", "provisioner.TPM")])

/-- `IsChallengeEnabled` / `IsAttestationFormatEnabled`: default list, when it is overridden, how names are compared -/
def enabledChallenges : List String × String × String :=
  (["HTTP_01", "DNS_01", "TLS_ALPN_01"], "len(p.Challenges)>0", "strings.EqualFold(string(ch),string(challenge))")
def enabledFormats : List String × String × String :=
  (["APPLE", "STEP", "TPM"], "len(p.AttestationFormats)>0", "strings.EqualFold(string(f),string(format))")

end Src

/-- names: the Go constant of a challenge type, the validator `validate` models for it -/
def ChType.goConst : ChType → String
  | .http01 => "HTTP01" | .dns01 => "DNS01" | .tlsalpn01 => "TLSALPN01" | .deviceAttest01 => "DEVICEATTEST01"
  | .wireOidc01 => "WIREOIDC01" | .wireDpop01 => "WIREDPOP01" | .unknown => "default"

def ChType.goValidator : ChType → String
  | .http01 => "http01Validate" | .dns01 => "dns01Validate" | .tlsalpn01 => "tlsalpn01Validate"
  | .deviceAttest01 => "deviceAttest01Validate" | .wireOidc01 => "wireOIDC01Validate"
  | .wireDpop01 => "wireDPOP01Validate" | .unknown => "NewErrorISE"

def IdType.goConst : IdType → String
  | .ip => "acme.IP" | .dns => "acme.DNS" | .permanentIdentifier => "acme.PermanentIdentifier"
  | .wireUser => "acme.WireUser" | .wireDevice => "acme.WireDevice" | .other => "default"

/-- `challengeTypes` read off the source table -/
def Src.typesFor (t : String) (wildcard : Bool) : List String :=
  match Src.types.find? (·.1 = t) with
  | some (_, base, some (_, extra)) => if !wildcard then base ++ extra else base
  | some (_, base, none) => base
  | none => []

end Verif.AcmeChallenge
