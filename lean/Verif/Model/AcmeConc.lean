import Verif.Model.Common
/-
  Interleaving model of the requests that write ONE stored ACME order (for C10, observation about
  concurrency; C10's own quantifier is over sequential histories, see AcmeSM.lean).

  Atomic steps are the database calls of the code as written:
    api.FinalizeOrder / (*Order).Finalize      load (DB.GetOrder; UpdateStatus does nothing for a
                                               ready, unexpired order) · CreateCertificate (after
                                               signing) · DB.UpdateOrder
    api.GetOrder after the expiry (`poll`)      load · DB.UpdateOrder(status invalid)
    DB.UpdateOrder (acme/db/nosql/order.go)     `old := getDBOrder(id)` · `CmpAndSwap(old -> nu)` with
                                               nu = old + {Status, Error, CertificateID of the caller's object}
  `Mode.reread`   is that code: the compare-and-swap is taken against the record re-read a moment
                  ago, not against the record the request loaded.
  `Mode.original` is UpdateOrder with a real compare-and-swap against the caller's loaded record.
  `Mode.claim`    is the proposed repair: a finalization first swaps ready -> processing against its
                  loaded record and only the winner signs.
  A schedule is a list of thread numbers; theorems quantify over all schedules.
-/
namespace Verif.AcmeConc
open Verif

inductive CStatus where
  | ready | processing | valid | invalid
  deriving Repr, DecidableEq

/-- the stored order record, as far as UpdateOrder rewrites it -/
structure Rec where
  status : CStatus
  cert : Option Nat
  deriving Repr, DecidableEq

def initRec : Rec := ⟨.ready, none⟩

inductive Mode where
  | reread | original | claim
  deriving Repr, DecidableEq

inductive Kind where
  | fin | poll
  deriving Repr, DecidableEq

/-- a request in flight: program counter (9 = finished), the record it loaded, the record
    UpdateOrder re-read -/
structure Th where
  kind : Kind
  pc : Nat := 0
  loaded : Rec := initRec
  old : Rec := initRec
  /-- id of the certificate this finalization stored -/
  mine : Nat := 0
  deriving Repr, DecidableEq

/-- the shared part: the record, the certificate table (count), ghost counter of successful
    order writes -/
structure G where
  cur : Rec := initRec
  certs : Nat := 0
  writes : Nat := 0
  deriving Repr, DecidableEq

/-- compare-and-swap of the order record -/
def cas (g : G) (old nu : Rec) : G × Bool :=
  if g.cur = old then ({ g with cur := nu, writes := g.writes + 1 }, true) else (g, false)

/-- one database call of one request -/
def thStep (m : Mode) (g : G) (t : Th) : G × Th :=
  match t.kind, t.pc with
  | _, 0 =>                                   -- DB.GetOrder; continue only from ready
    (g, { t with loaded := g.cur, pc := if g.cur.status = .ready then 1 else 9 })
  | .fin, 1 =>
    match m with
    | .claim =>                               -- ready -> processing against the loaded record
      match cas g t.loaded ⟨.processing, t.loaded.cert⟩ with
      | (g', true) => (g', { t with pc := 2 })
      | (g', false) => (g', { t with pc := 9 })
    | _ => ({ g with certs := g.certs + 1 }, { t with pc := 2, mine := g.certs + 1 })   -- CreateCertificate
  | .fin, 2 =>
    match m with
    | .claim => ({ g with certs := g.certs + 1 }, { t with pc := 3, mine := g.certs + 1 })   -- CreateCertificate
    | .reread => (g, { t with old := g.cur, pc := 3 })                  -- getDBOrder
    | .original => ((cas g t.loaded ⟨.valid, some t.mine⟩).1, { t with pc := 9 })
  | .fin, 3 =>
    match m with
    | .claim => ((cas g ⟨.processing, t.loaded.cert⟩ ⟨.valid, some t.mine⟩).1, { t with pc := 9 })
    | .reread => ((cas g t.old ⟨.valid, some t.mine⟩).1, { t with pc := 9 })
    | .original => (g, { t with pc := 9 })
  | .poll, 1 =>
    match m with
    | .reread => (g, { t with old := g.cur, pc := 2 })                  -- getDBOrder
    | _ => ((cas g t.loaded ⟨.invalid, t.loaded.cert⟩).1, { t with pc := 9 })
  | .poll, 2 =>
    match m with
    | .reread => ((cas g t.old ⟨.invalid, t.loaded.cert⟩).1, { t with pc := 9 })
    | _ => (g, { t with pc := 9 })
  | _, _ => (g, { t with pc := 9 })

structure W where
  g : G := {}
  ths : List Th
  deriving Repr, DecidableEq

def wstep (m : Mode) (w : W) (i : Nat) : W :=
  match w.ths[i]? with
  | none => w
  | some t =>
    match thStep m w.g t with
    | (g', t') => { g := g', ths := w.ths.set i t' }

def exec (m : Mode) (w : W) (sched : List Nat) : W := sched.foldl (wstep m) w

/-- the record as observed after each step of a schedule -/
def trace (m : Mode) (w : W) : List Nat → List CStatus
  | [] => []
  | i :: is => (wstep m w i).g.cur.status :: trace m (wstep m w i) is

/-! ### simultaneous responses to ONE stored challenge

  api.GetChallenge: `db.GetChallenge` (load) · return unless pending · validation (no database call)
  · `DB.UpdateChallenge` = `old := getDBChallenge(id)` · `CmpAndSwap(old -> nu)` with
  nu = old + {Status, Error, ValidatedAt of the caller's object}. The caller's object is the record
  it loaded with the validator's verdict applied: success -> valid, error cleared;
  storeError(markInvalid = false) -> status as loaded (pending), error recorded;
  storeError(markInvalid = true) -> invalid, error recorded. -/

inductive ChSt where
  | pending | valid | invalid
  deriving Repr, DecidableEq

/-- the stored challenge record as far as UpdateChallenge rewrites it -/
structure ChRec where
  status : ChSt := .pending
  err : Bool := false
  deriving Repr, DecidableEq

inductive Verdict where
  | ok | retry | reject
  deriving Repr, DecidableEq

structure ChTh where
  verdict : Verdict
  pc : Nat := 0
  loaded : ChRec := {}
  old : ChRec := {}
  deriving Repr, DecidableEq

/-- what the request wants stored -/
def ChTh.target (t : ChTh) : ChRec :=
  match t.verdict with
  | .ok => { status := .valid, err := false }
  | .retry => { status := t.loaded.status, err := true }
  | .reject => { status := .invalid, err := true }

/-- one database call of one response -/
def chStep (cur : ChRec) (t : ChTh) : ChRec × ChTh :=
  match t.pc with
  | 0 => (cur, { t with loaded := cur, pc := if cur.status = .pending then 1 else 9 })   -- db.GetChallenge
  | 1 => (cur, { t with old := cur, pc := 2 })                                            -- getDBChallenge
  | 2 => (if cur = t.old then t.target else cur, { t with pc := 9 })                      -- CmpAndSwap
  | _ => (cur, { t with pc := 9 })

structure ChW where
  cur : ChRec := {}
  ths : List ChTh
  deriving Repr, DecidableEq

def chWstep (w : ChW) (i : Nat) : ChW :=
  match w.ths[i]? with
  | none => w
  | some t =>
    match chStep w.cur t with
    | (c', t') => { cur := c', ths := w.ths.set i t' }

def chExec (w : ChW) (sched : List Nat) : ChW := sched.foldl chWstep w

def chTrace (w : ChW) : List Nat → List ChSt
  | [] => []
  | i :: is => (chWstep w i).cur.status :: chTrace (chWstep w i) is

end Verif.AcmeConc
