import Verif.Model.Common
/-
  Model of the X.509 token signing flow of /repo, as far as names, key and the provisioner
  extension are concerned (property C03).

  Modelled Go code (read line by line):
    * authority/provisioner/jwk.go  `(*JWK).AuthorizeSign`          -> `authorize` (.jwk)
    * authority/provisioner/x5c.go  `(*X5C).AuthorizeSign`          -> `authorize` (.x5c)
    * authority/provisioner/oidc.go `(*OIDC).AuthorizeSign`         -> `authorize` (.oidc admin)
    * authority/provisioner/sign_options.go
        `commonNameValidator.Valid`, `commonNameSliceValidator.Valid`   -> `cnValid`
        `dnsNamesValidator`, `ipAddressesValidator`, `emailAddressesValidator`,
        `urisValidator` (`reflect.DeepEqual` of two `map[string]bool`)  -> `kindValid` / `setEq`
        `defaultSANsValidator.Valid`                                    -> `sansValid`
        `csrFingerprintValidator.Valid`                                 -> `fpValid`
        `provisionerExtensionOption.Modify`                             -> `modifyExt`
    * authority/provisioner/options.go `CustomTemplateOptions` (the closure: user data is attached
      only when `opts.HasTemplate()`)                                   -> `templateUser`
    * go.step.sm/crypto/x509util `CreateSANs`                            -> `createSANs`
      `DefaultLeafTemplate` + `Certificate.GetCertificate` (`SubjectAlternativeName.Set` appends
      each name to the list of its type)                                -> `applyLeaf`
      `DefaultAdminLeafTemplate`                                        -> `applyAdmin`
    * authority/tls.go `signX509`: CSR signature, request validators in option order, template,
      modifiers, (certificate validators and enforcers do not touch names: validity is C06,
      policy is C04), CAS signing                                       -> `sign`

  External calls are input fields computed by the harness with the same libraries:
    * `x509util.SplitSANs` classification of every token name and of the subject (`San.kind`),
      `net.IP.String()` / `url.URL.String()` canonical text (`San.canon`)
    * the CSR as parsed by crypto/x509 (names as `ip.String()`, `u.String()`), `CheckSignature`,
      `defaultPublicKeyValidator` verdict, SHA-256 fingerprint comparison
    * `x509.CreateCertificate` + `x509.ParseCertificate` accept the names (`encTok` / `encCsr`)
    * Go's certificate parser refuses a certificate with two extensions of the same OID
      (`hasDupOid`; validated end to end, see notes/C03.md)

  The custom template (`Cfg.hasTemplate`) stands for the one template the harness configures:
  the default leaf template plus `"extensions": {{ toJson .Insecure.User.extensions }}`.
-/
namespace Verif.SignNames
open Verif

inductive Kind where
  | dns | ip | email | uri
  deriving Repr, DecidableEq

/-- one name of the token after `SplitSANs`: the string as written in the token, its class and
    its canonical text (`ip.String()`, `u.String()`; the string itself for DNS and e-mail) -/
structure San where
  kind : Kind
  raw : Str
  canon : Str
  deriving Repr, DecidableEq

/-- a `(type, value)` pair as it appears in the template data and in the certificate -/
structure Name where
  kind : Kind
  val : Str
  deriving Repr, DecidableEq

def San.name (x : San) : Name := ⟨x.kind, x.canon⟩

def ofKind (k : Kind) (l : List San) : List Str := (l.filter (·.kind = k)).map (·.canon)

/-- `x509util.CreateSANs`: grouped dns, ip, email, uri; token order inside a group -/
def createSANs (l : List San) : List Name :=
  (ofKind .dns l).map (Name.mk .dns) ++ (ofKind .ip l).map (Name.mk .ip) ++
  (ofKind .email l).map (Name.mk .email) ++ (ofKind .uri l).map (Name.mk .uri)

/-- an X.509 extension: `oid = 0` is the provisioner OID 1.3.6.1.4.1.37476.9000.64.1, any other
    number another OID; `val` the DER value -/
structure Ext where
  oid : Nat
  val : Str
  deriving Repr, DecidableEq

def Ext.isProv (e : Ext) : Bool := e.oid == 0

/-- the confirmation claim `cnf.x5rt#S256` -/
inductive Cnf where
  | absent              -- no claim or empty string
  | undecodable         -- not base64url
  | present (eq : Bool)  -- decoded; equals SHA-256 of the CSR or not
  deriving Repr, DecidableEq

structure CSR where
  sigOK : Bool
  cn : Str
  dns : List Str
  ips : List Str
  emails : List Str
  uris : List Str
  key : Nat
  keyOK : Bool
  exts : List Ext
  deriving Repr, DecidableEq

/-- verified claims of a JWK / X5C token; for OIDC `sans` is unused and `email` / `issUri` hold
    the classified `email` claim (absent when empty) and `iss#sub` (absent when `iss` is not a
    URL with a scheme) -/
structure Token where
  sub : San
  sans : List San
  cnf : Cnf
  email : Option San
  issUri : Option San
  deriving Repr, DecidableEq

inductive Prov where
  | jwk | x5c
  | oidc (admin : Bool)
  deriving Repr, DecidableEq

structure Cfg where
  prov : Prov
  hasTemplate : Bool     -- provisioner options carry a template
  extDisabled : Bool     -- claim disableSmallstepExtensions
  gen : Ext              -- the genuine provisioner extension (type, name, credential id)
  deriving Repr, DecidableEq

/-- user supplied `templateData`: the `extensions` member as the custom template would render
    it, and everything else as an opaque value -/
structure UserData where
  exts : List Ext
  other : Nat
  deriving Repr, DecidableEq

structure Data where
  cn : Str
  sans : List Name
  user : Option UserData
  deriving Repr, DecidableEq

inductive Tpl where
  | leaf | admin | custom
  deriving Repr, DecidableEq

inductive CnRule where
  | none                 -- OIDC: no common-name validator
  | exactly (s : Str)    -- commonNameValidator
  | oneOf (l : List Str) -- commonNameSliceValidator
  deriving Repr, DecidableEq

/-- what `AuthorizeSign` returns, reduced to the options that concern C03 -/
structure Plan where
  data : Data
  tpl : Tpl
  cnRule : CnRule
  sans : Option (List San)   -- defaultSANsValidator, absent for OIDC
  cnf : Cnf
  deriving Repr, DecidableEq

/-- `if len(claims.SANs) == 0 { claims.SANs = []string{claims.Subject} }` -/
def effSans (t : Token) : List San := if t.sans.isEmpty then [t.sub] else t.sans

def oidcSans (t : Token) : List San := t.email.toList ++ t.issUri.toList

def authorize (cfg : Cfg) (t : Token) : Plan :=
  match cfg.prov with
  | .jwk =>
    let sans := effSans t
    { data := ⟨t.sub.raw, createSANs sans, none⟩
      tpl := if cfg.hasTemplate then .custom else .leaf
      cnRule := .oneOf (t.sub.raw :: sans.map (·.raw))
      sans := some sans, cnf := t.cnf }
  | .x5c =>
    let sans := effSans t
    { data := ⟨t.sub.raw, createSANs sans, none⟩
      tpl := if cfg.hasTemplate then .custom else .leaf
      cnRule := .exactly t.sub.raw
      sans := some sans, cnf := t.cnf }
  | .oidc admin =>
    { data := ⟨t.sub.raw, createSANs (oidcSans t), none⟩
      tpl := if cfg.hasTemplate then .custom else if admin then .admin else .leaf
      cnRule := .none, sans := none, cnf := .absent }

/-! ### request validators -/

/-- `reflect.DeepEqual(want, got)` on two `map[string]bool` whose values are all `true` -/
def setEq (want got : List Str) : Bool :=
  want.all (fun x => got.contains x) && got.all (fun x => want.contains x)

/-- one of dnsNames/ipAddresses/emailAddresses/urisValidator: an empty CSR list always passes -/
def kindValid (want got : List Str) : Bool := got.isEmpty || setEq want got

def sansValid (sans : List San) (c : CSR) : Bool :=
  kindValid (ofKind .dns sans) c.dns && kindValid (ofKind .email sans) c.emails &&
  kindValid (ofKind .ip sans) c.ips && kindValid (ofKind .uri sans) c.uris

def cnValid (r : CnRule) (c : CSR) : Bool :=
  c.cn.isEmpty ||
  match r with
  | .none => true
  | .exactly s => c.cn == s
  | .oneOf l => l.contains c.cn

def fpValid : Cnf → Bool
  | .absent => true
  | .undecodable => false
  | .present m => m

def reqValid (p : Plan) (c : CSR) : Bool :=
  fpValid p.cnf && cnValid p.cnRule c && c.keyOK &&
  (match p.sans with | none => true | some s => sansValid s c)

/-! ### template -/

structure Cert where
  cn : Str
  dns : List Str
  ips : List Str
  emails : List Str
  uris : List Str
  key : Nat
  exts : List Ext
  deriving Repr, DecidableEq

def valsOf (k : Kind) (l : List Name) : List Str := (l.filter (·.kind = k)).map (·.val)

/-- `DefaultLeafTemplate`: subject and SANs from the data, key from the request -/
def applyLeaf (d : Data) (c : CSR) : Cert :=
  { cn := d.cn, dns := valsOf .dns d.sans, ips := valsOf .ip d.sans,
    emails := valsOf .email d.sans, uris := valsOf .uri d.sans, key := c.key, exts := [] }

/-- `DefaultAdminLeafTemplate`: everything from the request -/
def applyAdmin (c : CSR) : Cert :=
  { cn := c.cn, dns := c.dns, ips := c.ips, emails := c.emails, uris := c.uris, key := c.key, exts := [] }

/-- the harness's custom template: leaf plus the user's `extensions` -/
def applyCustom (d : Data) (c : CSR) : Cert :=
  { applyLeaf d c with exts := match d.user with | none => [] | some u => u.exts }

/-- `CustomTemplateOptions`: "We're not provided user data without custom templates." -/
def templateUser (cfg : Cfg) (ud : Option UserData) : Option UserData :=
  if cfg.hasTemplate then ud else none

def applyTemplate (p : Plan) (c : CSR) (user : Option UserData) : Cert :=
  match p.tpl with
  | .leaf => applyLeaf { p.data with user := user } c
  | .admin => applyAdmin c
  | .custom => applyCustom { p.data with user := user } c

/-! ### provisioner extension -/

/-- the loop of `provisionerExtensionOption.Modify`: replace the first extension carrying the
    provisioner OID; `none` when there is none -/
def replaceFirst (g : Ext) : List Ext → Option (List Ext)
  | [] => none
  | e :: es => if e.isProv then some (g :: es) else (replaceFirst g es).map (e :: ·)

def modifyExt (disabled : Bool) (g : Ext) (l : List Ext) : List Ext :=
  if disabled then l else
  match replaceFirst g l with
  | some l' => l'
  | none => l ++ [g]

def hasDupOid : List Ext → Bool
  | [] => false
  | e :: es => es.any (·.oid == e.oid) || hasDupOid es

/-! ### signX509 -/

inductive Res where
  | refused (status : Nat)
  | error
  | issued (c : Cert)
  deriving Repr, DecidableEq

/-- the two "names are encodable" bits: for the names derived from the token and for the names
    in the request (only the admin template uses the latter) -/
structure Enc where
  tok : Bool
  csr : Bool
  deriving Repr, DecidableEq

/-- the certificate handed to the signer: template output, then the provisioner extension modifier -/
def finalCert (cfg : Cfg) (p : Plan) (c : CSR) (user : Option UserData) : Cert :=
  { applyTemplate p c user with exts := modifyExt cfg.extDisabled cfg.gen (applyTemplate p c user).exts }

def encOK (p : Plan) (enc : Enc) : Bool :=
  match p.tpl with
  | .admin => enc.csr
  | _ => enc.tok

def sign (cfg : Cfg) (t : Token) (c : CSR) (ud : Option UserData) (enc : Enc) : Res :=
  if c.sigOK = false then .refused 400
  else if reqValid (authorize cfg t) c = false then .refused 403
  else if encOK (authorize cfg t) enc = false ∨
      hasDupOid (finalCert cfg (authorize cfg t) c (templateUser cfg ud)).exts = true then .error
  else .issued (finalCert cfg (authorize cfg t) c (templateUser cfg ud))

end Verif.SignNames
