import Verif.Model.Common
/-
  Model of the X.509 token signing flow of /repo, as far as names, key and the provisioner
  extension are concerned (property C03).

  Modelled Go code (read line by line):
    * authority/provisioner/jwk.go  `(*JWK).AuthorizeSign`          -> `authorize` (.jwk)
    * authority/provisioner/x5c.go  `(*X5C).AuthorizeSign`          -> `authorize` (.x5c)
    * authority/provisioner/oidc.go `(*OIDC).AuthorizeSign`         -> `authorize` (.oidc admin)
    * authority/provisioner/sign_options.go
        `commonNameValidator.Valid`, `commonNameSliceValidator.Valid`   -> `cnValid`
        `dnsNamesValidator`, `ipAddressesValidator`, `emailAddressesValidator`,
        `urisValidator` (`reflect.DeepEqual` of two `map[string]bool`)  -> `kindValid` / `setEq`
        `defaultSANsValidator.Valid`                                    -> `sansValid`
        `csrFingerprintValidator.Valid`                                 -> `fpValid`
        `provisionerExtensionOption.Modify`                             -> `modifyExt`
        `provisionerExtensionOption.WithControllerOptions`              -> `Cfg.extDisabled`
    * authority/provisioner/claims.go `Claimer.IsDisableSmallstepExtensions`, `Claimer.Claims`
      (merge of the authority-level claims into the provisioners' global claims,
      authority/provisioners.go `generateProvisionerConfig`)           -> `effClaim`
    * authority/provisioner/options.go `CustomTemplateOptions` (the closure: user data is attached
      only when `opts.HasTemplate()`)                                   -> `templateUser`
    * go.step.sm/crypto/x509util `CreateSANs`                            -> `createSANs`
      `DefaultLeafTemplate` + `Certificate.GetCertificate` (`SubjectAlternativeName.Set` appends
      each name to the list of its type)                                -> `applyLeaf`
      `DefaultAdminLeafTemplate`                                        -> `applyAdmin`
    * authority/provisioner/nebula.go `(*Nebula).AuthorizeSign`, `nebulaSANsValidator.Valid`,
      `validateNebulaTokenSANs` (since 62bb26c)      -> `authorize` (.nebula), `nebValid`, `tokenAuthorized`
    * authority/provisioner/k8sSA.go `(*K8sSA).AuthorizeSign`           -> `authorize` (.k8ssa)
    * authority/provisioner/aws.go `(*AWS).AuthorizeSign` + x509util.DefaultIIDLeafTemplate
                                                                        -> `authorize` (.aws dcs), `awsValid`, `Tpl.iid`
    * api/sign.go `Sign`, `SignRequest.Validate` (served through api.Route)   -> `httpSign`, `Res.status`
    * cas/stepcas/stepcas.go `createCertificate` (RA mode: token for the issuing CA from the template)
                                                                        -> `raToken`, `raRequest`
    * authority/tls.go `signX509`: CSR signature, request validators in option order, template,
      modifiers, (certificate validators and enforcers do not touch names: validity is C06,
      policy is C04), CAS signing                                       -> `sign`

  External calls are input fields computed by the harness with the same libraries:
    * `x509util.SplitSANs` classification of every token name and of the subject (`San.kind`),
      `net.IP.String()` / `url.URL.String()` canonical text (`San.canon`)
    * the CSR as parsed by crypto/x509 (names as `ip.String()`, `u.String()`), `CheckSignature`,
      `defaultPublicKeyValidator` verdict, SHA-256 fingerprint comparison
    * `x509.CreateCertificate` + `x509.ParseCertificate` accept the names (`encTok` / `encCsr`)
    * Go's certificate parser refuses a certificate with two extensions of the same OID
      (`hasDupOid`; validated end to end, see notes/C03.md)

  The custom template (`Cfg.hasTemplate`) stands for the one template the harness configures:
  the default leaf template plus `"extensions": {{ toJson .Insecure.User.extensions }}`.
-/
namespace Verif.SignNames
open Verif

inductive Kind where
  | dns | ip | email | uri
  deriving Repr, DecidableEq

/-- one name of the token after `SplitSANs`: the string as written in the token, its class and
    its canonical text (`ip.String()`, `u.String()`; the string itself for DNS and e-mail) -/
structure San where
  kind : Kind
  raw : Str
  canon : Str
  deriving Repr, DecidableEq

/-- a `(type, value)` pair as it appears in the template data and in the certificate -/
structure Name where
  kind : Kind
  val : Str
  deriving Repr, DecidableEq

def San.name (x : San) : Name := ⟨x.kind, x.canon⟩

def ofKind (k : Kind) (l : List San) : List Str := (l.filter (·.kind = k)).map (·.canon)

/-- `x509util.CreateSANs`: grouped dns, ip, email, uri; token order inside a group -/
def createSANs (l : List San) : List Name :=
  (ofKind .dns l).map (Name.mk .dns) ++ (ofKind .ip l).map (Name.mk .ip) ++
  (ofKind .email l).map (Name.mk .email) ++ (ofKind .uri l).map (Name.mk .uri)

/-- an X.509 extension: `oid = 0` is the provisioner OID 1.3.6.1.4.1.37476.9000.64.1, any other
    number another OID; `val` the DER value -/
structure Ext where
  oid : Nat
  val : Str
  deriving Repr, DecidableEq

def Ext.isProv (e : Ext) : Bool := e.oid == 0

/-- the confirmation claim `cnf.x5rt#S256` -/
inductive Cnf where
  | absent              -- no claim or empty string
  | undecodable         -- not base64url
  | present (eq : Bool)  -- decoded; equals SHA-256 of the CSR or not
  deriving Repr, DecidableEq

structure CSR where
  sigOK : Bool
  cn : Str
  dns : List Str
  ips : List Str
  emails : List Str
  uris : List Str
  key : Nat
  keyOK : Bool
  exts : List Ext
  deriving Repr, DecidableEq

/-- verified claims of a JWK / X5C token; for OIDC `sans` is unused and `email` / `issUri` hold
    the classified `email` claim (absent when empty) and `iss#sub` (absent when `iss` is not a
    URL with a scheme) -/
structure Token where
  sub : San
  sans : List San
  cnf : Cnf
  email : Option San
  issUri : Option San
  /-- Nebula only: the `Details.Name` of the Nebula certificate in the token header, classified by
      `SplitSANs`, and its `Details.Ips` (address part, canonical text) -/
  nebName : Option San
  nebIPs : List Str
  deriving Repr, DecidableEq

inductive Prov where
  | jwk | x5c
  | oidc (admin : Bool)
  | nebula
  | k8ssa
  | aws (disableCustomSANs : Bool)   -- instance identity document; `nebName` / `nebIPs` hold its internal DNS name and private IP
  | acme | scep   -- no token: the ACME / SCEP layer authenticates the client and supplies the names
  deriving Repr, DecidableEq

/-- the boolean claims of `provisioner.Claims`, each unset / true / false -/
structure BoolClaims where
  disableRenewal : Option Bool
  disableExt : Option Bool          -- disableSmallstepExtensions
  allowAfterExpiry : Option Bool
  /-- the claims went through the admin-database form (authority/provisioners.go
      `claimsToLinkedca` then `claimsToCertificates`: provisioners kept in the admin database,
      i.e. every provisioner of an authority with `enableAdmin`) -/
  adminForm : Bool := false
  deriving Repr, DecidableEq

def noClaims : BoolClaims := ⟨none, none, none, false⟩

/-- `claimsToLinkedca` / `claimsToCertificates`: the linkedca form has plain booleans, so a claims
    object that exists comes back with all three booleans set, the unset ones to the defaults
    (false); a missing claims object (all unset here) stays missing -/
def BoolClaims.inForce (c : BoolClaims) : BoolClaims :=
  if c.adminForm ∧ (c.disableRenewal.isSome ∨ c.disableExt.isSome ∨ c.allowAfterExpiry.isSome) then
    ⟨some (c.disableRenewal.getD false), some (c.disableExt.getD false), some (c.allowAfterExpiry.getD false), true⟩
  else c

/-- one boolean claim through the two `Claimer`s: the provisioner's value if set
    (`Claimer.IsDisable…`: `c.claims.X` else `c.global.X`), else the authority-level value, which
    itself is `Claimer.Claims()` of the authority claims over `config.GlobalProvisionerClaims`
    (all three booleans default to false) -/
def effClaim (prov auth : Option Bool) : Bool :=
  match prov with
  | some b => b
  | none => match auth with
    | some b => b
    | none => false

structure Cfg where
  prov : Prov
  hasTemplate : Bool     -- provisioner options carry a template
  authClaims : BoolClaims  -- `authority.claims` of the configuration
  provClaims : BoolClaims  -- the provisioner's own claims
  gen : Ext              -- the genuine provisioner extension (type, name, credential id)
  deriving Repr, DecidableEq

/-- `provisionerExtensionOption.WithControllerOptions`: `Disabled = Claimer.IsDisableSmallstepExtensions()`;
    the other boolean claims play no part -/
def Cfg.extDisabled (cfg : Cfg) : Bool := effClaim cfg.provClaims.inForce.disableExt cfg.authClaims.disableExt

/-- user supplied `templateData`: the `extensions` member as the custom template would render
    it, and everything else as an opaque value -/
structure UserData where
  exts : List Ext
  other : Nat
  /-- the `extensions` member decodes as a list of certificate extensions (`json.Unmarshal` into
      `[]x509util.Extension`, an input); when it does not, a template that prints it yields JSON the
      certificate decoder refuses -/
  extsOK : Bool
  deriving Repr, DecidableEq

structure Data where
  cn : Str
  sans : List Name
  user : Option UserData
  deriving Repr, DecidableEq

inductive Tpl where
  | leaf | admin | custom
  | iid      -- x509util.DefaultIIDLeafTemplate: CN from the CSR; names from the data when it has any, else the CSR's
  deriving Repr, DecidableEq

inductive CnRule where
  | none                 -- OIDC: no common-name validator
  | exactly (s : Str)    -- commonNameValidator
  | oneOf (l : List Str) -- commonNameSliceValidator
  deriving Repr, DecidableEq

/-- what `AuthorizeSign` returns, reduced to the options that concern C03 -/
structure Plan where
  data : Data
  tpl : Tpl
  cnRule : CnRule
  sans : Option (List San)   -- defaultSANsValidator, absent for OIDC
  cnf : Cnf
  neb : Option (List San × List Str) := none   -- nebulaSANsValidator{Name, IPs}
  aws : Option (List Str × List Str) := none   -- AWS disableCustomSANs: (allowed DNS names, the private IP)
  deriving Repr, DecidableEq

/-- `if len(claims.SANs) == 0 { claims.SANs = []string{claims.Subject} }` -/
def effSans (t : Token) : List San := if t.sans.isEmpty then [t.sub] else t.sans

def oidcSans (t : Token) : List San := t.email.toList ++ t.issUri.toList

/-- what the Nebula certificate certifies: its name and its addresses -/
def nebCreds (t : Token) : List San := t.nebName.toList ++ t.nebIPs.map fun ip => ⟨.ip, ip, ip⟩

def authorize (cfg : Cfg) (t : Token) : Plan :=
  match cfg.prov with
  | .jwk =>
    let sans := effSans t
    { data := ⟨t.sub.raw, createSANs sans, none⟩
      tpl := if cfg.hasTemplate then .custom else .leaf
      cnRule := .oneOf (t.sub.raw :: sans.map (·.raw))
      sans := some sans, cnf := t.cnf }
  | .x5c =>
    let sans := effSans t
    { data := ⟨t.sub.raw, createSANs sans, none⟩
      tpl := if cfg.hasTemplate then .custom else .leaf
      cnRule := .exactly t.sub.raw
      sans := some sans, cnf := t.cnf }
  | .oidc admin =>
    { data := ⟨t.sub.raw, createSANs (oidcSans t), none⟩
      tpl := if cfg.hasTemplate then .custom else if admin then .admin else .leaf
      cnRule := .none, sans := none, cnf := .absent }
  | .nebula =>
    -- `sans := claims.SANs; if len(sans) == 0 { name, then every ip }`; a listed name that the
    -- Nebula certificate does not certify is refused before this point (`tokenAuthorized`)
    let sans := if t.sans.isEmpty then nebCreds t else t.sans
    { data := ⟨t.sub.raw, createSANs sans, none⟩
      tpl := if cfg.hasTemplate then .custom else .leaf
      cnRule := .exactly t.sub.raw
      sans := none, cnf := .absent
      neb := some (t.nebName.toList, t.nebIPs) }
  | .k8ssa =>
    -- template data: common name = service account name (sent as `sub`), no SANs; the default
    -- template is the certificate request
    { data := ⟨t.sub.raw, [], none⟩
      tpl := if cfg.hasTemplate then .custom else .admin
      cnRule := .none, sans := none, cnf := .absent }
  | .aws dcs =>
    -- aws.go `AuthorizeSign`: common name = token subject (instance id, private IP or internal name);
    -- disableCustomSANs: template names = [internal DNS name, private IP] and the CSR may list only
    -- those (dnsNamesSubsetValidator, ipAddressesValidator, no e-mail, no URI); otherwise the
    -- names are the CSR's ("no way to trust them other than TOFU")
    let own : List San := t.nebName.toList ++ t.nebIPs.map fun ip => ⟨.ip, ip, ip⟩
    { data := ⟨t.sub.raw, if dcs then createSANs own else [], none⟩
      tpl := if cfg.hasTemplate then .custom else .iid
      cnRule := .exactly t.sub.raw, sans := none, cnf := .absent
      aws := if dcs then some (ofKind .dns t.nebName.toList, t.nebIPs) else none }
  | .acme | .scep =>
    -- `AuthorizeSign(ctx, "")` carries no name validator; the protocol layer (acme/order.go
    -- `Finalize`, scep/authority.go `SignCSR`) builds the template data from the names it validated
    -- (properties C13 / C15) - here `sub` and `sans` stand for that data - and appends the template
    -- options to the list
    { data := ⟨t.sub.raw, createSANs t.sans, none⟩
      tpl := if cfg.hasTemplate then .custom else .leaf
      cnRule := .none, sans := none, cnf := .absent }

/-! ### request validators -/

/-- `reflect.DeepEqual(want, got)` on two `map[string]bool` whose values are all `true` -/
def setEq (want got : List Str) : Bool :=
  want.all (fun x => got.contains x) && got.all (fun x => want.contains x)

/-- one of dnsNames/ipAddresses/emailAddresses/urisValidator: an empty CSR list always passes -/
def kindValid (want got : List Str) : Bool := got.isEmpty || setEq want got

def sansValid (sans : List San) (c : CSR) : Bool :=
  kindValid (ofKind .dns sans) c.dns && kindValid (ofKind .email sans) c.emails &&
  kindValid (ofKind .ip sans) c.ips && kindValid (ofKind .uri sans) c.uris

def cnValid (r : CnRule) (c : CSR) : Bool :=
  c.cn.isEmpty ||
  match r with
  | .none => true
  | .exactly s => c.cn == s
  | .oneOf l => l.contains c.cn

def fpValid : Cnf → Bool
  | .absent => true
  | .undecodable => false
  | .present m => m

/-- `nebulaSANsValidator.Valid`: DNS / e-mail / URI lists, when present, must be set-equal to the
    classification of the certificate name; every IP of the CSR must be the name (if it is an IP)
    or one of the certificate's addresses (`ip.Equal`, i.e. equal canonical text) -/
def nebValid (name : List San) (ips : List Str) (c : CSR) : Bool :=
  (c.dns.isEmpty || setEq (ofKind .dns name) c.dns) &&
  (c.emails.isEmpty || setEq (ofKind .email name) c.emails) &&
  (c.uris.isEmpty || setEq (ofKind .uri name) c.uris) &&
  c.ips.all fun ip => (ofKind .ip name ++ ips).contains ip

/-- AWS with disableCustomSANs: `dnsNamesSubsetValidator` (every CSR DNS name allowed),
    `ipAddressesValidator` (set-equal or absent), `emailAddressesValidator(nil)` and
    `urisValidator(nil)` (none may be listed) -/
def awsValid (dns ips : List Str) (c : CSR) : Bool :=
  c.dns.all (fun x => dns.contains x) && kindValid ips c.ips && kindValid [] c.emails && kindValid [] c.uris

def reqValid (p : Plan) (c : CSR) : Bool :=
  fpValid p.cnf && cnValid p.cnRule c && c.keyOK &&
  (match p.sans with | none => true | some s => sansValid s c) &&
  (match p.neb with | none => true | some (n, ips) => nebValid n ips c) &&
  (match p.aws with | none => true | some (d, ips) => awsValid d ips c)

/-! ### template -/

structure Cert where
  cn : Str
  dns : List Str
  ips : List Str
  emails : List Str
  uris : List Str
  key : Nat
  exts : List Ext
  deriving Repr, DecidableEq

def valsOf (k : Kind) (l : List Name) : List Str := (l.filter (·.kind = k)).map (·.val)

/-- `DefaultLeafTemplate`: subject and SANs from the data, key from the request -/
def applyLeaf (d : Data) (c : CSR) : Cert :=
  { cn := d.cn, dns := valsOf .dns d.sans, ips := valsOf .ip d.sans,
    emails := valsOf .email d.sans, uris := valsOf .uri d.sans, key := c.key, exts := [] }

/-- `DefaultAdminLeafTemplate`: everything from the request -/
def applyAdmin (c : CSR) : Cert :=
  { cn := c.cn, dns := c.dns, ips := c.ips, emails := c.emails, uris := c.uris, key := c.key, exts := [] }

/-- the harness's custom template: leaf plus the user's `extensions` -/
def applyCustom (d : Data) (c : CSR) : Cert :=
  { applyLeaf d c with exts := match d.user with | none => [] | some u => u.exts }

/-- `CustomTemplateOptions`: "We're not provided user data without custom templates." -/
def templateUser (cfg : Cfg) (ud : Option UserData) : Option UserData :=
  if cfg.hasTemplate then ud else none

def applyTemplate (p : Plan) (c : CSR) (user : Option UserData) : Cert :=
  match p.tpl with
  | .leaf => applyLeaf { p.data with user := user } c
  | .admin => applyAdmin c
  | .custom => applyCustom { p.data with user := user } c
  | .iid => if p.data.sans.isEmpty then applyAdmin c else { applyLeaf { p.data with user := user } c with cn := c.cn }

/-! ### provisioner extension -/

/-- the loop of `provisionerExtensionOption.Modify`: replace the first extension carrying the
    provisioner OID; `none` when there is none -/
def replaceFirst (g : Ext) : List Ext → Option (List Ext)
  | [] => none
  | e :: es => if e.isProv then some (g :: es) else (replaceFirst g es).map (e :: ·)

def modifyExt (disabled : Bool) (g : Ext) (l : List Ext) : List Ext :=
  if disabled then l else
  match replaceFirst g l with
  | some l' => l'
  | none => l ++ [g]

def hasDupOid : List Ext → Bool
  | [] => false
  | e :: es => es.any (·.oid == e.oid) || hasDupOid es

/-! ### signX509 -/

inductive Res where
  | unauthorized (status : Nat)   -- `Authority.Authorize` failed: no sign option was built
  | refused (status : Nat)
  | error
  | issued (c : Cert)
  deriving Repr, DecidableEq

/-- verdicts of external parties for one request. The two "names are encodable" bits: for the names derived from the token and for the names
    in the request (only the admin template uses the latter) -/
structure Enc where
  tok : Bool
  csr : Bool
  /-- answer of the provisioner's ENRICHING webhook for this request: `none` = no such webhook,
      `some allow`; the data it returns is set under `.Webhooks.<name>` of the template data,
      which neither default template (nor the harness's custom template) reads -/
  whEnrich : Option Bool
  /-- answer of the AUTHORIZING webhook -/
  whAuthz : Option Bool
  deriving Repr, DecidableEq

/-- the certificate handed to the signer: template output, then the provisioner extension modifier -/
def finalCert (cfg : Cfg) (p : Plan) (c : CSR) (user : Option UserData) : Cert :=
  { applyTemplate p c user with exts := modifyExt cfg.extDisabled cfg.gen (applyTemplate p c user).exts }

/-- `x509util.NewCertificate` fails ("error unmarshaling certificate", answered 500): only the
    custom template prints user data -/
def templateFails (p : Plan) (user : Option UserData) : Bool :=
  match p.tpl, user with
  | .custom, some u => !u.extsOK
  | _, _ => false

def encOK (p : Plan) (enc : Enc) : Bool :=
  match p.tpl with
  | .admin => enc.csr
  | .iid => if p.data.sans.isEmpty then enc.csr else enc.tok
  | _ => enc.tok

def sign (cfg : Cfg) (t : Token) (c : CSR) (ud : Option UserData) (enc : Enc) : Res :=
  if c.sigOK = false then .refused 400
  else if reqValid (authorize cfg t) c = false then .refused 403
  -- callEnrichingWebhooksX509: after the option loop, before the template
  else if enc.whEnrich = some false then .refused 403
  else if templateFails (authorize cfg t) (templateUser cfg ud) = true then .error
  -- callAuthorizingWebhooksX509: after modifiers, validators, enforcers; before the CAS signs
  else if enc.whAuthz = some false then .refused 403
  else if encOK (authorize cfg t) enc = false ∨
      hasDupOid (finalCert cfg (authorize cfg t) c (templateUser cfg ud)).exts = true then .error
  else .issued (finalCert cfg (authorize cfg t) c (templateUser cfg ud))

/-! ### Authorize + Sign -/

/-- `validateNebulaTokenSANs` (one name): the name is the Nebula certificate's name, or parses as
    an IP (`SplitSANs` class ip ⇔ `net.ParseIP` ≠ nil) equal to one of its addresses -/
def nebCertified (t : Token) (x : San) : Bool :=
  t.nebName.map (·.raw) == some x.raw || (x.kind == .ip && t.nebIPs.contains x.canon)

/-- what `AuthorizeSign` itself refuses once the token is verified. Nebula: a token that lists
    names (`sans` claim) may only list names the Nebula certificate certifies — the token is signed
    with the key of a host certificate, not by the Nebula CA (403 before any option is built). -/
def tokenAuthorized (cfg : Cfg) (t : Token) : Bool :=
  match cfg.prov with
  | .nebula => t.sans.all (nebCertified t)
  | _ => true

/-- `Authority.Authorize` followed by `Authority.Sign`, as the /1.0/sign handler runs them -/
def request (cfg : Cfg) (t : Token) (c : CSR) (ud : Option UserData) (enc : Enc) : Res :=
  if tokenAuthorized cfg t = false then .unauthorized 403 else sign cfg t c ud enc

/-! ### POST /1.0/sign -/

/-- api/sign.go `Sign`: `SignRequest.Validate` checks the CSR's signature (400) before the token
    is looked at; `Authorize` errors are rendered through `errs.UnauthorizedErr`, signing errors
    through `errs.ForbiddenErr`, both of which keep the status the authority chose. -/
def httpSign (cfg : Cfg) (t : Token) (c : CSR) (ud : Option UserData) (enc : Enc) : Res :=
  if c.sigOK = false then .refused 400 else request cfg t c ud enc

/-- the HTTP status of an outcome (201 = a certificate in the body) -/
def Res.status : Res → Nat
  | .unauthorized st => st
  | .refused st => st
  | .error => 500
  | .issued _ => 201

/-! ### registration-authority mode (cas/stepcas) -/

/-- cas/stepcas `createCertificate`: the RA does not sign; it mints a JWK token for the issuing CA
    with `sub` = the template's common name (the first name when that is empty) and `sans` = the
    template's names (canonical text, order dns, email, ip, uri — the issuing CA regroups them), and
    posts the *original* CSR with it to the issuing CA's /1.0/sign. -/
def raToken (c1 : Cert) (subKind : Kind) : Token :=
  let names : List San :=
    c1.dns.map (fun v => ⟨.dns, v, v⟩) ++ c1.emails.map (fun v => ⟨.email, v, v⟩) ++
    c1.ips.map (fun v => ⟨.ip, v, v⟩) ++ c1.uris.map (fun v => ⟨.uri, v, v⟩)
  let cn : San := match c1.cn, names with
    | [], n :: _ => n
    | cn, _ => ⟨subKind, cn, cn⟩
  { sub := cn, sans := names, cnf := .absent, email := none, issUri := none, nebName := none, nebIPs := [] }

/-- the issuing CA's side: its JWK provisioner (no template, extension enabled, genuine extension
    `issuerGen`) -/
def issuerCfg (issuerGen : Ext) : Cfg := ⟨.jwk, false, noClaims, noClaims, issuerGen⟩

/-- a sign request served by an authority in RA mode: the RA runs its own authorization, validators,
    template and modifiers (`request` with nothing to encode locally), then the issuing CA runs the
    JWK flow on the RA's token and the same CSR; its answer (certificate, or the status of its
    refusal) is the RA's answer. `subKind` = `SplitSANs` class of the end entity's token subject. -/
def raRequest (cfg : Cfg) (issuerGen : Ext) (t : Token) (c : CSR) (ud : Option UserData) (enc : Enc) : Res :=
  match request cfg t c ud { enc with tok := true, csr := true } with
  | .issued c1 =>
    sign (issuerCfg issuerGen) (raToken c1 t.sub.kind) c none { enc with whEnrich := none, whAuthz := none }
  | r => r

/-! ### source-derived tables

  The harness (harness/cmd/c03_src, go/ast over the repository) re-derives these sequences from the
  Go source on every run and the driver prints them; `Verif.Props.C03` relates them to `sign` and
  `authorize`. -/

/-- calls, loops and type-switch cases of `Authority.signX509`, in source order -/
inductive Tok where
  | checkSignature | rangeExtraOpts | caseInterface | caseCertificateOptions | options
  | caseRequestValidator | valid | caseCertificateValidator | caseCertificateModifier
  | caseCertificateEnforcer | caseAttestationData | caseWebhookController | enrich
  | newCertificate | getCertificate | modify | withDefaultASN1DN | rangeCertModifiers
  | rangeCertValidators | rangeCertEnforcers | enforce | rangeAuthEnforcers | isAllowed
  | authorizeWebhook | createCertificate | storeCertificate
  deriving Repr, DecidableEq

def Tok.str : Tok → String
  | .checkSignature => "CheckSignature" | .rangeExtraOpts => "range(extraOpts)"
  | .caseInterface => "case(Interface)" | .caseCertificateOptions => "case(CertificateOptions)"
  | .options => "Options" | .caseRequestValidator => "case(CertificateRequestValidator)"
  | .valid => "Valid" | .caseCertificateValidator => "case(CertificateValidator)"
  | .caseCertificateModifier => "case(CertificateModifier)"
  | .caseCertificateEnforcer => "case(CertificateEnforcer)"
  | .caseAttestationData => "case(AttestationData)" | .caseWebhookController => "case(webhookController)"
  | .enrich => "callEnrichingWebhooksX509" | .newCertificate => "NewCertificate"
  | .getCertificate => "GetCertificate" | .modify => "Modify" | .withDefaultASN1DN => "withDefaultASN1DN"
  | .rangeCertModifiers => "range(certModifiers)" | .rangeCertValidators => "range(certValidators)"
  | .rangeCertEnforcers => "range(certEnforcers)" | .enforce => "Enforce"
  | .rangeAuthEnforcers => "range(a.x509Enforcers)" | .isAllowed => "isAllowedToSignX509Certificate"
  | .authorizeWebhook => "callAuthorizingWebhooksX509" | .createCertificate => "CreateCertificate"
  | .storeCertificate => "storeCertificate"

/-- `signX509` as it stands in authority/tls.go -/
def signX509Source : List Tok :=
  [.checkSignature, .rangeExtraOpts, .caseInterface, .caseCertificateOptions, .options,
   .caseRequestValidator, .valid, .caseCertificateValidator, .caseCertificateModifier,
   .caseCertificateEnforcer, .caseAttestationData, .caseWebhookController, .enrich,
   .newCertificate, .getCertificate, .modify, .withDefaultASN1DN, .rangeCertModifiers, .modify,
   .rangeCertValidators, .valid, .rangeCertEnforcers, .enforce, .rangeAuthEnforcers, .enforce,
   .isAllowed, .authorizeWebhook, .createCertificate, .storeCertificate]

/-- the phases `sign` goes through, in the order it goes through them -/
inductive Phase where
  | checkSig | requestValidators | enrich | template | modifiers | certValidators | enforcers
  | authorizeWebhook | casSign
  deriving Repr, DecidableEq

def signPhases : List Phase :=
  [.checkSig, .requestValidators, .enrich, .template, .modifiers, .certValidators, .enforcers,
   .authorizeWebhook, .casSign]

/-- the source tokens that realise a phase -/
def Phase.marker : Phase → List Tok
  | .checkSig => [.checkSignature]
  | .requestValidators => [.rangeExtraOpts, .caseRequestValidator, .valid]
  | .enrich => [.enrich]
  | .template => [.newCertificate, .getCertificate]
  | .modifiers => [.rangeCertModifiers, .modify]
  | .certValidators => [.rangeCertValidators, .valid]
  | .enforcers => [.rangeCertEnforcers, .enforce]
  | .authorizeWebhook => [.isAllowed, .authorizeWebhook]
  | .casSign => [.createCertificate]

/-- elements of the `[]SignOption` literal an `AuthorizeSign` returns -/
inductive Opt where
  | self | oidcSelf | pSelf | sSelf | soPrefix | nebulaSans | forceCN | pubKeyMinLen | templateOptions | provExt | defaultDuration | limitDuration
  | fingerprint | cnSlice | cnExact | pubKey | sans | validity | namePolicy | webhook
  deriving Repr, DecidableEq

def Opt.str : Opt → String
  | .self => "self" | .oidcSelf => "o" | .pSelf => "p" | .sSelf => "s" | .soPrefix => "+so"
  | .nebulaSans => "nebulaSANsValidator" | .forceCN => "newForceCNOption"
  | .pubKeyMinLen => "newPublicKeyMinimumLengthValidator"
  | .templateOptions => "templateOptions"
  | .provExt => "newProvisionerExtensionOption" | .defaultDuration => "profileDefaultDuration"
  | .limitDuration => "profileLimitDuration" | .fingerprint => "csrFingerprintValidator"
  | .cnSlice => "commonNameSliceValidator" | .cnExact => "commonNameValidator"
  | .pubKey => "defaultPublicKeyValidator" | .sans => "newDefaultSANsValidator"
  | .validity => "newValidityValidator" | .namePolicy => "newX509NamePolicyValidator"
  | .webhook => "newWebhookController"

/-- the option lists as they stand in jwk.go, x5c.go, oidc.go -/
def optionSource : Prov → List Opt
  | .jwk => [.self, .templateOptions, .provExt, .defaultDuration, .fingerprint, .cnSlice, .pubKey, .sans,
             .validity, .namePolicy, .webhook]
  | .x5c => [.self, .templateOptions, .provExt, .limitDuration, .fingerprint, .cnExact, .sans, .pubKey,
             .validity, .namePolicy, .webhook]
  | .oidc _ => [.oidcSelf, .templateOptions, .provExt, .defaultDuration, .pubKey, .validity, .namePolicy,
                .webhook]
  | .nebula => [.pSelf, .templateOptions, .provExt, .limitDuration, .cnExact, .nebulaSans, .pubKey, .validity,
                .namePolicy, .webhook]
  | .k8ssa => [.pSelf, .templateOptions, .provExt, .defaultDuration, .pubKey, .validity, .namePolicy, .webhook]
  | .aws _ => [.soPrefix, .pSelf, .templateOptions, .provExt, .defaultDuration, .pubKey, .cnExact, .validity,
               .namePolicy, .webhook]
  | .acme => [.pSelf, .provExt, .forceCN, .defaultDuration, .pubKey, .validity, .namePolicy, .webhook]
  | .scep => [.sSelf, .provExt, .forceCN, .defaultDuration, .pubKeyMinLen, .validity, .namePolicy, .webhook]

/-- what the option list of one `AuthorizeSign` implementation contains -/
inductive ListKind where
  | extTpl   -- provisioner-extension modifier and template options
  | ext      -- the modifier; template options are appended by the protocol layer (ACME, SCEP)
  | self     -- only the provisioner itself (`noop`)
  | noext    -- a list without the modifier
  | none     -- no list: refuses (`base`) or delegates (`MockProvisioner`)
  deriving Repr, DecidableEq

def ListKind.str : ListKind → String
  | .extTpl => "ext+tpl" | .ext => "ext" | .self => "self" | .noext => "noext" | .none => "none"

/-- every method named `AuthorizeSign` in authority/provisioner (non-test files), by receiver type -/
def allSignSource : List (String × ListKind) :=
  [("ACME", .ext), ("AWS", .extTpl), ("Azure", .extTpl), ("GCP", .extTpl), ("JWK", .extTpl),
   ("K8sSA", .extTpl), ("MockProvisioner", .none), ("Nebula", .extTpl), ("OIDC", .extTpl),
   ("SCEP", .ext), ("X5C", .extTpl), ("base", .none), ("noop", .self)]

end Verif.SignNames
