import Verif.Model.Common
/-
  Model of /repo/policy: validate.go (all of it) and the rule normalisers of options.go.

  External calls are input fields (see DESIGN.md §4):
    * `idna.Lookup.ToASCII` of a DNS name          -> `DnsName.idna`
    * `net.IP` / `*net.IPNet`                      -> `Ip` (4 or 16 bytes), `Net` (address bytes + prefix length)
    * `url.URL.Host`, `net.SplitHostPort`, `net.ParseIP` -> fields of `Uri`
    * `x509util.SplitSANs` classification of a common name -> `CnClass`
  `idna.ToASCII` (Punycode profile) applied to an e-mail domain that already passed
  `domainToReverseLabels` (all bytes in 33..126) is the identity; this is assumed and
  exercised by the correspondence check.
-/
namespace Verif.Policy
open Verif Verif.Str

/-- outcome of one constraint match: Go's `(bool, error)` or a panic -/
inductive MR where
  | yes | no | err | crash
  deriving Repr, DecidableEq

inductive Reason where
  | notAllowed | cannotParseDomain | cannotParseRFC822 | cannotMatch
  deriving Repr, DecidableEq

inductive Kind where
  | cn | dns | ip | email | uri | principal
  deriving Repr, DecidableEq

inductive Verdict where
  | allow
  | deny (r : Reason) (k : Kind)
  | crash
  deriving Repr, DecidableEq

/-- a non-nil error (or panic) of one name check -/
inductive Fail where
  | deny (r : Reason) (k : Kind)
  | crash
  deriving Repr, DecidableEq

def Fail.verdict : Fail → Verdict
  | .deny r k => .deny r k
  | .crash => .crash

/-! ### domainToReverseLabels -/

def labelOk (l : Str) : Bool := !l.isEmpty && l.all (fun c => 33 ≤ c && c ≤ 126)

/-- the pieces Go's right-to-left loop records: a leading empty piece (domain starting
    with '.') is never appended because the loop stops when the remainder is empty. -/
def pieces (d : Str) : List Str :=
  match splitOn 46 d with
  | [] :: rest => rest
  | p => p

/-- `domainToReverseLabels`: `some reversedLabels` or `none` (ok = false) -/
def reverseLabels (d : Str) : Option (List Str) :=
  let p := pieces d
  if p.all labelOk then some p.reverse else none

/-! ### parseRFC2821Mailbox -/

structure Mailbox where
  loc : Str
  domain : Str
  deriving Repr, DecidableEq

def qtext (c : Nat) : Bool :=
  c = 11 || c = 12 || c = 32 || c = 33 || c = 127 || (1 ≤ c && c ≤ 8) || (14 ≤ c && c ≤ 31) ||
  (35 ≤ c && c ≤ 91) || (93 ≤ c && c ≤ 126)

def qpair (c : Nat) : Bool :=
  c = 11 || c = 12 || (1 ≤ c && c ≤ 9) || (14 ≤ c && c ≤ 127)

/-- quoted local part, after the opening quote: returns (local, rest after closing quote) -/
def parseQuoted : Str → Str → Option (Str × Str)
  | [], _ => none
  | c :: rest, acc =>
    if c = 34 then some (acc.reverse, rest)
    else if c = 92 then
      match rest with
      | [] => none
      | d :: rest' => if qpair d then parseQuoted rest' (d :: acc) else none
    else if qtext c then parseQuoted rest (c :: acc)
    else none

def atext (c : Nat) : Bool :=
  (48 ≤ c && c ≤ 57) || (97 ≤ c && c ≤ 122) || (65 ≤ c && c ≤ 90) ||
  c = 33 || c = 35 || c = 36 || c = 37 || c = 38 || c = 39 || c = 42 || c = 43 ||
  c = 45 || c = 47 || c = 61 || c = 63 || c = 94 || c = 95 || c = 96 || c = 123 ||
  c = 124 || c = 125 || c = 126 || c = 46

/-- unquoted local part: returns (local, rest) or none when a backslash ends the input -/
def parseAtoms : Str → Str → Option (Str × Str)
  | [], acc => some (acc.reverse, [])
  | c :: rest, acc =>
    if c = 92 then
      match rest with
      | [] => none
      | d :: rest' => parseAtoms rest' (d :: acc)
    else if atext c then parseAtoms rest (c :: acc)
    else some (acc.reverse, c :: rest)

def parseMailbox (inp : Str) : Option Mailbox :=
  match inp with
  | [] => none
  | c :: rest =>
    let r : Option (Str × Str) :=
      if c = 34 then parseQuoted rest []
      else
        match parseAtoms inp [] with
        | none => none
        | some (l, rem) =>
          if l.isEmpty then none
          else if l.head? = some 46 || l.getLast? = some 46 || containsSub [46, 46] l then none
          else some (l, rem)
    match r with
    | none => none
    | some (l, rem) =>
      match rem with
      | 64 :: dom => if (reverseLabels dom).isSome then some ⟨l, dom⟩ else none
      | _ => none

/-! ### matchers -/

/-- `strings.LastIndex(domain, "*") > 0` -/
def starAfterFirst : Str → Bool
  | [] => false
  | _ :: rest => has 42 rest

def labelsFoldEq : List Str → List Str → Bool
  | [], _ => true
  | _ :: _, [] => false        -- unreachable under the length test
  | c :: cs, d :: ds => foldEq c d && labelsFoldEq cs ds

/-- `matchDomainConstraint`, with the two guards added by the `fix:` commit for D1
    (an empty domain is a matching error, a lone `*` is blocked like other malformed wildcards). -/
def matchDomain (allowWild : Bool) (domain constraint : Str) : MR :=
  if constraint.isEmpty then .yes
  else if domain = [32] then .no
  else match domain with
  | [] => .err
  | d0 :: dr =>
    if d0 = 46 then .no
    else if d0 = 42 && dr.head? ≠ some 46 then .no
    else if hasPrefix [42, 46] domain && !allowWild then .no
    else if starAfterFirst domain then .no
    else if containsSub [46, 46] constraint then .no
    else match reverseLabels domain with
    | none => .err
    | some dl =>
      let must := constraint.head? = some 46
      let c := if must then constraint.tail else constraint
      match reverseLabels c with
      | none => .err
      | some cl =>
        if dl.length ≠ cl.length + (if must then 1 else 0) then .no
        else if labelsFoldEq cl dl then .yes else .no

/-- the same function as it stood before the fix: unguarded `domain[0]`, `domain[1]` -/
def matchDomainUnguarded (allowWild : Bool) (domain constraint : Str) : MR :=
  if constraint.isEmpty then .yes
  else if domain = [32] then .no
  else match domain with
  | [] => .crash
  | d0 :: dr =>
    if d0 = 46 then .no
    else if d0 = 42 && dr.isEmpty then .crash
    else matchDomain allowWild domain constraint

structure Ip where
  bytes : List Nat       -- `To4()` form (4 bytes) when it exists, else the 16-byte form
  deriving Repr, DecidableEq

structure Net where
  addr : List Nat        -- network number in the same canonical form
  bits : Nat             -- prefix length of the mask
  deriving Repr, DecidableEq

def bitsOf (bytes : List Nat) : List Bool :=
  bytes.flatMap fun b => (List.range 8).map fun i => (b / 2 ^ (7 - i)) % 2 = 1

/-- `IPNet.Contains` for prefix masks -/
def netContains (n : Net) (ip : Ip) : Bool :=
  n.addr.length == ip.bytes.length &&
  (bitsOf n.addr).take n.bits == (bitsOf ip.bytes).take n.bits

def matchIP (ip : Ip) (n : Net) : MR := if netContains n ip then .yes else .no

def matchEmail (allowWild : Bool) (mb : Mailbox) (constraint : Str) : MR :=
  if has 64 constraint then
    match parseMailbox constraint with
    | none => .err
    | some cm => if mb.loc = cm.loc && foldEq mb.domain cm.domain then .yes else .no
  else matchDomain allowWild mb.domain constraint

structure Uri where
  host : Str                 -- `uri.Host`
  split : Option Str         -- host part of `net.SplitHostPort(host)`, `none` on error
  isIP : Bool                -- `net.ParseIP(h) != nil` for the host `h` finally used
  deriving Repr, DecidableEq

def matchURI (allowWild : Bool) (u : Uri) (constraint : Str) : MR :=
  if u.host.isEmpty then .err
  else if has 42 u.host then .err
  else
    let needSplit := has 58 u.host && !hasSuffix [93] u.host
    if needSplit && u.split.isNone then .err
    else
      let h := if needSplit then u.split.getD [] else u.host
      if (hasPrefix [91] h && hasSuffix [93] h) || u.isIP then .err
      else matchDomain allowWild h constraint

def matchPrincipal (p constraint : Str) : MR :=
  if constraint = [42] then .yes else if foldEq p constraint then .yes else .no

def matchCN (cn constraint : Str) : MR :=
  if constraint = [42] then .no else if foldEq cn constraint then .yes else .no

/-! ### checkNameConstraints -/

/-- first loop: excluded constraints, in order -/
def checkExcluded {C : Type} (m : C → MR) : List C → Option Reason ⊕ Unit
  | [] => .inr ()
  | c :: cs =>
    match m c with
    | .crash => .inl none
    | .err => .inl (some .cannotMatch)
    | .yes => .inl (some .notAllowed)
    | .no => checkExcluded m cs

/-- second loop: permitted constraints; `ok` starts true, so an empty list permits -/
def checkPermitted {C : Type} (m : C → MR) : List C → Option Reason ⊕ Unit
  | [] => .inr ()
  | c :: cs =>
    match m c with
    | .crash => .inl none
    | .err => .inl (some .cannotMatch)
    | .yes => .inr ()
    | .no => match cs with
      | [] => .inl (some .notAllowed)
      | _ => checkPermitted m cs

/-- `checkNameConstraints`: `none` = nil error -/
def checkName {C : Type} (k : Kind) (m : C → MR) (permitted excluded : List C) : Option Fail :=
  match checkExcluded m excluded with
  | .inl none => some .crash
  | .inl (some r) => some (.deny r k)
  | .inr () =>
    match checkPermitted m permitted with
    | .inl none => some .crash
    | .inl (some r) => some (.deny r k)
    | .inr () => none

/-! ### the engine -/

structure Engine where
  verifyCN : Bool
  allowWild : Bool
  pCN : List Str
  xCN : List Str
  pDNS : List Str
  xDNS : List Str
  pIP : List Net
  xIP : List Net
  pEmail : List Str
  xEmail : List Str
  pURI : List Str
  xURI : List Str
  pPrin : List Str
  xPrin : List Str
  deriving Repr

def Engine.nPermitted (e : Engine) : Nat :=
  e.pCN.length + e.pDNS.length + e.pIP.length + e.pEmail.length + e.pURI.length + e.pPrin.length
def Engine.nExcluded (e : Engine) : Nat :=
  e.xCN.length + e.xDNS.length + e.xIP.length + e.xEmail.length + e.xURI.length + e.xPrin.length
def Engine.total (e : Engine) : Nat := e.nPermitted + e.nExcluded

structure DnsName where
  raw : Str
  /-- `idna.Lookup.ToASCII` of the name with a leading `*` cut off (`none` = error) -/
  idna : Option Str
  deriving Repr, DecidableEq

def checkDNS (e : Engine) (d : DnsName) : Option Fail :=
  if e.pDNS.length + e.xDNS.length = 0 && e.nPermitted > 0 then some (.deny .notAllowed .dns)
  else
    let cut := hasPrefix [42, 46] d.raw
    if cut && !e.allowWild then some (.deny .notAllowed .dns)
    else match d.idna with
    | none => some (.deny .cannotParseDomain .dns)
    | some a =>
      let parsed := if cut then 42 :: a else a
      if (reverseLabels parsed).isNone then some (.deny .cannotParseDomain .dns)
      else checkName .dns (matchDomain e.allowWild parsed) e.pDNS e.xDNS

def checkIP (e : Engine) (ip : Ip) : Option Fail :=
  if e.pIP.length + e.xIP.length = 0 && e.nPermitted > 0 then some (.deny .notAllowed .ip)
  else checkName .ip (matchIP ip) e.pIP e.xIP

structure EmailName where
  raw : Str
  /-- `idna.ToASCII` of the parsed mailbox domain (`none` = error; ignored when the mailbox does not parse) -/
  idna : Option Str
  deriving Repr, DecidableEq

def checkEmail (e : Engine) (m : EmailName) : Option Fail :=
  if e.pEmail.length + e.xEmail.length = 0 && e.nPermitted > 0 then some (.deny .notAllowed .email)
  else match parseMailbox m.raw with
    | none => some (.deny .cannotParseRFC822 .email)
    | some mb =>
      match m.idna with
      | none => some (.deny .cannotParseDomain .email)
      | some a => checkName .email (matchEmail e.allowWild { mb with domain := a }) e.pEmail e.xEmail

def checkURI (e : Engine) (u : Uri) : Option Fail :=
  if e.pURI.length + e.xURI.length = 0 && e.nPermitted > 0 then some (.deny .notAllowed .uri)
  else checkName .uri (matchURI e.allowWild u) e.pURI e.xURI

def checkPrincipal (e : Engine) (p : Str) : Option Fail :=
  if e.pPrin.length + e.xPrin.length = 0 && e.nPermitted > 0 then some (.deny .notAllowed .principal)
  else checkName .principal (matchPrincipal p) e.pPrin e.xPrin

/-- first error of a list of per-name checks -/
def firstErr {α : Type} (f : α → Option Fail) : List α → Option Fail
  | [] => none
  | a :: as => match f a with
    | some v => some v
    | none => firstErr f as

structure Names where
  dns : List DnsName := []
  ips : List Ip := []
  emails : List EmailName := []
  uris : List Uri := []
  principals : List Str := []
  deriving Repr

/-- `validateNames` -/
def validateNames (e : Engine) (n : Names) : Verdict :=
  if e.total = 0 then .allow
  else match firstErr (checkDNS e) n.dns with
  | some v => v.verdict
  | none => match firstErr (checkIP e) n.ips with
  | some v => v.verdict
  | none => match firstErr (checkEmail e) n.emails with
  | some v => v.verdict
  | none => match firstErr (checkURI e) n.uris with
  | some v => v.verdict
  | none => match firstErr (checkPrincipal e) n.principals with
  | some v => v.verdict
  | none => .allow

/-- the classification `x509util.SplitSANs([cn])` produced for a common name -/
inductive CnClass where
  | dns (d : DnsName) | ip (i : Ip) | email (m : EmailName) | uri (u : Uri)
  deriving Repr, DecidableEq

def CnClass.names : CnClass → Names
  | .dns d => { dns := [d] }
  | .ip i => { ips := [i] }
  | .email m => { emails := [m] }
  | .uri u => { uris := [u] }

def Verdict.asCN : Verdict → Verdict
  | .deny r _ => .deny r .cn
  | v => v

/-- `validateCommonName` -/
def validateCN (e : Engine) (cn : Str) (cls : CnClass) : Verdict :=
  if e.total = 0 then .allow
  else if cn.isEmpty then .allow
  else
    let direct : Bool :=
      e.pCN.length + e.xCN.length > 0 && (checkName .cn (matchCN cn) e.pCN e.xCN).isNone
    if direct then .allow
    else (validateNames e cls.names).asCN

/-- `IsX509CertificateAllowed` / `IsX509CertificateRequestAllowed` -/
def x509Allowed (e : Engine) (n : Names) (cn : Str) (cls : CnClass) : Verdict :=
  match validateNames e { n with principals := [] } with
  | .allow => if e.verifyCN then validateCN e cn cls else .allow
  | v => v

/-! ### rule normalisers (options.go) -/

/-- `strings.LastIndex(c, "*") > 0` -/
def lastStarPos (c : Str) : Bool := starAfterFirst c

/-- `normalizeAndValidateDNSDomainConstraint`; `idna` is the external
    `idna.Lookup.ToASCII` applied to the trimmed, lower-cased, wildcard-cut rule -/
def normDNS (raw : Str) (idna : Option Str) : Option Str :=
  let c := lower (trimSpace raw)
  if c.isEmpty then none
  else if containsSub [46, 46] c then none
  else if hasPrefix [46] c then none
  else if lastStarPos c then none
  else if c.length ≥ 2 && c.head? = some 42 && c.tail.head? ≠ some 46 then none
  else match idna with
    | none => none
    | some a => if (reverseLabels a).isSome then some a else none

/-- what `normDNS` hands to idna -/
def normDNSCut (raw : Str) : Str :=
  let c := lower (trimSpace raw)
  if hasPrefix [42, 46] c then c.tail else c

/-- `normalizeAndValidateEmailConstraint`. `idna` is `idna.Lookup.ToASCII` of the parsed
    mailbox domain (rule with `@`) or of the whole rule (domain rule). A rule that is only
    `@` indexes an empty string: `crash` (guarded by the `fix:` commit: rejected). -/
def normEmail (raw : Str) (idna : Option Str) : M (Option Str) :=
  let c := lower (trimSpace raw)
  if c.isEmpty then .val none
  else if has 42 c then .val none
  else if (c.filter (· = 64)).length > 1 then .val none
  else
    let c := if c.head? = some 64 then c.tail else c
    match c with
    | [] => .val none
    | c0 :: _ =>
      if c0 = 46 then .val none
      else
        let n : Option Str :=
          if has 64 c then
            match parseMailbox c with
            | none => none
            | some mb => idna.map fun a => mb.loc ++ 64 :: a
          else idna
        match n with
        | none => .val none
        | some n => .val (if (reverseLabels n).isSome then some n else none)

/-- `normalizeAndValidateURIDomainConstraint`. External: `splitOk` (`net.SplitHostPort`
    succeeded), `isIP` (`net.ParseIP` non-nil) and `idna`, all of the wildcard-cut rule. -/
def normURI (raw : Str) (splitOk isIP : Bool) (idna : Option Str) : Option Str :=
  let c := lower (trimSpace raw)
  if c.isEmpty then none
  else if containsSub [58, 47, 47] c then none
  else if containsSub [46, 46] c then none
  else if hasPrefix [46] c then none
  else if lastStarPos c then none
  else
    let c := if hasPrefix [42, 46] c then c.tail else c
    if has 91 c || has 93 c then none
    else if splitOk then none
    else if isIP then none
    else match idna with
      | none => none
      | some a => if (reverseLabels a).isSome then some a else none

/-- `normalizeAndValidateCommonName` -/
def normCN (raw : Str) : Option Str :=
  let c := lower (trimSpace raw)
  if c.isEmpty then none else if c = [42] then none else some c

end Verif.Policy

namespace Verif.Policy
open Verif Verif.Str

/-! ### `policy.New` with the `With…` options in the order `authority/policy` passes them -/

structure UriRule where
  raw : Str
  splitOk : Bool
  isIP : Bool
  idna : Option Str
  deriving Repr, DecidableEq

/-- raw configuration strings with the external results attached -/
structure RawRules where
  cn : List Str := []
  dns : List (Str × Option Str) := []
  ip : List (Option Net) := []       -- `none`: neither CIDR nor IP
  email : List (Str × Option Str) := []
  uri : List UriRule := []
  prin : List Str := []
  deriving Repr

/-- `X509NameOptions.HasNames` / `SSHNameOptions.HasNames`: a section without any rule has no engine -/
def RawRules.hasNames (r : RawRules) : Bool :=
  !(r.cn.isEmpty && r.dns.isEmpty && r.ip.isEmpty && r.email.isEmpty && r.uri.isEmpty && r.prin.isEmpty)

inductive Build (α : Type) where
  | ok (a : α) | bad | crash
  deriving Repr

def Build.bind {α β : Type} (x : Build α) (f : α → Build β) : Build β :=
  match x with
  | .ok a => f a
  | .bad => .bad
  | .crash => .crash

def optAll {α β : Type} (f : α → Option β) : List α → Build (List β)
  | [] => .ok []
  | a :: as => match f a with
    | none => .bad
    | some b => (optAll f as).bind fun bs => .ok (b :: bs)

def mAll {α β : Type} (f : α → M (Option β)) : List α → Build (List β)
  | [] => .ok []
  | a :: as => match f a with
    | .crash => .crash
    | .val none => .bad
    | .val (some b) => (mAll f as).bind fun bs => .ok (b :: bs)

structure NormRules where
  cn : List Str
  dns : List Str
  ip : List Net
  email : List Str
  uri : List Str
  prin : List Str

def normRules (r : RawRules) : Build NormRules :=
  (optAll normCN r.cn).bind fun cn =>
  (optAll (fun p => normDNS p.1 p.2) r.dns).bind fun dns =>
  (optAll id r.ip).bind fun ip =>
  (mAll (fun p => normEmail p.1 p.2) r.email).bind fun email =>
  (optAll (fun u => normURI u.raw u.splitOk u.isIP u.idna) r.uri).bind fun uri =>
  .ok ⟨cn, dns, ip, email, uri, r.prin⟩

/-- `policy.New(WithPermitted…(allow), WithExcluded…(deny), [wildcards], [commonName])` -/
def buildEngine (verifyCN allowWild : Bool) (allow deny : RawRules) : Build Engine :=
  (normRules allow).bind fun p =>
  (normRules deny).bind fun x =>
  .ok { verifyCN, allowWild,
        pCN := p.cn.eraseDups, xCN := x.cn.eraseDups,
        pDNS := p.dns.eraseDups, xDNS := x.dns.eraseDups,
        pIP := p.ip.eraseDups, xIP := x.ip.eraseDups,
        pEmail := p.email.eraseDups, xEmail := x.email.eraseDups,
        pURI := p.uri.eraseDups, xURI := x.uri.eraseDups,
        pPrin := p.prin.eraseDups, xPrin := x.prin.eraseDups }

/-! ### SSH: `splitSSHPrincipals` + `IsSSHCertificateAllowed` -/

inductive SshOut where
  | verdict (v : Verdict)
  | splitErr
  deriving Repr, DecidableEq

/-- `n` holds the `SplitSANs` classification of the certificate's principals
    (`n.dns` = everything that is not an IP, URI or e-mail). -/
def sshAllowed (e : Engine) (host : Bool) (n : Names) (dnsAsPrincipals : List Str) : SshOut :=
  if host then
    if !n.uris.isEmpty then .splitErr
    else .verdict (validateNames e { n with uris := [], principals := [] })
  else
    if !n.uris.isEmpty then .splitErr
    else if !n.ips.isEmpty then .splitErr
    else .verdict (validateNames e { dns := [], ips := n.ips, emails := n.emails, uris := [], principals := dnsAsPrincipals })

/-- The two SSH sections of a policy (`authority/policy.Engine.IsSSHCertificateAllowed`, and the provisioner-level
    `sshNamePolicyValidator.Valid`): `own` is the engine of the section for the certificate's type, `other` the one for
    the other type; an engine exists for a section iff the section has names. No section at all allows everything; a
    policy with only the other type's section refuses every certificate of this type; otherwise the own section
    decides. -/
def sshDispatch (own other : Option Engine) (host : Bool) (n : Names) (dnsAsPrincipals : List Str) : SshOut :=
  match own, other with
  | none, none => .verdict .allow
  | none, some _ => .verdict (.deny .notAllowed .principal)
  | some e, _ => sshAllowed e host n dnsAsPrincipals

end Verif.Policy
