import Verif.Model.Common
import Verif.Model.Policy
/-!
  Model of ACME external account binding (C20).

  Go code modelled (read line by line; /repo = smallstep/certificates):

  * `acme/api/eab.go`     `validateEABJWS`                      → `validateEABJWS`
  * `acme/api/eab.go`     `validateExternalAccountBinding`      → `validateEAB`
                          `keysAreEqual`                         (thumbprint equality, an input)
  * `acme/account.go`     `ExternalAccountKey.AlreadyBound`     → field `bound`
                          `ExternalAccountKey.BindTo`           → `bindTo`
  * `acme/api/account.go` `NewAccount` (after the middleware)   → `step` (the store-visible steps; since 1f3b0b9 a
                                                                   failed key update deactivates the stored account)
  * `acme/db/nosql/eab.go` `GetExternalAccountKey`,
                          `UpdateExternalAccountKey`            → `getKey` + provisioner test, `updateKey`
  * `acme/db/nosql/account.go` `CreateAccount`                  → the `.validated` step
  * `acme/api/order.go`   `NewOrder` (account-level policy gate only),
                          `newACMEPolicyEngine`, `isIdentifierAllowed` → `keyOfAccount`, `orderGate`
                          (the engine itself is the C04 model `Verif.Policy`)

  Everything that is a string in Go and is only ever compared for equality (key ids, provisioner
  ids, account ids, JWK thumbprints, URLs) is a `Nat` here; `0` stands for the empty string.

  External calls are inputs (DESIGN §4): `jose.ParseJWS` of the re-marshalled binding
  (`bindingParses`, `nsigs`, header members), HMAC verification of the binding under the secret
  that was issued for the key it names (`macOk`), JSON decoding of the binding payload into a JWK
  and its RFC 7638 thumbprint (`payloadKey`), JSON decoding of the new-account payload (`payloadOk`).

  Atomicity: one `step` is one store access of the handler as written —
  `start`      : account-by-key lookup (middleware `extractJWK`) and `GetExternalAccountKey`
                 (both are reads; the binding checks between them are local),
  `validated`  : `CreateAccount` (compare-and-swap on the key-id index, then the account record
                 under a fresh random id),
  `created`    : `BindTo` on the request's private copy, then `UpdateExternalAccountKey`
                 (under `externalAccountKeyMutex`: re-read, provisioner tests, **refusal when the re-read
                 record is already bound to another account** (commit 1f3b0b9), compare-and-swap from the
                 value just read),
  `undo`       : after a failed key update `NewAccount` sets the account it has just stored to
                 `deactivated` (`db.UpdateAccount`, commit 1f3b0b9) and answers the error.

  Account ids are fresh random strings: the id a request has just been given is never the id an
  already bound key names, so `old.AccountID != eak.AccountID` is `true` whenever `old` is bound.
-/
namespace Verif.EAB

/-- ACME problem types that `NewAccount` can answer with. -/
inductive Err where
  | malformed | externalAccountRequired | unauthorized | serverInternal | accountDoesNotExist
  deriving DecidableEq, Repr

/-- `acme.ExternalAccountKey` / `dbExternalAccountKey` (reference and timestamps other than
    "BoundAt is non-zero" play no role in any decision). -/
structure EKey where
  id : Nat
  prov : Nat
  hasSecret : Bool      -- len(HmacKey) ≠ 0
  bound : Bool          -- !BoundAt.IsZero()
  account : Nat         -- AccountID, 0 = ""
  deriving DecidableEq, Repr

/-- The facts about the inner (binding) JWS the code looks at. -/
structure Binding where
  nsigs : Nat
  algMac : Bool             -- protected alg ∈ {HS256, HS384, HS512}
  kid : Nat                 -- protected kid, 0 = ""
  hasNonce : Bool           -- protected nonce ≠ ""
  url : Option Nat          -- protected ExtraHeaders["url"], none = absent
  macOk : Bool              -- eabJWS.Verify(secret issued for the key named by kid) succeeds
  payloadKey : Option Nat   -- thumbprint of the JWK in the payload; none = payload does not decode to a JWK
  deriving DecidableEq, Repr

/-- One new-account request that got through the JWS middleware (C12) with an embedded key. -/
structure Req where
  prov : Nat                -- id of the provisioner in the request URL
  requireEAB : Bool         -- that provisioner's RequireEAB
  outerKey : Nat            -- thumbprint of the outer JWS's embedded key
  outerUrl : Nat            -- outer protected "url"
  payloadOk : Bool          -- payload decodes and NewAccountRequest.Validate passes
  onlyExisting : Bool       -- onlyReturnExisting
  binding : Option Binding  -- externalAccountBinding member
  bindingParses : Bool      -- jose.ParseJWS(json.Marshal(binding)) succeeds
  deriving DecidableEq, Repr

structure State where
  keys : List EKey
  accts : List (Nat × Nat)  -- (account id, account key thumbprint); the key-id index is `accts.map (·.2)`
  next : Nat                -- stands for the fresh random account id
  via : List (Nat × Nat) := []   -- ghost: (account id, id of the key it was stored for; 0 = none)
  dead : List Nat := []          -- accounts whose status is `deactivated`
  deriving DecidableEq, Repr

/-- `created acc via`: 201 for account `acc`; `via` is the binding key that was bound (0 = none). -/
inductive Resp where
  | err (e : Err)
  | existing (acc : Nat)
  | created (acc : Nat) (via : Nat)
  deriving DecidableEq, Repr

/-- first record with this id (`db.Get(externalAccountKeyTable, id)`) -/
def findKey : List EKey → Nat → Option EKey
  | [], _ => none
  | k :: ks, id => if k.id = id then some k else findKey ks id

def getKey (st : State) (id : Nat) : Option EKey := findKey st.keys id

def acctOfKey (st : State) (thumb : Nat) : Option Nat := (st.accts.find? (·.2 == thumb)).map (·.1)

/-- `validateEABJWS`: returns the key id. -/
def validateEABJWS (outerUrl : Nat) (b : Binding) : Except Err Nat :=
  if b.nsigs ≠ 1 then .error .malformed
  else if !b.algMac then .error .malformed
  else if b.kid = 0 then .error .malformed
  else if b.hasNonce then .error .malformed
  else match b.url with
    | none => .error .malformed
    | some u => if u ≠ outerUrl then .error .malformed else .ok b.kid

/-- `validateExternalAccountBinding`. `ok none` = the provisioner does not require a binding. -/
def validateEAB (st : State) (r : Req) : Except Err (Option EKey) :=
  if !r.requireEAB then .ok none
  else match r.binding with
    | none => .error .externalAccountRequired
    | some b =>
      if !r.bindingParses then .error .serverInternal
      else match validateEABJWS r.outerUrl b with
        | .error e => .error e
        | .ok kid =>
          match getKey st kid with
          | none => .error .serverInternal          -- acme.ErrNotFound is not an *acme.Error
          | some k =>
            if k.prov ≠ r.prov then .error .unauthorized
            else if !k.hasSecret then .error .serverInternal
            else if k.bound then .error .unauthorized
            else if !b.macOk then .error .serverInternal
            else match b.payloadKey with
              | none => .error .malformed
              | some pk => if pk ≠ r.outerKey then .error .unauthorized else .ok (some k)

/-- `BindTo` (on a copy whose `bound` is false). -/
def bindTo (k : EKey) (acc : Nat) : EKey := { k with account := acc, bound := true, hasSecret := false }

/-- the write of `UpdateExternalAccountKey`: every record with this id is replaced -/
def setKey : List EKey → EKey → List EKey
  | [], _ => []
  | k :: ks, nu => (if k.id = nu.id then nu else k) :: setKey ks nu

/-- Where a request is in `NewAccount`. The payload of `validated`/`created` is the request's
    private copy of the key as `GetExternalAccountKey` returned it. -/
inductive Pc where
  | start
  | validated (k : Option EKey)
  | created (k : EKey) (acc : Nat)
  | undo (acc : Nat) (e : Err)        -- the key update failed: the stored account is to be deactivated
  | done (r : Resp)
  deriving DecidableEq, Repr

structure Thread where
  req : Req
  pc : Pc
  deriving DecidableEq, Repr

/-- state after `CreateAccount` succeeded for a key with this thumbprint, on behalf of binding key `kid` -/
def addAcct (st : State) (thumb kid : Nat) : State :=
  { st with accts := st.accts ++ [(st.next, thumb)], next := st.next + 1, via := st.via ++ [(st.next, kid)] }

/-- first step: payload checks, account-by-key lookup (`extractJWK`: a deactivated account ⇒ 401),
    `validateExternalAccountBinding` (reads only).
    `inl` = the request is answered, `inr k` = go on to `CreateAccount` holding the key copy `k`. -/
def stepStart (st : State) (r : Req) : Resp ⊕ Option EKey :=
  if !r.payloadOk then .inl (.err .malformed)
  else match acctOfKey st r.outerKey with
    | some a => if st.dead.contains a then .inl (.err .unauthorized) else .inl (.existing a)
    | none =>
      if r.onlyExisting then .inl (.err .accountDoesNotExist)
      else match validateEAB st r with
        | .error e => .inl (.err e)
        | .ok k => .inr k

/-- second step: `CreateAccount`; CmpAndSwap(index[thumb], nil, id) fails when the index entry exists -/
def stepCreate (st : State) (r : Req) (k : Option EKey) : State × (Resp ⊕ (EKey × Nat)) :=
  match acctOfKey st r.outerKey with
  | some _ => (st, .inl (.err .serverInternal))
  | none =>
    match k with
    | none => (addAcct st r.outerKey 0, .inl (.created st.next 0))
    | some k => (addAcct st r.outerKey k.id, .inr (k, st.next))

/-- third step: `BindTo` on the private copy, then `UpdateExternalAccountKey` (re-read, provisioner
    tests, refusal when the record is bound by now, compare-and-swap from the value just read).
    `inl` = answered, `inr (acc, e)` = the update failed with `e`: go on to deactivate `acc`. -/
def stepUpdate (st : State) (r : Req) (k : EKey) (acc : Nat) : State × (Resp ⊕ (Nat × Err)) :=
  if k.bound then (st, .inl (.err .unauthorized))   -- BindTo refuses (no update, no deactivation)
  else
    match getKey st k.id with
    | none => (st, .inr (acc, .serverInternal))
    | some old =>
      if old.prov ≠ r.prov then (st, .inr (acc, .serverInternal))
      else if old.prov ≠ k.prov then (st, .inr (acc, .serverInternal))
      else if old.bound then (st, .inr (acc, .unauthorized))        -- bound to another account by now
      else ({ st with keys := setKey st.keys (bindTo k acc) }, .inl (.created acc k.id))

/-- fourth step, only after a failed key update: the account just stored is deactivated -/
def stepUndo (st : State) (acc : Nat) (e : Err) : State × Resp :=
  ({ st with dead := acc :: st.dead }, .err e)

/-- One store-visible step of one request. -/
def step (st : State) (t : Thread) : State × Thread :=
  match t.pc with
  | .start =>
    match stepStart st t.req with
    | .inl x => (st, { t with pc := .done x })
    | .inr k => (st, { t with pc := .validated k })
  | .validated k =>
    match stepCreate st t.req k with
    | (s, .inl x) => (s, { t with pc := .done x })
    | (s, .inr (k, acc)) => (s, { t with pc := .created k acc })
  | .created k acc =>
    match stepUpdate st t.req k acc with
    | (s, .inl x) => (s, { t with pc := .done x })
    | (s, .inr (a, e)) => (s, { t with pc := .undo a e })
  | .undo acc e =>
    match stepUndo st acc e with
    | (s, x) => (s, { t with pc := .done x })
  | .done _ => (st, t)

def Thread.resp (t : Thread) : Option Resp := match t.pc with | .done r => some r | _ => none

/-- A request run alone (its steps back to back). -/
def handle (st : State) (r : Req) : State × Resp :=
  match stepStart st r with
  | .inl x => (st, x)
  | .inr k =>
    match stepCreate st r k with
    | (s, .inl x) => (s, x)
    | (s, .inr (k, acc)) =>
      match stepUpdate s r k acc with
      | (s', .inl x) => (s', x)
      | (s', .inr (a, e)) => stepUndo s' a e

/-- A sequential history. -/
def runHist (st : State) : List Req → State × List Resp
  | [] => (st, [])
  | r :: rs =>
    let (s1, x) := handle st r
    let (s2, xs) := runHist s1 rs
    (s2, x :: xs)

/-! ### interleavings -/

def setAt {α : Type} (l : List α) (i : Nat) (a : α) : List α :=
  match l, i with
  | [], _ => []
  | _ :: xs, 0 => a :: xs
  | x :: xs, i + 1 => x :: setAt xs i a

/-- Run a schedule: each entry names the thread that takes its next step (a finished or
    non-existent thread makes no move). -/
def runSched (st : State) (ts : List Thread) : List Nat → State × List Thread
  | [] => (st, ts)
  | i :: sched =>
    match ts[i]? with
    | none => runSched st ts sched
    | some t =>
      let (st', t') := step st t
      runSched st' (setAt ts i t') sched

/-- accounts created with key `k` bound, among a list of responses -/
def countVia (k : Nat) : List Resp → Nat
  | [] => 0
  | .created _ v :: xs => (if v = k then 1 else 0) + countVia k xs
  | _ :: xs => countVia k xs

def threadResps (ts : List Thread) : List Resp := ts.filterMap Thread.resp

/-! ### the policy attached to a binding key limits the orders of the account bound to it

  `NewOrder`: under a provisioner with RequireEAB the key bound to the account is looked up
  (`GetExternalAccountKeyByAccountID`), a name-policy engine is built from the key's policy
  (`newACMEPolicyEngine` → `authority/policy.NewX509PolicyEngine`: no key, no policy or a policy
  without names ⇒ no engine), and **every identifier value, untrimmed** (`*.x` stays `*.x`), goes
  through `AreSANsAllowed` on its own before the provisioner's and the authority's policies are asked.
  The engine and its verdicts are the C04 model. -/

/-- `GetExternalAccountKeyByAccountID` as a deployment with account policies answers it: the key of
    this provisioner that is bound to the account -/
def keyOfAccount (st : State) (prov acc : Nat) : Option EKey :=
  st.keys.find? fun k => k.prov == prov && k.bound && k.account == acc

inductive OrderGate where
  | pass                      -- on to the provisioner / authority policies and order creation
  | rejected                  -- 400 rejectedIdentifier
  | engineError               -- 500: the key's policy does not build an engine
  | crash
  deriving DecidableEq, Repr

/-- the identifiers one after the other; each is the `Names` that `SplitSANs` makes of the one value -/
def allAllowed (e : Policy.Engine) : List Policy.Names → OrderGate
  | [] => .pass
  | n :: ns =>
    match Policy.validateNames e n with
    | .allow => allAllowed e ns
    | .deny _ _ => .rejected
    | .crash => .crash

/-- `pol k` = what `NewX509PolicyEngine(k.Policy)` gives: `none` no engine, `some (.ok e)` engine `e`,
    `some .bad` / `some .crash` the policy's rules are not accepted -/
def orderGate (st : State) (requireEAB : Bool) (prov acc : Nat)
    (pol : Nat → Option (Policy.Build Policy.Engine)) (idents : List Policy.Names) : OrderGate :=
  if !requireEAB then .pass
  else match keyOfAccount st prov acc with
    | none => .pass
    | some k =>
      match pol k.id with
      | none => .pass
      | some .bad => .engineError
      | some .crash => .crash
      | some (.ok e) => allAllowed e idents

/-! ### the store calls behind each step, in source order

  Re-derived from the source with go/ast on every run (stage `order` of the C20 harness) and compared
  with this table by the driver: the calls on `db` (and `BindTo`) that `extractJWK`,
  `validateExternalAccountBinding` and `NewAccount` make, in the order they appear. The step model
  above groups them as `start` = the two reads, `validated` = `CreateAccount`, `created` = `BindTo` +
  `UpdateExternalAccountKey`, `undo` = `UpdateAccount` (only after a failed key update); a call added, removed or moved makes the stage disagree. -/

def callsExtractJWK : List String := ["db.GetAccountByKeyID"]
def callsValidateEAB : List String := ["db.GetExternalAccountKey"]
def callsNewAccount : List String :=
  ["validateExternalAccountBinding", "db.CreateAccount", "eak.BindTo", "db.UpdateExternalAccountKey", "db.UpdateAccount"]

/-- the calls of one request in program order, by step -/
def stepCalls : List (String × List String) :=
  [("start", callsExtractJWK ++ callsValidateEAB), ("validated", ["db.CreateAccount"]),
   ("created", ["eak.BindTo", "db.UpdateExternalAccountKey"]), ("undo", ["db.UpdateAccount"])]

/-! ### an ACME provisioner on its way from the configuration file to the admin database and back

  `authority/provisioners.go`: `ProvisionerToLinkedca` (ACME case; used by the one-time migration of
  the `ca.json` provisioners when remote management is first enabled, and by export) and
  `ProvisionerToCertificates` (ACME case; every load from the admin database), with
  `challengesToLinkedca/ToCertificates` and `attestationFormatsToLinkedca/ToCertificates`. After the
  migration the authority serves `migrate p`, never `p` again. Strings are numbers; the attestation
  roots are one opaque value; claims and template options are not modelled (C06/C03). -/

inductive Challenge where
  | http01 | dns01 | tlsAlpn01 | deviceAttest01 | wireOidc01 | wireDpop01
  deriving DecidableEq, Repr

inductive AttFormat where | apple | step | tpm
  deriving DecidableEq, Repr

/-- `provisioner.ACME` (the fields the ACME handlers decide on) -/
structure AcmeProv where
  requireEAB : Bool
  forceCN : Bool
  termsOfService : Nat
  website : Nat
  caaIdentities : List Nat
  challenges : List Challenge
  formats : List AttFormat
  roots : Nat
  deriving DecidableEq, Repr

/-- `linkedca.ACMEProvisioner`: its challenge enumeration has the four standard types only -/
structure LinkedAcme where
  requireEab : Bool
  forceCn : Bool
  termsOfService : Nat
  website : Nat
  caaIdentities : List Nat
  challenges : List Challenge      -- never a wire challenge
  formats : List AttFormat
  roots : Nat
  deriving DecidableEq, Repr

def isWire : Challenge → Bool
  | .wireOidc01 | .wireDpop01 => true
  | _ => false

/-- `ProvisionerToLinkedca`, ACME case (`challengesToLinkedca` has no case for the wire challenges) -/
def toLinked (p : AcmeProv) : LinkedAcme :=
  { requireEab := p.requireEAB, forceCn := p.forceCN, termsOfService := p.termsOfService, website := p.website,
    caaIdentities := p.caaIdentities, challenges := p.challenges.filter (fun c => !isWire c),
    formats := p.formats, roots := p.roots }

/-- `ProvisionerToCertificates`, ACME case -/
def toCert (l : LinkedAcme) : AcmeProv :=
  { requireEAB := l.requireEab, forceCN := l.forceCn, termsOfService := l.termsOfService, website := l.website,
    caaIdentities := l.caaIdentities, challenges := l.challenges.filter (fun c => !isWire c),
    formats := l.formats, roots := l.roots }

/-- what the authority serves after the migration -/
def migrate (p : AcmeProv) : AcmeProv := toCert (toLinked p)

/-! ### the authority's provisioner collection (`authority/provisioner/collection.go`)

  What the ACME handlers see of a provisioner comes from `Authority.LoadProvisionerByName` (the linker
  middleware resolves `{provisionerID}` of the URL by NAME), while the admin API addresses provisioners by id.
  `Collection` keeps one index per key: byID, byName, byTokenID (plus byKey and the sorted list for paging, which
  no ACME decision reads). `Store` = LoadOrStore on each index, undone when a later one is taken; `Remove` deletes
  the provisioner found by id from every index under ITS keys; `Update` = the two uniqueness tests, then Remove(old)
  and Store(nu). The clause of C20 that hangs on it: after an administrator turns `requireEAB` on (or creates,
  renames, removes a provisioner), the very next new-account under that name is decided on the new object. -/

structure CProv where
  id : Nat
  name : Nat
  tok : Nat          -- GetIDForToken(): "acme/" + name for an ACME provisioner
  eab : Bool
  deriving DecidableEq, Repr

abbrev Idx := List (Nat × CProv)

def Idx.look : Idx → Nat → Option CProv
  | [], _ => none
  | (k, p) :: rest, q => if k = q then some p else Idx.look rest q

def Idx.del : Idx → Nat → Idx
  | [], _ => []
  | (k, p) :: rest, q => if k = q then Idx.del rest q else (k, p) :: Idx.del rest q

structure Coll where
  byID : Idx
  byName : Idx
  byTok : Idx
  deriving DecidableEq, Repr

def Coll.empty : Coll := ⟨[], [], []⟩

/-- `Collection.Store`; `none` = refused (400), the collection is unchanged -/
def Coll.store (c : Coll) (p : CProv) : Option Coll :=
  if (c.byID.look p.id).isSome then none
  else if (c.byName.look p.name).isSome then none
  else if (c.byTok.look p.tok).isSome then none
  else some ⟨(p.id, p) :: c.byID, (p.name, p) :: c.byName, (p.tok, p) :: c.byTok⟩

/-- `Collection.Remove` -/
def Coll.remove (c : Coll) (id : Nat) : Option Coll :=
  match c.byID.look id with
  | none => none
  | some p => some ⟨c.byID.del id, c.byName.del p.name, c.byTok.del p.tok⟩

/-- `Collection.Update` -/
def Coll.update (c : Coll) (nu : CProv) : Option Coll :=
  match c.byID.look nu.id with
  | none => none
  | some old =>
    if old.name ≠ nu.name ∧ (c.byName.look nu.name).isSome then none
    else if old.tok ≠ nu.tok ∧ (c.byTok.look nu.tok).isSome then none
    else (c.remove old.id).bind (·.store nu)

/-- what the linker middleware hands to the ACME handlers for a name in the URL -/
def Coll.servedEAB (c : Coll) (name : Nat) : Option Bool := (c.byName.look name).map (·.eab)

inductive CollOp where
  | store (p : CProv)
  | update (p : CProv)
  | remove (id : Nat)
  deriving DecidableEq, Repr

/-- an operation that is refused leaves the collection as it was (the authority reports the error) -/
def Coll.apply (c : Coll) : CollOp → Coll
  | .store p => (c.store p).getD c
  | .update p => (c.update p).getD c
  | .remove id => (c.remove id).getD c

def Coll.run (c : Coll) (ops : List CollOp) : Coll := ops.foldl Coll.apply c

end Verif.EAB
