import Verif.Model.Common
/-!
  C06 — model of the validity arithmetic of /repo (core Lean only).

  Conventions
  * An X.509 instant is an `Int`: nanoseconds since Go's zero time (0001-01-01T00:00:00Z), so
    `Time.IsZero t ↔ t = 0`, `t.Truncate(time.Second) = trunc t` (floor), and `Time.Add` is integer
    addition (Go's `addSec` saturation needs |seconds| ≈ 2^63, unreachable from RFC 3339 years
    0000–9999 plus an int64 nanosecond duration).  `Time.Sub` saturates to int64 (`tsub`).
  * A `time.Duration` is an `Int` inside the int64 range; `+`, `-`, unary minus on durations wrap
    (`wrap64`), exactly as Go's int64 arithmetic does.
  * SSH timestamps (`ssh.Certificate.ValidAfter/ValidBefore`, Go `uint64`) are `BitVec 64`;
    `cast.Uint64`, `cast.Int64` (internal/cast/cast.go) are partial: failure is `Out.crash`
    (the Go functions panic); `cast.SafeUint64` returns an error instead (`safeU64`).  `time.Duration(x) * time.Second` is a wrapping 64-bit multiply.
  * `time.Unix(sec, 0)` / `Time.After` / `Time.Add` / `Time.Unix` on the values the SSH limit
    modifier builds from arbitrary uint64 input are modelled on Go's internal representation
    (`GTime`: int64 seconds since year 1 + nanoseconds), including the wrap in `time.Unix` and
    the saturation in `addSec`.
  * `now` is an input (authority/provisioner/timeduration.go `var now`, pinned by the harness);
    `validityValidator` reads `time.Now()` itself: separate input `vnow`.

  Go functions modelled (all in /repo/authority/provisioner unless noted):
    claims.go        Claimer.{Min,Max,Default}{TLS,UserSSH,HostSSH}CertDuration, Claimer.Claims
                     (duration part), Claimer.Validate, DefaultSSHCertDuration
    timeduration.go  TimeDuration.IsZero, RelativeTime, timeOr
    sign_options.go  profileDefaultDuration.Modify, profileLimitDuration.Modify,
                     validityValidator.Valid
    sign_ssh_options.go  (as of fix commits fffcedb, 1fe6db7) SignSSHOptions.ModifyValidity, sshCertValidAfterModifier,
                     sshCertValidBeforeModifier, sshDefaultDuration.Modify, sshLimitDuration.Modify,
                     sshCertValidityValidator.Valid, sshCertDefaultValidator.Valid (validity cases)
    jwk.go/x5c.go/nebula.go  the `cast.SafeUint64(opts.ValidAfter.RelativeTime(t).Unix())` token modifiers
    authority/tls.go  Sign (lifetime), renewContext (duration, lifetime)
    cas/softcas/softcas.go  CreateCertificate / RenewCertificate date arithmetic (+ DER second precision)
    go.step.sm/crypto sshutil.toValidity (template validAfter/validBefore → uint64, `templateValidity`)
    authority/ssh.go  renewSSH / rekeySSH date arithmetic
    api/ssh.go identityModifier, api/sshRenew.go + api/sshRekey.go renewIdentityCertificate (`identityRenew`)
    authority/provisioners.go claimsToLinkedca / claimsToCertificates (`migrateClaims`)
    controller.go DefaultAuthorizeSSHRenew / sshpop.go authorizeToken validity gate (`renewGate`)
    acme/api/order.go NewOrder date defaulting; acme/order.go Finalize pass-through
-/
namespace Verif.Validity

/-! ## Go primitives -/

def second : Int := 1000000000
def day : Int := 86400 * 1000000000
def maxI64 : Int := 9223372036854775807
def minI64 : Int := -9223372036854775808
/-- seconds between year 1 and 1970 (`unixToInternal`) -/
def unixToInternal : Int := 62135596800

/-- two's-complement wrap into int64 -/
def wrap64 (x : Int) : Int := (x + 9223372036854775808) % 18446744073709551616 - 9223372036854775808

/-- `Time.Truncate(time.Second)`: floor to a whole second (Go's `div` rounds toward −∞). -/
def trunc (t : Int) : Int := t / second * second

/-- `Time.Sub`: saturating int64 nanoseconds -/
def tsub (a b : Int) : Int :=
  let d := a - b
  if d > maxI64 then maxI64 else if d < minI64 then minI64 else d

/-- `Time.Unix()` of a flat instant -/
def unixOf (t : Int) : Int := t / second - unixToInternal

/-- Result of a modifier / validator chain: value, refusal (an error is returned), or Go panic. -/
inductive Rej where
  | credNotBefore | credNotAfter            -- profileLimitDuration / sshLimitDuration
  | past | naBeforeNb | tooShort | tooLong   -- validityValidator, sshCertValidityValidator
  | lifetime0 | encode                       -- softcas / x509.CreateCertificate
  | afterGtBefore | mvEpoch                  -- ModifyValidity
  | tokEpoch                                 -- JWK / X5C / Nebula AuthorizeSSHSign (token options)
  | badType | typeUnset | typeUnknown | vaZero | vbBeforeVa
  | dvaZero | dpast | dvbBeforeVa | dbadType -- sshCertDefaultValidator
  | noValidity | renewPeriod | renewShort    -- renewSSH / rekeySSH (sshCertificateDuration); renew: duration ≤ backdate
  deriving Repr, DecidableEq

inductive Out (α : Type) where
  | ok : α → Out α
  | rej : Rej → Out α
  | crash : Out α
  deriving Repr, DecidableEq

instance : Monad Out where
  pure := .ok
  bind x f := match x with
    | .ok a => f a
    | .rej r => .rej r
    | .crash => .crash

abbrev U64 := BitVec 64

/-- `cast.Uint64(x)` for an int64 `x`: panics when negative. -/
def castU64 (x : Int) : Out U64 := if x < 0 then .crash else .ok (BitVec.ofInt 64 x)

/-- `cast.SafeUint64(x)` for an int64 `x`: an error (answered with refusal `r`) when negative. -/
def safeU64 (x : Int) (r : Rej) : Out U64 := if x < 0 then .rej r else .ok (BitVec.ofInt 64 x)

/-- `cast.Int64(x)` for a uint64 `x`: panics above MaxInt64. -/
def castI64 (x : U64) : Out Int := if x.toNat ≥ 9223372036854775808 then .crash else .ok (x.toNat : Int)

/-! ## timeduration.go -/

/-- `TimeDuration{t, d}` -/
structure TD where
  t : Int := 0
  d : Int := 0
  deriving Repr, DecidableEq

def TD.isZero (x : TD) : Bool := x.t == 0 && x.d == 0

/-- `TimeDuration.RelativeTime(base)` -/
def relativeTime (base : Int) (x : TD) : Int :=
  if x.t = 0 then (if x.d = 0 then 0 else base + x.d) else x.t

/-- `timeOr(a, b)` -/
def timeOr (a b : Int) : Int := if a ≠ 0 then a else if b ≠ 0 then b else 0

/-! ## claims.go -/

/-- `Claims` duration pointers (`none` = nil). -/
structure Claims where
  minTLS : Option Int := none
  maxTLS : Option Int := none
  defTLS : Option Int := none
  minUser : Option Int := none
  maxUser : Option Int := none
  defUser : Option Int := none
  minHost : Option Int := none
  maxHost : Option Int := none
  defHost : Option Int := none
  deriving Repr, DecidableEq

/-- Claims with every pointer set: `config.GlobalProvisionerClaims`, or the result of `Claimer.Claims()`. -/
structure Full where
  minTLS : Int
  maxTLS : Int
  defTLS : Int
  minUser : Int
  maxUser : Int
  defUser : Int
  minHost : Int
  maxHost : Int
  defHost : Int
  deriving Repr, DecidableEq

structure Claimer where
  global : Full
  claims : Option Claims
  deriving Repr, DecidableEq

/-- `Default…Duration`: provisioner value, else global. -/
def pickDef (own : Option Int) (g : Int) : Int := own.getD g

/-- `Min…Duration`: provisioner value; else a provisioner default below the global minimum; else global. -/
def pickMin (own ownDef : Option Int) (g : Int) : Int :=
  match own with
  | some m => m
  | none => match ownDef with
    | some d => if d < g then d else g
    | none => g

/-- `Max…Duration`: provisioner value; else a provisioner default above the global maximum; else global. -/
def pickMax (own ownDef : Option Int) (g : Int) : Int :=
  match own with
  | some m => m
  | none => match ownDef with
    | some d => if d > g then d else g
    | none => g

def Claimer.own (c : Claimer) : Claims := c.claims.getD {}

def Claimer.defTLS (c : Claimer) : Int := pickDef c.own.defTLS c.global.defTLS
def Claimer.minTLS (c : Claimer) : Int := pickMin c.own.minTLS c.own.defTLS c.global.minTLS
def Claimer.maxTLS (c : Claimer) : Int := pickMax c.own.maxTLS c.own.defTLS c.global.maxTLS
def Claimer.defUser (c : Claimer) : Int := pickDef c.own.defUser c.global.defUser
def Claimer.minUser (c : Claimer) : Int := pickMin c.own.minUser c.own.defUser c.global.minUser
def Claimer.maxUser (c : Claimer) : Int := pickMax c.own.maxUser c.own.defUser c.global.maxUser
def Claimer.defHost (c : Claimer) : Int := pickDef c.own.defHost c.global.defHost
def Claimer.minHost (c : Claimer) : Int := pickMin c.own.minHost c.own.defHost c.global.minHost
def Claimer.maxHost (c : Claimer) : Int := pickMax c.own.maxHost c.own.defHost c.global.maxHost

/-- `Claimer.Claims()` (durations only) -/
def Claimer.merged (c : Claimer) : Full :=
  { minTLS := c.minTLS, maxTLS := c.maxTLS, defTLS := c.defTLS,
    minUser := c.minUser, maxUser := c.maxUser, defUser := c.defUser,
    minHost := c.minHost, maxHost := c.maxHost, defHost := c.defHost }

/-- `Claimer.Validate() == nil` -/
def Claimer.validate (c : Claimer) : Bool :=
  let mn := c.minTLS; let mx := c.maxTLS; let df := c.defTLS
  if mn ≤ 0 then false
  else if mx ≤ 0 then false
  else if df ≤ 0 then false
  else if mx < mn then false
  else if df < mn then false
  else if mx < df then false
  else true

/-- `config.GlobalProvisionerClaims` (authority/config/config.go) -/
def hardcoded : Full :=
  { minTLS := 300 * second, maxTLS := day, defTLS := day,
    minUser := 300 * second, maxUser := day, defUser := 16 * 3600 * second,
    minHost := 300 * second, maxHost := 30 * day, defHost := 30 * day }

/-- authority/provisioners.go generateProvisionerConfig + provisioner Controller init: the authority
    claims are merged over the hard-coded ones and validated, the result is the `global` of every
    provisioner's Claimer, which is validated again.  `none` = initialisation fails. -/
def effective (auth prov : Option Claims) : Option Claimer :=
  let a : Claimer := ⟨hardcoded, auth⟩
  if a.validate then
    let p : Claimer := ⟨a.merged, prov⟩
    if p.validate then some p else none
  else none

/-- SSH certificate types -/
def userCert : Nat := 1
def hostCert : Nat := 2

/-- `Claimer.DefaultSSHCertDuration(certType)`; `none` = error -/
def Claimer.defSSH (c : Claimer) (ctype : Nat) : Option Int :=
  if ctype = userCert then some c.defUser else if ctype = hostCert then some c.defHost else none

/-! ## sign_options.go (X.509) -/

/-- the two fields of `x509.Certificate` the modifiers touch -/
structure Cert where
  nb : Int
  na : Int
  deriving Repr, DecidableEq

/-- `SignOptions` (validity part) -/
structure SignOpts where
  nb : TD := {}
  na : TD := {}
  backdate : Int := 0
  deriving Repr, DecidableEq

/-- `DefaultCertValidity` -/
def defaultCertValidity : Int := day

/-- `profileDefaultDuration(v).Modify(cert, so)` (never fails) -/
def profileDefault (v now : Int) (c : Cert) (so : SignOpts) : Cert :=
  let nb0 := timeOr (relativeTime now so.nb) c.nb
  let nb1 := if nb0 = 0 then now else nb0
  let bd := if nb0 = 0 then wrap64 (-1 * so.backdate) else 0
  let na0 := timeOr (relativeTime nb1 so.na) c.na
  let na1 := if na0 = 0 then (if v ≠ 0 then nb1 + v else nb1 + defaultCertValidity) else na0
  ⟨nb1 + bd, na1⟩

/-- `profileLimitDuration{def, notBefore, notAfter}.Modify(cert, so)` -/
def profileLimit (dflt lnb lna now : Int) (c : Cert) (so : SignOpts) : Out Cert :=
  let nb0 := timeOr (relativeTime now so.nb) c.nb
  let nb1 := if nb0 = 0 then now else nb0
  let bd := if nb0 = 0 then wrap64 (-1 * so.backdate) else 0
  if nb1 < lnb then .rej .credNotBefore
  else
    let na0 := timeOr (relativeTime nb1 so.na) c.na
    if na0 > lna then .rej .credNotAfter
    else
      let na1 := if na0 = 0 then (if nb1 + dflt > lna then lna else nb1 + dflt) else na0
      .ok ⟨nb1 + bd, na1⟩

/-- `validityValidator{min,max}.Valid(cert, o)`; `vnow` is the validator's own `time.Now()` -/
def validityValid (mn mx vnow : Int) (c : Cert) (backdate : Int) : Out Unit :=
  let na := trunc c.na
  let nb := trunc c.nb
  let nw := trunc vnow
  let d := tsub na nb
  if na < nw then .rej .past
  else if na < nb then .rej .naBeforeNb
  else if d < mn then .rej .tooShort
  else if d > wrap64 (mx + backdate) then .rej .tooLong
  else .ok ()

/-- how the provisioner sets the validity: `profileDefaultDuration` (JWK, OIDC, ACME, SCEP, cloud
    identity) or `profileLimitDuration` bound to the credential (X5C, Nebula) -/
inductive Mode where
  | dflt
  | limit (lnb lna : Int)
  deriving Repr, DecidableEq

/-- modifier then validator, as `Authority.Sign` runs them with the options of a provisioner built on
    claimer `cl` (jwk.go, x5c.go, nebula.go, acme.go, … `AuthorizeSign`). Result: the leaf's validity. -/
def x509Leaf (cl : Claimer) (m : Mode) (now vnow : Int) (c : Cert) (so : SignOpts) : Out Cert := do
  let leaf ← match m with
    | .dflt => Out.ok (profileDefault cl.defTLS now c so)
    | .limit lnb lna => profileLimit cl.defTLS lnb lna now c so
  validityValid cl.minTLS cl.maxTLS vnow leaf so.backdate
  pure leaf

/-- `x509.CreateCertificate` can encode years 0000–9999 only (UTCTime / GeneralizedTime) -/
def encodable (t : Int) : Prop := -31622400 * second ≤ t ∧ t < 315537897600 * second

instance (t : Int) : Decidable (encodable t) := by unfold encodable; infer_instance

/-- authority/tls.go Sign: `lifetime := leaf.NotAfter.Sub(leaf.NotBefore.Add(backdate))`;
    softcas.CreateCertificate keeps non-zero template dates (zero ones are derived from the CAS
    clock `casNow`); DER encoding keeps whole seconds. -/
def softcasCreate (casNow : Int) (leaf : Cert) (backdate : Int) : Out Cert :=
  let lifetime := tsub leaf.na (leaf.nb + backdate)
  if lifetime = 0 then .rej .lifetime0
  else
    let nb := if leaf.nb = 0 then casNow + wrap64 (-1 * backdate) else leaf.nb
    let na := if leaf.na = 0 then casNow + lifetime else leaf.na
    if encodable nb ∧ encodable na then .ok ⟨trunc nb, trunc na⟩ else .rej .encode

/-- `signX509`'s `lifetime`, the value every CAS receives in `CreateCertificateRequest.Lifetime` -/
def casLifetime (leaf : Cert) (backdate : Int) : Int := tsub leaf.na (leaf.nb + backdate)

/-- a CAS that does not keep the template's dates but issues from its own clock — StepCAS (RA mode: asks the
    upstream CA for `now + lifetime`), CloudCAS, VaultCAS; and SoftCAS when the template carries no dates:
    `[casNow − backdate, casNow + lifetime]` at second precision -/
def lifetimeCasCreate (casNow : Int) (leaf : Cert) (backdate : Int) : Out Cert :=
  let lifetime := casLifetime leaf backdate
  if lifetime = 0 then .rej .lifetime0
  else
    let nb := casNow + wrap64 (-1 * backdate)
    let na := casNow + lifetime
    if encodable nb ∧ encodable na then .ok ⟨trunc nb, trunc na⟩ else .rej .encode

/-- the issued certificate's validity for a sign request -/
def x509Sign (cl : Claimer) (m : Mode) (now vnow casNow : Int) (c : Cert) (so : SignOpts) : Out Cert := do
  let leaf ← x509Leaf cl m now vnow c so
  softcasCreate casNow leaf so.backdate

/-- authority/tls.go renewContext + softcas.RenewCertificate: validity of the renewed certificate
    (`old` is a parsed certificate, `casNow` the CAS clock). -/
def x509Renew (casNow backdate : Int) (old : Cert) : Out Cert :=
  let duration := tsub old.na old.nb
  let lifetime := wrap64 (duration - backdate)
  -- since fix 5596a41: a certificate not longer than the backdate is not renewed (400)
  if lifetime ≤ 0 then .rej .renewShort
  else .ok ⟨trunc (casNow + wrap64 (-1 * backdate)), trunc (casNow + lifetime)⟩

/-- `renewContext` + SoftCAS before fix 5596a41: only `lifetime == 0` was refused (by SoftCAS) -/
def x509RenewBefore (casNow backdate : Int) (old : Cert) : Out Cert :=
  let duration := tsub old.na old.nb
  let lifetime := wrap64 (duration - backdate)
  if lifetime = 0 then .rej .lifetime0
  else .ok ⟨trunc (casNow + wrap64 (-1 * backdate)), trunc (casNow + lifetime)⟩

/-! ## ACME (acme/api/order.go NewOrder, acme/order.go Finalize) -/

def acmeBackdate : Int := 60 * second

/-- NewOrder: requested dates or defaults; the order's `NotBefore`/`NotAfter` -/
def acmeOrderDates (clockNow dfltTLS reqNb reqNa : Int) : Cert :=
  let nb := if reqNb = 0 then clockNow else reqNb
  let na := if reqNa = 0 then nb + dfltTLS else reqNa
  let nb := if reqNb = 0 then nb + (-acmeBackdate) else nb
  ⟨nb, na⟩

/-- NewOrder stores the order as JSON (`db.CreateOrder`): `time.Time` marshals years 0000–9999 only,
    otherwise the request is answered 500 and no order exists. -/
def acmeNewOrder (clockNow dfltTLS reqNb reqNa : Int) : Out Cert :=
  let o := acmeOrderDates clockNow dfltTLS reqNb reqNa
  if encodable o.nb ∧ encodable o.na then .ok o else .rej .encode

/-- Finalize: `SignOptions{NotBefore: NewTimeDuration(o.NotBefore), NotAfter: NewTimeDuration(o.NotAfter)}` -/
def acmeSignOpts (o : Cert) (backdate : Int) : SignOpts :=
  { nb := { t := o.nb }, na := { t := o.na }, backdate := backdate }

/-! ## sign_ssh_options.go (SSH) -/

structure SshCert where
  va : U64
  vb : U64
  ctype : Nat
  deriving Repr, DecidableEq

/-- `SignSSHOptions` (validity part) -/
structure SshOpts where
  va : TD := {}
  vb : TD := {}
  backdate : Int := 0
  deriving Repr, DecidableEq

/-- `cast.SafeUint64(x.RelativeTime(t).Unix())`, an error being answered with refusal `r`
    (since fix fffcedb; before it `cast.Uint64`, see `tdUnixUnguarded`) -/
def tdUnix (now : Int) (x : TD) (r : Rej) : Out U64 := safeU64 (unixOf (relativeTime now x)) r

/-- `SignSSHOptions.ModifyValidity(cert)` -/
def modifyValidity (now : Int) (o : SshOpts) (c : SshCert) : Out SshCert := do
  let va ← if !o.va.isZero then tdUnix now o.va .mvEpoch else pure c.va
  let vb ← if !o.vb.isZero then tdUnix now o.vb .mvEpoch else pure c.vb
  if va > 0#64 ∧ vb > 0#64 ∧ va > vb then .rej .afterGtBefore
  else pure { c with va := va, vb := vb }

/-- the `sshCertValidAfterModifier` / `sshCertValidBeforeModifier` a JWK/X5C/Nebula provisioner
    derives from the SSH options inside the token (`none` = option absent); an instant before the
    Unix epoch makes `AuthorizeSSHSign` fail with 400 -/
def tokenMods (now : Int) (tok : SshOpts) : Out (Option U64 × Option U64) := do
  let a ← if !tok.va.isZero then (tdUnix now tok.va .tokEpoch) >>= fun v => pure (some v) else pure none
  let b ← if !tok.vb.isZero then (tdUnix now tok.vb .tokEpoch) >>= fun v => pure (some v) else pure none
  pure (a, b)

def applyMods (m : Option U64 × Option U64) (c : SshCert) : SshCert :=
  { c with va := m.1.getD c.va, vb := m.2.getD c.vb }

/-- `sshDefaultDuration{claimer}.Modify(cert, o)` -/
def sshDefault (cl : Claimer) (now : Int) (o : SshOpts) (c : SshCert) : Out SshCert :=
  match cl.defSSH c.ctype with
  | none => .rej .badType
  | some d => do
    let bd ← if c.va = 0#64 then castU64 (Int.tdiv o.backdate second) else pure 0#64
    let va ← if c.va = 0#64 then castU64 (unixOf (trunc now)) else pure c.va
    let vb ← if c.vb = 0#64 then (castU64 (Int.tdiv d second)) >>= fun dd => pure (va + dd) else pure c.vb
    let va := if va > bd then va - bd else va
    pure { c with va := va, vb := vb }

/-- Go's `time.Time` without monotonic reading: int64 seconds since year 1 and nanoseconds. -/
structure GTime where
  sec : Int
  ns : Int
  deriving Repr, DecidableEq

def GTime.isZero (t : GTime) : Bool := t.sec == 0 && t.ns == 0
def GTime.after (a b : GTime) : Bool := a.sec > b.sec || (a.sec == b.sec && a.ns > b.ns)
def GTime.before (a b : GTime) : Bool := a.sec < b.sec || (a.sec == b.sec && a.ns < b.ns)
/-- `time.Unix(sec, 0)`: `sec + unixToInternal` wraps in int64 -/
def GTime.ofUnix (s : Int) : GTime := ⟨wrap64 (s + unixToInternal), 0⟩
/-- `Time.Unix()` -/
def GTime.unix (t : GTime) : Int := wrap64 (t.sec - unixToInternal)
/-- `addSec`: saturating -/
def addSec (ext d : Int) : Int :=
  let sum := wrap64 (ext + d)
  if decide (sum > ext) = decide (d > 0) then sum
  else if d > 0 then maxI64 else -maxI64
/-- `Time.Add(d)` -/
def GTime.add (t : GTime) (d : Int) : GTime :=
  let dsec := Int.tdiv d second
  let nsec := t.ns + Int.tmod d second
  if nsec ≥ second then ⟨addSec t.sec (wrap64 (dsec + 1)), nsec - second⟩
  else if nsec < 0 then ⟨addSec t.sec (wrap64 (dsec - 1)), nsec + second⟩
  else ⟨addSec t.sec dsec, nsec⟩

/-- `sshLimitDuration{claimer, NotAfter}.Modify(cert, o)` -/
def sshLimit (cl : Claimer) (lna : GTime) (now : Int) (o : SshOpts) (c : SshCert) : Out SshCert :=
  if lna.isZero then sshDefault cl now o c
  else match cl.defSSH c.ctype with
  | none => .rej .badType
  | some d => do
    let bd ← if c.va = 0#64 then castU64 (Int.tdiv o.backdate second) else pure 0#64
    let va ← if c.va = 0#64 then castU64 (unixOf (trunc now)) else pure c.va
    let vai ← castI64 va
    let cva := GTime.ofUnix vai
    if cva.after lna then .rej .credNotAfter
    else do
      let vb ← if c.vb = 0#64 then
                 (let t := cva.add d
                  let t := if lna.before t then lna else t
                  castU64 t.unix)
               else do
                 let vbi ← castI64 c.vb
                 if lna.before (GTime.ofUnix vbi) then .rej .credNotAfter else pure c.vb
      let va := if va > bd then va - bd else va
      pure { c with va := va, vb := vb }

/-- the duration claims `sshCertValidityValidator` picks by certificate type -/
def Claimer.minMaxSSH (cl : Claimer) (ctype : Nat) : Option (Int × Int) :=
  if ctype = userCert then some (cl.minUser, cl.maxUser)
  else if ctype = hostCert then some (cl.minHost, cl.maxHost)
  else none

/-- `time.Duration(x) * time.Second` on int64: wrapping multiply -/
def secsToDur (x : Int) : Int := (BitVec.ofInt 64 x * 1000000000#64).toInt

/-- `sshCertValidityValidator{claimer}.Valid(cert, opts)` -/
def sshValidityValid (cl : Claimer) (now backdate : Int) (c : SshCert) : Out Unit :=
  if c.va = 0#64 then .rej .vaZero
  else do
    let nowU ← castU64 (unixOf now)
    if c.vb < nowU then .rej .past
    else if c.vb < c.va then .rej .vbBeforeVa
    else match cl.minMaxSSH c.ctype with
    | none => if c.ctype = 0 then .rej .typeUnset else .rej .typeUnknown
    | some (mn, mx) =>
      -- since fix 1fe6db7: `secs > uint64(math.MaxInt64/int64(time.Second))` is refused first
      if (c.vb - c.va).toNat > 9223372036 then .rej .tooLong
      else do
        let di ← castI64 (c.vb - c.va)
        let dur := secsToDur di
        if dur < mn then .rej .tooShort
        else if dur > wrap64 (mx + backdate) then .rej .tooLong
        else pure ()

/-- `sshCertDefaultValidator.Valid`: the validity-related cases (nonce, key, serial, key id and
    signature are present on every certificate `sshutil.CreateCertificate` returns) -/
def sshDefaultValid (now : Int) (c : SshCert) : Out Unit :=
  if c.ctype ≠ userCert ∧ c.ctype ≠ hostCert then .rej .dbadType
  else if c.va = 0#64 then .rej .dvaZero
  else do
    let nowU ← castU64 (unixOf now)
    if c.vb < nowU then .rej .dpast
    else if c.vb < c.va then .rej .dvbBeforeVa
    else pure ()

inductive SshMode where
  | dflt
  | limit (lna : GTime)
  deriving Repr, DecidableEq

/-- the validity modifier the provisioner installs: `sshDefaultDuration` (JWK, OIDC, cloud identity,
    K8sSA) or `sshLimitDuration` bound to the credential's `NotAfter` (X5C, Nebula) -/
def sshModify (cl : Claimer) (m : SshMode) (now : Int) (o : SshOpts) (c : SshCert) : Out SshCert :=
  match m with
  | .dflt => sshDefault cl now o c
  | .limit lna => sshLimit cl lna now o c

/-- authority/ssh.go signSSH once the provisioner's modifiers are known: request options →
    `ModifyValidity`; token modifiers; default or credential-limited duration; validity validator;
    default validator.  `c0` is the certificate the template produced. -/
def sshSignWith (cl : Claimer) (m : SshMode) (now : Int) (user : SshOpts) (mods : Option U64 × Option U64)
    (c0 : SshCert) : Out SshCert := do
  let c1 ← modifyValidity now user c0
  let c3 ← sshModify cl m now user (applyMods mods c1)
  sshValidityValid cl now user.backdate c3
  sshDefaultValid now c3
  pure c3

/-- … with the options of JWK / X5C / Nebula `AuthorizeSSHSign`, which derive the modifiers from the
    SSH options carried in the token (`tok`) before `signSSH` runs. -/
def sshSign (cl : Claimer) (m : SshMode) (now : Int) (user tok : SshOpts) (c0 : SshCert) : Out SshCert := do
  let mods ← tokenMods now tok
  sshSignWith cl m now user mods c0

/-- go.step.sm/crypto/sshutil `toValidity` (called by `Certificate.GetCertificate` inside
    `Authority.signSSH`): what a certificate template's `validAfter` / `validBefore` (a `time.Time`,
    zero when the template does not mention it) becomes on the `ssh.Certificate`.
    `utils.MustUint64(t.Unix())` panics for an instant before 1970. -/
def templateValidity (t : Int) : Out U64 := if t = 0 then .ok 0#64 else castU64 (unixOf t)

/-- the certificate a template with these validity instants produces -/
def sshTemplateCert (tva tvb : Int) (ctype : Nat) : Out SshCert := do
  let va ← templateValidity tva
  let vb ← templateValidity tvb
  pure ⟨va, vb, ctype⟩

/-- `/ssh/sign` for a provisioner whose SSH template sets `validAfter` / `validBefore` (`tva`, `tvb`; 0 = the
    template does not set it, as in the default templates): token modifiers are derived first
    (`AuthorizeSSHSign`), then the template is rendered and converted, then `signSSH` continues. -/
def sshSignTemplate (cl : Claimer) (m : SshMode) (now : Int) (user tok : SshOpts) (tva tvb : Int) (ctype : Nat) :
    Out SshCert := do
  let mods ← tokenMods now tok
  let c0 ← sshTemplateCert tva tvb ctype
  sshSignWith cl m now user mods c0

/-- authority/ssh.go renewSSH / rekeySSH date arithmetic (`anow` = the authority's `time.Now()`), as of
    fix b334f43: `sshCertificateDuration` refuses (400) `ValidBefore < ValidAfter` and periods longer than
    `MaxInt64/1e9` seconds before the (now safe) `cast.Int64` and the nanosecond product. -/
def sshRenewDates (anow backdate : Int) (old : SshCert) : Out SshCert :=
  if old.va = 0#64 ∨ old.vb = 0#64 then .rej .noValidity
  else if old.vb < old.va then .rej .renewPeriod
  else if (old.vb - old.va).toNat > 9223372036 then .rej .renewPeriod
  else do
    let di ← castI64 (old.vb - old.va)
    let duration := secsToDur di
    -- since fix 5596a41: a certificate not longer than the backdate is not renewed / rekeyed (400)
    if duration ≤ backdate then .rej .renewShort
    else do
      let va ← castU64 (unixOf (anow + wrap64 (-1 * backdate)))
      let vb ← castU64 (unixOf (anow + wrap64 (duration - backdate)))
      pure { old with va := va, vb := vb }

/-- renewSSH / rekeySSH between b334f43 and 5596a41: no comparison of the duration with the backdate -/
def sshRenewDatesNoBackdateCheck (anow backdate : Int) (old : SshCert) : Out SshCert :=
  if old.va = 0#64 ∨ old.vb = 0#64 then .rej .noValidity
  else if old.vb < old.va then .rej .renewPeriod
  else if (old.vb - old.va).toNat > 9223372036 then .rej .renewPeriod
  else do
    let di ← castI64 (old.vb - old.va)
    let duration := secsToDur di
    let va ← castU64 (unixOf (anow + wrap64 (-1 * backdate)))
    let vb ← castU64 (unixOf (anow + wrap64 (duration - backdate)))
    pure { old with va := va, vb := vb }

/-- rekeySSH additionally runs the SSHPOP validators with `SignSSHOptions{Backdate: backdate}` -/
def sshRekey (cl : Claimer) (anow pnow backdate : Int) (old : SshCert) : Out SshCert := do
  let c ← sshRenewDates anow backdate old
  sshValidityValid cl pnow backdate c
  sshDefaultValid pnow c
  pure c

/-! ## Renewal gates (controller.go DefaultAuthorizeSSHRenew, sshpop.go SSHPOP.authorizeToken) -/

/-- `ssh.CertTimeInfinity` -/
def certTimeInfinity : U64 := 18446744073709551615#64

/-- `DefaultAuthorizeSSHRenew` with renewal not disabled: `cast.SafeInt64(ValidAfter)` must succeed and
    not lie in the future; `ValidBefore` is looked at only when it is not "forever" and renewal after
    expiry is not allowed.  (`SSHPOP.authorizeToken(…, checkValidity = true)`, used by rekey and
    revoke, is the same test with `allowExpired = false`.) -/
def renewGate (unixNow : Int) (allowExpired : Bool) (c : SshCert) : Bool :=
  if c.va.toNat ≥ 9223372036854775808 ∨ unixNow < (c.va.toNat : Int) then false
  else if c.vb ≠ certTimeInfinity ∧ allowExpired = false then
    (if c.vb.toNat ≥ 9223372036854775808 ∨ unixNow ≥ (c.vb.toNat : Int) then false else true)
  else true

/-- `/ssh/renew` after authorization: gate, then `renewSSH`'s date arithmetic (`none` = 401) -/
def sshRenewAuthorized (unixNow anow backdate : Int) (allowExpired : Bool) (old : SshCert) : Option (Out SshCert) :=
  if renewGate unixNow allowExpired old then some (sshRenewDates anow backdate old) else none

/-! ## Identity certificate (api/ssh.go identityModifier, api/sshRenew.go, api/sshRekey.go) -/

/-- `time.Unix(cast.Int64(x), 0)` as a flat X.509 instant -/
def unixInstant (x : U64) : Out Int := do
  let s ← castI64 x
  pure (wrap64 (s + unixToInternal) * second)

/-- `/ssh/sign` with an identity CSR: `identityModifier.Enforce` sets the identity certificate's
    `NotBefore`/`NotAfter` to the signed SSH certificate's `ValidAfter`/`ValidBefore`. -/
def identitySign (c : SshCert) : Out Cert := do
  let nb ← unixInstant c.va
  let na ← unixInstant c.vb
  pure ⟨nb, na⟩

/-- `/ssh/renew`, `/ssh/rekey`: `renewIdentityCertificate` clones the TLS client certificate, gives the
    clone the validity window of the **old** SSH certificate and passes it to `Authority.Renew`
    (`x509Renew`): the renewed identity certificate gets that window's duration, starting now − backdate. -/
def identityRenew (casNow backdate : Int) (old : SshCert) : Out Cert := do
  let w ← identitySign old
  x509Renew casNow backdate w

/-- the whole handler after authorization: new SSH certificate, then the identity certificate -/
def sshRenewWithIdentity (anow casNow backdate : Int) (old : SshCert) : Out (SshCert × Cert) := do
  let c ← sshRenewDates anow backdate old
  let i ← identityRenew casNow backdate old
  pure (c, i)

/-! ## Migration of ca.json provisioners into the admin database (authority/provisioners.go) -/

/-- `claimsToCertificates (claimsToLinkedca c)` on the duration pointers: the X.509 block is written when
    any of its three durations is set, each duration travels as its `String()` (`""` = nil); the SSH
    blocks are written only when `enableSSHCA` is set and true. -/
def migrateClaims (sshEnabled : Bool) (c : Option Claims) : Option Claims :=
  c.map fun c => if sshEnabled then c else { minTLS := c.minTLS, maxTLS := c.maxTLS, defTLS := c.defTLS }

/-! ## Claims conversion ca.json ↔ linkedca (authority/provisioners.go claimsToLinkedca, claimsToCertificates) -/

/-- `linkedca.Durations`: three strings, `""` = unset (`none`); a set one holds its parsed value -/
structure Dur3 where
  min : Option Int := none
  max : Option Int := none
  dflt : Option Int := none
  deriving Repr, DecidableEq

def Dur3.any (d : Dur3) : Bool := d.min.isSome || d.max.isSome || d.dflt.isSome

/-- `linkedca.Claims` (duration part): `X509` block (`none` = nil) with `Enabled` and its `Durations` block; `Ssh` block with
    `Enabled` and the user / host `Durations` blocks -/
structure LClaims where
  /-- `X509` block: its `Enabled` flag (written `true` by `claimsToLinkedca`, NOT consulted by
      `claimsToCertificates`) and its `Durations` block -/
  x509 : Option (Bool × Option Dur3) := none
  ssh : Option (Bool × Option Dur3 × Option Dur3) := none
  deriving Repr, DecidableEq

/-- `provisioner.Claims` duration pointers plus the `EnableSSHCA` pointer -/
structure CClaims where
  d : Claims := {}
  enableSSH : Option Bool := none
  deriving Repr, DecidableEq

/-- `claimsToLinkedca` -/
def toLinked (c : Option CClaims) : Option LClaims :=
  c.map fun c =>
    let x : Dur3 := ⟨c.d.minTLS, c.d.maxTLS, c.d.defTLS⟩
    let u : Dur3 := ⟨c.d.minUser, c.d.maxUser, c.d.defUser⟩
    let h : Dur3 := ⟨c.d.minHost, c.d.maxHost, c.d.defHost⟩
    { x509 := if x.any then some (true, some x) else none,
      ssh := if c.enableSSH = some true then some (true, (if u.any then some u else none), (if h.any then some h else none))
             else none }

/-- `claimsToCertificates` (parse errors are a separate outcome of the harness-side parser) -/
def toCert (l : Option LClaims) : Option CClaims :=
  l.map fun l =>
    let x : Dur3 := (l.x509.bind (·.2)).getD {}
    let (en, u, h) : Option Bool × Dur3 × Dur3 :=
      match l.ssh with
      | some (e, u, h) => (some e, u.getD {}, h.getD {})
      | none => (none, {}, {})
    { d := { minTLS := x.min, maxTLS := x.max, defTLS := x.dflt,
             minUser := u.min, maxUser := u.max, defUser := u.dflt,
             minHost := h.min, maxHost := h.max, defHost := h.dflt },
      enableSSH := en }

/-- `authority.ValidateDurations` (admin API: create / update provisioner), as of fix e2d04ab: every set duration
    is non-negative, `min ≤ max`, `min ≤ default`, `default ≤ max` (a nil pointer's `Value()` is 0, so a comparison
    with an unset side is guarded by the emptiness tests). -/
def validateDurations (d : Dur3) : Bool :=
  let v := fun (o : Option Int) => o.getD 0
  if d.min.isSome ∧ v d.min < 0 then false
  else if d.max.isSome ∧ v d.max < 0 then false
  else if d.dflt.isSome ∧ v d.dflt < 0 then false
  else if d.min.isSome ∧ d.max.isSome ∧ v d.min > v d.max then false
  else if d.min.isSome ∧ d.dflt.isSome ∧ v d.min > v d.dflt then false
  else if d.dflt.isSome ∧ d.max.isSome ∧ v d.dflt > v d.max then false
  else true

/-- … before fix e2d04ab the third comparison repeated `min > default`, so `default > max` was never refused -/
def validateDurationsBefore (d : Dur3) : Bool :=
  let v := fun (o : Option Int) => o.getD 0
  if d.min.isSome ∧ v d.min < 0 then false
  else if d.max.isSome ∧ v d.max < 0 then false
  else if d.dflt.isSome ∧ v d.dflt < 0 then false
  else if d.min.isSome ∧ d.max.isSome ∧ v d.min > v d.max then false
  else if d.min.isSome ∧ d.dflt.isSome ∧ v d.min > v d.dflt then false
  else if d.dflt.isSome ∧ d.max.isSome ∧ v d.min > v d.dflt then false
  else true

/-- `authority.ValidateClaims` -/
def validateLClaims (l : Option LClaims) : Bool :=
  match l with
  | none => true
  | some l =>
    (match l.x509 with | some (_, some d) => validateDurations d | _ => true) &&
    (match l.ssh with
     | some (_, u, h) => (match u with | some d => validateDurations d | none => true) &&
                         (match h with | some d => validateDurations d | none => true)
     | none => true)

/-! ## Which chain every provisioner installs (source-derived: re-extracted with go/ast on every run) -/

inductive XMod where
  | dflt   -- `profileDefaultDuration(p.ctl.Claimer.DefaultTLSCertDuration())`
  | limit  -- `profileLimitDuration{Claimer.DefaultTLSCertDuration(), credential.NotBefore, credential.NotAfter}`
  deriving Repr, DecidableEq

inductive SMod where
  | dflt   -- `&sshDefaultDuration{p.ctl.Claimer}`
  | limit  -- `&sshLimitDuration{p.ctl.Claimer, credential.NotAfter}`
  deriving Repr, DecidableEq

/-- the validity-relevant `SignOption`s one `Authorize…` method returns -/
structure ChainEntry where
  fn : String
  x509 : Option XMod := none
  /-- `newValidityValidator(Claimer.MinTLSCertDuration(), Claimer.MaxTLSCertDuration())` -/
  x509Val : Bool := false
  /-- `sshCertValidAfterModifier` / `sshCertValidBeforeModifier` from the token's options, both through `cast.SafeUint64` -/
  sshTok : Bool := false
  ssh : Option SMod := none
  /-- `&sshCertValidityValidator{p.ctl.Claimer}` -/
  sshVal : Bool := false
  /-- `&sshCertDefaultValidator{}` -/
  sshDVal : Bool := false
  deriving Repr, DecidableEq

def chainTable : List ChainEntry := [
  { fn := "ACME.AuthorizeSign", x509 := some .dflt, x509Val := true },
  { fn := "AWS.AuthorizeSSHSign", ssh := some .dflt, sshVal := true, sshDVal := true },
  { fn := "AWS.AuthorizeSign", x509 := some .dflt, x509Val := true },
  { fn := "Azure.AuthorizeSSHSign", ssh := some .dflt, sshVal := true, sshDVal := true },
  { fn := "Azure.AuthorizeSign", x509 := some .dflt, x509Val := true },
  { fn := "GCP.AuthorizeSSHSign", ssh := some .dflt, sshVal := true, sshDVal := true },
  { fn := "GCP.AuthorizeSign", x509 := some .dflt, x509Val := true },
  { fn := "JWK.AuthorizeSSHSign", sshTok := true, ssh := some .dflt, sshVal := true, sshDVal := true },
  { fn := "JWK.AuthorizeSign", x509 := some .dflt, x509Val := true },
  { fn := "K8sSA.AuthorizeSSHSign", ssh := some .dflt, sshVal := true, sshDVal := true },
  { fn := "K8sSA.AuthorizeSign", x509 := some .dflt, x509Val := true },
  { fn := "Nebula.AuthorizeSSHRekey" },
  { fn := "Nebula.AuthorizeSSHSign", sshTok := true, ssh := some .limit, sshVal := true, sshDVal := true },
  { fn := "Nebula.AuthorizeSign", x509 := some .limit, x509Val := true },
  { fn := "OIDC.AuthorizeSSHSign", ssh := some .dflt, sshVal := true, sshDVal := true },
  { fn := "OIDC.AuthorizeSign", x509 := some .dflt, x509Val := true },
  { fn := "SCEP.AuthorizeSign", x509 := some .dflt, x509Val := true },
  { fn := "SSHPOP.AuthorizeSSHRekey", sshVal := true, sshDVal := true },
  { fn := "X5C.AuthorizeSSHSign", sshTok := true, ssh := some .limit, sshVal := true, sshDVal := true },
  { fn := "X5C.AuthorizeSign", x509 := some .limit, x509Val := true },
  { fn := "base.AuthorizeSSHRekey" }, { fn := "base.AuthorizeSSHSign" }, { fn := "base.AuthorizeSign" },
  { fn := "noop.AuthorizeSSHRekey" }, { fn := "noop.AuthorizeSSHSign" }, { fn := "noop.AuthorizeSign" } ]

/-- canonical rendering, the format the harness extractor prints -/
def ChainEntry.render (e : ChainEntry) : String :=
  let items : List String :=
    (match e.x509 with | some .dflt => ["def(D)"] | some .limit => ["lim(D,CNB,CNA)"] | none => []) ++
    (if e.x509Val then ["val(MIN,MAX)"] else []) ++
    (if e.sshTok then ["tokva", "tokvb"] else []) ++
    (match e.ssh with | some .dflt => ["sshdef(C)"] | some .limit => ["sshlim(C,CNA)"] | none => []) ++
    (if e.sshVal then ["sshval(C)"] else []) ++
    (if e.sshDVal then ["sshdval"] else []) ++
    (if e.sshTok then ["casts(safe=2,panicking=0)"] else [])
  if items.isEmpty then "-" else " ".intercalate items

/-- order in which the authority applies things (anchors in source order), which the chain functions
    `x509Sign`, `sshSignTemplate`/`sshSignWith`, `sshRenewDates`, `sshRekey`, `x509Renew` follow -/
def orderTable : List (String × String) := [
  ("signX509", "modifiers<validators<enforcers<lifetime<cas"),
  ("signSSH", "template<modifyValidity<modifiers<sign<validators"),
  ("renewSSH", "duration<va<vb<sign"),
  ("rekeySSH", "duration<va<vb<sign<validators"),
  ("renewContext", "duration<lifetime<cas") ]

def XMod.toMode : XMod → Int → Int → Mode
  | .dflt, _, _ => .dflt
  | .limit, lnb, lna => .limit lnb lna

def SMod.toMode : SMod → GTime → SshMode
  | .dflt, _ => .dflt
  | .limit, lna => .limit lna

/-! ## Historic (pre-fix) variants, kept for the refutation witnesses D6 / D7 -/

/-- renewSSH / rekeySSH before fix b334f43: `cast.Int64(ValidBefore − ValidAfter)` unguarded -/
def sshRenewDatesBefore (anow backdate : Int) (old : SshCert) : Out SshCert :=
  if old.va = 0#64 ∨ old.vb = 0#64 then .rej .noValidity
  else do
    let di ← castI64 (old.vb - old.va)
    let duration := secsToDur di
    let va ← castU64 (unixOf (anow + wrap64 (-1 * backdate)))
    let vb ← castU64 (unixOf (anow + wrap64 (duration - backdate)))
    pure { old with va := va, vb := vb }

/-- `sshCertValidityValidator.Valid` before fix 1fe6db7: no guard in front of the wrapping multiply -/
def sshValidityValidUnguarded (cl : Claimer) (now backdate : Int) (c : SshCert) : Out Unit :=
  if c.va = 0#64 then .rej .vaZero
  else do
    let nowU ← castU64 (unixOf now)
    if c.vb < nowU then .rej .past
    else if c.vb < c.va then .rej .vbBeforeVa
    else match cl.minMaxSSH c.ctype with
    | none => if c.ctype = 0 then .rej .typeUnset else .rej .typeUnknown
    | some (mn, mx) => do
      let di ← castI64 (c.vb - c.va)
      let dur := secsToDur di
      if dur < mn then .rej .tooShort
      else if dur > wrap64 (mx + backdate) then .rej .tooLong
      else pure ()

/-- `SignSSHOptions.ModifyValidity` before fix fffcedb: `cast.Uint64` panics before 1970 -/
def modifyValidityUnguarded (now : Int) (o : SshOpts) (c : SshCert) : Out SshCert := do
  let va ← if !o.va.isZero then castU64 (unixOf (relativeTime now o.va)) else pure c.va
  let vb ← if !o.vb.isZero then castU64 (unixOf (relativeTime now o.vb)) else pure c.vb
  if va > 0#64 ∧ vb > 0#64 ∧ va > vb then .rej .afterGtBefore
  else pure { c with va := va, vb := vb }

end Verif.Validity
