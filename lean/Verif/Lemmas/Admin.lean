import Verif.Model.Admin
/-!
  Helper lemmas for C16 (no property statements here): the string order, association lists,
  sorted insertion, and the generic paging argument shared by both collections.
-/
namespace Verif.Admin
open Verif

/-! ## the order on strings -/

theorem slt_irrefl (a : Str) : slt a a = false := by
  simp [slt, List.lt_irrefl]

theorem slt_trans {a b c : Str} (h1 : slt a b = true) (h2 : slt b c = true) : slt a c = true := by
  simp [slt] at *
  exact List.lt_trans h1 h2

theorem slt_asymm {a b : Str} (h : slt a b = true) : slt b a = false := by
  simp [slt] at *
  exact List.not_lt.mp (List.lt_asymm h)

theorem slt_tri (a b : Str) : slt a b = true ∨ a = b ∨ slt b a = true := by
  simp only [slt, decide_eq_true_eq]
  rcases List.le_total a b with h | h
  · rcases List.le_iff_lt_or_eq.mp h with h | h
    · exact .inl h
    · exact .inr (.inl h)
  · rcases List.le_iff_lt_or_eq.mp h with h | h
    · exact .inr (.inr h)
    · exact .inr (.inl h.symm)

theorem slt_nil (a : Str) : slt a [] = false := by
  simp [slt]

theorem slt_ne {a b : Str} (h : slt a b = true) : a ≠ b := by
  intro e; subst e; simp [slt_irrefl] at h

/-! ## association lists -/

namespace Map
variable {K V : Type} [DecidableEq K]

theorem mem_del {m : Map K V} {k : K} {e : K × V} : e ∈ del m k ↔ e ∈ m ∧ e.1 ≠ k := by
  simp [del, List.mem_filter]

theorem get_eq_none {m : Map K V} {k : K} : get m k = none ↔ ∀ e ∈ m, e.1 ≠ k := by
  induction m with
  | nil => simp [get]
  | cons x r ih =>
    obtain ⟨k', v⟩ := x
    by_cases h : k' = k <;> simp [get, h, ih]

theorem get_mem {m : Map K V} {k : K} {v : V} (h : get m k = some v) : (k, v) ∈ m := by
  induction m with
  | nil => simp [get] at h
  | cons x r ih =>
    obtain ⟨k', v'⟩ := x
    by_cases hk : k' = k
    · simp [get, hk] at h; subst hk; subst h; exact List.mem_cons_self
    · simp [get, hk] at h; exact List.mem_cons_of_mem _ (ih h)

theorem get_of_mem {m : Map K V} {k : K} {v : V} (nd : (m.map (·.1)).Nodup) (h : (k, v) ∈ m) :
    get m k = some v := by
  induction m with
  | nil => cases h
  | cons x r ih =>
    obtain ⟨k', v'⟩ := x
    simp only [List.map_cons, List.nodup_cons, List.mem_map] at nd
    rcases List.mem_cons.mp h with h | h
    · cases h; simp [get]
    · by_cases hk : k' = k
      · exact absurd ⟨(k, v), h, hk.symm⟩ nd.1
      · simp [get, hk]; exact ih nd.2 h

theorem has_false {m : Map K V} {k : K} : has m k = false ↔ ∀ e ∈ m, e.1 ≠ k := by
  rw [← get_eq_none]
  simp [has]

theorem del_absent {m : Map K V} {k : K} (h : has m k = false) : del m k = m := by
  rw [has_false] at h
  simp only [del, List.filter_eq_self]
  intro e he
  simpa using h e he

theorem put_del_absent {m : Map K V} {k : K} {v : V} (h : has m k = false) : del (put m k v) k = m := by
  simp only [put, del_absent h]
  simp only [del, List.filter_cons]
  simp
  rw [has_false] at h
  intro a b hab
  exact h (a, b) hab

theorem nodup_del {m : Map K V} {k : K} (nd : (m.map (·.1)).Nodup) : ((del m k).map (·.1)).Nodup :=
  List.Nodup.sublist (List.Sublist.map _ List.filter_sublist) nd

theorem nodup_put {m : Map K V} {k : K} {v : V} (nd : (m.map (·.1)).Nodup) : ((put m k v).map (·.1)).Nodup := by
  simp only [put, List.map_cons, List.nodup_cons]
  refine ⟨?_, nodup_del nd⟩
  simp [mem_del]

end Map

/-- `m` is exactly the index of the elements `vs` under `key` -/
def IsIndex {K V : Type} (key : V → K) (m : Map K V) (vs : List V) : Prop :=
  (m.map (·.1)).Nodup ∧ ∀ k v, (k, v) ∈ m ↔ (v ∈ vs ∧ k = key v)

set_option linter.unusedSectionVars false
namespace IsIndex
variable {K V : Type} [DecidableEq K] {key : V → K} {m : Map K V} {vs : List V}

theorem nil : IsIndex key ([] : Map K V) [] := by simp [IsIndex]

theorem congr {vs' : List V} (h : IsIndex key m vs) (e : ∀ v, v ∈ vs ↔ v ∈ vs') : IsIndex key m vs' :=
  ⟨h.1, fun k v => by rw [h.2, e]⟩

theorem get_some (h : IsIndex key m vs) {k : K} {v : V} : Map.get m k = some v ↔ (v ∈ vs ∧ k = key v) := by
  constructor
  · intro hg; exact (h.2 k v).mp (Map.get_mem hg)
  · intro hv; exact Map.get_of_mem h.1 ((h.2 k v).mpr hv)

theorem has_false (h : IsIndex key m vs) {k : K} : Map.has m k = false ↔ ∀ v ∈ vs, key v ≠ k := by
  rw [Map.has_false]
  constructor
  · intro hm v hv e
    exact hm (key v, v) ((h.2 _ _).mpr ⟨hv, rfl⟩) e
  · intro hv e he ek
    obtain ⟨k', v⟩ := e
    have := (h.2 k' v).mp he
    exact hv v this.1 (by rw [← this.2]; exact ek)

theorem inj (h : IsIndex key m vs) {v v' : V} (hv : v ∈ vs) (hv' : v' ∈ vs) (e : key v = key v') : v = v' := by
  have h1 := h.get_some.mpr ⟨hv, rfl⟩
  have h2 := h.get_some.mpr ⟨hv', e⟩
  rw [h1] at h2
  exact Option.some.inj h2

theorem put (h : IsIndex key m vs) (x : V) (hx : ∀ v ∈ vs, key v ≠ key x) :
    IsIndex key (Map.put m (key x) x) (x :: vs) := by
  have habs : Map.has m (key x) = false := h.has_false.mpr hx
  refine ⟨Map.nodup_put h.1, ?_⟩
  intro k v
  simp only [Map.put, Map.del_absent habs, List.mem_cons, Prod.mk.injEq]
  rw [h.2]
  constructor
  · rintro (⟨rfl, rfl⟩ | ⟨hv, rfl⟩)
    · exact ⟨.inl rfl, rfl⟩
    · exact ⟨.inr hv, rfl⟩
  · rintro ⟨rfl | hv, rfl⟩
    · exact .inl ⟨rfl, rfl⟩
    · exact .inr ⟨hv, rfl⟩

theorem del (h : IsIndex key m vs) (k : K) :
    IsIndex key (Map.del m k) (vs.filter (fun v => decide (key v ≠ k))) := by
  refine ⟨Map.nodup_del h.1, ?_⟩
  intro k' v
  rw [Map.mem_del, h.2]
  simp only [List.mem_filter, decide_eq_true_eq]
  constructor
  · rintro ⟨⟨hv, rfl⟩, hne⟩; exact ⟨⟨hv, hne⟩, rfl⟩
  · rintro ⟨⟨hv, hne⟩, rfl⟩; exact ⟨⟨hv, rfl⟩, hne⟩

theorem map (h : IsIndex key m vs) (f : V → V) (hf : ∀ v, key (f v) = key v) :
    IsIndex key (m.map (fun e => (e.1, f e.2))) (vs.map f) := by
  refine ⟨by simpa [List.map_map, Function.comp_def] using h.1, ?_⟩
  intro k v
  simp only [List.mem_map, Prod.mk.injEq]
  constructor
  · rintro ⟨⟨k', v'⟩, hm, rfl, rfl⟩
    have := (h.2 k' v').mp hm
    exact ⟨⟨v', this.1, rfl⟩, by rw [hf]; exact this.2⟩
  · rintro ⟨⟨v', hv', rfl⟩, rfl⟩
    exact ⟨(key v', v'), (h.2 _ _).mpr ⟨hv', rfl⟩, by rw [hf], rfl⟩

end IsIndex

/-! ## sorted insertion -/

/-- strictly ascending by `key` -/
def Sorted {α : Type} (key : α → Str) (l : List α) : Prop :=
  l.Pairwise (fun x y => slt (key x) (key y) = true)

theorem insertBy_perm {α : Type} (key : α → Str) (x : α) (l : List α) : (insertBy key x l).Perm (x :: l) := by
  induction l with
  | nil => simp [insertBy]
  | cons y r ih =>
    unfold insertBy
    split
    · exact List.Perm.refl _
    · exact (List.Perm.cons y ih).trans (List.Perm.swap x y r)

theorem mem_insertBy {α : Type} {key : α → Str} {x y : α} {l : List α} :
    y ∈ insertBy key x l ↔ y = x ∨ y ∈ l := by
  rw [(insertBy_perm key x l).mem_iff]; simp

theorem insertBy_sorted {α : Type} {key : α → Str} {x : α} {l : List α} (hs : Sorted key l)
    (hne : ∀ y ∈ l, key y ≠ key x) : Sorted key (insertBy key x l) := by
  induction l with
  | nil => simp [insertBy, Sorted]
  | cons y r ih =>
    unfold Sorted at hs
    rw [List.pairwise_cons] at hs
    unfold insertBy
    split
    · rename_i hxy
      unfold Sorted
      rw [List.pairwise_cons]
      refine ⟨?_, List.pairwise_cons.mpr hs⟩
      intro z hz
      rcases List.mem_cons.mp hz with rfl | hz
      · exact hxy
      · exact slt_trans hxy (hs.1 z hz)
    · rename_i hxy
      have hyx : slt (key y) (key x) = true := by
        rcases slt_tri (key x) (key y) with h | h | h
        · exact absurd h hxy
        · exact absurd h.symm (hne y List.mem_cons_self)
        · exact h
      unfold Sorted
      rw [List.pairwise_cons]
      refine ⟨?_, ih hs.2 (fun z hz => hne z (List.mem_cons_of_mem _ hz))⟩
      intro z hz
      rcases mem_insertBy.mp hz with rfl | hz
      · exact hyx
      · exact hs.1 z hz

theorem Sorted.nodup_key {α : Type} {key : α → Str} {l : List α} (hs : Sorted key l) : (l.map key).Nodup := by
  rw [List.nodup_iff_pairwise_ne, List.pairwise_map]
  exact List.Pairwise.imp (fun h => slt_ne h) hs

theorem Sorted.inj {α : Type} {key : α → Str} {l : List α} (hs : Sorted key l) {x y : α}
    (hx : x ∈ l) (hy : y ∈ l) (e : key x = key y) : x = y := by
  induction l with
  | nil => cases hx
  | cons z r ih =>
    unfold Sorted at hs
    rw [List.pairwise_cons] at hs
    rcases List.mem_cons.mp hx with hx | hx <;> rcases List.mem_cons.mp hy with hy | hy
    · rw [hx, hy]
    · rw [hx] at e; exact absurd e (slt_ne (hs.1 y hy))
    · rw [hy] at e; exact absurd e.symm (slt_ne (hs.1 x hx))
    · exact ih hs.2 hx hy

/-- dropping everything below the key of an element of a sorted list lands on that element -/
theorem dropWhile_sorted {α : Type} {key : α → Str} (pre : List α) (x : α) (suf : List α)
    (hs : Sorted key (pre ++ x :: suf)) :
    (pre ++ x :: suf).dropWhile (fun e => slt (key e) (key x)) = x :: suf := by
  induction pre with
  | nil => simp [slt_irrefl]
  | cons y r ih =>
    unfold Sorted at hs
    simp only [List.cons_append, List.pairwise_cons] at hs
    have : slt (key y) (key x) = true := hs.1 x (by simp)
    simp only [List.cons_append, List.dropWhile_cons, this, if_true]
    exact ih hs.2

theorem takeWhile_sorted {α : Type} {key : α → Str} (pre : List α) (x : α) (suf : List α)
    (hs : Sorted key (pre ++ x :: suf)) :
    (pre ++ x :: suf).takeWhile (fun e => slt (key e) (key x)) = pre := by
  induction pre with
  | nil => simp [slt_irrefl]
  | cons y r ih =>
    unfold Sorted at hs
    simp only [List.cons_append, List.pairwise_cons] at hs
    have : slt (key y) (key x) = true := hs.1 x (by simp)
    simp only [List.cons_append, List.takeWhile_cons, this, if_true]
    rw [ih hs.2]

/-- removing the element with key `k` from a sorted list, the way `Remove` does it -/
theorem remove_sorted {α : Type} {key : α → Str} {l : List α} (hs : Sorted key l) {x : α} (hx : x ∈ l) :
    l.takeWhile (fun e => slt (key e) (key x)) ++ (l.dropWhile (fun e => slt (key e) (key x))).drop 1
      = l.filter (fun e => decide (key e ≠ key x)) ∧
    l.dropWhile (fun e => slt (key e) (key x)) = x :: (l.dropWhile (fun e => slt (key e) (key x))).drop 1 := by
  obtain ⟨pre, suf, rfl⟩ := List.append_of_mem hx
  rw [takeWhile_sorted pre x suf hs, dropWhile_sorted pre x suf hs]
  refine ⟨?_, by simp⟩
  unfold Sorted at hs
  rw [List.pairwise_append] at hs
  simp only [List.drop_one, List.tail_cons, List.filter_append, List.filter_cons, ne_eq, not_true_eq_false,
    decide_false, Bool.false_eq_true, if_false]
  have h1 : pre.filter (fun e => decide (¬ key e = key x)) = pre := by
    rw [List.filter_eq_self]; intro a ha
    simpa using slt_ne (hs.2.2 a ha x (by simp))
  have h2 : suf.filter (fun e => decide (¬ key e = key x)) = suf := by
    rw [List.filter_eq_self]; intro a ha
    have := (List.pairwise_cons.mp hs.2.1).1 a ha
    simpa using (slt_ne this).symm
  rw [h1, h2]

/-! ## counting super admins -/

def nsuper (l : List Adm) : Nat := (l.filter (·.super)).length

theorem nsuper_cons (a : Adm) (l : List Adm) : nsuper (a :: l) = (if a.super then 1 else 0) + nsuper l := by
  unfold nsuper
  by_cases h : a.super <;> simp [List.filter_cons, h]; omega

theorem nsuper_perm {l l' : List Adm} (h : l.Perm l') : nsuper l = nsuper l' :=
  (h.filter _).length_eq

theorem nsuper_remove {l : List Adm} (nd : (l.map (·.id)).Nodup) {a : Adm} (ha : a ∈ l) :
    nsuper (l.filter (fun e => decide (e.id ≠ a.id))) + (if a.super then 1 else 0) = nsuper l := by
  induction l with
  | nil => cases ha
  | cons x r ih =>
    simp only [List.map_cons, List.nodup_cons, List.mem_map] at nd
    rcases List.mem_cons.mp ha with rfl | ha
    · have : r.filter (fun e => decide (e.id ≠ a.id)) = r := by
        rw [List.filter_eq_self]; intro e he
        have : e.id ≠ a.id := fun h => nd.1 ⟨e, he, h⟩
        simpa using this
      rw [List.filter_cons_of_neg (by simp), this, nsuper_cons]; omega
    · have hne : x.id ≠ a.id := fun h => nd.1 ⟨a, ha, h.symm⟩
      rw [List.filter_cons_of_pos (by simpa using hne), nsuper_cons, nsuper_cons]
      have := ih nd.2 ha
      omega

theorem setTy_id (id : Str) (t : Bool) (a : Adm) : (setTy id t a).id = a.id := by
  unfold setTy; split <;> rfl

theorem setTy_sub (id : Str) (t : Bool) (a : Adm) : (setTy id t a).sub = a.sub := by
  unfold setTy; split <;> rfl

theorem setTy_provId (id : Str) (t : Bool) (a : Adm) : (setTy id t a).provId = a.provId := by
  unfold setTy; split <;> rfl

theorem setTy_other {id : Str} {t : Bool} {a : Adm} (h : a.id ≠ id) : setTy id t a = a := by
  simp [setTy, h]

theorem map_eq_self {α : Type} {f : α → α} {l : List α} (h : ∀ e ∈ l, f e = e) : l.map f = l := by
  induction l with
  | nil => rfl
  | cons x r ih =>
    rw [List.map_cons, h x List.mem_cons_self, ih (fun e he => h e (List.mem_cons_of_mem _ he))]

theorem nsuper_retype {l : List Adm} (nd : (l.map (·.id)).Nodup) {a : Adm} (ha : a ∈ l) (t : Bool) :
    nsuper (l.map (setTy a.id t)) + (if a.super then 1 else 0) = nsuper l + (if t then 1 else 0) := by
  induction l with
  | nil => cases ha
  | cons x r ih =>
    simp only [List.map_cons, List.nodup_cons, List.mem_map] at nd
    rcases List.mem_cons.mp ha with rfl | ha
    · have : r.map (setTy a.id t) = r :=
        map_eq_self (fun e he => setTy_other (fun h => nd.1 ⟨e, he, h⟩))
      simp only [List.map_cons, this, nsuper_cons]
      simp [setTy]; omega
    · have hne : x.id ≠ a.id := fun h => nd.1 ⟨a, ha, h.symm⟩
      simp only [List.map_cons, setTy_other hne, nsuper_cons]
      have := ih nd.2 ha
      omega

theorem nsuper_retype_none {l : List Adm} {id : Str} (t : Bool) (h : ∀ e ∈ l, e.id ≠ id) :
    l.map (setTy id t) = l := by
  exact map_eq_self (fun e he => setTy_other (h e he))


/-! ## provisioner uids and cursors -/

theorem eraseId_eq_filter {id : Str} {l : List (Str × Prov)} (nd : (l.map (·.2.id)).Nodup) :
    PColl.eraseId id l = l.filter (fun e => decide (e.2.id ≠ id)) := by
  induction l with
  | nil => rfl
  | cons x r ih =>
    simp only [List.map_cons, List.nodup_cons, List.mem_map] at nd
    unfold PColl.eraseId
    split
    · rename_i hx
      rw [List.filter_cons_of_neg (by simp [hx])]
      symm; rw [List.filter_eq_self]; intro e he
      have : e.2.id ≠ id := fun h => nd.1 ⟨e, he, by rw [h, hx]⟩
      simpa using this
    · rename_i hx
      rw [List.filter_cons_of_pos (by simpa using hx), ih nd.2]

theorem hexd_ge (n : Nat) : 48 ≤ hexd n := by unfold hexd; split <;> omega

theorem hex8_length (n : Nat) : (hex8 n).length = 8 := by simp [hex8]

theorem hex8_ge (n : Nat) : ∀ c ∈ hex8 n, 48 ≤ c := by
  intro c hc
  simp only [hex8, List.mem_cons, List.not_mem_nil, or_false] at hc
  rcases hc with rfl | rfl | rfl | rfl | rfl | rfl | rfl | rfl <;> exact hexd_ge _

/-- nothing of length `n` made of bytes ≥ '0' sorts below `n` zeros -/
theorem not_lt_zeros : ∀ (n : Nat) (u : Str), u.length = n → (∀ c ∈ u, 48 ≤ c) → slt u (List.replicate n 48) = false
  | 0, u, hl, _ => by
    have : u = [] := List.length_eq_zero_iff.mp hl
    subst this; simp [slt]
  | n + 1, [], hl, _ => by simp at hl
  | n + 1, c :: u, hl, hc => by
    have ih := not_lt_zeros n u (by simpa using hl) (fun x hx => hc x (List.mem_cons_of_mem _ hx))
    have hc0 : 48 ≤ c := hc c List.mem_cons_self
    simp only [slt, decide_eq_false_iff_not, List.replicate_succ, List.cons_lt_cons_iff] at ih ⊢
    rintro (h | ⟨rfl, h⟩)
    · omega
    · exact ih h

theorem pad40_trim0 (u : Str) (hl : u.length = 40) : PColl.pad40 (PColl.trim0 u) = u := by
  have gen : ∀ (u : Str), List.replicate (u.length - (u.dropWhile (· = 48)).length) 48 ++ u.dropWhile (· = 48) = u := by
    intro u
    induction u with
    | nil => rfl
    | cons c r ih =>
      by_cases hc : c = 48
      · have hle : (r.dropWhile (· = 48)).length ≤ r.length := (List.dropWhile_sublist _).length_le
        simp only [List.dropWhile_cons, hc, decide_true, if_true, List.length_cons]
        have : r.length + 1 - (r.dropWhile (· = 48)).length = (r.length - (r.dropWhile (· = 48)).length) + 1 := by omega
        rw [this, List.replicate_succ, List.cons_append, ih]
      · simp [List.dropWhile_cons, hc]
  unfold PColl.pad40 PColl.trim0
  have := gen u
  rw [hl] at this
  exact this

theorem trim0_eq_nil {u : Str} (h : PColl.trim0 u = []) : u = List.replicate u.length 48 := by
  unfold PColl.trim0 at h
  induction u with
  | nil => rfl
  | cons c r ih =>
    by_cases hc : c = 48
    · simp only [List.dropWhile_cons, hc, decide_true, if_true] at h
      rw [List.length_cons, List.replicate_succ, ← ih h, hc]
    · simp [List.dropWhile_cons, hc] at h

theorem normLimit_pos (limit : Int) : 1 ≤ normLimit limit := by
  unfold normLimit; split
  · omega
  · split <;> omega


/-! ## the proposed in-memory undo only acts when the reload has failed -/

theorem afterFailUndo_snd (v : Variant) (f : Faults) (s : Auth) (o : AuthOut) (u : Cache → Cache) :
    (afterFailUndo v f s o u).2 = (afterFail f s o).2 := by
  unfold afterFailUndo
  simp only
  split
  · rename_i h; exact h.2.symm
  · rfl

theorem afterFailUndo_eq (v : Variant) (f : Faults) (s : Auth) (o : AuthOut) (u : Cache → Cache)
    (h : (afterFail f s o).2 ≠ .reloadFailed ∨ v.fixRevert = false) :
    afterFailUndo v f s o u = afterFail f s o := by
  unfold afterFailUndo
  simp only
  split
  · rename_i hc
    rcases h with h | h
    · exact absurd hc.2 h
    · rw [h] at hc; exact absurd hc.1 (by simp)
  · rfl


/-! ## paging -/

section Paging
variable {α : Type} (key : α → Str) (dec enc : Str → Str) (l : List α) (limit : Nat)

theorem pagesG_suffix (hs : Sorted key l) (hl : 1 ≤ limit)
    (hrt : ∀ x ∈ l, dec (enc (key x)) = key x)
    (hne : ∀ x ∈ l, ∀ y ∈ l, slt (key x) (key y) = true → enc (key y) ≠ []) :
    ∀ (fuel : Nat) (pre suf : List α) (cur : Str), l = pre ++ suf →
      l.dropWhile (fun e => slt (key e) (dec cur)) = suf → suf.length < fuel →
      (pagesG key dec enc l limit fuel cur).flatten = suf := by
  intro fuel
  induction fuel with
  | zero => intro _ _ _ _ _ h; omega
  | succ f ih =>
    intro pre suf cur hl' hd hlen
    unfold pagesG
    simp only [findG, hd]
    cases hdr : suf.drop limit with
    | nil =>
      simp
      exact List.take_of_length_le (List.drop_eq_nil_iff.mp hdr)
    | cons e rest =>
      have hsplit : suf = suf.take limit ++ e :: rest := by rw [← hdr, List.take_append_drop]
      have he : e ∈ l := by rw [hl', hsplit]; simp
      have htake : suf.take limit ≠ [] := by
        intro h0
        have : suf.length = 0 ∨ limit = 0 := by
          rcases List.take_eq_nil_iff.mp h0 with h | h
          · exact .inr h
          · exact .inl (by simp [h])
        rcases this with h | h
        · have : suf = [] := List.length_eq_zero_iff.mp h
          simp [this] at hdr
        · omega
      obtain ⟨x0, t0, ht0⟩ := List.exists_cons_of_ne_nil htake
      have hx0 : x0 ∈ l := by rw [hl', hsplit, ht0]; simp
      have hlt : slt (key x0) (key e) = true := by
        have hs' := hs
        unfold Sorted at hs'
        rw [hl', hsplit, ht0] at hs'
        have := (List.pairwise_append.mp hs').2.1
        simp only [List.cons_append, List.pairwise_cons] at this
        exact this.1 e (by simp)
      have hnz : enc (key e) ≠ [] := hne x0 hx0 e he hlt
      simp only [hnz, if_false, List.flatten_cons]
      have hl2 : l = (pre ++ suf.take limit) ++ e :: rest := by
        rw [List.append_assoc, ← hsplit]; exact hl'
      have hd2 : l.dropWhile (fun x => slt (key x) (dec (enc (key e)))) = e :: rest := by
        rw [hrt e he]
        have hs' := hs
        rw [hl2] at hs'
        rw [hl2]
        exact dropWhile_sorted _ e rest hs'
      have hlen2 : (e :: rest).length < f := by
        have := congrArg List.length hdr
        simp only [List.length_drop, List.length_cons] at this
        simp only [List.length_cons]
        omega
      rw [ih (pre ++ suf.take limit) (e :: rest) (enc (key e)) hl2 hd2 hlen2]
      exact hsplit.symm

/-- following `Find` from the empty cursor returns the whole sorted list, each element once -/
theorem pagesG_all (hs : Sorted key l) (hl : 1 ≤ limit)
    (h0 : ∀ x ∈ l, slt (key x) (dec []) = false)
    (hrt : ∀ x ∈ l, dec (enc (key x)) = key x)
    (hne : ∀ x ∈ l, ∀ y ∈ l, slt (key x) (key y) = true → enc (key y) ≠ [])
    (fuel : Nat) (hf : l.length < fuel) :
    (pagesG key dec enc l limit fuel []).flatten = l := by
  apply pagesG_suffix key dec enc l limit hs hl hrt hne fuel [] l [] rfl _ hf
  have : ∀ x ∈ l, (fun e => slt (key e) (dec [])) x = false := h0
  cases l with
  | nil => rfl
  | cons x r => simp [h0 x List.mem_cons_self]

end Paging

end Verif.Admin
