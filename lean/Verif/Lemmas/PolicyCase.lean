import Verif.Model.Policy
/-! helper lemmas for C04: ASCII case folding commutes with everything `matchDomainConstraint` looks at -/
namespace Verif.Policy
open Verif Verif.Str

theorem lo_idem (c : Nat) : lo (lo c) = lo c := by unfold lo; grind

theorem lo_eq_iff_of_nonletter (c k : Nat) (hk : ¬ (65 ≤ k ∧ k ≤ 90)) (hk2 : ¬ (97 ≤ k ∧ k ≤ 122)) :
    lo c = k ↔ c = k := by
  unfold lo; split <;> omega

theorem lo_46 (c : Nat) : lo c = 46 ↔ c = 46 := lo_eq_iff_of_nonletter c 46 (by omega) (by omega)
theorem lo_42 (c : Nat) : lo c = 42 ↔ c = 42 := lo_eq_iff_of_nonletter c 42 (by omega) (by omega)
theorem lo_32 (c : Nat) : lo c = 32 ↔ c = 32 := lo_eq_iff_of_nonletter c 32 (by omega) (by omega)

theorem lower_lower (a : Str) : lower (lower a) = lower a := by
  unfold lower; rw [List.map_map]; congr 1; funext c; exact lo_idem c

theorem foldEq_lower_right (a b : Str) : foldEq a (lower b) = foldEq a b := by
  unfold foldEq; show (a.map lo == (lower b).map lo) = _; rw [show (lower b).map lo = lower (lower b) from rfl, lower_lower]; rfl

theorem lo_range (c : Nat) : (33 ≤ lo c ∧ lo c ≤ 126) ↔ (33 ≤ c ∧ c ≤ 126) := by
  unfold lo; split <;> omega

theorem labelOk_lower (l : Str) : labelOk (lower l) = labelOk l := by
  unfold labelOk lower
  congr 1
  · cases l <;> simp
  · induction l with
    | nil => rfl
    | cons c cs ih =>
      simp only [List.map_cons, List.all_cons, ih]
      congr 1
      have := lo_range c
      by_cases h : 33 ≤ c ∧ c ≤ 126
      · have h' := this.mpr h; simp [h.1, h.2, h'.1, h'.2]
      · have h' : ¬ (33 ≤ lo c ∧ lo c ≤ 126) := fun x => h (this.mp x)
        by_cases h1 : 33 ≤ c
        · have h2 : ¬ c ≤ 126 := fun x => h ⟨h1, x⟩
          by_cases g1 : 33 ≤ lo c
          · have g2 : ¬ lo c ≤ 126 := fun x => h' ⟨g1, x⟩
            simp [h1, h2, g1, g2]
          · simp [h1, h2, g1]
        · by_cases g1 : 33 ≤ lo c
          · have g2 : ¬ lo c ≤ 126 := fun x => h' ⟨g1, x⟩
            simp [h1, g1, g2]
          · simp [h1, g1]

theorem splitOn_lower (d : Str) : splitOn 46 (lower d) = (splitOn 46 d).map lower := by
  induction d with
  | nil => rfl
  | cons c cs ih =>
    show splitOn 46 (lo c :: lower cs) = _
    unfold splitOn
    by_cases hc : c = 46
    · have : lo c = 46 := (lo_46 c).mpr hc
      simp [hc, this, ih]; rfl
    · have : ¬ lo c = 46 := fun h => hc ((lo_46 c).mp h)
      simp only [hc, this, if_false, ih]
      cases h : splitOn 46 cs with
      | nil => simp [lower]
      | cons l ls => simp [lower]

theorem pieces_lower (d : Str) : pieces (lower d) = (pieces d).map lower := by
  unfold pieces
  rw [splitOn_lower]
  cases h : splitOn 46 d with
  | nil => rfl
  | cons l ls =>
    cases l with
    | nil => simp [lower]
    | cons c cs => simp [lower]

theorem reverseLabels_lower (d : Str) :
    reverseLabels (lower d) = (reverseLabels d).map (List.map lower) := by
  unfold reverseLabels
  rw [pieces_lower]
  have : ((pieces d).map lower).all labelOk = (pieces d).all labelOk := by
    rw [List.all_map]; congr 1; funext l; exact labelOk_lower l
  simp only [this]
  split <;> simp [List.map_reverse]

theorem labelsFoldEq_lower_right (cl dl : List Str) :
    labelsFoldEq cl (dl.map lower) = labelsFoldEq cl dl := by
  induction cl generalizing dl with
  | nil => rfl
  | cons c cs ih =>
    cases dl with
    | nil => rfl
    | cons d ds => simp only [List.map_cons, labelsFoldEq, foldEq_lower_right, ih]

theorem hasPrefix_star_dot_lower (d : Str) : hasPrefix [42, 46] (lower d) = hasPrefix [42, 46] d := by
  unfold hasPrefix lower
  match d with
  | [] => rfl
  | [a] =>
    have := lo_42 a
    simp only [List.map_cons, List.map_nil, List.isPrefixOf]
    grind
  | a :: b :: rest =>
    have h1 := lo_42 a; have h2 := lo_46 b
    simp only [List.map_cons, List.isPrefixOf]
    grind

theorem has_lower (k : Nat) (hk : ¬ (65 ≤ k ∧ k ≤ 90)) (hk2 : ¬ (97 ≤ k ∧ k ≤ 122)) (d : Str) :
    has k (lower d) = has k d := by
  unfold has lower
  induction d with
  | nil => rfl
  | cons c cs ih =>
    simp only [List.map_cons, List.any_cons, ih]
    congr 1
    have := lo_eq_iff_of_nonletter c k hk hk2
    grind

theorem starAfterFirst_lower (d : Str) : starAfterFirst (lower d) = starAfterFirst d := by
  cases d with
  | nil => rfl
  | cons c cs => exact has_lower 42 (by omega) (by omega) cs

end Verif.Policy
