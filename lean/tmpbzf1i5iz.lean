import Verif.Props.C16
#print axioms Verif.Admin.admin_inv_preserved
#print axioms Verif.Admin.prov_inv_preserved
#print axioms Verif.Admin.PInv.unique
#print axioms Verif.Admin.super_remains
#print axioms Verif.Admin.admin_inv_reachable_current
#print axioms Verif.Admin.admin_no_crash
#print axioms Verif.Admin.super_remains_fixed
#print axioms Verif.Admin.super_remains_partial
#print axioms Verif.Admin.super_remains_refuted
#print axioms Verif.Admin.update_unknown_crashes
#print axioms Verif.Admin.admin_no_crash_fixed
#print axioms Verif.Admin.admin_paging_exact
#print axioms Verif.Admin.prov_paging_exact
#print axioms Verif.Admin.restart_is_image
#print axioms Verif.Admin.admin_write_failure_restores
#print axioms Verif.Admin.rename_breaks_cache_eq_store
#print axioms Verif.Admin.policy_no_lockout
