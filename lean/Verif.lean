-- This module serves as the root of the `Verif` library.
-- Import modules here that should be built as part of the library.
import Verif.Basic
