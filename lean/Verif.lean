-- root of the library; modules are built by name (see ../check), nothing is imported here

