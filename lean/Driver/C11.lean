import Verif.Model.AcmeChallenge
/-!
  Line-protocol driver for C11 (ACME challenge validators).

  One case per line, `key=value` fields separated by single spaces; a string is `x<hex>`,
  `!` is "none / error", a list is items joined by ',' (`-` when empty).

    op=validate typ=http|dns|tls|da|wireoidc|wiredpop|unknown st=pending|valid|invalid|other perr=<errT>
       val= tok= thumb=x..|! ip=x..|! strict=0|1 ph=<n> pt=<n> db=0|1 cmp=0|1
       h=<pre>:<sha256>:<b64url sha256>,…                     (hash oracle table)
       w=err | w=resp:<status>:<body|!> | w=real:<status>:<body served>:<redirects>:<refused>   (http; real = through acme.NewClient())
       w=err | w=txt:<r1>;<r2>…  (`txt:-` = empty set)         (dns)
       w=alert:<n> | w=other | w=conn:<proto>  leaf=0 | leaf=1 ldns=<list> lips=<list> exts=<id~crit~octets,…>   (tls)
       w=dpop … (see `dpop?`) | w=oidc … (see `oidc?`)                                    (wire)
       w=da authz= json= errf= b64= empty= wf= cbor= fmt= en= fpne= azdb= + per-format facts (see `daIn?`)
    op=handler <all fields of op=validate> chex=0|1 owner=0|1 azurl=own|foreign|foreignother|missing fazst= fazexp=   (api.GetChallenge + polls)
    op=types idt=ip|dns|pi|wu|wd|other raw=x..
    op=e2e <fields of op=handler when the picked challenge is offered> pch= pfmt= mig=0|1 idt= raw= pick=<type>   (full route on a real authority)
    op=conv pch=<names> pfmt=<names> proots=<n> via=none|json|linkedca|linkedca2        (provisioner configuration glue)
    op=rev ip=x..
    op=src fact=status-writers|api-status-writers|authz-updaters|api-authz-updaters|chall-updaters|dispatch|types|handler-order

  Output (validate): `<status> err=<errT> ret=ok|ise fp=0|1 azrec=<authz status stored>:<expired> az=<authz status after UpdateStatus> tgt=<target>`
  (optional input fields `azst=` `azexp=` `azforeign=` (the loaded authorization does not own this challenge; its own challenges are pending): the owning authorization's stored status / expired flag before the call);
  (handler) `ok|unauthorized|notfound|ise st= err= fpown= fpurl= azown= azurl= tgt=`;
  (types) `offered=<types> val=<stored value> wild=0|1`; (rev) `arpa=<name>`, `crash`, `unmodelled`,
  `mismatch`, `nohash` (the oracle table lacks a digest the model needs), `parse-error`.
-/
open Verif Verif.AcmeChallenge

namespace C11

def str? (t : String) : Option Str :=
  if t.startsWith "x" then unhex (t.drop 1).toString else none

def optStr? (t : String) : Option (Option Str) :=
  if t = "!" then some none else (str? t).map some

def bool? (t : String) : Option Bool :=
  if t = "1" then some true else if t = "0" then some false else none

def list? {α : Type} (sep : String) (f : String → Option α) (t : String) : Option (List α) :=
  if t = "-" then some [] else (t.splitOn sep).mapM f

def lookup (kv : List (String × String)) (k : String) : Option String :=
  (kv.find? (·.1 = k)).map (·.2)

def statusS : Status → String
  | .pending => "pending" | .valid => "valid" | .invalid => "invalid" | .other => "other"
def status? : String → Option Status
  | "pending" => some .pending | "valid" => some .valid | "invalid" => some .invalid | "other" => some .other
  | _ => none

def errS : ErrT → String
  | .none => "none" | .connection => "connection" | .dns => "dns"
  | .rejectedIdentifier => "rejectedIdentifier" | .badAttestationStatement => "badAttestationStatement"
def err? : String → Option ErrT
  | "none" => some .none | "connection" => some .connection | "dns" => some .dns
  | "rejectedIdentifier" => some .rejectedIdentifier
  | "badAttestationStatement" => some .badAttestationStatement
  | _ => none

def typ? : String → Option ChType
  | "http" => some .http01 | "dns" => some .dns01 | "tls" => some .tlsalpn01 | "da" => some .deviceAttest01
  | "wireoidc" => some .wireOidc01 | "wiredpop" => some .wireDpop01 | "unknown" => some .unknown
  | _ => none

def typS : ChType → String
  | .http01 => "http-01" | .dns01 => "dns-01" | .tlsalpn01 => "tls-alpn-01"
  | .deviceAttest01 => "device-attest-01" | .wireOidc01 => "wire-oidc-01" | .wireDpop01 => "wire-dpop-01"
  | .unknown => "unknown"

def xs (a : Str) : String := "x" ++ hex a

def targetS : Target → String
  | .none => "-"
  | .httpGet u => "get:" ++ xs u
  | .txt n => "txt:" ++ xs n
  | .tls a sni => "tls:" ++ xs a ++ ":" ++ xs sni

def outcomeS (cmp : Bool) (az : AzRec) (foreign : Bool) (sib : List Status) (o : Outcome) : String :=
  let r := daAuthzRecord az o
  s!"{statusS o.status} err={errS o.err} ret={match o.ret with | .ok => "ok" | .ise => "ise" | .notFound => "notfound" | .unauthorized => "unauthorized"} fp={if o.authzFp then 1 else 0} azrec={statusS r.status}:{if r.expired then 1 else 0} az={statusS (authzUpdateStatusL r ((if foreign then [] else [o.status]) ++ sib))} tgt={if cmp then targetS o.target else "?"}"

/-- oracle table entry -/
def hentry? (t : String) : Option (Str × Str × Str) :=
  match t.splitOn ":" with
  | [a, b, c] => do pure ((← str? a), (← str? b), (← str? c))
  | _ => none

def mkHash (tab : List (Str × Str × Str)) : Hash :=
  { raw := fun x => ((tab.find? (·.1 = x)).map (·.2.1)).getD [],
    b64 := fun x => ((tab.find? (·.1 = x)).map (·.2.2)).getD [] }

def extId? : String → Option ExtId
  | "acme" => some .acme | "obs" => some .acmeObsolete | "other" => some .other | _ => none

def ext? (t : String) : Option Ext :=
  match t.splitOn "~" with
  | [i, c, o] => do pure ⟨(← extId? i), (← bool? c), (← optStr? o)⟩
  | _ => none

def x5c? (t : String) : Option X5c :=
  match t.splitOn ":" with
  | [p, n, l, r, c] => do pure ⟨(← bool? p), (← n.toNat?), (← bool? l), (← bool? r), (← bool? c)⟩
  | _ => none

def key? : String → Option KeyKind
  | "ecp256" => some .ecP256 | "ecother" => some .ecOther | "rsa" => some .rsa
  | "ed25519" => some .ed25519 | "unsupported" => some .unsupported | _ => none

def serial? (t : String) : Option SerialExt :=
  if t = "absent" then some .absent else if t = "malformed" then some .malformed
  else if t = "trailing" then some .trailing
  else match t.splitOn ":" with
    | ["v", d] => (str? d).map .value
    | _ => none

def fmt? : String → Option AttFormat
  | "apple" => some .apple | "step" => some .step | "tpm" => some .tpm | "other" => some .other | _ => none

def pre? : String → Option TpmPre
  | "ok" => some .ok | "bad" => some .bad | "noroots" => some .noRoots | _ => none

def daIn? (kv : List (String × String)) : Option DaIn := do
  let b (k : String) : Option Bool := do bool? (← lookup kv k)
  let format ← fmt? (← lookup kv "fmt")
  let facts : FmtFacts ←
    match lookup kv "facts" with
    | some "apple" => do
      pure (.apple { x5c := (← x5c? (← lookup kv "x5c")), fpOk := (← b "fpok"),
                     serial := (← str? (← lookup kv "serial")), udid := (← str? (← lookup kv "udid")),
                     nonce := (← str? (← lookup kv "nonce")) })
    | some "step" => do
      let signed ← optStr? (← lookup kv "signed")
      let sigv ← b "sigv"
      pure (.step { x5c := (← x5c? (← lookup kv "x5c")), sigPresent := (← b "sigp"), sigCborOk := (← b "sigc"),
                    key := (← key? (← lookup kv "key")),
                    verifies := fun m => sigv && signed == some m,
                    fpOk := (← b "fpok"), serial := (← serial? (← lookup kv "serial")) })
    | some "tpm" => do
      pure (.tpm { pre := (← pre? (← lookup kv "pre")),
                   extraData := (← str? (← lookup kv "extra")), postBad := (← b "postbad"), fpOk := (← b "fpok"),
                   permanentIdentifiers := (← list? "," str? (← lookup kv "pids")) })
    | some "none" => pure .none
    | _ => none
  pure { authzOk := (← b "authz"), authzMissing := ((lookup kv "authzmissing").bind bool?).getD false,
         authzOtherAccount := ((lookup kv "azother").bind bool?).getD false,
         authzNotOwn := ((lookup kv "aznotown").bind bool?).getD false, jsonOk := (← b "json"), errField := (← b "errf"), b64Ok := (← b "b64"),
         emptyObj := (← b "empty"), cborWellformed := (← b "wf"), cborOk := (← b "cbor"),
         format, enabled := (← b "en"), facts, fpNonEmpty := (← b "fpne"), authzDbOk := (← b "azdb") }

def jws? (t : String) : Option Jws :=
  match t.splitOn ":" with
  | [p, o, k, sg, tm, far] => do pure ⟨(← bool? p), (← bool? o), (← optStr? k), (← bool? sg), (← bool? tm), (← bool? far)⟩
  | _ => none

def dpop? (kv : List (String × String)) : Option DpopFacts := do
  let b (k : String) : Option Bool := do bool? (← lookup kv k)
  let x (k : String) : Option Str := do str? (← lookup kv k)
  let o (k : String) : Option (Option Str) := do optStr? (← lookup kv k)
  let l (k : String) : Option (List Str) := do list? "," str? (← lookup kv k)
  pure { provOk := (← b "prov"), payloadOk := (← b "payload"), idOk := (← b "id"), targetOk := (← b "target"),
         serverKid := (← o "skid"), accountKid := (← x "akid"), issuer := (← x "iss"), audience := (← x "aud"),
         clientId := (← x "cid"), handle := (← x "handle"), name := (← x "name"),
         tok := (← jws? (← lookup kv "atjws")), atIss := (← x "atiss"), atAud := (← l "ataud"), atChal := (← x "atchal"),
         atCnfKid := (← x "atcnf"), atClientId := (← x "atcid"), atScope := (← x "atscope"), atNonce := (← x "atnonce"),
         pf := (← jws? (← lookup kv "pf")), pfAud := (← l "pfaud"), pfHtu := (← x "pfhtu"), pfSub := (← x "pfsub"),
         pfNonce := (← x "pfnonce"), pfChal := (← x "pfchal"), mapOk := (← b "mapok"), mapChal := (← o "mchal"),
         mapHandle := (← o "mhandle"), mapName := (← o "mname"), ordersOk := (← b "orders"), tokenStoreOk := (← b "tstore") }

def oidc? (kv : List (String × String)) : Option OidcFacts := do
  let b (k : String) : Option Bool := do bool? (← lookup kv k)
  let x (k : String) : Option Str := do str? (← lookup kv k)
  let o (k : String) : Option (Option Str) := do optStr? (← lookup kv k)
  pure { provOk := (← b "prov"), payloadOk := (← b "payload"), idOk := (← b "id"), verifierOk := (← b "verifier"),
         verifyOk := (← b "verify"), claimsOk := (← b "claims"), keyauth := (← x "keyauth"), acmeAud := (← x "acmeaud"),
         audience := (← x "aud"), transformOk := (← b "transform"), tName := (← o "tname"), tHandle := (← o "thandle"),
         name := (← x "name"), handle := (← x "handle"), ordersOk := (← b "orders"), tokenStoreOk := (← b "tstore") }

def world? (kv : List (String × String)) : Option World := do
  let w ← lookup kv "w"
  match w.splitOn ":" with
  | ["err"] => pure (if lookup kv "typ" = some "dns" then .txt none else .http .err)
  | ["resp", st, body] => do pure (.http (.resp (← st.toInt?) (← optStr? body)))
  | ["real", st, body, red, ref] => do pure (.http (clientGet (← bool? ref) (← red.toNat?) (← st.toInt?) (← str? body)))
  | ["txt", l] => do pure (.txt (some (← list? ";" str? l)))
  | ["realtxt", fail, l] => do pure (.txt (clientLookupTxt (← bool? fail) (← list? ";" str? l)))
  | ["alert", n] => do pure (.tls (.alert (← n.toNat?)))
  | ["other"] => pure (.tls .other)
  | ["conn", proto] => do
    let p ← str? proto
    if (← lookup kv "leaf") = "0" then pure (.tls (.conn none p))
    else
      let dns ← list? "," str? (← lookup kv "ldns")
      let ips ← list? "," str? (← lookup kv "lips")
      let exts ← list? "," ext? (← lookup kv "exts")
      pure (.tls (.conn (some ⟨dns, ips, exts⟩) p))
  | ["da"] => do pure (.attest (← daIn? kv))
  | ["dpop"] => do pure (.dpop (← dpop? kv))
  | ["oidc"] => do pure (.oidc (← oidc? kv))
  | ["nothing"] => pure .nothing
  | _ => none

def azUrl? : String → Option AzUrl
  | "own" => some .own | "foreign" => some .foreign | "foreignother" => some .foreignOther | "missing" => some .missing | _ => none

def idt? : String → Option IdType
  | "ip" => some .ip | "dns" => some .dns | "pi" => some .permanentIdentifier
  | "wu" => some .wireUser | "wd" => some .wireDevice | "other" => some .other | _ => none

/-- the provisioner as served: configured lists, taken through the admin database when `mig=1` -/
def served? (kv : List (String × String)) : Option ProvCfg := do
  let pch ← list? "," str? (← lookup kv "pch")
  let pfmt ← list? "," str? (← lookup kv "pfmt")
  let mig ← bool? (← lookup kv "mig")
  let p : ProvCfg := ⟨pch, pfmt, 0⟩
  pure (if mig then migrate p else p)

def fmtName : AttFormat → Option Str
  | .apple => some (Verif.s "apple") | .step => some (Verif.s "step") | .tpm => some (Verif.s "tpm") | .other => none

def evalValidate (handler : Bool) (kv : List (String × String)) : Option String := do
  let typ ← typ? (← lookup kv "typ")
  let status ← status? (← lookup kv "st")
  let perr ← err? (← lookup kv "perr")
  let value ← str? (← lookup kv "val")
  let token ← str? (← lookup kv "tok")
  let thumb ← optStr? (← lookup kv "thumb")
  let ip ← optStr? (← lookup kv "ip")
  let cfg : Cfg := ⟨(← bool? (← lookup kv "strict")), (← (← lookup kv "ph").toNat?), (← (← lookup kv "pt").toNat?)⟩
  let dbOk ← bool? (← lookup kv "db")
  let cmp ← bool? (← lookup kv "cmp")
  let tab ← list? "," hentry? (← lookup kv "h")
  let w0 ← world? kv
  -- op=e2e: whether the attestation format is enabled follows from the provisioner configuration
  let w : World := match w0, served? kv with
    | .attest i, some q => (match fmtName i.format with
        | some n => .attest { i with enabled := isFormatEnabled q n }
        | none => w0)
    | _, _ => w0
  -- the owning authorization as stored before the call (default: pending, not expired)
  let az : AzRec := ⟨((lookup kv "azst").bind status?).getD .pending, ((lookup kv "azexp").bind bool?).getD false⟩
  let foreign := ((lookup kv "azforeign").bind bool?).getD false
  -- the other challenges of the same authorization (stored statuses)
  let sib : List Status := ((lookup kv "azsib").bind (list? "," status?)).getD []
  let ch : Ch := { typ, status, err := perr, value, token, thumb, ip }
  -- every digest the model can ask for must be in the oracle table
  let need : List Str := match typ, thumb with
    | .dns01, some th | .tlsalpn01, some th => [keyAuth token th]
    | .deviceAttest01, some th => [keyAuth token th, token]
    | .deviceAttest01, none => [token]
    | _, _ => []
  if status = .pending ∧ need.any (fun p => !(tab.any (·.1 = p))) then pure "nohash"
  else if handler then
    -- op=handler: api.GetChallenge on the stored challenge, then api.GetAuthorization polls
    let req : HReq := ⟨((lookup kv "authed").bind bool?).getD true, (← bool? (← lookup kv "chex")), (← bool? (← lookup kv "owner")), (← azUrl? (← lookup kv "azurl"))⟩
    let faz : AzRec := ⟨((lookup kv "fazst").bind status?).getD .pending, ((lookup kv "fazexp").bind bool?).getD false⟩
    match getChallenge (mkHash tab) cfg dbOk ch w req with
    | .crash => pure "crash"
    | .val r =>
      let e := r.effect
      let codeS := match r.code with
        | .ok => "ok" | .unauthorized => "unauthorized" | .notFound => "notfound" | .ise => "ise"
      -- the fingerprint goes into the authorization the URL names
      let fpOwn := e.authzFp && req.azUrl == .own
      let fpUrl := e.authzFp && (req.azUrl == .foreign || req.azUrl == .foreignOther)
      let azUrlS := if req.azUrl == .foreign || req.azUrl == .foreignOther then statusS (pollForeign faz) else "-"
      pure s!"{codeS} st={statusS e.status} err={errS e.err} fpown={if fpOwn then 1 else 0} fpurl={if fpUrl then 1 else 0} azown={statusS (pollOwn az e)} azurl={azUrlS} tgt={if cmp then targetS e.target else "?"}"
  else match validate (mkHash tab) cfg dbOk ch w with
    | .done o => pure (outcomeS cmp az foreign sib o)
    | .crash => pure "crash"
    | .unmodelled => pure "unmodelled"
    | .mismatch => pure "mismatch"

def eval (line : String) : Option String := do
  let kv := (fields line).filterMap fun f =>
    match f.splitOn "=" with
    | [k, v] => some (k, v)
    | _ => none
  match (← lookup kv "op") with
  | "validate" => evalValidate false kv
  | "handler" => evalValidate true kv
  | "e2e" =>
    let q ← served? kv
    let t ← idt? (← lookup kv "idt")
    let raw ← str? (← lookup kv "raw")
    let pick ← lookup kv "pick"
    let (v, wild, tys) := offered q t raw
    let head := s!"offered={if tys.isEmpty then "-" else ",".intercalate (tys.map typS)} val={xs v} wild={if wild then 1 else 0}"
    if !(tys.map typS).contains pick then pure (head ++ " | notoffered")
    else
      let value ← str? (← lookup kv "val")
      if value ≠ v then pure (head ++ " | stored-value-differs")
      else pure (head ++ " | " ++ (← evalValidate true kv))
  | "types" =>
    let t ← idt? (← lookup kv "idt")
    let raw ← str? (← lookup kv "raw")
    let (v, w, tys) := newAuthorization t raw
    pure s!"offered={if tys.isEmpty then "-" else ",".intercalate (tys.map typS)} val={xs v} wild={if w then 1 else 0}"
  | "conv" =>
    let pch ← list? "," str? (← lookup kv "pch")
    let pfmt ← list? "," str? (← lookup kv "pfmt")
    let roots ← (← lookup kv "proots").toNat?
    let via ← lookup kv "via"
    let p : ProvCfg := ⟨pch, pfmt, roots⟩
    let names (l : List String) : String := if l.isEmpty then "-" else ",".intercalate l
    -- `Init` refuses names it does not know; the conversion through linkedca silently drops them
    let six : List Str := [ChType.http01, .dns01, .tlsalpn01, .deviceAttest01, .wireOidc01, .wireDpop01].map ChType.name
    let valid := pch.all (fun n => six.contains (Str.lower n)) && pfmt.all (fun n => linkedcaFormats.contains (Str.lower n))
    let served : Option ProvCfg :=
      if via = "linkedca" then some (migrate p)
      else if via = "linkedca2" then some (migrate (migrate p))
      else if valid then some p else none
    match served with
    | none => pure "initerror"
    | some q =>
      let en := [ChType.http01, .dns01, .tlsalpn01, .deviceAttest01, .wireOidc01, .wireDpop01].filter (isChallengeEnabled q)
      let fm := ["apple", "step", "tpm", "packed", "STEP"].filter (fun f => isFormatEnabled q (Verif.s f))
      let off (t : IdType) (raw : String) : String := names ((offered q t (Verif.s raw)).2.2.map typS)
      pure s!"enabled={names (en.map typS)} fmts={names fm} roots={q.roots} dns={off .dns "example.com"} wild={off .dns "*.example.com"} ip={off .ip "192.0.2.7"} pi={off .permanentIdentifier "12345678"}"
  | "src" =>
    let trip (l : List (String × String × String)) : String :=
      if l.isEmpty then "-" else ",".intercalate (l.map fun (f, v, x) => s!"{f}:{v}={x}")
    let names (l : List String) : String := if l.isEmpty then "-" else ",".intercalate l
    let conv (t : String × List (String × String)) : String :=
      ",".intercalate (("switch:" ++ t.1) :: t.2.map fun (a, b) => s!"{a}>{b}")
    let enabledS (t : List String × String × String) : String :=
      s!"default={"+".intercalate t.1};override-if={t.2.1};match={t.2.2}"
    match (← lookup kv "fact") with
    | "status-writers" => pure (trip Src.statusWriters)
    | "api-status-writers" => pure (trip Src.apiStatusWriters)
    | "authz-updaters" => pure (names Src.authzUpdaters)
    | "api-authz-updaters" => pure (names Src.apiAuthzUpdaters)
    | "chall-updaters" => pure (names Src.challUpdaters)
    | "dispatch" => pure (Src.dispatchGuard ++ ";" ++ ",".intercalate (Src.dispatch.map fun (c, f) => s!"{c}>{f}"))
    | "types" =>
      pure (",".intercalate (Src.types.map fun (t, base, g) =>
        s!"{t}>{"+".intercalate base}" ++ match g with
          | some (cond, extra) => s!";if:{cond}>{"+".intercalate extra}"
          | none => ""))
    | "handler-order" => pure Src.handlerOrder
    | "client-shape" => pure Src.clientShape
    | "route-challenge" => pure Src.routeChallenge
    | "route-authz" => pure Src.routeAuthz
    | "const-prov-challenges" => pure (",".intercalate (Src.constProvChallenges.map fun (a, b) => s!"{a}={b}"))
    | "const-prov-formats" => pure (",".intercalate (Src.constProvFormats.map fun (a, b) => s!"{a}={b}"))
    | "const-acme-challenges" => pure (",".intercalate (Src.constAcmeChallenges.map fun (a, b) => s!"{a}={b}"))
    | "conv-challenges-to-linkedca" => pure (conv Src.convChallengesToLinkedca)
    | "conv-challenges-to-certificates" => pure (conv Src.convChallengesToCertificates)
    | "conv-formats-to-linkedca" => pure (conv Src.convFormatsToLinkedca)
    | "conv-formats-to-certificates" => pure (conv Src.convFormatsToCertificates)
    | "enabled-challenges" => pure (enabledS Src.enabledChallenges)
    | "enabled-formats" => pure (enabledS Src.enabledFormats)
    | _ => pure "unknown-fact"
  | "rev" =>
    let ip ← str? (← lookup kv "ip")
    match reverseAddr ip with
    | .val a => pure ("arpa=" ++ xs a)
    | .crash => pure "crash"
  | _ => none

end C11

def main : IO Unit := Verif.lineLoop fun l => (C11.eval l).getD "parse-error"
