import Verif.Model.AcmeChallenge
/-!
  Line-protocol driver for C11 (ACME challenge validators).

  One case per line, `key=value` fields separated by single spaces; a string is `x<hex>`,
  `!` is "none / error", a list is items joined by ',' (`-` when empty).

    op=validate typ=http|dns|tls|da|wireoidc|wiredpop|unknown st=pending|valid|invalid|other perr=<errT>
       val= tok= thumb=x..|! ip=x..|! strict=0|1 ph=<n> pt=<n> db=0|1 cmp=0|1
       h=<pre>:<sha256>:<b64url sha256>,…                     (hash oracle table)
       w=err | w=resp:<status>:<body|!>                       (http)
       w=err | w=txt:<r1>;<r2>…  (`txt:-` = empty set)         (dns)
       w=alert:<n> | w=other | w=conn:<proto>  leaf=0 | leaf=1 ldns=<list> lips=<list> exts=<id~crit~octets,…>   (tls)
       w=da authz= json= errf= b64= empty= wf= cbor= fmt= en= fpne= azdb= + per-format facts (see `daIn?`)
    op=types idt=ip|dns|pi|wu|wd|other raw=x..
    op=rev ip=x..

  Output (validate): `<status> err=<errT> ret=ok|ise fp=0|1 azrec=<authz status stored>:<expired> az=<authz status after UpdateStatus> tgt=<target>`
  (optional input fields `azst=` `azexp=` `azforeign=` (the loaded authorization does not own this challenge; its own challenges are pending): the owning authorization's stored status / expired flag before the call);
  (types) `offered=<types> val=<stored value> wild=0|1`; (rev) `arpa=<name>`, `crash`, `unmodelled`,
  `mismatch`, `nohash` (the oracle table lacks a digest the model needs), `parse-error`.
-/
open Verif Verif.AcmeChallenge

namespace C11

def str? (t : String) : Option Str :=
  if t.startsWith "x" then unhex (t.drop 1).toString else none

def optStr? (t : String) : Option (Option Str) :=
  if t = "!" then some none else (str? t).map some

def bool? (t : String) : Option Bool :=
  if t = "1" then some true else if t = "0" then some false else none

def list? {α : Type} (sep : String) (f : String → Option α) (t : String) : Option (List α) :=
  if t = "-" then some [] else (t.splitOn sep).mapM f

def lookup (kv : List (String × String)) (k : String) : Option String :=
  (kv.find? (·.1 = k)).map (·.2)

def statusS : Status → String
  | .pending => "pending" | .valid => "valid" | .invalid => "invalid" | .other => "other"
def status? : String → Option Status
  | "pending" => some .pending | "valid" => some .valid | "invalid" => some .invalid | "other" => some .other
  | _ => none

def errS : ErrT → String
  | .none => "none" | .connection => "connection" | .dns => "dns"
  | .rejectedIdentifier => "rejectedIdentifier" | .badAttestationStatement => "badAttestationStatement"
def err? : String → Option ErrT
  | "none" => some .none | "connection" => some .connection | "dns" => some .dns
  | "rejectedIdentifier" => some .rejectedIdentifier
  | "badAttestationStatement" => some .badAttestationStatement
  | _ => none

def typ? : String → Option ChType
  | "http" => some .http01 | "dns" => some .dns01 | "tls" => some .tlsalpn01 | "da" => some .deviceAttest01
  | "wireoidc" => some .wireOidc01 | "wiredpop" => some .wireDpop01 | "unknown" => some .unknown
  | _ => none

def typS : ChType → String
  | .http01 => "http-01" | .dns01 => "dns-01" | .tlsalpn01 => "tls-alpn-01"
  | .deviceAttest01 => "device-attest-01" | .wireOidc01 => "wire-oidc-01" | .wireDpop01 => "wire-dpop-01"
  | .unknown => "unknown"

def xs (a : Str) : String := "x" ++ hex a

def targetS : Target → String
  | .none => "-"
  | .httpGet u => "get:" ++ xs u
  | .txt n => "txt:" ++ xs n
  | .tls a sni => "tls:" ++ xs a ++ ":" ++ xs sni

def outcomeS (cmp : Bool) (az : AzRec) (foreign : Bool) (o : Outcome) : String :=
  let r := daAuthzRecord az o
  s!"{statusS o.status} err={errS o.err} ret={if o.ret = .ok then "ok" else "ise"} fp={if o.authzFp then 1 else 0} azrec={statusS r.status}:{if r.expired then 1 else 0} az={statusS (authzUpdateStatus r (ownChallengeValid foreign o))} tgt={if cmp then targetS o.target else "?"}"

/-- oracle table entry -/
def hentry? (t : String) : Option (Str × Str × Str) :=
  match t.splitOn ":" with
  | [a, b, c] => do pure ((← str? a), (← str? b), (← str? c))
  | _ => none

def mkHash (tab : List (Str × Str × Str)) : Hash :=
  { raw := fun x => ((tab.find? (·.1 = x)).map (·.2.1)).getD [],
    b64 := fun x => ((tab.find? (·.1 = x)).map (·.2.2)).getD [] }

def extId? : String → Option ExtId
  | "acme" => some .acme | "obs" => some .acmeObsolete | "other" => some .other | _ => none

def ext? (t : String) : Option Ext :=
  match t.splitOn "~" with
  | [i, c, o] => do pure ⟨(← extId? i), (← bool? c), (← optStr? o)⟩
  | _ => none

def x5c? (t : String) : Option X5c :=
  match t.splitOn ":" with
  | [p, n, l, r, c] => do pure ⟨(← bool? p), (← n.toNat?), (← bool? l), (← bool? r), (← bool? c)⟩
  | _ => none

def key? : String → Option KeyKind
  | "ecp256" => some .ecP256 | "ecother" => some .ecOther | "rsa" => some .rsa
  | "ed25519" => some .ed25519 | "unsupported" => some .unsupported | _ => none

def serial? (t : String) : Option SerialExt :=
  if t = "absent" then some .absent else if t = "malformed" then some .malformed
  else if t = "trailing" then some .trailing
  else match t.splitOn ":" with
    | ["v", d] => (str? d).map .value
    | _ => none

def fmt? : String → Option AttFormat
  | "apple" => some .apple | "step" => some .step | "tpm" => some .tpm | "other" => some .other | _ => none

def pre? : String → Option TpmPre
  | "ok" => some .ok | "bad" => some .bad | "noroots" => some .noRoots | _ => none

def daIn? (kv : List (String × String)) : Option DaIn := do
  let b (k : String) : Option Bool := do bool? (← lookup kv k)
  let format ← fmt? (← lookup kv "fmt")
  let facts : FmtFacts ←
    match lookup kv "facts" with
    | some "apple" => do
      pure (.apple { x5c := (← x5c? (← lookup kv "x5c")), fpOk := (← b "fpok"),
                     serial := (← str? (← lookup kv "serial")), udid := (← str? (← lookup kv "udid")),
                     nonce := (← str? (← lookup kv "nonce")) })
    | some "step" => do
      let signed ← optStr? (← lookup kv "signed")
      let sigv ← b "sigv"
      pure (.step { x5c := (← x5c? (← lookup kv "x5c")), sigPresent := (← b "sigp"), sigCborOk := (← b "sigc"),
                    key := (← key? (← lookup kv "key")),
                    verifies := fun m => sigv && signed == some m,
                    fpOk := (← b "fpok"), serial := (← serial? (← lookup kv "serial")) })
    | some "tpm" => do
      pure (.tpm { pre := (← pre? (← lookup kv "pre")),
                   extraData := (← str? (← lookup kv "extra")), postBad := (← b "postbad"), fpOk := (← b "fpok"),
                   permanentIdentifiers := (← list? "," str? (← lookup kv "pids")) })
    | some "none" => pure .none
    | _ => none
  pure { authzOk := (← b "authz"), jsonOk := (← b "json"), errField := (← b "errf"), b64Ok := (← b "b64"),
         emptyObj := (← b "empty"), cborWellformed := (← b "wf"), cborOk := (← b "cbor"),
         format, enabled := (← b "en"), facts, fpNonEmpty := (← b "fpne"), authzDbOk := (← b "azdb") }

def world? (kv : List (String × String)) : Option World := do
  let w ← lookup kv "w"
  match w.splitOn ":" with
  | ["err"] => pure (if lookup kv "typ" = some "dns" then .txt none else .http .err)
  | ["resp", st, body] => do pure (.http (.resp (← st.toInt?) (← optStr? body)))
  | ["txt", l] => do pure (.txt (some (← list? ";" str? l)))
  | ["alert", n] => do pure (.tls (.alert (← n.toNat?)))
  | ["other"] => pure (.tls .other)
  | ["conn", proto] => do
    let p ← str? proto
    if (← lookup kv "leaf") = "0" then pure (.tls (.conn none p))
    else
      let dns ← list? "," str? (← lookup kv "ldns")
      let ips ← list? "," str? (← lookup kv "lips")
      let exts ← list? "," ext? (← lookup kv "exts")
      pure (.tls (.conn (some ⟨dns, ips, exts⟩) p))
  | ["da"] => do pure (.attest (← daIn? kv))
  | ["nothing"] => pure .nothing
  | _ => none

def idt? : String → Option IdType
  | "ip" => some .ip | "dns" => some .dns | "pi" => some .permanentIdentifier
  | "wu" => some .wireUser | "wd" => some .wireDevice | "other" => some .other | _ => none

def evalValidate (kv : List (String × String)) : Option String := do
  let typ ← typ? (← lookup kv "typ")
  let status ← status? (← lookup kv "st")
  let perr ← err? (← lookup kv "perr")
  let value ← str? (← lookup kv "val")
  let token ← str? (← lookup kv "tok")
  let thumb ← optStr? (← lookup kv "thumb")
  let ip ← optStr? (← lookup kv "ip")
  let cfg : Cfg := ⟨(← bool? (← lookup kv "strict")), (← (← lookup kv "ph").toNat?), (← (← lookup kv "pt").toNat?)⟩
  let dbOk ← bool? (← lookup kv "db")
  let cmp ← bool? (← lookup kv "cmp")
  let tab ← list? "," hentry? (← lookup kv "h")
  let w ← world? kv
  -- the owning authorization as stored before the call (default: pending, not expired)
  let az : AzRec := ⟨((lookup kv "azst").bind status?).getD .pending, ((lookup kv "azexp").bind bool?).getD false⟩
  let foreign := ((lookup kv "azforeign").bind bool?).getD false
  let ch : Ch := { typ, status, err := perr, value, token, thumb, ip }
  -- every digest the model can ask for must be in the oracle table
  let need : List Str := match typ, thumb with
    | .dns01, some th | .tlsalpn01, some th => [keyAuth token th]
    | .deviceAttest01, some th => [keyAuth token th, token]
    | .deviceAttest01, none => [token]
    | _, _ => []
  if status = .pending ∧ need.any (fun p => !(tab.any (·.1 = p))) then pure "nohash"
  else match validate (mkHash tab) cfg dbOk ch w with
    | .done o => pure (outcomeS cmp az foreign o)
    | .crash => pure "crash"
    | .unmodelled => pure "unmodelled"
    | .mismatch => pure "mismatch"

def eval (line : String) : Option String := do
  let kv := (fields line).filterMap fun f =>
    match f.splitOn "=" with
    | [k, v] => some (k, v)
    | _ => none
  match (← lookup kv "op") with
  | "validate" => evalValidate kv
  | "types" =>
    let t ← idt? (← lookup kv "idt")
    let raw ← str? (← lookup kv "raw")
    let (v, w, tys) := newAuthorization t raw
    pure s!"offered={if tys.isEmpty then "-" else ",".intercalate (tys.map typS)} val={xs v} wild={if w then 1 else 0}"
  | "rev" =>
    let ip ← str? (← lookup kv "ip")
    match reverseAddr ip with
    | .val a => pure ("arpa=" ++ xs a)
    | .crash => pure "crash"
  | _ => none

end C11

def main : IO Unit := Verif.lineLoop fun l => (C11.eval l).getD "parse-error"
