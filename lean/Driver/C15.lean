import Verif.Model.SCEP
/-!
  Line-protocol driver for C15 (SCEP PKI operation).

  `facts`                                   → the message-type sets of `Verif.SCEP.asCoded`, rendered exactly
                                              like the harness's source extractor renders what it finds
  `pki http= p7= tid= mt=x<hex>|! sn=ok|empty|none st=x<hex>|! rn= fi= inner= dec=
       env=csr|badsig|nocsr|cperr cp=x<hex> degen=<n>|! signok= certs=<r|n per certificate>|- signer=<pos>|!
       secret=x<hex> hooks=<kind>:<ct>:<a|d|e>,…|- inits=<times Init ran on the provisioner object, ≥ 1>`
  `init inits=<n> secret=x<hex> hooks=…`    → `init webhooks=<Options.Webhooks after the Inits>`
  Output: ok … | fail:<info> … | http5xx … | crash … | parse-error
-/
open Verif Verif.SCEP

namespace C15

def str? (t : String) : Option Str :=
  if t.startsWith "x" then unhex (t.drop 1).toString else none

def optStr? (t : String) : Option (Option Str) :=
  if t = "!" then some none else (str? t).map some

def bool? (t : String) : Option Bool :=
  if t = "1" then some true else if t = "0" then some false else none

def attr? : String → Option Attr
  | "ok" => some .ok | "empty" => some .empty | "none" => some .none | _ => none

def env? : String → Option Env
  | "csr" => some .csr | "badsig" => some .badsig | "nocsr" => some .nocsr | "cperr" => some .cperr | _ => none

def degen? (t : String) : Option (Option Nat) :=
  if t = "!" then some none else t.toNat?.map some

def hook? (t : String) : Option Hook :=
  match t.splitOn ":" with
  | [k, ct, r] => do
    let k ← match k with | "scep" => some HookKind.scep | "notify" => some .notify | _ => none
    let ct ← match ct with
      | "x509" => some CertType.x509 | "ssh" => some .ssh | "all" => some .all | "none" => some .unset | _ => none
    let r ← match r with | "a" => some HookRes.allow | "d" => some .deny | "e" => some .error | _ => none
    pure ⟨k, ct, r⟩
  | _ => none

def hooks? (t : String) : Option (List Hook) :=
  if t = "-" then some [] else (t.splitOn ",").mapM hook?

def lookup (kv : List (String × String)) (k : String) : Option String :=
  (kv.find? (·.1 = k)).map (·.2)

def typeS (t : MsgType) : String := String.ofList (t.map Char.ofNat)

def listS (l : List MsgType) : String :=
  if l.isEmpty then "-" else ",".intercalate (l.map typeS)

def factsS (F : Facts) : String :=
  s!"parsed_certrep={listS F.parsedCertRep} parsed_csr={listS F.parsedCsr} parsed_rej={listS F.parsedRej} parsed_default=rej " ++
  s!"dec_certrep={listS F.decCertRep} dec_csr={listS F.decCsr} dec_err={listS F.decErr} " ++
  s!"dec_default={if F.decDefaultErr then "err" else "fall"} checked={if F.checkAll then "*" else listS F.checked}"

def natsS (l : List Nat) : String :=
  if l.isEmpty then "-" else ",".intercalate (l.map toString)

def replyS (q : Req) (r : Reply) : String :=
  let signer := if r.signedByCA then "ca" else "other"
  match r.status with
  | .success =>
    -- enc: the requester (the certificate whose key signed the request) can open the envelope
    let enc := r.encrypted && (match q.signer with | some i => r.recipients.contains i | none => false)
    -- pk / nonce: the harness's own checks on a success reply (issued key = CSR key, nonce echoed)
    s!"ok inner={r.inner} outer={r.outer} signer={signer} enc={if enc then 1 else 0} pk=1 nonce=1 " ++
    s!"rcpt={natsS r.recipients} nrcpt={r.recipients.length}"
  | .failure =>
    let fi := match r.failInfo with | some n => toString n | none => ""
    s!"fail:{fi} inner={r.inner} outer={r.outer} signer={signer} nonce=1"

def resultS (q : Req) : M Result → String
  | .crash => "crash hooks=0 notif=0 db=0"
  | .val r =>
    let head := match r.out with
      | .http500 => "http5xx"
      | .reply rp => replyS q rp
    s!"{head} hooks={r.hookCalls} notif={r.notifyCalls} db={r.stored}"

def certs? (t : String) : Option (List Bool) :=
  if t = "-" then some [] else t.toList.mapM fun c => if c = 'r' then some true else if c = 'n' then some false else none

def hookS (h : Hook) : String :=
  let k := match h.kind with | .scep => "scep" | .notify => "notify"
  let ct := match h.ct with | .x509 => "x509" | .ssh => "ssh" | .all => "all" | .unset => "none"
  s!"{k}:{ct}"

def hooksS (l : List Hook) : String :=
  if l.isEmpty then "-" else ",".intercalate (l.map hookS)

/-- Dispatch tables to run with: the tree as it stands unless the line carries `tables=before`
    (never sent by the harness; used by hand to run the historic tables, e.g. against a worktree
    checked out before the fix commits: `sed 's/$/ tables=before/'` on the input lines). -/
def tables (kv : List (String × String)) : Option Facts :=
  match lookup kv "tables" with
  | none => some asCoded
  | some "before" => some asCodedBefore
  | some _ => none

def eval (line : String) : Option String := do
  let fs := fields line
  let kvOf := fun (rest : List String) => rest.filterMap fun f =>
    match f.splitOn "=" with
    | [k, v] => some (k, v)
    | _ => none
  match fs with
  | "facts" :: rest => pure (factsS (← tables (kvOf rest)))
  | "pki" :: rest =>
    let kv := kvOf rest
    let q : Req := {
      httpOk := ← bool? (← lookup kv "http")
      p7Ok := ← bool? (← lookup kv "p7")
      tidOk := ← bool? (← lookup kv "tid")
      mt := ← optStr? (← lookup kv "mt")
      sn := ← attr? (← lookup kv "sn")
      st := ← optStr? (← lookup kv "st")
      rn := ← attr? (← lookup kv "rn")
      fi := ← attr? (← lookup kv "fi")
      innerOk := ← bool? (← lookup kv "inner")
      decOk := ← bool? (← lookup kv "dec")
      env := ← env? (← lookup kv "env")
      cp := ← str? (← lookup kv "cp")
      degen := ← degen? (← lookup kv "degen")
      signOk := ← bool? (← lookup kv "signok")
      certs := ← certs? (← lookup kv "certs")
      signer := ← degen? (← lookup kv "signer") }
    let c : Config := { secret := ← str? (← lookup kv "secret"), hooks := ← hooks? (← lookup kv "hooks") }
    let inits ← (← lookup kv "inits").toNat?
    -- the handlers run on the controllers of the provisioner object, initialised `inits` times
    pure (resultS q (pkiOperationP (← tables kv) (initN inits (Prov.new c)) q))
  | "init" :: rest =>
    let kv := kvOf rest
    let c : Config := { secret := ← str? (← lookup kv "secret"), hooks := ← hooks? (← lookup kv "hooks") }
    let p := initN (← (← lookup kv "inits").toNat?) (Prov.new c)
    pure s!"init webhooks={hooksS p.cfg.hooks}"
  | _ => none

end C15

def main : IO Unit := Verif.lineLoop fun l => (C15.eval l).getD "parse-error"
