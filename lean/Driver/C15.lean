-- line-protocol driver for C15 (stub; replaced when the property is built)
def main : IO Unit := IO.println "stub"
