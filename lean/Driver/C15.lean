import Verif.Model.SCEP
/-!
  Line-protocol driver for C15 (SCEP PKI operation).

  `conv via=linkedca|json|both secret= hooks= forcecn= caps= incroot= exint= minlen= enc= deccert= deckey=`
                                            → the configuration after the conversion(s) and `Init` (or `uninit`)
  `convfacts`                               → the field tables of the four conversion functions
  `wiring`                                  → routes, operations per handler, methods, mounts of the model
  `facts`                                   → the message-type sets of `Verif.SCEP.asCoded`, rendered exactly
                                              like the harness's source extractor renders what it finds
  `pki meth=get|post|head|other path=root|name|rest lookup=scep|other|missing|badesc qok= op=pki|cacert|cacaps|none|other
       ppair=<cert><key> ddec=<cert><key> dsig=<cert><key> inter=<n> roots=<n> exint= incroot= caps=x<hex>,…|- enc= minlen= conv=<conversions through the admin database> kcert=<key>|! kpem=<key>|! kuri=<key>|! listener=mux|tls|insecure reloads=<n>
       http= p7= tid= mt=x<hex>|! sn=ok|empty|none st=x<hex>|! rn= fi= inner= decp= decd=
       env=csr|badsig|nocsr|cperr cp=x<hex> degen=<n>|! cn=x<hex> sans=<d|e|i|u>:x<hex>,…|- cnk=<d|e|i|u> forcecn= signok= certs=<r|n per certificate>|- signer=<pos>|!
       secret=x<hex> hooks=<kind>:<ct>:<a|d|e>,…|- inits=<times Init ran on the provisioner object, ≥ 1>`
  `init inits=<n> secret=x<hex> hooks=…`    → `init webhooks=<Options.Webhooks after the Inits>`
  Output: ok … | fail:<info> … | http5xx … | crash … | parse-error
-/
open Verif Verif.SCEP

namespace C15

def str? (t : String) : Option Str :=
  if t.startsWith "x" then unhex (t.drop 1).toString else none

def optStr? (t : String) : Option (Option Str) :=
  if t = "!" then some none else (str? t).map some

def bool? (t : String) : Option Bool :=
  if t = "1" then some true else if t = "0" then some false else none

def attr? : String → Option Attr
  | "ok" => some .ok | "empty" => some .empty | "none" => some .none | _ => none

def env? : String → Option Env
  | "csr" => some .csr | "badsig" => some .badsig | "nocsr" => some .nocsr | "cperr" => some .cperr | _ => none

def degen? (t : String) : Option (Option Nat) :=
  if t = "!" then some none else t.toNat?.map some

def attempt? : Char → Option Attempt
  | 'a' => some .allow | 'd' => some .deny | '4' => some .s4xx | '5' => some .s5xx | 'j' => some .badJson | _ => none

/-- webhook answers: one character for the first exchange (a d 4 5 j), optionally a second one for
    the retry -/
def attempts? (t : String) : Option (Attempt × Attempt) :=
  match t.toList with
  | [x] => do pure ((← attempt? x), .s5xx)
  | [x, y] => do pure ((← attempt? x), (← attempt? y))
  | _ => none

def hook? (t : String) : Option Hook :=
  match t.splitOn ":" with
  | [k, ct, r] => do
    let k ← match k with
      | "scep" => some HookKind.scep | "notify" => some .notify | "enrich" => some .other | "bogus" => some .unknown
      | _ => none
    let ct ← match ct with
      | "x509" => some CertType.x509 | "ssh" => some .ssh | "all" => some .all | "none" => some .unset
      | "bad" => some .unknown | _ => none
    let (f, s2) ← attempts? r
    pure ⟨k, ct, f, s2⟩
  | _ => none

def hooks? (t : String) : Option (List Hook) :=
  if t = "-" then some [] else (t.splitOn ",").mapM hook?

def lookup (kv : List (String × String)) (k : String) : Option String :=
  (kv.find? (·.1 = k)).map (·.2)

def typeS (t : MsgType) : String := String.ofList (t.map Char.ofNat)

def listS (l : List MsgType) : String :=
  if l.isEmpty then "-" else ",".intercalate (l.map typeS)

def factsS (F : Facts) : String :=
  s!"parsed_certrep={listS F.parsedCertRep} parsed_csr={listS F.parsedCsr} parsed_rej={listS F.parsedRej} parsed_default=rej " ++
  s!"dec_certrep={listS F.decCertRep} dec_csr={listS F.decCsr} dec_err={listS F.decErr} " ++
  s!"dec_default={if F.decDefaultErr then "err" else "fall"} checked={if F.checkAll then "*" else listS F.checked}"

def natsS (l : List Nat) : String :=
  if l.isEmpty then "-" else ",".intercalate (l.map toString)

def kindS : NameKind → String
  | .dns => "d" | .email => "e" | .ip => "i" | .uri => "u"

def issuedS : Option Issued → String
  | none => " subj=! names=-"
  | some c =>
    let l := (c.dns.map fun x => "d:x" ++ hex x) ++ (c.emails.map fun x => "e:x" ++ hex x) ++
             (c.ips.map fun x => "i:x" ++ hex x) ++ (c.uris.map fun x => "u:x" ++ hex x)
    s!" subj=x{hex c.cn} names={if l.isEmpty then "-" else ",".intercalate l}"

def kind? : String → Option NameKind
  | "d" => some .dns | "e" => some .email | "i" => some .ip | "u" => some .uri | _ => none

def san? (t : String) : Option (NameKind × Str) :=
  match t.splitOn ":" with
  | [k, v] => do pure ((← kind? k), (← str? v))
  | _ => none

def sans? (t : String) : Option (List (NameKind × Str)) :=
  if t = "-" then some [] else (t.splitOn ",").mapM san?

def replyS (q : Req) (r : Reply) (w : Which) : String :=
  let signer := if r.signedByCA then (match w with | .dflt => "ca" | .prov => "prov") else "other"
  match r.status with
  | .success =>
    -- enc: the requester (the certificate whose key signed the request) can open the envelope
    let enc := r.encrypted && (match q.signer with | some i => r.recipients.contains i | none => false)
    -- pk / nonce: the harness's own checks on a success reply (issued key = CSR key, nonce echoed)
    s!"ok inner={r.inner} outer={r.outer} signer={signer} enc={if enc then 1 else 0} pk=1 nonce=1 " ++
    s!"rcpt={natsS r.recipients} nrcpt={r.recipients.length}"
  | .failure =>
    let fi := match r.failInfo with | some n => toString n | none => ""
    s!"fail:{fi} inner={r.inner} outer={r.outer} signer={signer} nonce=1"

def tagS : CertTag → String
  | .provDecrypter => "pd" | .inter i => s!"i{i}" | .root i => s!"r{i}"

def strS (t : Str) : String := String.ofList (t.map Char.ofNat)

def servedS (S : Server) (q : Req) (iss : Option Issued) : M Served → String
  | .crash => "crash hooks=0 http=0 notif=0 db=0"
  | .val r =>
    let head := match r.out with
      | .status404 => "http404"
      | .status405 => "http405"
      | .fail500 => "http5xx"
      | .caCert ra certs => s!"cacert ra={if ra then 1 else 0} certs={",".intercalate (certs.map tagS)}"
      | .caCaps caps => s!"cacaps {",".intercalate (caps.map strS)}"
      | .pkiReply rp w =>
        replyS q rp w ++ (if rp.status == Status.success then s!" alg={S.encAlg}" ++ issuedS iss else "")
    s!"{head} hooks={r.hookCalls} http={r.hookHttp} notif={r.notifyCalls} db={r.stored}"

def pair? (t : String) : Option KeyPair :=
  match t.toList with
  | [a, b] => do pure ⟨(← bool? (String.singleton a)), (← bool? (String.singleton b))⟩
  | _ => none

def meth? : String → Option Meth
  | "get" => some .get | "post" => some .post | "head" => some .head | "other" => some .other | _ => none
def path? : String → Option PathShape
  | "root" => some .root | "name" => some .name | "rest" => some .nameRest | _ => none
def lookup? : String → Option Lookup
  | "scep" => some .scep | "other" => some .otherType | "missing" => some .missing | "badesc" => some .badEscape | _ => none
def op? : String → Option Op
  | "none" => some .none | "cacert" => some .caCert | "cacaps" => some .caCaps | "pki" => some .pki | "other" => some .other
  | _ => none

def strList? (t : String) : Option (List Str) :=
  if t = "-" then some [] else (t.splitOn ",").mapM str?

def certs? (t : String) : Option (List Bool) :=
  if t = "-" then some [] else t.toList.mapM fun c => if c = 'r' then some true else if c = 'n' then some false else none

def hookS (h : Hook) : String :=
  let k := match h.kind with | .scep => "scep" | .notify => "notify" | .other => "other" | .unknown => "other"
  let ct := match h.ct with | .x509 => "x509" | .ssh => "ssh" | .all => "all" | .unset => "none" | .unknown => "?"
  s!"{k}:{ct}"

def hooksS (l : List Hook) : String :=
  if l.isEmpty then "-" else ",".intercalate (l.map hookS)

/-- Dispatch tables to run with: the tree as it stands unless the line carries `tables=before`
    (never sent by the harness; used by hand to run the historic tables, e.g. against a worktree
    checked out before the fix commits: `sed 's/$/ tables=before/'` on the input lines). -/
def tables (kv : List (String × String)) : Option Facts :=
  match lookup kv "tables" with
  | none => some asCoded
  | some "before" => some asCodedBefore
  | some _ => none

def methS : Meth → String
  | .get => "GET" | .post => "POST" | .head => "HEAD" | .other => "OTHER"

def opNameS : Op → String
  | .caCert => "GetCACert" | .caCaps => "GetCACaps" | .pki => "PKIOperation" | .none => "" | .other => "?"

/-- the operations a handler serves for a method, read off the model function `dispatchOp` -/
def opsOf (hd : HandlerId) (m : Meth) : List Op :=
  [Op.caCert, .caCaps, .pki, .other].filter fun o =>
    dispatchOp hd { meth := m, path := .name, lookup := .scep, queryOk := true, op := o, decProv := true, decDflt := true }
      == some o

def joinS (l : List String) : String := if l.isEmpty then "-" else ",".intercalate l

/-- the wiring the model is about, rendered like the harness's source extractor renders the source -/
def wiringS : String :=
  let routes := routesAsCoded.map fun e =>
    s!"{methS e.meth}:{if e.star then "*" else "1"}:{match e.handler with | .get => "get" | .post => "post"}"
  let methods := [Meth.get, .post, .head, .other].filter fun m =>
    !(opsOf .get m).isEmpty || !(opsOf .post m).isEmpty
  s!"routes={joinS routes} getops={joinS ((opsOf .get .get).map opNameS)} postops={joinS ((opsOf .post .post).map opNameS)} " ++
  s!"methods={joinS (methods.map methS)} mounts={joinS (mountsAsCoded.map fun (a, b) => a ++ ":" ++ b)} gethead={joinS getHeadAsCoded} " ++
  s!"reloads={joinS (reloadsAsCoded.map fun (a, b) => if b = "" then a else a ++ ":" ++ b)}"

def eval (line : String) : Option String := do
  let fs := fields line
  let kvOf := fun (rest : List String) => rest.filterMap fun f =>
    match f.splitOn "=" with
    | [k, v] => some (k, v)
    | _ => none
  match fs with
  | "facts" :: rest => pure (factsS (← tables (kvOf rest)))
  | "wiring" :: _ => pure wiringS
  | "pki" :: rest =>
    let kv := kvOf rest
    let names : CsrNames := {
      cn := ← str? (← lookup kv "cn")
      sans := ← sans? (← lookup kv "sans")
      cnKind := ← kind? (← lookup kv "cnk") }
    let iss := issue (← bool? (← lookup kv "forcecn")) names
    let q : Req := {
      httpOk := ← bool? (← lookup kv "http")
      p7Ok := ← bool? (← lookup kv "p7")
      tidOk := ← bool? (← lookup kv "tid")
      mt := ← optStr? (← lookup kv "mt")
      sn := ← attr? (← lookup kv "sn")
      st := ← optStr? (← lookup kv "st")
      rn := ← attr? (← lookup kv "rn")
      fi := ← attr? (← lookup kv "fi")
      innerOk := ← bool? (← lookup kv "inner")
      decOk := false   -- set by `withSelectedDecrypter`
      env := ← env? (← lookup kv "env")
      cp := ← str? (← lookup kv "cp")
      degen := ← degen? (← lookup kv "degen")
      -- the authority signs: key acceptable (input) and `forceCNOption` does not refuse
      signOk := (← bool? (← lookup kv "signok")) && iss.isSome
      certs := ← certs? (← lookup kv "certs")
      signer := ← degen? (← lookup kv "signer") }
    let c0 : Config := { secret := ← str? (← lookup kv "secret"), hooks := ← hooks? (← lookup kv "hooks") }
    let inits ← (← lookup kv "inits").toNat?
    -- the provisioner's own key material: which key the certificate certifies, the PEM holds, the URI names
    let keys : KeyCfg := {
      cert := ← degen? (← lookup kv "kcert"), pem := ← degen? (← lookup kv "kpem"), uri := ← degen? (← lookup kv "kuri") }
    let kst := initKeys keys
    let pp : KeyPair := match kst with | some st => st.pair | none => ⟨keys.cert.isSome, false⟩
    -- the listener the request arrives on and the number of reloads before it: both listeners serve the
    -- configuration of the last reload (`served_after_reloads`), which is the one on this line
    let _ ← match (← lookup kv "listener") with | "mux" => some () | "tls" => some () | "insecure" => some () | _ => none
    let _ ← (← lookup kv "reloads").toNat?
    -- the configuration as written, then as it is in force: `conv` conversions through the admin database
    let pcfg0 : ProvCfg := {
      cfg := c0, forceCN := ← bool? (← lookup kv "forcecn"), caps := ← strList? (← lookup kv "caps"),
      includeRoot := ← bool? (← lookup kv "incroot"), excludeIntermediate := ← bool? (← lookup kv "exint"),
      minKeyLen := ← (← lookup kv "minlen").toNat?, encAlg := ← (← lookup kv "enc").toNat?,
      decCert := pp.cert, decKey := pp.key }
    let pcfg := roundTrips (← (← lookup kv "conv").toNat?) pcfg0
    let c := pcfg.cfg
    let h : HttpReq := {
      meth := ← meth? (← lookup kv "meth")
      path := ← path? (← lookup kv "path")
      -- a name that resolves to this configuration finds a SCEP provisioner only if `Init` accepted it
      lookup := lookupOfKeys (← lookup? (← lookup kv "lookup")) pcfg keys
      queryOk := ← bool? (← lookup kv "qok")
      op := ← op? (← lookup kv "op")
      decProv := ← bool? (← lookup kv "decp")
      decDflt := ← bool? (← lookup kv "decd") }
    let S : Server := {
      provPair := pp
      dfltDecrypter := ← pair? (← lookup kv "ddec")
      dfltSigner := ← pair? (← lookup kv "dsig")
      nInter := ← (← lookup kv "inter").toNat?
      nRoots := ← (← lookup kv "roots").toNat?
      excludeIntermediate := ← bool? (← lookup kv "exint")
      includeRoot := ← bool? (← lookup kv "incroot")
      caps := ← strList? (← lookup kv "caps")
      encAlg := ← (← lookup kv "enc").toNat? }
    -- the handlers run on the controllers of the provisioner object, initialised `inits` times
    let out := servedS S q iss (serve (← tables kv) routesAsCoded S (initN inits (Prov.new c)) h q)
    -- a reply signed with the provisioner's own pair verifies iff its signer is the certified key
    let sigOk := match kst with | some st => st.signatureVerifies | none => true
    let signedByProv := (out.splitOn "signer=prov").length > 1
    let tail := match (out.splitOn " hooks=").getLast? with | some t => " hooks=" ++ t | none => ""
    pure (if !sigOk && signedByProv then "badreply:verify" ++ tail else out)
  | "conv" :: rest =>
    let kv := kvOf rest
    let p : ProvCfg := {
      cfg := { secret := ← str? (← lookup kv "secret"), hooks := ← hooks? (← lookup kv "hooks") }
      forceCN := ← bool? (← lookup kv "forcecn")
      caps := ← strList? (← lookup kv "caps")
      includeRoot := ← bool? (← lookup kv "incroot")
      excludeIntermediate := ← bool? (← lookup kv "exint")
      minKeyLen := ← (← lookup kv "minlen").toNat?
      encAlg := ← (← lookup kv "enc").toNat?
      decCert := ← bool? (← lookup kv "deccert")
      decKey := ← bool? (← lookup kv "deckey") }
    let p' ← match (← lookup kv "via") with
      | "linkedca" => some (roundTrip p) | "both" => some (roundTrip p) | "json" => some p | _ => none
    let keys : KeyCfg := {
      cert := ← degen? (← lookup kv "kcert"), pem := ← degen? (← lookup kv "kpem"), uri := ← degen? (← lookup kv "kuri") }
    match (if (initKeys keys).isNone then none else initDefaults p') with
    | none => pure "uninit"
    | some r =>
      let b := fun (x : Bool) => if x then "1" else "0"
      let caps := if r.caps.isEmpty then "-" else ",".intercalate (r.caps.map fun x => "x" ++ hex x)
      pure (s!"secret=x{hex r.cfg.secret} hooks={hooksS r.cfg.hooks} forcecn={b r.forceCN} caps={caps} " ++
        s!"incroot={b r.includeRoot} exint={b r.excludeIntermediate} minlen={r.minKeyLen} enc={r.encAlg} " ++
        s!"deccert={b r.decCert} deckey={b r.decKey}")
  | "convfacts" :: _ =>
    let f := fun (l : List (String × String)) => ",".intercalate (l.map fun (a, b) => a ++ "<-" ++ b)
    pure (s!"tolinked={f toLinkedcaFields} tocert={f toCertificatesFields} " ++
      s!"whto={f webhookToLinkedcaFields} whfrom={f webhookToCertificatesFields} " ++
      s!"optsto={optionsToLinkedcaShape} optsfrom={optionsToCertificatesShape}")
  | "init" :: rest =>
    let kv := kvOf rest
    let c : Config := { secret := ← str? (← lookup kv "secret"), hooks := ← hooks? (← lookup kv "hooks") }
    let p := initN (← (← lookup kv "inits").toNat?) (Prov.new c)
    pure s!"init webhooks={hooksS p.cfg.hooks}"
  | _ => none

end C15

def main : IO Unit := Verif.lineLoop fun l => (C15.eval l).getD "parse-error"
