import Verif.Model.SignNames
/-!
  Line-protocol driver for C03 (X.509 token signing: names, key, provisioner extension).

  One sign request per line, `key=value` fields separated by single spaces:
    prov=jwk|x5c|oidc|oidcadm|nebula|k8ssa|acme|scep|aws|awsdcs  tpl=0|1  gen=x<hex DER>
    adr= aex= aae=   authority-level claims disableRenewal / disableSmallstepExtensions / allowRenewalAfterExpiry (-|0|1)
    pdr= pex= pae=   the provisioner's own claims (as configured); conv=1: they went through the admin-database form
    sub=<san>  sans=<san>,…|-  cnf=-|!|0|1  oem=<san>|-  oiss=<san>|-  nbn=<san>|-  nbi=x<ip>,…|-   (Nebula certificate name / addresses)
    sig=0|1  ccn=x<hex>  cdns= cip= cem= curi=   (lists of x<hex>, `-` when empty)
    key=<n>  keyok=0|1  cext=<ext>,…|-  ud=0|1  uext=<ext>,…|-  uoth=<n>  uok=0|1 (user `extensions` decode as extensions)  enct=0|1  encc=0|1  whe=-|0|1  wha=-|0|1  [ra=1 rgen=x<DER>: authority in RA mode, extension of the issuing CA's provisioner]   (answers of the ENRICHING / AUTHORIZING webhook)
  san = `d|i|e|u` `:` x<raw> `:` x<canonical>;  ext = `<oid number>:x<value>` (oid 0 = provisioner OID)
  `src fn=signX509|jwk|x5c|oidc|nebula|k8ssa|acme|scep|allsign` prints the source-order tables of the model (compared with what
  harness/cmd/c03_src derives from the Go source).
  [via=api: the request goes through the real router and api.Sign; refusals are printed as http:<status>]
  Output: unauth:<status> | refuse:<status> | error | issue cn=… dns=… ip=… em=… uri=… key=<n> ext=… | parse-error
-/
open Verif Verif.SignNames

namespace C03

def str? (t : String) : Option Str :=
  if t.startsWith "x" then unhex (t.drop 1).toString else none

def bool? (t : String) : Option Bool :=
  if t = "1" then some true else if t = "0" then some false else none

/-- a boolean claim: `-` unset, `0`, `1` -/
def tri? (t : String) : Option (Option Bool) :=
  if t = "-" then some none else (bool? t).map some

def list? {α : Type} (f : String → Option α) (t : String) : Option (List α) :=
  if t = "-" then some [] else (t.splitOn ",").mapM f

def kind? (t : String) : Option Kind :=
  match t with
  | "d" => some .dns | "i" => some .ip | "e" => some .email | "u" => some .uri | _ => none

def san? (t : String) : Option San :=
  match t.splitOn ":" with
  | [k, a, b] => do pure ⟨(← kind? k), (← str? a), (← str? b)⟩
  | _ => none

def optSan? (t : String) : Option (Option San) :=
  if t = "-" then some none else (san? t).map some

def ext? (t : String) : Option Ext :=
  match t.splitOn ":" with
  | [a, b] => do pure ⟨(← a.toNat?), (← str? b)⟩
  | _ => none

def cnf? (t : String) : Option Cnf :=
  match t with
  | "-" => some .absent | "!" => some .undecodable
  | "0" => some (.present false) | "1" => some (.present true) | _ => none

def prov? (t : String) : Option Prov :=
  match t with
  | "jwk" => some .jwk | "x5c" => some .x5c
  | "oidc" => some (.oidc false) | "oidcadm" => some (.oidc true)
  | "nebula" => some .nebula | "k8ssa" => some .k8ssa
  | "acme" => some .acme | "scep" => some .scep
  | "aws" => some (.aws false) | "awsdcs" => some (.aws true) | _ => none

def lookup (kv : List (String × String)) (k : String) : Option String :=
  (kv.find? (·.1 = k)).map (·.2)

def xs (a : Str) : String := "x" ++ hex a

def listS (l : List String) : String := if l.isEmpty then "-" else ",".intercalate l

def certS (c : Cert) : String :=
  s!"issue cn={xs c.cn} dns={listS (c.dns.map xs)} ip={listS (c.ips.map xs)} em={listS (c.emails.map xs)} uri={listS (c.uris.map xs)} key={c.key} ext={listS (c.exts.map fun e => s!"{e.oid}:{xs e.val}")}"

def evalSrc (fn : String) : Option String :=
  match fn with
  | "signX509" => some (" ".intercalate (signX509Source.map Tok.str))
  | "jwk" => some (" ".intercalate ((optionSource .jwk).map Opt.str))
  | "x5c" => some (" ".intercalate ((optionSource .x5c).map Opt.str))
  | "oidc" => some (" ".intercalate ((optionSource (.oidc false)).map Opt.str))
  | "nebula" => some (" ".intercalate ((optionSource .nebula).map Opt.str))
  | "k8ssa" => some (" ".intercalate ((optionSource .k8ssa).map Opt.str))
  | "aws" => some (" ".intercalate ((optionSource (.aws true)).map Opt.str))
  | "acme" => some (" ".intercalate ((optionSource .acme).map Opt.str))
  | "scep" => some (" ".intercalate ((optionSource .scep).map Opt.str))
  | "allsign" => some (" ".intercalate (allSignSource.map fun e => e.1 ++ ":" ++ e.2.str))
  | _ => none

def eval (line : String) : Option String := do
  if (fields line).head? = some "src" then
    let fn ← ((fields line).filterMap fun f => match f.splitOn "=" with | ["fn", v] => some v | _ => none).head?
    return (← evalSrc fn)
  let kv := (fields line).filterMap fun f =>
    match f.splitOn "=" with
    | [k, v] => some (k, v)
    | _ => none
  let get := fun k => lookup kv k
  let cfg : Cfg := {
    prov := (← prov? (← get "prov")), hasTemplate := (← bool? (← get "tpl")),
    authClaims := ⟨(← tri? (← get "adr")), (← tri? (← get "aex")), (← tri? (← get "aae")), false⟩,
    provClaims := ⟨(← tri? (← get "pdr")), (← tri? (← get "pex")), (← tri? (← get "pae")), (get "conv") = some "1"⟩,
    gen := ⟨0, (← str? (← get "gen"))⟩ }
  let tok : Token := {
    sub := (← san? (← get "sub")), sans := (← list? san? (← get "sans")),
    cnf := (← cnf? (← get "cnf")), email := (← optSan? (← get "oem")), issUri := (← optSan? (← get "oiss")),
    nebName := (← optSan? (← get "nbn")), nebIPs := (← list? str? (← get "nbi")) }
  let csr : CSR := {
    sigOK := (← bool? (← get "sig")), cn := (← str? (← get "ccn")),
    dns := (← list? str? (← get "cdns")), ips := (← list? str? (← get "cip")),
    emails := (← list? str? (← get "cem")), uris := (← list? str? (← get "curi")),
    key := (← (← get "key").toNat?), keyOK := (← bool? (← get "keyok")),
    exts := (← list? ext? (← get "cext")) }
  let hasUd ← bool? (← get "ud")
  let ud : UserData := { exts := (← list? ext? (← get "uext")), other := (← (← get "uoth").toNat?), extsOK := (← bool? (← get "uok")) }
  let enc : Enc := ⟨(← bool? (← get "enct")), (← bool? (← get "encc")), (← tri? (← get "whe")), (← tri? (← get "wha"))⟩
  let ra ← bool? ((get "ra").getD "0")
  let viaAPI := (get "via") = some "api"
  let res := if viaAPI ∧ !ra then httpSign cfg tok csr (if hasUd then some ud else none) enc
             else if ra then raRequest cfg ⟨0, ((get "rgen").bind str?).getD []⟩ tok csr (if hasUd then some ud else none) enc
             else request cfg tok csr (if hasUd then some ud else none) enc
  if viaAPI then
    -- `read.JSON` fails (400) before anything else when the body is not JSON (templateData that is
    -- not a JSON value cannot be embedded in a JSON body)
    if (get "badbody") = some "1" then return "http:400"
    match res with
    | .issued c => return certS c
    | r => return s!"http:{r.status}"
  match res with
  | .unauthorized st => pure s!"unauth:{st}"
  | .refused st => pure s!"refuse:{st}"
  | .error => pure "error"
  | .issued c => pure (certS c)

end C03

def main : IO Unit := Verif.lineLoop fun l => (C03.eval l).getD "parse-error"
