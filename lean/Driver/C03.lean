-- line-protocol driver for C03 (stub; replaced when the property is built)
def main : IO Unit := IO.println "stub"
