import Verif.Model.AcmeAuth
/-!
  Line-protocol driver for C12 (ACME request authentication / replay / confinement).

  `req`  — one request against the world as the harness observed it just before sending:
    req v=2 m=POST p=x<hex chi pattern>
        pid= pname= pknown= url= ct=0..3 cpath= parsed= fresh= tgt= tgt2= plok= deact= only= ckey= csame= attest= attp= pre= pacme=        (request)
        ns= ue= ac=rsa|eced|other alg= es= short= jwk=-|isRsa.bytes.valid.thumb.alg
        kid= kb= kpre= nonce= jurl=!|n ver=-|thumb:pRSB,… pe=                                   (parsed JWS)
        nl=0|1  accs=-|id:key:keyAlg:status:loc:provId:provName,…                               (world)
        ord=-|id:acct:prov,…  az=…  ch=…  cert=-|id:acct:revoked,…
    numbers are interned strings (0 = ""), flags 0/1, status v|d|r, ver flags = plain,padR,padS,padRS.
    Output: <verdict> n=<nonce live before><after> acc=<status of account kb afterwards|-> rev=<cert tgt revoked afterwards|->
            fp=<device-attest case: fingerprint written into the authorization of the URL 0|1, else ->
      verdict = ok | <status>:<problem type> | crash | no-such-route

  `route` — what the (pasted / regenerated) table says about a route of the real router:
    route v=2 m=POST p=x<hex pattern>
    Output: sel=jwk|kid|either pag=0|1 parse=1 validate=1 verify=1 nonce=1   (or `none` / `unguarded`)
-/
open Verif Verif.AcmeAuth

namespace C12

def bool? (t : String) : Option Bool :=
  if t = "1" then some true else if t = "0" then some false else none

def lookup (kv : List (String × String)) (k : String) : Option String :=
  (kv.find? (·.1 = k)).map (·.2)

def nat (kv : List (String × String)) (k : String) : Option Nat := do (← lookup kv k).toNat?
def flag (kv : List (String × String)) (k : String) : Option Bool := do bool? (← lookup kv k)

def list? {α : Type} (f : String → Option α) (t : String) : Option (List α) :=
  if t = "-" then some [] else (t.splitOn ",").mapM f

def jwk? (t : String) : Option (Option Jwk) :=
  if t = "-" then some none else
  match t.splitOn "." with
  | [a, b, c, d, e, f] => do
    pure (some { isRsa := (← bool? a), rsaBytes := (← b.toNat?), valid := (← bool? c), thumb := (← d.toNat?), alg := (← e.toNat?),
                 kidMember := (← f.toNat?) })
  | _ => none

def ver? (t : String) : Option (Nat × Ver) :=
  match t.splitOn ":" with
  | [a, b] =>
    match b.toList with
    | [p, q, r, s] => do
      let f := fun (c : Char) => if c = '1' then some true else if c = '0' then some false else none
      pure ((← a.toNat?), ⟨(← f p), (← f q), (← f r), (← f s)⟩)
    | _ => none
  | _ => none

def status? (t : String) : Option Status :=
  match t with | "v" => some .valid | "d" => some .deactivated | "r" => some .revoked | _ => none

def acc? (t : String) : Option Account :=
  match t.splitOn ":" with
  | [a, b, c, d, e, f, g] => do
    pure { id := (← a.toNat?), key := (← b.toNat?), keyAlg := (← c.toNat?), status := (← status? d),
           loc := (← e.toNat?), provId := (← f.toNat?), provName := (← g.toNat?) }
  | _ => none

def owned? (t : String) : Option Owned :=
  match t.splitOn ":" with
  | [a, b, c] => do pure ⟨(← a.toNat?), (← b.toNat?), (← c.toNat?)⟩
  | _ => none

def cert? (t : String) : Option Cert :=
  match t.splitOn ":" with
  | [a, b, c] => do pure ⟨(← a.toNat?), (← b.toNat?), (← bool? c)⟩
  | _ => none

def method? (t : String) : Option Method :=
  match t with | "GET" => some .GET | "HEAD" => some .HEAD | "POST" => some .POST | _ => none

def rejS : Rej → String
  | .malformed => "400:malformed"
  | .badSigAlg => "400:badSignatureAlgorithm"
  | .badNonce => "400:badNonce"
  | .unauthorized => "401:unauthorized"
  | .forbidden => "403:unauthorized"
  | .accountDoesNotExist => "400:accountDoesNotExist"
  | .serverInternal => "500:serverInternal"
  | .notImplemented => "501:rejectedIdentifier"   -- errors.go maps ErrorNotImplementedType to the rejectedIdentifier URN
  | .alreadyRevoked => "400:alreadyRevoked"
  | .provNotFound => "404:notFound"
  | .crash => "crash"

def statusS : Status → String | .valid => "v" | .deactivated => "d" | .revoked => "r"

def kvs (line : String) : List (String × String) :=
  (fields line).filterMap fun f =>
    match f.splitOn "=" with
    | [k, v] => some (k, v)
    | _ => none

def evalReq (kv : List (String × String)) : Option String := do
  let m ← method? (← lookup kv "m")
  let pt ← lookup kv "p"
  let p ← if pt.startsWith "x" then unhex (pt.drop 1).toString else none
  match findRoute pastedRoutes m p with
  | none => pure "no-such-route"
  | some rt =>
  let h ← match rt.handler with | .h h => some h | .other => none
  let ac ← match (← lookup kv "ac") with
    | "rsa" => some AlgClass.rsa | "eced" => some .ecEd | "other" => some .other | _ => none
  let jurl ← (fun t => if t = "!" then some none else t.toNat?.map some) (← lookup kv "jurl")
  let jws : Jws := {
    nsigs := (← nat kv "ns"), unprotEmpty := (← flag kv "ue"), algClass := ac, alg := (← nat kv "alg"),
    isES := (← flag kv "es"), short := (← nat kv "short"), jwk := (← jwk? (← lookup kv "jwk")),
    kid := (← nat kv "kid"), kidBase := (← nat kv "kb"), kidHasPrefix := (← flag kv "kpre"),
    nonce := (← nat kv "nonce"), url := jurl, ver := (← list? ver? (← lookup kv "ver")),
    payloadEmpty := (← flag kv "pe") }
  let rq : Req := {
    provId := (← nat kv "pid"), provName := (← nat kv "pname"), provKnown := (← flag kv "pknown"),
    url := (← nat kv "url"), ct := (← nat kv "ct"), certPath := (← flag kv "cpath"), parsed := (← flag kv "parsed"), jws,
    fresh := (← nat kv "fresh"), target := (← nat kv "tgt"), target2 := (← nat kv "tgt2"),
    payloadOk := (← flag kv "plok"), wantDeactivate := (← flag kv "deact"), onlyExisting := (← flag kv "only"),
    certKey := (← nat kv "ckey"), certSame := (← flag kv "csame"), attest := (← flag kv "attest"), attPayload := (← nat kv "attp"),
    prereq := (← nat kv "pre"), provAcme := (← flag kv "pacme") }
  let nl ← flag kv "nl"
  let w : World := {
    nonces := if nl then [jws.nonce] else [],
    accounts := (← list? acc? (← lookup kv "accs")),
    orders := (← list? owned? (← lookup kv "ord")),
    authzs := (← list? owned? (← lookup kv "az")),
    challenges := (← list? owned? (← lookup kv "ch")),
    certs := (← list? cert? (← lookup kv "cert")) }
  let (w', r) := serve rt.chain h rq w
  let verdict := match r with | .ok _ => "ok" | .error e => rejS e
  let after := w'.nonces.contains jws.nonce
  let accS := match accById w' jws.kidBase with | some a => statusS a.status | none => "-"
  let revS := match h, findCert w' rq.target with
    | .revokeCert, some x => if x.revoked then "1" else "0"
    | _, _ => "-"
  let fpS := match h, r with
    | .getChallenge, .ok (.attested _ _) => "1"
    | .getChallenge, _ => if rq.attest then "0" else "-"
    | _, _ => "-"
  -- new-account: WHICH account answered — an existing one (the account of the embedded key) or a new one
  let whoS := match h, r with
    | .newAccount, .ok (.account id) => s!"a{id}"
    | .newAccount, .ok .newAccount => "new"
    | _, _ => "-"
  pure s!"{verdict} n={if nl then 1 else 0}{if after then 1 else 0} acc={accS} rev={revS} who={whoS} fp={fpS}"

def evalRoute (kv : List (String × String)) : Option String := do
  let m ← method? (← lookup kv "m")
  let pt ← lookup kv "p"
  let p ← if pt.startsWith "x" then unhex (pt.drop 1).toString else none
  match findRoute pastedRoutes m p with
  | none => pure "none"
  | some rt =>
    match rt.handler with
    | .other =>
      let has := fun (x : Mw) => if rt.chain.contains x then 1 else 0
      pure s!"open parse={has .parseJWS} validate={has .validateJWS} verify={has .verifyPayload} nonce={has .addNonce}"
    | .h h =>
      if !rowGuarded rt then pure "unguarded" else
      let sel := match requiredSel h with | .jwk => "jwk" | .kid => "kid" | .either => "either"
      let pag := if rt.chain.contains .isPostAsGet then 1 else 0
      pure s!"sel={sel} pag={pag} parse=1 validate=1 verify=1 nonce=1"

/-- stage acctrace: `sched=` is a word over A (the deactivation) and B (the contact update); each letter is one store
    step of that request (lookupJWK's GetAccount, UpdateAccount's read, the compare-and-swap) -/
def evalAcctRace (kv : List (String × String)) : Option String := do
  let sched ← (← lookup kv "sched").toList.mapM (fun ch => if ch = 'A' then some false else if ch = 'B' then some true else none)
  let x := casRun2 (.valid, 0) ⟨.deactivate, .start⟩ ⟨.contact, .start⟩ sched
  let res : CPc → String := fun pc => match pc with
    | .done .ok => "200" | .done .unauthorized => "401:unauthorized" | .done .conflict => "500:serverInternal" | _ => "-"
  let st := match x.1.1 with | .valid => "valid" | .deactivated => "deactivated" | .revoked => "revoked"
  -- the harness then lets A run to its end, then B
  let y := casRun2 x.1 x.2.1 x.2.2 [false, false, false, true, true, true]
  let st2 := match y.1.1 with | .valid => "valid" | .deactivated => "deactivated" | .revoked => "revoked"
  pure s!"{st} deact={res x.2.1.pc} contact={res x.2.2.pc} end={st2} deact={res y.2.1.pc} contact={res y.2.2.pc}"

/-- version of the line protocol this driver speaks; the harness sends `v=<its version>` on every
    line. A mismatch means driver and harness come from different revisions of /verif: it is
    reported as such, never as a verdict. -/
def protocolVersion : String := "2"

def eval (line : String) : Option String :=
  let kv := kvs line
  if lookup kv "v" ≠ some protocolVersion then some "protocol-mismatch" else
  match (fields line).head? with
  | some "req" => evalReq kv
  | some "route" => evalRoute kv
  | some "acctrace" => evalAcctRace kv
  | _ => none

end C12

def main : IO Unit := Verif.lineLoop fun l => (C12.eval l).getD "parse-error"
