import Verif.Model.Token
/-!
  Line-protocol driver for C01 (token authorization).

  `key=value` fields separated by single spaces; a string is `x<hex>`; lists are joined by `,`
  (`-` = empty); `!` = absent.

  auth op=<sign|sshsign|sshrenew|sshrekey|revoke|sshrevoke> now=<ns> ssh=0|1 noiat=0|1 start=<s>
       hosts=<xname:v6:parses:xnorm:xstripped,…>
       provs=<ty:xname:xkid:xclient:xaudience:xissuer:xidEsc:init:sshEnabled:disableRenewal:renewAfterExpiry,…>
       parsed=0|1 kid= iss= sub= aud=<xraw:xstripped,…> exp=<s|!> nbf= iat= azp= tid= email= lbt=0|1
       frag= fragesc= hasssh=0|1 sshtype=0|1 nebssh=0|1 [nebsans=0|1] sshkeys=<(u|h)(o|r|f),…> pop=<!|after:before:host:user:serialIsSub:signer index|!> cr=<8 bits,…> [cl=<5 bits,…>]
     -> ok:x<name of the answering provisioner> | reject | crash
        with http=1 (request sent through the api handler, database tables diffed):
        ok | reject:pre (refused before UseToken) | reject:post (refused by the provisioner) | crash
  aud hosts=<…> frag=<!|xescaped>
     -> the seven rendered lists (`xraw|xstripped` items, lists joined by `;`)
  coll ops=<s:xid:xname:xtok | u:xid:xname:xtok | r:xid,…> keys=<xkey,…>
     -> res=<1/0 per operation> id=<…> name=<…> tok=<…>: what Load / LoadByName / LoadByTokenID return
        for every key after the operations (`xid/xname/xtok` or `-`)
  convert type=<Go type> exp=x<projection of the provisioner as configured>
     -> conv:<type>:<that projection> (ProvisionerToLinkedca ; ProvisionerToCertificates must preserve it)
  apisurface / routes / ctxmethods                            -> the model's tables `apiSurface`, `apiRoutes`
  flow fn=<function of authority/authorize.go>   -> its statement skeleton from the model's table `flows`
  methods type=<provisioner Go type>             -> the Authorize* methods it declares (`declared`)
  handler name=<Go function name>
     -> the control-flow paths recorded in the model's table (events joined by `,`, paths by `;`)
-/
open Verif Verif.Token

namespace C01

def str? (t : String) : Option Str :=
  if t.startsWith "x" then unhex (t.drop 1).toString else none

def bool? (t : String) : Option Bool :=
  if t = "1" then some true else if t = "0" then some false else none

def list? {α : Type} (f : String → Option α) (t : String) : Option (List α) :=
  if t = "-" then some [] else (t.splitOn ",").mapM f

def optInt? (t : String) : Option (Option Int) :=
  if t = "!" then some none else t.toInt?.map some

def lookup (kv : List (String × String)) (k : String) : Option String :=
  (kv.find? (·.1 = k)).map (·.2)

def op? : String → Option Op
  | "sign" => some .sign | "sshsign" => some .sshSign | "sshrenew" => some .sshRenew
  | "sshrekey" => some .sshRekey | "revoke" => some .revoke | "sshrevoke" => some .sshRevoke
  | _ => none

def ty? : String → Option PType
  | "jwk" => some .jwk | "x5c" => some .x5c | "sshpop" => some .sshpop | "oidc" => some .oidc
  | "k8ssa" => some .k8ssa | "nebula" => some .nebula | "acme" => some .acme | "scep" => some .scep
  | "aws" => some .aws | "gcp" => some .gcp | "azure" => some .azure
  | _ => none

def host? (t : String) : Option Host :=
  match t.splitOn ":" with
  | [a, b, c, d, e] => do pure ⟨(← str? a), (← bool? b), (← bool? c), (← str? d), (← str? e)⟩
  | _ => none

def prov? (t : String) : Option Prov :=
  match t.splitOn ":" with
  | [ty, n, k, c, au, i, e, ini, ssh, dr, rae] => do
    pure { ty := (← ty? ty), name := (← str? n), kid := (← str? k), clientId := (← str? c), audience := (← str? au),
           oidcIssuer := (← str? i), nameEsc := (← str? e), init := (← bool? ini),
           sshEnabled := (← bool? ssh), disableRenewal := (← bool? dr), renewAfterExpiry := (← bool? rae) }
  | _ => none

def taud? (t : String) : Option TAud :=
  match t.splitOn ":" with
  | [a, b] => do pure ⟨(← str? a), (← str? b)⟩
  | _ => none

def cr? (t : String) : Option Cr :=
  match t.toList.map (· == '1') with
  | [a, b, c, d, e, f, g, h] => some ⟨a, b, c, d, e, f, g, h⟩
  | _ => none

def cl? (t : String) : Option Cl :=
  match t.toList.map (· == '1') with
  | [a, b, c, d, e] => some ⟨a, b, c, d, e⟩
  | _ => none

def sshKey? (t : String) : Option SshKey :=
  match t.toList with
  | [k, c] => do
    let user ← if k = 'u' then some true else if k = 'h' then some false else none
    let cls ← if c = 'o' then some KeyClass.own else if c = 'r' then some .retired else if c = 'f' then some .federated else none
    pure ⟨user, cls⟩
  | _ => none

def pop? (t : String) : Option (Option Pop) :=
  if t = "!" then some none else
  match t.splitOn ":" with
  | [a, b, h, u, sr] => do pure (some ⟨(← a.toNat?), (← b.toNat?), (← bool? h), (← bool? u), (← bool? sr), none⟩)
  | [a, b, h, u, sr, sg] => do
    let signer ← if sg = "!" then some none else sg.toNat?.map some
    pure (some ⟨(← a.toNat?), (← b.toNat?), (← bool? h), (← bool? u), (← bool? sr), signer⟩)
  | _ => none

def kvs (line : String) : List (String × String) :=
  (fields line).filterMap fun f =>
    match f.splitOn "=" with
    | [k, v] => some (k, v)
    | _ => none

def evalAuth (kv : List (String × String)) : Option String := do
  let op ← op? (← lookup kv "op")
  let now ← (← lookup kv "now").toInt?
  let cfg : Config := {
    hosts := (← list? host? (← lookup kv "hosts"))
    provs := (← list? prov? (← lookup kv "provs"))
    sshCA := (← bool? (← lookup kv "ssh"))
    disableIat := (← bool? (← lookup kv "noiat"))
    startTime := (← (← lookup kv "start").toInt?)
    sshKeys := (← list? sshKey? ((lookup kv "sshkeys").getD "-")) }
  let tok : Tok := {
    parsed := (← bool? (← lookup kv "parsed"))
    kid := (← str? (← lookup kv "kid"))
    iss := (← str? (← lookup kv "iss"))
    sub := (← str? (← lookup kv "sub"))
    aud := (← list? taud? (← lookup kv "aud"))
    exp := (← optInt? (← lookup kv "exp"))
    nbf := (← optInt? (← lookup kv "nbf"))
    iat := (← optInt? (← lookup kv "iat"))
    azp := (← str? (← lookup kv "azp"))
    tid := (← str? (← lookup kv "tid"))
    email := (← str? (← lookup kv "email"))
    lbtOk := (← bool? (← lookup kv "lbt"))
    fragment := (← str? (← lookup kv "frag"))
    fragEsc := (← str? (← lookup kv "fragesc"))
    hasSSH := (← bool? (← lookup kv "hasssh"))
    sshTypeOk := (← bool? (← lookup kv "sshtype"))
    nebSshOk := (← bool? (← lookup kv "nebssh"))
    nebSansOk := (← bool? ((lookup kv "nebsans").getD "1"))
    pop := (← pop? (← lookup kv "pop"))
    cr := (← list? cr? (← lookup kv "cr"))
    cl := (← list? cl? ((lookup kv "cl").getD "-")) }
  let http := lookup kv "http" == some "1"
  match authorize cfg now op tok with
  | .ok i =>
    if http then pure "ok" else
    match cfg.provs[i]? with
    | some p => pure ("ok:x" ++ hex p.name)
    | none => pure "ok:?"
  | .reject r =>
    if http then
      let tracked := match loadByToken cfg tok with
        | some (_, p) => p.tracksTokens
        | none => false
      pure (if r.beforeUseToken || !tracked then "reject:pre" else "reject:post")
    else pure "reject"
  | .crash => pure "crash"

def showList (l : List (Str × Str)) : String :=
  ",".intercalate (l.map fun a => "x" ++ hex a.1 ++ "|x" ++ hex a.2)

def evalAud (kv : List (String × String)) : Option String := do
  let hosts ← list? host? (← lookup kv "hosts")
  let f ← lookup kv "frag"
  let frag ← if f = "!" then some none else (str? f).map some
  let a := getAudiences hosts
  let r := fun (l : List Aud) => showList (l.map (Aud.render frag))
  pure (";".intercalate [r a.sign, r a.renew, r a.revoke, r a.sshSign, r a.sshRevoke, r a.sshRenew, r a.sshRekey])

def evalHandler (kv : List (String × String)) : Option String := do
  let n ← lookup kv "name"
  match handlerPaths.find? (·.1 = n) with
  | some (_, ps) => pure ("paths:" ++ n ++ ":" ++ ";".intercalate (ps.map fun p => ",".intercalate (p.map Ev.show)))
  | none => pure "unknown-handler"

def evalFlow (kv : List (String × String)) : Option String := do
  let n ← lookup kv "fn"
  match flows.find? (·.1 = n) with
  | some (_, f) => pure ("flow:" ++ n ++ ":" ++ Fl.showList f)
  | none => pure "unknown-function"

def evalMethods (kv : List (String × String)) : Option String := do
  let n ← lookup kv "type"
  match declared.find? (·.1 = n) with
  | some (_, ms, base) => pure ("methods:" ++ n ++ ":" ++ ",".intercalate ms ++ (if base then ";base" else ""))
  | none => pure "unknown-type"

def cp? (a b c : String) : Option CP := do pure ⟨(← str? a), (← str? b), (← str? c)⟩

def cop? (t : String) : Option COp :=
  match t.splitOn ":" with
  | ["s", a, b, c] => (cp? a b c).map .store
  | ["u", a, b, c] => (cp? a b c).map .update
  | ["r", a] => (str? a).map .remove
  | _ => none

def showCP : Option CP → String
  | some p => "x" ++ hex p.id ++ "/x" ++ hex p.name ++ "/x" ++ hex p.tok
  | none => "-"

/-- run the operations on an empty collection; print which succeeded and, for every key of the
    universe, what `Load`, `LoadByName` and `LoadByTokenID` return -/
def evalColl (kv : List (String × String)) : Option String := do
  let ops ← list? cop? (← lookup kv "ops")
  let keys ← list? str? (← lookup kv "keys")
  let (c, res) := ops.foldl (fun (acc : Coll × String) o =>
    let r := match o with
      | .store p => acc.1.store p
      | .remove id => acc.1.remove id
      | .update p => acc.1.update p
    (r.1, acc.2 ++ (if r.2 then "1" else "0"))) (Coll.empty, "")
  let tab := fun (m : CMap) => ",".intercalate (keys.map fun k => showCP (m k))
  pure ("res=" ++ res ++ " id=" ++ tab c.byID ++ " name=" ++ tab c.byName ++ " tok=" ++ tab c.byTok ++
    " consistent=1")   -- `collection_consistent`: the model's indexes always agree

def evalSurface : String :=
  "apisurface:" ++ ";".intercalate (apiSurface.map fun e =>
    e.1 ++ ":auth=" ++ (if e.2.1 then "1" else "0") ++ ":" ++ ",".intercalate e.2.2)

def evalCtxMethods : String :=
  "ctxmethods:" ++ ";".intercalate (handlerMethods.map fun h => h.1 ++ ":" ++ ",".intercalate h.2)

def evalRoutes : String :=
  "routes:" ++ ";".intercalate (apiRoutes.map fun r => r.1 ++ " " ++ r.2.1 ++ " " ++ r.2.2)

def eval (line : String) : Option String :=
  match fields line with
  | "auth" :: _ => evalAuth (kvs line)
  | "aud" :: _ => evalAud (kvs line)
  | "handler" :: _ => evalHandler (kvs line)
  | "convert" :: _ => do
    -- the admin-database round trip must be the identity on the credential-relevant projection
    let kv := kvs line
    let e ← str? (← lookup kv "exp")
    pure ("conv:" ++ (← lookup kv "type") ++ ":" ++ String.ofList (e.map Char.ofNat))
  | "apisurface" :: _ => some evalSurface
  | "routes" :: _ => some evalRoutes
  | "ctxmethods" :: _ => some evalCtxMethods
  | "coll" :: _ => evalColl (kvs line)
  | "flow" :: _ => evalFlow (kvs line)
  | "methods" :: _ => evalMethods (kvs line)
  | _ => none

end C01

def main : IO Unit := Verif.lineLoop fun l => (C01.eval l).getD "parse-error"
