import Verif.Model.Policy
/-!
  Line-protocol driver for C04 (name policy engine).

  One evaluation per line, `key=value` fields separated by single spaces:
    kind=x509|sans|sshhost|sshuser  vcn=0|1 wild=0|1
    pcn= xcn=  pdns= xdns=  pip= xip=  pem= xem=  puri= xuri=  ppr= xpr=     (rule lists)
    dns= ip= em= uri= pr=  cn= cls=                                          (names)
  list = items joined by ',' or `-` when empty; a string is `x<hex>`; `!` is "none / error".
  Output: allow | deny:<reason>:<kind> | crash | badrule | rulecrash | spliterr | parse-error
-/
open Verif Verif.Policy

namespace C04

def str? (t : String) : Option Str :=
  if t.startsWith "x" then unhex (t.drop 1).toString else none

def optStr? (t : String) : Option (Option Str) :=
  if t = "!" then some none else (str? t).map some

def bool? (t : String) : Option Bool :=
  if t = "1" then some true else if t = "0" then some false else none

def list? {α : Type} (f : String → Option α) (t : String) : Option (List α) :=
  if t = "-" then some [] else (t.splitOn ",").mapM f

def pair? (t : String) : Option (Str × Option Str) :=
  match t.splitOn ":" with
  | [a, b] => do pure ((← str? a), (← optStr? b))
  | _ => none

def net? (t : String) : Option (Option Net) :=
  if t = "!" then some none else
  match t.splitOn "/" with
  | [a, b] => do pure (some ⟨(← str? a), (← b.toNat?)⟩)
  | _ => none

def uriRule? (t : String) : Option UriRule :=
  match t.splitOn ":" with
  | [a, b, c, d] => do pure ⟨(← str? a), (← bool? b), (← bool? c), (← optStr? d)⟩
  | _ => none

def dnsName? (t : String) : Option DnsName := (pair? t).map fun p => ⟨p.1, p.2⟩
def emailName? (t : String) : Option EmailName := (pair? t).map fun p => ⟨p.1, p.2⟩
def ip? (t : String) : Option Ip := (str? t).map Ip.mk
def uri? (t : String) : Option Uri :=
  match t.splitOn ":" with
  | [a, b, c] => do pure ⟨(← str? a), (← optStr? b), (← bool? c)⟩
  | _ => none

def cls? (t : String) : Option CnClass :=
  match t.splitOn "~" with
  | ["d", r] => (dnsName? r).map .dns
  | ["i", r] => (ip? r).map .ip
  | ["e", r] => (emailName? r).map .email
  | ["u", r] => (uri? r).map .uri
  | _ => none

def lookup (kv : List (String × String)) (k : String) : Option String :=
  (kv.find? (·.1 = k)).map (·.2)

def reasonS : Reason → String
  | .notAllowed => "notallowed" | .cannotParseDomain => "parsedomain"
  | .cannotParseRFC822 => "parserfc822" | .cannotMatch => "cannotmatch"
def kindS : Kind → String
  | .cn => "cn" | .dns => "dns" | .ip => "ip" | .email => "email" | .uri => "uri" | .principal => "principal"
def verdictS : Verdict → String
  | .allow => "allow" | .deny r k => s!"deny:{reasonS r}:{kindS k}" | .crash => "crash"

def rules? (kv : List (String × String)) (p : String) : Option RawRules := do
  let cn ← list? str? (← lookup kv (p ++ "cn"))
  let dns ← list? pair? (← lookup kv (p ++ "dns"))
  let ip ← list? net? (← lookup kv (p ++ "ip"))
  let em ← list? pair? (← lookup kv (p ++ "em"))
  let uri ← list? uriRule? (← lookup kv (p ++ "uri"))
  let pr ← list? str? (← lookup kv (p ++ "pr"))
  pure { cn, dns, ip, email := em, uri, prin := pr }

def eval (line : String) : Option String := do
  let kv := (fields line).filterMap fun f =>
    match f.splitOn "=" with
    | [k, v] => some (k, v)
    | _ => none
  let kind ← lookup kv "kind"
  let vcn ← bool? (← lookup kv "vcn")
  let wild ← bool? (← lookup kv "wild")
  let allow ← rules? kv "p"
  let deny ← rules? kv "x"
  match buildEngine vcn wild allow deny with
  | .bad => pure "badrule"
  | .crash => pure "rulecrash"
  | .ok e =>
    let dns ← list? dnsName? (← lookup kv "dns")
    let ips ← list? ip? (← lookup kv "ip")
    let ems ← list? emailName? (← lookup kv "em")
    let uris ← list? uri? (← lookup kv "uri")
    let prs ← list? str? (← lookup kv "pr")
    let n : Names := { dns, ips, emails := ems, uris, principals := prs }
    match kind with
    | "sans" => pure (verdictS (validateNames e { n with principals := [] }))
    | "x509" =>
      let cn ← str? (← lookup kv "cn")
      let cls ← cls? (← lookup kv "cls")
      pure (verdictS (x509Allowed e n cn cls))
    | "sshhost" | "sshuser" =>
      -- side=both|own|other: which SSH sections carry the rule set; a section without names has no engine
      -- (without `side` the line is a direct call of one section's engine: that engine exists and decides)
      let side := (lookup kv "side").getD "engine"
      let has := allow.hasNames || deny.hasNames
      let eng : Option Engine := if has || side = "engine" then some e else none
      let own := if side = "other" then none else eng
      let other := if side = "own" || side = "engine" then none else eng
      let host := kind = "sshhost"
      match sshDispatch own other host n (if host then [] else dns.map (·.raw)) with
      | .splitErr => pure "spliterr"
      | .verdict v => pure (verdictS v)
    | _ => none

/-- end-to-end stages observe only issued / refused: `cmp=class` collapses the verdict to that -/
def classOnly (line out : String) : String :=
  if (fields line).contains "cmp=class" then
    if out.startsWith "deny" then "deny" else out
  else out

end C04

def main : IO Unit := Verif.lineLoop fun l => C04.classOnly l ((C04.eval l).getD "parse-error")
