import Verif.Model.OTT
/-!
  Line-protocol driver for C02 (one-time tokens).

  `h db=0|1 chk=0|1 start=<sec> reqs=<R>;<R>;… evs=<E>,<E>,…`
      R = `<lookupOK>:<iat|->:<idr>:<sha>:<skip>:<valid>`, idr = `k<x-hex>` | `u` (reuse) | `e` (error),
          sha = `x<hex>` (hash of the signed payload);   E = `s<thread>` | `r<start second of the new process>`
      output: one `<answer>:<cas>` per request joined by `,` then ` n=<records in used_ott>`;
          answer = auth | deny | drop | pend ; cas = stored | exists | none
  `t kind=<kind> dtofu=0|1 dcsans=0|1 parses=0|1 …`  (the configured provisioner; its type is `ptypeOf`) or
  `t ty=<type> parses=0|1 jti=x.. nonce=x.. derived=x.. awsvalid=0|1 sha=x.. psha=x..`
      output: `id:<x-hex>` | `reuse` | `err`, then ` key=<x-hex>|none`
-/
open Verif Verif.Store Verif.OTT

namespace C02

def str? (t : String) : Option Str :=
  if t.startsWith "x" then unhex (t.drop 1).toString else none

def bool? (t : String) : Option Bool :=
  if t = "1" then some true else if t = "0" then some false else none

def lookup (kv : List (String × String)) (k : String) : Option String :=
  (kv.find? (·.1 = k)).map (·.2)

def idr? (t : String) : Option IdR :=
  if t = "u" then some .reuse else if t = "e" then some .err
  else if t.startsWith "k" then (str? (t.drop 1).toString).map .id else none

def req? (t : String) : Option Req :=
  match t.splitOn ":" with
  | [lk, iat, idr, sha, skip, val] => do
    let iat ← if iat = "-" then some none else iat.toNat?.map some
    pure { inp := { lookupOK := (← bool? lk), iat, idr := (← idr? idr), sha := (← str? sha),
                    skip := (← bool? skip), valid := (← bool? val) } }
  | _ => none

def ev? (t : String) : Option Ev :=
  if t.startsWith "s" then (t.drop 1).toString.toNat?.map .step
  else if t.startsWith "r" then (t.drop 1).toString.toNat?.map .restart else none

def list? {α : Type} (sep : String) (f : String → Option α) (t : String) : Option (List α) :=
  if t = "-" then some [] else (t.splitOn sep).mapM f

def outS (r : Req) : String :=
  let a := match r.out with
    | .authorized => "auth" | .pending => "pend" | .dropped => "drop"
    | .denyLookup | .denyIat | .denyUsed | .denyInvalid => "deny"
  let c := if r.inserted then "stored" else if r.out = .denyUsed then "exists" else "none"
  a ++ ":" ++ c

def ptype? (t : String) : Option PType :=
  match t with
  | "jwk" => some .jwk | "x5c" => some .x5c | "sshpop" => some .sshpop | "nebula" => some .nebula
  | "oidc" => some .oidc | "azure0" => some (.azure false) | "azure1" => some (.azure true)
  | "aws0" => some (.aws false) | "aws1" => some (.aws true)
  | "gcp0" => some (.gcp false) | "gcp1" => some (.gcp true)
  | "k8ssa" => some .k8ssa | "acme" => some .acme | "scep" => some .scep
  | _ => none

def pkind? (t : String) : Option PKind :=
  match t with
  | "jwk" => some .jwk | "x5c" => some .x5c | "sshpop" => some .sshpop | "nebula" => some .nebula
  | "oidc" => some .oidc | "azure" => some .azure | "aws" => some .aws | "gcp" => some .gcp
  | "k8ssa" => some .k8ssa | "acme" => some .acme | "scep" => some .scep
  | _ => none

def eval (line : String) : Option String := do
  let fs := fields line
  let kv := fs.filterMap fun f =>
    match f.splitOn "=" with
    | [k, v] => some (k, v)
    | _ => none
  match fs.head? with
  | some "h" =>
    let g : G := { store := [], persistent := (← bool? (← lookup kv "db")),
                   iatCheck := (← bool? (← lookup kv "chk")), start := (← (← lookup kv "start").toNat?) }
    let rs ← list? ";" req? (← lookup kv "reqs")
    let evs ← list? "," ev? (← lookup kv "evs")
    let s := machine.run (g, rs) evs
    pure (String.intercalate "," (s.2.map outS) ++ s!" n={s.1.store.length}")
  | some "t" =>
    let ty ← match lookup kv "kind" with
      | some k => do
        let kind ← pkind? k
        pure (ptypeOf { kind := kind, disableTrustOnFirstUse := (← bool? (← lookup kv "dtofu")),
                        disableCustomSANs := (← bool? (← lookup kv "dcsans")) })
      | none => ptype? (← lookup kv "ty")
    let t : Tok := { parses := (← bool? (← lookup kv "parses")), jti := (← str? (← lookup kv "jti")),
                     nonce := (← str? (← lookup kv "nonce")), derived := (← str? (← lookup kv "derived")),
                     awsValid := (← bool? (← lookup kv "awsvalid")), sha := (← str? (← lookup kv "sha")),
                     psha := (← str? (← lookup kv "psha")) }
    let r := getTokenID ty t
    let a := match r with | .id k => "id:x" ++ hex k | .reuse => "reuse" | .err => "err"
    let k := match useKey r t.psha with | some k => "x" ++ hex k | none => "none"
    pure (a ++ " key=" ++ k)
  | _ => none

end C02

def main : IO Unit := Verif.lineLoop fun l => (C02.eval l).getD "parse-error"
