import Verif.Model.FailClosed
/-!
  Line-protocol driver for C17 (fail-closed issuance).

    run op=<op> e=<n> a=<n> [ch=<n> n=<n> crl=<0|1>] db=<1|0> chk=<i|-> faults=<pos:kind,…|-> sub=…
        → <ok|err> got=<cert|ack|none> tok=Δ stored=Δ data=Δ rev=Δ reuse=<ok|err|na> handed=N recorded=N fc=ok trace=<kind:outcome,…|->
      (ACME: … acme=Δ valid=<0|1> instead of rev / reuse)
    src fn=<go function>
        → the order of the external calls / decisions the model assumes inside that function,
          each with its error treatment, e.g. `check!,enrich!,check!,authorize!,casSign!,store!~;ret`
-/
open Verif Verif.FailClosed

namespace C17

def lookup (kv : List (String × String)) (k : String) : Option String :=
  (kv.find? (·.1 = k)).map (·.2)

def op? : String → Option Op
  | "sign" => some .sign | "signx5c" => some .sign | "renew" => some .renew | "rekey" => some .rekey
  | "revoke" => some .revoke | "revokemtls" => some .revokeMTLS
  | "sshsign" => some .sshSign | "sshrenew" => some .sshRenew | "sshrekey" => some .sshRekey
  | "sshrevoke" => some .sshRevoke | "acme" => some .acmeFinalize | "scep" => some .scepEnroll
  | "sshsignfull" => some .sshSignFull | "sshsignk8s" => some .sshSignReusable
  | _ => none

def outcome? : String → Option Outcome
  | "ok" => some .ok | "error" => some .error | "timeout" => some .timeout
  | "deny" => some .deny | "malformed" => some .malformed
  | _ => none

def fault? (t : String) : Option (Nat × Outcome) :=
  match t.splitOn ":" with
  | [p, k] => do pure ((← p.toNat?), (← outcome? k))
  | _ => none

def faults? (t : String) : Option (List (Nat × Outcome)) :=
  if t = "-" then some [] else (t.splitOn ",").mapM fault?

def faultFn (fs : List (Nat × Outcome)) (n : Nat) : Outcome :=
  match fs.find? (·.1 = n) with
  | some p => p.2
  | none => .ok

def b (x : Bool) : String := if x then "1" else "0"

def trace (l : List Ev) : String :=
  if l.isEmpty then "-" else ",".intercalate (l.map fun ev => ev.kind.str ++ ":" ++ ev.out.str)

def ctlOf : Op → CertT
  | .sshSign | .sshRenew | .sshRekey | .sshRevoke | .sshSignFull | .sshSignReusable => .ssh
  | _ => .x509

def whOf (t : String) (ctl : CertT) : CertT :=
  if t = "unset" then .unset
  else if t = "typed" then ctl
  else if t = "other" then (if ctl = .ssh then .x509 else .ssh)
  else if t = "lower" then .unknown
  else .all

/-- the least change of the fault function under which no enriching / authorizing webhook that is
    asked answers `ok`: wherever the trace shows such an answer, it becomes `deny` -/
def standing (e : Env) (op : Op) (c : Cfg) (d : Durable) (kinds : List Kind) : Nat → Env
  | 0 => e
  | fuel + 1 =>
    let log := (runOp e op c d).1.log
    match log.findIdx? (fun ev => kinds.contains ev.kind && ev.out == .ok) with
    | none => e
    | some p => standing { e with f := fun n => if n = p then .deny else e.f n } op c d kinds fuel

def evalRun (kv : List (String × String)) : Option String := do
  let op ← op? (← lookup kv "op")
  let ne ← (← lookup kv "e").toNat?
  let na ← (← lookup kv "a").toNat?
  let chkS ← lookup kv "chk"
  let chk : Option Nat ← if chkS = "-" then some none else chkS.toNat?.map some
  let fs ← faults? (← lookup kv "faults")
  let g : Nat → Bool := fun i => some i != chk
  let db := (lookup kv "db").getD "1" != "0"
  let usable := (lookup kv "var").getD "-" != "badhook"
  -- a standing denial: every consulted enriching / authorizing webhook answers allow=false
  -- whenever asked, i.e. at each position where the fault-free trace has such a call
  let whd := (lookup kv "whdeny").getD "0"
  let whdeny := whd != "0"
  let denyKinds : List Kind := if whd = "enrich" then [.enrich] else if whd = "authorize" then [.authorize] else [.enrich, .authorize]
  let e : Env := { f := faultFn fs, g := g, db := db, hooksUsable := usable }
  let nat (k : String) : Nat := ((lookup kv k).bind String.toNat?).getD 0
  let var := (lookup kv "var").getD "-"
  let ctl := ctlOf op
  let wh := whOf ((lookup kv "ct").getD "all") ctl
  let crl : Bool := nat "crl" != 0
  let ids : Nat := if var.startsWith "ids2" then 2 else 1
  let pend : Bool := var.endsWith "pending"
  let ident : Bool := var.endsWith "identity"
  let c0 : Cfg := { e := ne, a := na, ch := nat "ch", n := nat "n", crl := crl, ids := ids, pend := pend, identity := ident }
  -- a kind the code does not know ("authorizing"): the provisioner fails to initialise
  let kindKnown := (lookup kv "ct").getD "all" != "kindlower"
  let c := c0.consulted ctl wh (var.startsWith "admin") kindKnown
  let d0 : Durable := {}
  let e : Env := if whdeny then standing e op c d0 denyKinds 8 else e
  let r := runOp e op c d0
  let d := r.1.d
  let cl := client op r
  let clS := if cl = .error then "err" else "ok"
  let got := match cl with | .error => "none" | .certificate => "cert" | .revoked => "ack"
  -- the identical request again: with the same failures, without them, after a restart
  let okE : Env := { f := fun _ => .ok, g := g, db := db, hooksUsable := usable }
  let cls (x : St × Bool) : String := if client op x = .error then "err" else "ok"
  let r2 := runOp e op c d
  let r3 := runOp okE op c r2.1.d
  -- third replay: after a restart on the same database, or (var=real) after CA.Reload
  let r4 := runOp okE op c (if var == "real" then reload r3.1.d else restart db r3.1.d)
  let reuse := if op.usesToken then
      s!"{cls r2}/{cls r3}/{cls r4}" else "na"
  -- without a database the token set lives in memory: no table to observe
  let head := s!"{clS} got={got} tok={b (d.tokenSpent && db)} stored={d.certs} data={d.datas}"
  let tail := if op = .acmeFinalize then s!" acme={d.acmeCerts} valid={b d.orderValid}" else s!" rev={b d.revoked} reuse={reuse}"
  -- `fc`: the harness evaluates the property on the implementation's own trace; the model
  -- satisfies it by `fail_closed`, `stored_before_returned`, `token_spent`
  -- certificates in the response, and how many of them are found in the tables by serial
  let handed := if cl = .certificate then r.1.made else 0
  let recorded := if db then handed - r.1.unstored else 0
  pure (head ++ tail ++ s!" handed={handed} recorded={recorded} fc=ok trace={trace r.1.log}")

/-- collapse runs of webhook steps (the source has one call for all webhooks of a kind) and
    runs of in-process checks (the extractor reports adjacent checks once) -/
def collapse : List Kind → List Kind
  | a :: b :: rest =>
    if a = b ∧ (a.isWebhook ∨ a = .check ∨ a = .req .acmeRead) then collapse (b :: rest) else a :: collapse (b :: rest)
  | l => l

def toks (ks : List Kind) : List String := (collapse ks).map fun k => k.str ++ k.guard

def renderSrc (ks : List Kind) : String := ",".intercalate (toks ks ++ ["ret"])

def one : Cfg := { e := 1, a := 1, ch := 1, n := 1, crl := true }

def evalSrc (fn : String) : String :=
  match fn with
  | "authorizeToken" => renderSrc authorizeTokenSteps
  | "authorizeSign" => renderSrc authorizeSteps
  | "signX509" => renderSrc (signX509Steps one)
  | "authorizeRenew" => renderSrc authorizeRenewSteps
  | "renewContext" => renderSrc renewContextSteps
  | "Revoke" => renderSrc revokeSourceOrder
  | "signSSH" => renderSrc (signSSHSteps one)
  | "SignSSHAddUser" => renderSrc signSSHAddUserSteps
  | "renewSSH" => renderSrc renewSSHSteps
  | "rekeySSH" => renderSrc rekeySSHSteps
  | "Finalize" =>
    -- UpdateStatus, then the order may already be valid (success return), then the rest;
    -- the whole of signX509 is the single call SignWithContext
    -- (Finalize calls db.CreateCertificate and db.UpdateOrder once each; their inner calls
    --  — serial index, order read-back — are in acme/db/nosql and appear in the run traces)
    ",".intercalate (["status!", "ret"] ++ toks (finalizePre 1) ++ ["sign!"] ++
      toks (createCertificateSteps.take 1 ++ updateOrderSteps.drop 1) ++ ["ret"])
  | "FinalizeOrder" =>
    -- the handler's own part of `finalizeHandlerPre` (payload checks, order read; the
    -- ownership comparisons are not calls), then Order.Finalize, then the success response
    ",".intercalate (toks ((finalizeHandlerPre.drop 4).take 2) ++ ["finalize!", "ret"])
  | "PKIOperation" =>
    -- parse + decrypt; ValidateChallenge; SignCSR; in its error branch NotifyFailure (ignored);
    -- NotifySuccess (ignored); the reply
    ",".intercalate (toks [.check] ++ ["validate!", "signCSR!"] ++ toks [.notify] ++ toks [.notify] ++ ["ret"])
  | "SignCSR" =>
    ",".intercalate (toks (signCSRSteps one |>.take 1) ++ ["sign!"] ++ toks (signCSRSteps one |>.reverse |>.take 2) ++ ["ret"])
  | "Validate" =>
    -- challengeValidationController.Validate: the first webhook error returns
    ",".intercalate (toks [.check] ++ toks [.challenge] ++ ["ret"])
  | "@signers" =>
    ",".intercalate (((signerTable one).map (·.1) ++ internalSigners).toArray.qsort (· < ·)).toList
  | "@callers" =>
    ",".intercalate (((callerTable one).map fun p => p.1 ++ ">" ++ p.2.1).toArray.qsort (· < ·)).toList
  | "@storers" => ";".intercalate (storerOrder.map fun p => p.1 ++ "=" ++ ">".intercalate p.2)
  | "@adminStore" => if adminStoreMethods.isEmpty then "-" else ",".intercalate adminStoreMethods
  | "@hookControllers" =>
    ",".intercalate ((hookControllers.map fun p => p.1 ++ "." ++ p.2.1 ++ "=" ++ p.2.2).toArray.qsort (· < ·)).toList
  | "@routes" =>
    ",".intercalate ((routeTable.map fun r => r.1 ++ ">" ++ r.2.1).toArray.qsort (· < ·)).toList
  | "@reloadOptions" => ",".intercalate (reloadOptions.toArray.qsort (· < ·)).toList
  | "@tokenIDs" =>
    ",".intercalate ((tokenIDErrors.map fun p => p.1 ++ "=" ++ toString p.2.1 ++ (if p.2.2 then "+reuse" else "")).toArray.qsort (· < ·)).toList
  | "@scepTypes" =>
    let j (l : List String) := "+".intercalate (l.toArray.qsort (· < ·)).toList
    s!"challenged={j challengedTypes} csr={j csrTypes}"
  | "DoWithContext" =>
    -- the client's decision table: first attempt × second attempt → allowed?
    let os := [Outcome.ok, .error, .timeout, .deny, .malformed]
    " ".intercalate (os.map fun o1 =>
      o1.str ++ "=" ++ String.join (os.map fun o2 =>
        let e : Env := { f := fun n => if n = 0 then o1 else o2, g := fun _ => true }
        let r := webhook e { d := {} } .enrich
        (if r.1 then "A" else "R") ++ toString r.2.log.length))
  | _ => "unknown-function"

def eval (line : String) : Option String := do
  let fs := fields line
  let kv := fs.filterMap fun f =>
    match f.splitOn "=" with
    | [k, v] => some (k, v)
    | _ => none
  match fs.head? with
  | some "run" => evalRun kv
  | some "src" => (lookup kv "fn").map evalSrc
  | _ => none

end C17

def main : IO Unit := Verif.lineLoop fun l => (C17.eval l).getD "parse-error"
