import Verif.Model.EAB
/-!
  Line-protocol driver for C20 (external account binding).

  One history or one schedule per line, `key=value` fields separated by single spaces:

    hist v=2 K=<key>,<key>…  R=<req>|<req>…                 sequential history  (`runHist`)
    conc v=2 K=<key>,<key>…  R=<req>|<req>…  S=<digits>     schedule, digit = thread taking its next step (`runSched`)
    prov v=2 eab= fcn= tos= web= caa= ch= fm= roots= [e2e=1]  an ACME provisioner as configured -> as served after
                                                            the migration to the admin database (`migrate`)
    order v=2 ext=<calls> val=<calls> new=<calls>           store calls of extractJWK / validateExternalAccountBinding / NewAccount
                                                            in source order (go/ast) -> order:match | order:differs

    key := id:prov:hasSecret:bound:account              (0/1 flags; account 0 = none)
    req := prov,requireEAB,outerKey,outerUrl,payloadOk,onlyExisting,bindingParses,<binding>
    binding := -  |  nsigs.algMac.kid.hasNonce.url.macOk.payloadKey      (url, payloadKey: `!` = absent / not a JWK)

  `K=-` is the empty store. The store starts with no accounts.
  Output:  <resp>;<resp>… K=<id>:<bound><hasSecret>:a<n>,…   with
    resp := 201:a<n>:k<via> | 200:a<n> | 400:malformed | 400:externalAccountRequired | 401:unauthorized
          | 500:serverInternal | 400:accountDoesNotExist | -            (`-` = the thread has not answered)
    a refusal is followed by `+dead` when an account exists for the request's key and is deactivated
  Account ids are renumbered in order of first appearance in the output (the real ids are random).
-/
open Verif Verif.EAB

namespace C20

def bool? (t : String) : Option Bool :=
  if t = "1" then some true else if t = "0" then some false else none

def optNat? (t : String) : Option (Option Nat) :=
  if t = "!" then some none else t.toNat?.map some

def key? (t : String) : Option EKey :=
  match t.splitOn ":" with
  | [a, b, c, d, e] => do
    pure { id := (← a.toNat?), prov := (← b.toNat?), hasSecret := (← bool? c), bound := (← bool? d), account := (← e.toNat?) }
  | _ => none

def binding? (t : String) : Option (Option Binding) :=
  if t = "-" then some none else
  match t.splitOn "." with
  | [a, b, c, d, e, f, g] => do
    pure (some { nsigs := (← a.toNat?), algMac := (← bool? b), kid := (← c.toNat?), hasNonce := (← bool? d),
                 url := (← optNat? e), macOk := (← bool? f), payloadKey := (← optNat? g) })
  | _ => none

def req? (t : String) : Option Req :=
  match t.splitOn "," with
  | [a, b, c, d, e, f, g, h] => do
    pure { prov := (← a.toNat?), requireEAB := (← bool? b), outerKey := (← c.toNat?), outerUrl := (← d.toNat?),
           payloadOk := (← bool? e), onlyExisting := (← bool? f), bindingParses := (← bool? g),
           binding := (← binding? h) }
  | _ => none

def lookup (kv : List (String × String)) (k : String) : Option String :=
  (kv.find? (·.1 = k)).map (·.2)

def errS : Err → String
  | .malformed => "400:malformed"
  | .externalAccountRequired => "400:externalAccountRequired"
  | .unauthorized => "401:unauthorized"
  | .serverInternal => "500:serverInternal"
  | .accountDoesNotExist => "400:accountDoesNotExist"

/-- renumbering of account ids by first appearance -/
def renum (seen : List Nat) (a : Nat) : List Nat × Nat :=
  match seen.idxOf? a with
  | some i => (seen, i + 1)
  | none => (seen ++ [a], seen.length + 1)

def respS (seen : List Nat) : Option Resp → List Nat × String
  | none => (seen, "-")
  | some (.err e) => (seen, errS e)
  | some (.existing a) => let (s, n) := renum seen a; (s, s!"200:a{n}")
  | some (.created a v) => let (s, n) := renum seen a; (s, s!"201:a{n}:k{v}")

/-- `+dead` after a refusal: an account exists for the request's key and is deactivated (the request
    stored it and undid it, or it met one that had been undone) -/
def deadMark (st : State) (outerKey : Nat) : Option Resp → String
  | some (.err _) =>
    match acctOfKey st outerKey with
    | some a => if st.dead.contains a then "+dead" else ""
    | none => ""
  | _ => ""

def render (st : State) (rs : List (Option Resp × Nat)) : String :=
  let (seen, outs) := rs.foldl (fun (acc : List Nat × List String) r =>
    let (s, o) := respS acc.1 r.1; (s, acc.2 ++ [o ++ deadMark st r.2 r.1])) ([], [])
  let ks := st.keys.map fun k =>
    let a := if k.account = 0 then "a0" else
      match seen.idxOf? k.account with
      | some i => s!"a{i + 1}"
      | none => "a?"
    s!"{k.id}:{if k.bound then 1 else 0}{if k.hasSecret then 1 else 0}:{a}"
  ";".intercalate outs ++ " K=" ++ (if ks.isEmpty then "-" else ",".intercalate ks)

def digits (t : String) : Option (List Nat) :=
  t.toList.mapM fun c => if '0' ≤ c ∧ c ≤ '9' then some (c.toNat - 48) else none

/-- version of the line protocol (see Driver/C12.lean) -/
def protocolVersion : String := "2"

def eval (line : String) : Option String := do
  let fs := fields line
  if !fs.contains ("v=" ++ protocolVersion) then return "protocol-mismatch"
  let kind ← fs.head?
  if kind = "prov" then
    -- prov v=2 eab= fcn= tos= web= caa=<n,n|-> ch=<letters> fm=<letters> roots= [bind=0|1]
    --   challenges: h http-01 d dns-01 t tls-alpn-01 a device-attest-01 o wire-oidc-01 p wire-dpop-01
    --   formats:    a apple s step t tpm
    let get := fun (k : String) => (fs.find? (·.startsWith (k ++ "="))).map fun f => (f.drop (k.length + 1)).toString
    let b := fun (k : String) => (get k).bind bool?
    let n := fun (k : String) => (get k).bind String.toNat?
    let chOf := fun (c : Char) => match c with
      | 'h' => some Challenge.http01 | 'd' => some .dns01 | 't' => some .tlsAlpn01 | 'a' => some .deviceAttest01
      | 'o' => some .wireOidc01 | 'p' => some .wireDpop01 | _ => none
    let fmOf := fun (c : Char) => match c with
      | 'a' => some AttFormat.apple | 's' => some .step | 't' => some .tpm | _ => none
    let chS := fun (c : Challenge) => match c with
      | .http01 => "h" | .dns01 => "d" | .tlsAlpn01 => "t" | .deviceAttest01 => "a" | .wireOidc01 => "o" | .wireDpop01 => "p"
    let fmS := fun (f : AttFormat) => match f with | .apple => "a" | .step => "s" | .tpm => "t"
    let letters := fun (t : String) => if t = "-" then "" else t
    let caaT ← get "caa"
    let caa ← if caaT = "-" then some [] else (caaT.splitOn ",").mapM String.toNat?
    let chs ← (letters (← get "ch")).toList.mapM chOf
    let fms ← (letters (← get "fm")).toList.mapM fmOf
    let eab ← b "eab"
    let fcn ← b "fcn"
    let tos ← n "tos"
    let web ← n "web"
    let roots ← n "roots"
    let p : AcmeProv := ⟨eab, fcn, tos, web, caa, chs, fms, roots⟩
    let m := migrate p
    let dash := fun (t : String) => if t.isEmpty then "-" else t
    let caaS := dash (",".intercalate (m.caaIdentities.map toString))
    let chOut := dash (String.join (m.challenges.map chS))
    let fmOut := dash (String.join (m.formats.map fmS))
    let base := s!"eab={if m.requireEAB then 1 else 0} fcn={if m.forceCN then 1 else 0} tos={m.termsOfService} web={m.website} caa={caaS} ch={chOut} fm={fmOut} roots={m.roots}"
    -- with e2e=1: a new-account request without a binding on the migrated authority
    match get "e2e" with
    | some "1" =>
      let r : Req := ⟨1, m.requireEAB, 41, 100, true, false, none, true⟩
      let x := (handle { keys := [], accts := [], next := 1 } r).2
      let xs := match x with | .created _ _ => "201" | .existing _ => "200" | .err e => errS e
      return base ++ " new-account=" ++ xs
    | _ => return base
  if kind = "coll" then
    -- coll v=2 ops=<S|U>.<id>.<name>.<tok>.<eab>;D.<id>;… probe=<name>,<name>,…   (first probe: a new-account request without binding)
    let get := fun (k : String) => (fs.find? (·.startsWith (k ++ "="))).map fun f => (f.drop (k.length + 1)).toString
    let opOf := fun (t : String) => match t.splitOn "." with
      | ["S", a, b, c, d] => do pure (CollOp.store ⟨(← a.toNat?), (← b.toNat?), (← c.toNat?), (← bool? d)⟩)
      | ["U", a, b, c, d] => do pure (CollOp.update ⟨(← a.toNat?), (← b.toNat?), (← c.toNat?), (← bool? d)⟩)
      | ["D", a] => do pure (CollOp.remove (← a.toNat?))
      | _ => none
    let opsT ← get "ops"
    let ops ← if opsT = "-" then some [] else (opsT.splitOn ";").mapM opOf
    let probes ← ((← get "probe").splitOn ",").mapM String.toNat?
    let c := Coll.empty.run ops
    let one := fun (n : Nat) => match c.servedEAB n with | some true => s!"{n}:1" | some false => s!"{n}:0" | none => s!"{n}:-"
    let na := match probes.head? with
      | none => "-"
      | some n => match c.servedEAB n with
        | some true => "400:externalAccountRequired" | some false => "201" | none => "404:notFound"
    return s!"served={",".intercalate (probes.map one)} new-account={na}"
  if kind = "order" then
    let get := fun (k : String) => ((fs.find? (·.startsWith (k ++ "="))).map fun f => ((f.drop (k.length + 1)).toString.splitOn ",")).getD []
    let ok := get "ext" == callsExtractJWK && get "val" == callsValidateEAB && get "new" == callsNewAccount
    return (if ok then "order:match" else "order:differs")
  let kv := fs.filterMap fun f =>
    match f.splitOn "=" with
    | [k, v] => some (k, v)
    | _ => none
  let kt ← lookup kv "K"
  let keys ← if kt = "-" then some [] else (kt.splitOn ",").mapM key?
  let reqs ← ((← lookup kv "R").splitOn "|").mapM req?
  let st : State := { keys, accts := [], next := 1 }
  match kind with
  | "hist" =>
    let (s, rs) := runHist st reqs
    pure (render s ((rs.map some).zip (reqs.map (·.outerKey))))
  | "conc" =>
    let sched ← digits (← lookup kv "S")
    let (s, ts) := runSched st (reqs.map (⟨·, .start⟩)) sched
    pure (render s ((ts.map Thread.resp).zip (reqs.map (·.outerKey))))
  | _ => none

end C20

def main : IO Unit := Verif.lineLoop fun l => (C20.eval l).getD "parse-error"
