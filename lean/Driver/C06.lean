import Verif.Model.Validity
/-!
  Line-protocol driver for C06 (validity arithmetic).

  One case per line: `<op> key=value …` (single spaces).  Values:
    int      decimal, optional leading `-`
    time     `<sec>:<nsec>`  (sec = int64 seconds since 0001-01-01T00:00:00Z, Go's internal clock)
    TD       `-` (zero) | `t<time>` (absolute) | `d<int>` (relative, ns)
    u64      decimal; `-` = absent (for optional modifiers)
    full     nine ints `minTLS,maxTLS,defTLS,minUser,maxUser,defUser,minHost,maxHost,defHost`
    claims   `nil` or nine comma separated (`-` = nil pointer) in the same order
  Ops:
    claims a=<claims> p=<claims>
        -> `a=bad` | `a=ok p=bad` | `a=ok p=ok eff=<full>`
    x509 mode=def|lim lnb=<time> lna=<time> g=<full> p=<claims> bd= now=<time> vnow=<time>
         snb=<TD> sna=<TD> cnb=<time> cna=<time>
        -> `ok nb=<time> na=<time>` (+ ` cert=<sec>,<sec>` after softcas when cas=1) | `rej:<status>:<stage>`
    ssh  mode=def|lim lna=<time> g= p= ct=<n> bd= now=<time> uva=<TD> uvb=<TD> tva=<u64|-> tvb=<u64|->
         cva=<u64> cvb=<u64>
    sshp … same with kva=<TD> kvb=<TD> (token options) instead of tva/tvb; optional mva=<time> mvb=<time>:
         validity instants set by the SSH template (replace cva/cvb through sshutil's toValidity)
        -> `ok va=<u64> vb=<u64>` | `rej:<status>:<stage>` | `crash`
    xrenew casnow=<time> bd= onb=<time> ona=<time>    -> `ok d=<seconds> nboff=<ns>` | `rej:500:cas`
    sshrenew anow=<time> bd= ova=<u64> ovb=<u64> ct=  -> `ok d=<u64> vaoff=<int>` | `rej` | `crash`
    sshrekey … g= p= pnow=<time>                      -> same, after the SSHPOP validators
    (x509 / sshp lines carrying e2e=1 print only `ok …` | `rej` | `crash`; `skip …` -> `skip`)
    sshgate op=renew|rekey unow=<int> anow= pnow= g= p= bd= allow=0|1 ova= ovb= ct=
                                                      -> `gate=0` | `gate=1 ` ++ renew/rekey result
    sshapi op=renew|rekey unow= anow= pnow= g= p= bd= ova= ovb= ct= tls=0|1 -> `ok d= vaoff=0 id=<identity secs> idoff=0` | `rej` | `crash`
    idsign va=<u64> vb=<u64>                          -> `ok id=<unix nb>,<unix na>`
    migrate a=<claims> p=<claims> ssh=0|1             -> as `claims`, for the provisioner reloaded from the admin DB
    conv dir=c2l2c p=<claims> ssh=nil|0|1 | conv dir=l2c|l2c2l (l=nil | x=<-|X<0|1>-|X<0|1>a/b/c> s=<-|S<0|1>;<u>;<h>>)
                                                      -> claims after claimsToLinkedca / claimsToCertificates round trips
    chainset | chain fn=<Type.Method> | order fn=<method> -> the Lean tables chainTable / orderTable, rendered
    acme now=<time> def= rnb=<time> rna=<time>        -> `nb=<time> na=<time>` | `rej:500` (order not storable)
    overflow lo=<int> hi=<int> k=<int>                 -> the k-th wrap witness (seconds) for [lo,hi], see below
-/
open Verif Verif.Validity

namespace C06

def lookup (kv : List (String × String)) (k : String) : Option String :=
  (kv.find? (·.1 = k)).map (·.2)

def int? (t : String) : Option Int := t.toInt?

def time? (t : String) : Option Int :=
  match t.splitOn ":" with
  | [a, b] => do pure ((← a.toInt?) * second + (← b.toInt?))
  | _ => none

def gtime? (t : String) : Option GTime :=
  match t.splitOn ":" with
  | [a, b] => do pure ⟨(← a.toInt?), (← b.toInt?)⟩
  | _ => none

def td? (t : String) : Option TD :=
  if t = "-" then some {}
  else if t.startsWith "t" then (time? (t.drop 1).toString).map fun x => { t := x }
  else if t.startsWith "d" then (int? (t.drop 1).toString).map fun x => { d := x }
  else none

def u64? (t : String) : Option U64 := t.toNat?.map (BitVec.ofNat 64)

def optU64? (t : String) : Option (Option U64) :=
  if t = "-" then some none else (u64? t).map some

def full? (t : String) : Option Full :=
  match (t.splitOn ",").mapM int? with
  | some [a, b, c, d, e, f, g, h, i] => some ⟨a, b, c, d, e, f, g, h, i⟩
  | _ => none

def optInt? (t : String) : Option (Option Int) :=
  if t = "-" then some none else (int? t).map some

def claims? (t : String) : Option (Option Claims) :=
  if t = "nil" then some none else
  match (t.splitOn ",").mapM optInt? with
  | some [a, b, c, d, e, f, g, h, i] => some (some ⟨a, b, c, d, e, f, g, h, i⟩)
  | _ => none

def timeS (t : Int) : String := s!"{t / second}:{t % second}"

def fullS (f : Full) : String :=
  s!"{f.minTLS},{f.maxTLS},{f.defTLS},{f.minUser},{f.maxUser},{f.defUser},{f.minHost},{f.maxHost},{f.defHost}"

/-- HTTP status and stage of a refusal, as the harness observes it -/
def rejS : Rej → String
  | .credNotBefore => "403:mod" | .credNotAfter => "403:mod"
  | .past => "400:val" | .naBeforeNb => "400:val" | .tooShort => "403:val" | .tooLong => "403:val"
  | .lifetime0 => "500:cas" | .encode => "500:cas"
  | .afterGtBefore => "400:mv" | .mvEpoch => "400:mv" | .tokEpoch => "400:auth"
  | .badType => "0:mod"
  | .typeUnset => "400:val" | .typeUnknown => "400:val" | .vaZero => "400:val" | .vbBeforeVa => "400:val"
  | .dvaZero => "403:dval" | .dpast => "403:dval" | .dvbBeforeVa => "403:dval" | .dbadType => "403:dval"
  | .noValidity => "400:renew" | .renewPeriod => "400:renew" | .renewShort => "500:cas"

def outS {α : Type} (f : α → String) : Out α → String
  | .ok a => "ok " ++ f a
  | .rej r => "rej:" ++ rejS r
  | .crash => "crash"

/-- end-to-end stages see only accept / refuse / abort -/
def e2eS {α : Type} (f : α → String) : Out α → String
  | .ok a => "ok " ++ f a
  | .rej _ => "rej"
  | .crash => "crash"

def dur3? (t : String) : Option Dur3 :=
  match (t.splitOn "/").mapM optInt? with
  | some [a, b, c] => some ⟨a, b, c⟩
  | _ => none

def optDur3? (t : String) : Option (Option Dur3) := if t = "-" then some none else (dur3? t).map some

def lclaims? (x s : String) : Option LClaims := do
  let xb ← (if x = "-" then some none
            else if x.startsWith "X1" then (optDur3? (x.drop 2).toString).map fun d => some (true, d)
            else if x.startsWith "X0" then (optDur3? (x.drop 2).toString).map fun d => some (false, d)
            else none)
  let sb ← (if s = "-" then some none
            else if s.startsWith "S" then
              match ((s.drop 1).toString.splitOn ";") with
              | [e, u, h] => do pure (some (decide (e = "1"), (← optDur3? u), (← optDur3? h)))
              | _ => none
            else none)
  pure { x509 := xb, ssh := sb }

def optS (o : Option Int) : String := match o with | some v => toString v | none => "-"
def dur3S (d : Dur3) : String := s!"{optS d.min}/{optS d.max}/{optS d.dflt}"
def optDur3S (d : Option Dur3) : String := match d with | some d => dur3S d | none => "-"

def lclaimsS : Option LClaims → String
  | none => "l=nil"
  | some l =>
    let x := match l.x509 with | none => "-" | some (e, d) => (if e then "X1" else "X0") ++ optDur3S d
    let s := match l.ssh with | none => "-" | some (e, u, h) => s!"S{if e then "1" else "0"};{optDur3S u};{optDur3S h}"
    s!"x={x} s={s}"

def cclaimsS : Option CClaims → String
  | none => "c=nil"
  | some c =>
    let d := c.d
    let f := ",".intercalate ([d.minTLS, d.maxTLS, d.defTLS, d.minUser, d.maxUser, d.defUser, d.minHost, d.maxHost, d.defHost].map optS)
    let e := match c.enableSSH with | none => "nil" | some true => "1" | some false => "0"
    s!"c={f} ssh={e}"

def claimer? (kv : List (String × String)) : Option Claimer := do
  pure ⟨(← full? (← lookup kv "g")), (← claims? (← lookup kv "p"))⟩

/-- k-th (0-based) number of seconds `s > 9223372036` with `lo ≤ toInt64(s·10⁹ mod 2⁶⁴) ≤ hi`
    among s = 9223372037, 9223372038, … (bounded scan; the harness uses it to aim at D6). -/
def overflowWitness (lo hi : Int) (k : Nat) : Option Int :=
  let rec go (s : Int) (k fuel : Nat) : Option Int :=
    match fuel with
    | 0 => none
    | fuel + 1 =>
      let d := secsToDur s
      if lo ≤ d ∧ d ≤ hi then (if k = 0 then some s else go (s + 1) (k - 1) fuel)
      else go (s + 1) k fuel
  go 9223372037 k 200000

def eval (line : String) : Option String := do
  let fs := fields line
  let op ← fs.head?
  let kv := fs.tail.filterMap fun f =>
    match f.splitOn "=" with
    | [k, v] => some (k, v)
    | _ => none
  let get := lookup kv
  match op with
  | "claims" =>
    let a ← claims? (← get "a")
    let p ← claims? (← get "p")
    let ac : Claimer := ⟨hardcoded, a⟩
    if !ac.validate then pure "a=bad"
    else match effective a p with
      | none => pure "a=ok p=bad"
      | some c => pure s!"a=ok p=ok eff={fullS c.merged}"
  | "x509" =>
    let cl ← claimer? kv
    let mode ← get "mode"
    let m ← (if mode = "def" then some Mode.dflt
             else do pure (Mode.limit (← time? (← get "lnb")) (← time? (← get "lna"))))
    let so : SignOpts := { nb := (← td? (← get "snb")), na := (← td? (← get "sna")), backdate := (← int? (← get "bd")) }
    let c : Cert := ⟨(← time? (← get "cnb")), (← time? (← get "cna"))⟩
    let now ← time? (← get "now")
    let vnow ← time? (← get "vnow")
    let e2e := (get "e2e") = some "1"
    match x509Leaf cl m now vnow c so with
    | .ok leaf =>
      let head := s!"ok nb={timeS leaf.nb} na={timeS leaf.na}"
      if (get "cas") = some "lt" then
        -- a lifetime-based CAS: what signX509 hands over, and whether anything is issued
        match lifetimeCasCreate now leaf so.backdate with
        | .ok _ => pure s!"ok lt={casLifetime leaf so.backdate} dok=1"
        | r => pure ((if e2e then e2eS else outS) (fun _ => "") r)
      else if (get "cas") = some "1" then
        match softcasCreate now leaf so.backdate with
        | .ok c => pure ((if e2e then "ok" else head) ++ s!" cert={c.nb / second},{c.na / second}")
        | r => pure ((if e2e then e2eS else outS) (fun _ => "") r)
      else pure head
    | r => pure ((if e2e then e2eS else outS) (fun _ => "") r)
  | "ssh" | "sshp" =>
    let cl ← claimer? kv
    let mode ← get "mode"
    let m ← (if mode = "def" then some SshMode.dflt else do pure (SshMode.limit (← gtime? (← get "lna"))))
    let bd ← int? (← get "bd")
    let user : SshOpts := { va := (← td? (← get "uva")), vb := (← td? (← get "uvb")), backdate := bd }
    let c0 : SshCert := ⟨(← u64? (← get "cva")), (← u64? (← get "cvb")), (← (← get "ct").toNat?)⟩
    let now ← time? (← get "now")
    let r ← (if op = "ssh" then do
               let mods := ((← optU64? (← get "tva")), (← optU64? (← get "tvb")))
               pure (sshSignWith cl m now user mods c0)
             else do
               let tok : SshOpts := { va := (← td? (← get "kva")), vb := (← td? (← get "kvb")) }
               match get "mva", get "mvb" with
               | some a, some b => pure (sshSignTemplate cl m now user tok (← time? a) (← time? b) c0.ctype)
               | _, _ => pure (sshSign cl m now user tok c0))
    -- /ssh/sign with an identity CSR (idcsr=1): the identity certificate must pass the X.509 chain with
    -- default dates, is then given the SSH certificate's validity (identityModifier) and goes to SoftCAS
    let r := if (get "idcsr") = some "1" then
        (match r with
         | .ok c =>
           let vnow := ((get "vnow").bind time?).getD now
           (match x509Leaf cl .dflt now vnow ⟨0, 0⟩ { backdate := bd } with
            | .ok _ => (match (identitySign c >>= fun i => softcasCreate now i bd) with
                        | .ok _ => Out.ok c
                        | .rej x => .rej x
                        | .crash => .crash)
            | .rej x => .rej x
            | .crash => .crash)
         | x => x)
      else r
    pure ((if (get "e2e") = some "1" then e2eS else outS) (fun c => s!"va={c.va.toNat} vb={c.vb.toNat}") r)
  | "skip" => pure "skip"
  | "xrenew" =>
    let casnow ← time? (← get "casnow")
    let bd ← int? (← get "bd")
    let old : Cert := ⟨(← time? (← get "onb")), (← time? (← get "ona"))⟩
    -- lv=1: also say whether the new certificate expires after the CAS clock (asked only when the margin is ≥ 2 s)
    let live := fun (c : Cert) => if (get "lv") = some "1" then (if casnow < c.na then " live=1" else " live=0") else ""
    if (get "lt") = some "1" then
      -- the lifetime renewContext hands to the CAS
      match x509Renew casnow bd old with
      | .ok c => pure (s!"ok lt={wrap64 (tsub old.na old.nb - bd)} d={(c.na - c.nb) / second} nboff={c.nb - trunc (casnow - bd)}" ++ live c)
      | r => pure (outS (fun _ => "") r)
    else
    pure (outS (fun c => s!"d={(c.na - c.nb) / second} nboff={c.nb - trunc (casnow - bd)}" ++ live c) (x509Renew casnow bd old))
  | "sshrenew" | "sshrekey" =>
    let anow ← time? (← get "anow")
    let bd ← int? (← get "bd")
    let old : SshCert := ⟨(← u64? (← get "ova")), (← u64? (← get "ovb")), (← (← get "ct").toNat?)⟩
    let r ← (if op = "sshrenew" then pure (sshRenewDates anow bd old)
             else do
               let cl ← claimer? kv
               pure (sshRekey cl anow (← time? (← get "pnow")) bd old))
    let live := fun (c : SshCert) => if (get "lv") = some "1" then (if unixOf anow < (c.vb.toNat : Int) then " live=1" else " live=0") else ""
    pure (e2eS (fun c => s!"d={(c.vb - c.va).toNat} vaoff={(c.va.toNat : Int) - unixOf (anow - bd)}" ++ live c) r)
  | "sshgate" =>
    let unow ← int? (← get "unow")
    let anow ← time? (← get "anow")
    let bd ← int? (← get "bd")
    let allow := (get "allow") = some "1"
    let old : SshCert := ⟨(← u64? (← get "ova")), (← u64? (← get "ovb")), (← (← get "ct").toNat?)⟩
    if !renewGate unow allow old then pure "gate=0"
    else
      let r ← (if (get "op") = some "renew" then pure (sshRenewDates anow bd old)
               else do
                 let cl ← claimer? kv
                 pure (sshRekey cl anow (← time? (← get "pnow")) bd old))
      pure ("gate=1 " ++ e2eS (fun c => s!"d={(c.vb - c.va).toNat} vaoff={(c.va.toNat : Int) - unixOf (anow - bd)}") r)
  | "sshapi" =>
    -- /ssh/renew | /ssh/rekey over mTLS on an authorized certificate: new SSH certificate + identity certificate
    let anow ← time? (← get "anow")
    let bd ← int? (← get "bd")
    let old : SshCert := ⟨(← u64? (← get "ova")), (← u64? (← get "ovb")), (← (← get "ct").toNat?)⟩
    let sshPart ← (if (get "op") = some "renew" then pure (sshRenewDates anow bd old)
                   else do
                     let cl ← claimer? kv
                     pure (sshRekey cl anow (← time? (← get "pnow")) bd old))
    let head := fun (c : SshCert) => s!"ok d={(c.vb - c.va).toNat} vaoff={(c.va.toNat : Int) - unixOf (anow - bd)}"
    if !renewGate (← int? (← get "unow")) false old then pure "rej"
    else match sshPart with
    | .crash => pure "crash"
    | .rej _ => pure "rej"
    | .ok c =>
      if (get "tls") = some "1" then
        match identityRenew anow bd old with
        | .ok i => pure (head c ++ s!" id={(i.na - i.nb) / second} idoff={i.nb - trunc (anow - bd)}")
        | .crash => pure "crash"
        | .rej _ => pure "rej"
      else pure (head c)
  | "idsign" =>
    let c : SshCert := ⟨(← u64? (← get "va")), (← u64? (← get "vb")), 1⟩
    pure (e2eS (fun i => s!"id={unixOf i.nb},{unixOf i.na}") (identitySign c))
  | "migrate" =>
    let a ← claims? (← get "a")
    let p ← claims? (← get "p")
    let ssh := (get "ssh") = some "1"
    let ac : Claimer := ⟨hardcoded, a⟩
    if !ac.validate then pure "a=bad"
    else match effective a (migrateClaims ssh p) with
      | none => pure "a=ok p=bad"
      | some c => pure s!"a=ok p=ok eff={fullS c.merged}"
  | "conv" =>
    let dir ← get "dir"
    if dir = "bad" then pure "err"   -- a duration string time.ParseDuration refuses: the conversion must fail
    else if dir = "c2l2c" || dir = "json" then
      let p ← claims? (← get "p")
      let e ← get "ssh"
      let en : Option Bool := if e = "1" then some true else if e = "0" then some false else none
      let c : Option CClaims := p.map fun d => { d := d, enableSSH := en }
      -- encoding/json keeps every pointer as it is; the linkedca round trip is toCert ∘ toLinked
      pure (cclaimsS (if dir = "json" then c else toCert (toLinked c)))
    else
      let l ← (if (get "l") = some "nil" then some none
               else do pure (some (← lclaims? (← get "x") (← get "s"))))
      if dir = "validate" then pure (if validateLClaims l then "valid" else "invalid")
      else if dir = "l2c" then pure (cclaimsS (toCert l))
      else pure (lclaimsS (toLinked (toCert l)))
  | "chainset" => pure (",".intercalate (chainTable.map (·.fn)))
  | "chain" =>
    let fn ← get "fn"
    match chainTable.find? (·.fn = fn) with
    | some e => pure e.render
    | none => pure "not-in-table"
  | "order" =>
    let fn ← get "fn"
    match orderTable.find? (·.1 = fn) with
    | some e => pure e.2
    | none => pure "not-in-table"
  | "acme" =>
    let now ← time? (← get "now")
    match acmeNewOrder now (← int? (← get "def")) (← time? (← get "rnb")) (← time? (← get "rna")) with
    | .ok o => pure s!"nb={timeS o.nb} na={timeS o.na}"
    | _ => pure "rej:500"
  | "overflow" =>
    match overflowWitness (← int? (← get "lo")) (← int? (← get "hi")) (← (← get "k").toNat?) with
    | some s => pure s!"s={s}"
    | none => pure "none"
  | _ => none

end C06

def main : IO Unit := Verif.lineLoop fun l => (C06.eval l).getD "parse-error"
