import Verif.Model.Renew
/-!
  Line-protocol driver for C09 (renewal / rekey).

  Two kinds of lines, `key=value` fields separated by single spaces, first field the kind:

  gate mode=coded|spec rev=no|yes|err db=none|gone|<prov>[+ra] ext=none|bad|gone|<prov> nyv=0|1 exp=0|1
       [entry=token tok=<parses><claimsVerify><tokenUnused><claimsValid><audienceOk><issuerOk>]
      <prov> = ctl:<d><a><c> (d = renewal disabled, a = allow after expiry, c = n|a|r custom func)
             | base | uninit
      mode=coded runs `Renew.current`, output allow | refuse:<reason> | crash
      mode=spec  runs `Renew.repaired` (the variant for which the full-strength theorem is
                 proved), output allow | refuse | crash
      entry=token: POST /1.0/renew with a renew token (`apiRenew`), output allow | refuse | crash

  renew|rekey via=direct|api subj= ku= eku= ueku= uce= bc= ca= mpl= mplz= ocsp= iurl= dns= em= ip= uri= ncc=
      pd= xd= pi= xi= pe= xe= pu= xu= crl= pol= key= nkey= nkok= over= oalg= oiss= oski= nb= na= nyv= exp= bd= exts= gen= aki= nski= ealg= eiss=
      lists joined by ',' (`-` when empty); byte strings `x<hex>`; OIDs dotted; `exts`/`gen`
      entries `oid/crit/x<hex>`; `nkey=!` on renew.
      output: issued key= subj= ver= alg= iss= tbs= dur= exts= fdiff= keep=ok|bad serial=new sig=ok win=ok | signerr | refuse:<reason> | crash
  fidspec op=renew|rekey hasski=0|1   output: `fdiff=- key=ok` (renew) | `fdiff=ski key=ok` (rekey): what the property allows to differ
  hrenew / hrekey: the HTTP handlers on the request as received (see `hrenew`, `hrekey` below)
      output: created | badrequest | refuse | crash
  fact name=<n>   output: table:<the Lean table of that name (Model/Renew.lean section 9), items joined by ','>
  link …  histories of issue / renew / revoke in a standalone or linked deployment (see `link`)
  conv …  claims conversion ca.json <-> linkedca for every provisioner type (see `conv`)
  srv …   the CA process surface: TLS handshake + handlers (see `srv`)
  mig …   renewal flags through configuration, migration to the admin database, restart (see `mig`)
  unissued …   (the template was not issuable; nothing to renew)  output: not-issued
-/
open Verif Verif.Renew

namespace C09

def lookup (kv : List (String × String)) (k : String) : Option String :=
  (kv.find? (·.1 = k)).map (·.2)

def str? (t : String) : Option Str :=
  if t.startsWith "x" then unhex (t.drop 1).toString else none

def bool? (t : String) : Option Bool :=
  if t = "1" then some true else if t = "0" then some false else none

def list? {α : Type} (f : String → Option α) (t : String) : Option (List α) :=
  if t = "-" then some [] else (t.splitOn ",").mapM f

def oid? (t : String) : Option Oid := (t.splitOn ".").mapM String.toNat?

def int? (t : String) : Option Int := t.toInt?

def ext? (t : String) : Option Ext :=
  match t.splitOn "/" with
  | [o, c, v] => do pure ⟨(← oid? o), (← bool? c), (← str? v)⟩
  | _ => none

def oidS (o : Oid) : String := ".".intercalate (o.map toString)
def extS (e : Ext) : String := s!"{oidS e.oid}/{if e.critical then 1 else 0}/x{hex e.value}"
def listS (xs : List String) : String := if xs.isEmpty then "-" else ",".intercalate xs

/-! ### gates -/

def custom? : Char → Option Custom
  | 'n' => some .none | 'a' => some .allow | 'r' => some .refuse | _ => none

def prov? (t : String) : Option Stored :=
  match t with
  | "base" => some .base
  | "uninit" => some .uninit
  | _ =>
    match t.splitOn ":" with
    | ["ctl", f] =>
      match f.toList with
      | [d, a, c] => do pure (.ctl (← bool? d.toString) (← bool? a.toString) (← custom? c))
      | _ => none
    | _ => none

def rev? : String → Option Revoked
  | "no" => some .no | "yes" => some .yes | "err" => some .err | _ => none

def db? (t : String) : Option DbLookup :=
  match t with
  | "none" => some .noRecord
  | "gone" => some .gone
  | _ =>
    if t.endsWith "+ra" then (prov? (t.dropEnd 3).toString).map (DbLookup.found · true)
    else (prov? t).map (DbLookup.found · false)

def extl? (t : String) : Option ExtLookup :=
  match t with
  | "none" => some .noExt
  | "bad" => some .malformed
  | "gone" => some .gone
  | _ => (prov? t).map .found

def reasonS : Reason → String
  | .revocationCheckFailed => "revcheck" | .revoked => "revoked"
  | .provisionerNotFound => "notfound" | .uninitialized => "uninitialized"
  | .notImplemented => "notimplemented" | .renewDisabled => "disabled"
  | .notYetValid => "notyetvalid" | .expired => "expired" | .customRefused => "custom"
  | .keyRejected => "key" | .notLongerThanBackdate => "short"

def noFields : Fields :=
  { rawSubject := [], keyUsage := 0, extKeyUsage := [], unknownExtKeyUsage := [], unhandledCritical := [],
    bcValid := false, isCA := false, maxPathLen := 0, maxPathLenZero := false, ocspServer := [],
    issuingURL := [], dnsNames := [], emailAddresses := [], ipAddresses := [], uris := [], ncCritical := false,
    permDNS := [], exclDNS := [], permIP := [], exclIP := [], permEmail := [], exclEmail := [], permURI := [],
    exclURI := [], crlDP := [], policies := [] }

/-- the gate lines carry no certificate: any renewable one will do -/
def dummyCert : Cert :=
  { f := noFields, version := 3, serial := 0, sigAlg := [], issuer := [], notBefore := 0, notAfter := 86400,
    publicKey := [], subjectKeyId := [], extensions := [] }

def dummyEnv : Env :=
  { enc := { ku := fun _ => [], eku := fun _ => [], bc := fun _ => [], ski := id, aki := id, aia := fun _ => [],
             san := fun _ => [], pol := fun _ => [], nc := fun _ => [], crl := fun _ => [], skiDec := id }
    now := 0, backdate := 60, serial := 1, issuerSubject := [], parentSKI := [], skiOf := id, sha1Of := id,
    sigAlg := [], keyOK := fun _ => true }

def gate (kv : List (String × String)) : Option String := do
  let mode ← lookup kv "mode"
  let i : GateIn := {
    revoked := (← rev? (← lookup kv "rev"))
    db := (← db? (← lookup kv "db"))
    ext := (← extl? (← lookup kv "ext"))
    notYetValid := (← bool? (← lookup kv "nyv"))
    expired := (← bool? (← lookup kv "exp")) }
  -- entry point: direct call of Authority.Renew/Rekey (default) or the HTTP handler with a renew token
  let entry : Option Entry ←
    match lookup kv "entry" with
    | none => pure none
    | some "token" =>
      match ((← lookup kv "tok").toList.map fun c => c == '1') with
      | [a, b, c, d, e, f] => pure (some (.token a b c d e f))
      | _ => none
    | some _ => none
  let v ← match mode with
    | "coded" => pure current
    | "spec" => pure repaired
    | _ => none
  match entry with
  | none =>
    match Renew.decide v i, mode with
    | .crash, _ => pure "crash"
    | .val .allow, _ => pure "allow"
    | .val (.refuse r), "coded" => pure s!"refuse:{reasonS r}"
    | .val (.refuse _), _ => pure "refuse"
  | some e =>
    -- only the decision class is observable through the handler (status 201 or not)
    match apiRenew v dummyEnv i dummyCert none e with
    | .created _ => pure "allow"
    | .crash => pure "crash"
    | _ => pure "refuse"

/-! ### fidelity -/

def fields? (kv : List (String × String)) : Option Fields := do
  let g := fun k => lookup kv k
  let sl := fun k => do list? str? (← g k)
  let ol := fun k => do list? oid? (← g k)
  pure {
    rawSubject := (← str? (← g "subj"))
    keyUsage := (← (← g "ku").toNat?)
    extKeyUsage := (← list? String.toNat? (← g "eku"))
    unknownExtKeyUsage := (← ol "ueku")
    unhandledCritical := (← ol "uce")
    bcValid := (← bool? (← g "bc"))
    isCA := (← bool? (← g "ca"))
    maxPathLen := (← int? (← g "mpl"))
    maxPathLenZero := (← bool? (← g "mplz"))
    ocspServer := (← sl "ocsp")
    issuingURL := (← sl "iurl")
    dnsNames := (← sl "dns")
    emailAddresses := (← sl "em")
    ipAddresses := (← sl "ip")
    uris := (← sl "uri")
    ncCritical := (← bool? (← g "ncc"))
    permDNS := (← sl "pd")
    exclDNS := (← sl "xd")
    permIP := (← sl "pi")
    exclIP := (← sl "xi")
    permEmail := (← sl "pe")
    exclEmail := (← sl "xe")
    permURI := (← sl "pu")
    exclURI := (← sl "xu")
    crlDP := (← sl "crl")
    policies := (← ol "pol") }

/-- The field groups of a parsed certificate, by the extension they are read from. -/
def groups : List (String × Oid) :=
  [("ku", oidKU), ("eku", oidEKU), ("bc", oidBC), ("ski", oidSKI), ("aia", oidAIA),
   ("san", oidSAN), ("pol", oidPol), ("nc", oidNC), ("crl", oidCRLDP)]

def fdiff (old new : Cert) : List String :=
  (if old.f.rawSubject == new.f.rawSubject then [] else ["subj"]) ++
  (groups.filter fun g => extOf g.2 old.extensions != extOf g.2 new.extensions).map (·.1)

def fidelity (isRekey : Bool) (kv : List (String × String)) : Option String := do
  let g := fun k => lookup kv k
  let f ← fields? kv
  let key ← str? (← g "key")
  let nkeyS ← g "nkey"
  let pk : Option Str ← if nkeyS = "!" then pure none else (str? nkeyS).map some
  if isRekey != pk.isSome then none
  let exts ← list? ext? (← g "exts")
  let gen ← list? ext? (← g "gen")
  let old : Cert := {
    f, publicKey := key, serial := 0
    version := (← (← g "over").toNat?), sigAlg := (← str? (← g "oalg")), issuer := (← str? (← g "oiss"))
    subjectKeyId := (← str? (← g "oski"))
    notBefore := (← int? (← g "nb")), notAfter := (← int? (← g "na"))
    extensions := exts }
  let val := fun (o : Oid) => ((extOf o gen).map (·.value)).getD (s "missing")
  let enc : Enc := {
    ku := fun _ => val oidKU, eku := fun _ => val oidEKU, bc := fun _ => val oidBC
    ski := fun _ => val oidSKI, aki := fun _ => val oidAKI, aia := fun _ => val oidAIA
    san := fun _ => val oidSAN, pol := fun _ => val oidPol, nc := fun _ => val oidNC
    crl := fun _ => val oidCRLDP
    -- content of a short-form DER OCTET STRING
    skiDec := fun v => v.drop 2 }
  let nski ← str? (← g "nski")
  let nkok ← bool? (← g "nkok")
  let env : Env := {
    enc, now := 0, backdate := (← int? (← g "bd")), serial := 1
    issuerSubject := (← str? (← g "eiss")), sigAlg := (← str? (← g "ealg"))
    parentSKI := (← str? (← g "aki")), skiOf := fun _ => nski
    -- crypto/x509's fallback for CA templates without identifier: the harness's reference
    -- certificate carries whatever identifier the library derived, under the same OID
    sha1Of := fun _ => nski
    keyOK := fun _ => nkok }
  -- the certificate was just issued by a present provisioner with default claims; the two clock
  -- comparisons are inputs
  let i : GateIn := ⟨.no, .found (.ctl false false .none) false, .found (.ctl false false .none),
    (← bool? (← g "nyv")), (← bool? (← g "exp"))⟩
  let api := (g "via") == some "api"
  match renew current env i old pk with
  | .crash => pure "crash"
  | .val (.refused r) => pure (if api then "refuse" else s!"refuse:{reasonS r}")
  | .val (.signError _) => pure (if api then "refuse" else "signerr")
  | .val (.issued c) =>
    -- the property's list clause evaluated on the predicted certificate
    let strip := fun (es : List Ext) => dropOid oidAKI (if isRekey then dropOid oidSKI es else es)
    let keep := if strip c.extensions == strip old.extensions then "ok" else "bad"
    -- TBSCertificate components besides serial, validity, key and extensions: which of them differ
    let tbs := (if c.version == old.version then [] else ["ver"]) ++ (if c.sigAlg == old.sigAlg then [] else ["alg"]) ++
      (if c.issuer == old.issuer then [] else ["iss"])
    pure s!"issued key=x{hex c.publicKey} subj=x{hex c.f.rawSubject} ver={c.version} alg=x{hex c.sigAlg} iss=x{hex c.issuer} tbs={listS tbs} dur={c.notAfter - c.notBefore} exts={listS (c.extensions.map extS)} fdiff={listS (fdiff old c)} keep={keep} serial=new sig=ok win=ok"

/-! ### the handlers on the request as received -/

def apiS : ApiResult → String
  | .created _ => "created" | .badRequest => "badrequest" | .crash => "crash"
  | .unauthorized => "refuse" | .refused _ => "refuse" | .signError => "refuse"

def gateIn? (kv : List (String × String)) : Option GateIn := do
  pure {
    revoked := (← rev? (← lookup kv "rev"))
    db := (← db? (← lookup kv "db"))
    ext := (← extl? (← lookup kv "ext"))
    notYetValid := (← bool? (← lookup kv "nyv"))
    expired := (← bool? (← lookup kv "exp")) }

/-- hrenew <gate fields> peer=0|1 auth=x<hex of the Authorization header> tok=<six bits>|- -/
def hrenew (kv : List (String × String)) : Option String := do
  let i ← gateIn? kv
  let peer ← bool? (← lookup kv "peer")
  let auth ← str? (← lookup kv "auth")
  let bits ← lookup kv "tok"
  let tc : Bool × Bool × Bool × Bool × Bool × Bool ←
    if bits = "-" then pure (false, false, false, false, false, false) else
    match bits.toList.map fun c => c == '1' with
    | [a, b, c, d, e, f] => pure (a, b, c, d, e, f)
    | _ => none
  pure (apiS (handleRenew current dummyEnv i dummyCert ⟨peer, auth⟩ (fun _ => tc)))

/-- hrekey <gate fields> peer= body= csr= sig= nkok= -/
def hrekey (kv : List (String × String)) : Option String := do
  let i ← gateIn? kv
  let b := fun k => do bool? (← lookup kv k)
  let nkok ← b "nkok"
  let env := { dummyEnv with keyOK := fun _ => nkok }
  pure (apiS (handleRekey current env i dummyCert
    ⟨(← b "peer"), (← b "body"), (← b "csr"), (← b "sig"), [1]⟩))

/-- link dep=standalone|linked ops=<op,…>|- serial=<n> loaded=<id~prov;…>|- ext=… nyv= exp=
    ops: i<serial>:<provisioner id> (issued) | n<parent>:<serial> (renewed) | r<serial>:<0|1> (revoked,
    1 = the request presented the certificate). The revocation lookup and the database lookup of the
    gate are computed by the model from the history (`gateAfter`). -/
def link (kv : List (String × String)) : Option String := do
  let dep ← match (← lookup kv "dep") with
    | "standalone" => pure Deployment.standalone | "linked" => pure Deployment.linked | _ => none
  let op? : String → Option StoreOp := fun t =>
    match t.toList with
    | 'i' :: rest =>
      match (String.ofList rest).splitOn ":" with
      | [a, b] => do pure (.issue (← a.toNat?) b)
      | _ => none
    | 'n' :: rest =>
      match (String.ofList rest).splitOn ":" with
      | [a, b] => do pure (.renewed (← a.toNat?) (← b.toNat?))
      | _ => none
    | 'r' :: rest =>
      match (String.ofList rest).splitOn ":" with
      | [a, b] => do pure (.revoke (← a.toNat?) (← bool? b))
      | _ => none
    | _ => none
  let ops ← list? op? (← lookup kv "ops")
  let serial ← (← lookup kv "serial").toNat?
  let loadedS ← lookup kv "loaded"
  let table : List (String × Stored) ← if loadedS = "-" then pure [] else
    (loadedS.splitOn ";").mapM fun e =>
      match e.splitOn "~" with
      | [k, v] => do pure (k, (← prov? v))
      | _ => none
  let loaded := fun id => (table.find? (·.1 == id)).map (·.2)
  let ext ← extl? (← lookup kv "ext")
  let i := gateAfter dep ops serial loaded ext (← bool? (← lookup kv "nyv")) (← bool? (← lookup kv "exp"))
  match Renew.decide current i with
  | .crash => pure "crash"
  | .val .allow => pure "allow"
  | .val (.refuse r) => pure s!"refuse:{reasonS r}"

/-- conv type=<T> dir=c2l|roundtrip|l2c pc=nil|<d><a>   output: flags=nil|<d><a>
    (the conversion of the renewal flags is the same function for every provisioner type) -/
def conv (kv : List (String × String)) : Option String := do
  let tri : Char → Option (Option Bool) := fun c =>
    if c == '-' then some none else if c == '0' then some (some false) else if c == '1' then some (some true) else none
  let pcS ← lookup kv "pc"
  let pc : Option RFlags ← if pcS = "nil" then pure none else
    match pcS.toList with
    | [d, a] => do pure (some ⟨(← tri d), (← tri a)⟩)
    | _ => none
  let g : GlobalFlags := ⟨false, false⟩
  let b := fun (x : Bool) => if x then "1" else "0"
  let o := fun (x : Option Bool) => match x with | none => "-" | some y => b y
  match (← lookup kv "dir") with
  | "c2l" =>
    pure (match claimsToLinkedca current g pc with | none => "flags=nil" | some (d, a) => s!"flags={b d}{b a}")
  | "roundtrip" =>
    pure (match migrateClaims current g pc with | none => "flags=nil" | some c => s!"flags={o c.disableRenewal}{o c.allowAfterExpiry}")
  | "l2c" =>
    let l : Option (Bool × Bool) := pc.map fun c => (c.disableRenewal.getD false, c.allowAfterExpiry.getD false)
    pure (match claimsToCertificates l with | none => "flags=nil" | some c => s!"flags={o c.disableRenewal}{o c.allowAfterExpiry}")
  | _ => none

/-- srv op=renew|rekey <gate fields> present=none|cert:<chainOK><nyv><exp> auth=x<hex> tok=<six bits>|-
    output: created | badrequest | refuse | crash | tlsreject -/
def srv (kv : List (String × String)) : Option String := do
  let i ← gateIn? kv
  let pres ← lookup kv "present"
  let p : Presented ← if pres = "none" then pure .nothing else
    match pres.splitOn ":" with
    | ["cert", b] =>
      match b.toList.map fun c => c == '1' with
      | [a, n, e] => pure (.cert a n e)
      | _ => none
    | _ => none
  let auth ← str? (← lookup kv "auth")
  let bits ← lookup kv "tok"
  let tc : Bool × Bool × Bool × Bool × Bool × Bool ←
    if bits = "-" then pure (false, false, false, false, false, false) else
    match bits.toList.map fun c => c == '1' with
    | [a, b, c, d, e, f] => pure (a, b, c, d, e, f)
    | _ => none
  let r ← match (← lookup kv "op") with
    | "renew" => pure (serveRenew current dummyEnv i dummyCert p auth (fun _ => tc))
    | "rekey" => pure (serveRekey current dummyEnv i dummyCert p true true true [1])
    | _ => none
  pure (match r with | none => "tlsreject" | some a => apiS a)

/-- mig mode=coded|spec phase=config|migrated|restarted gd= ga= pc=nil|<d><a> exp=0|1   (flags: - 0 1) -/
def mig (kv : List (String × String)) : Option String := do
  let tri : Char → Option (Option Bool) := fun c =>
    if c == '-' then some none else if c == '0' then some (some false) else if c == '1' then some (some true) else none
  let one := fun k => do
    match (← lookup kv k).toList with
    | [c] => tri c
    | _ => none
  let g : GlobalFlags := ⟨(← one "gd").getD false, (← one "ga").getD false⟩
  let pcS ← lookup kv "pc"
  let pc : Option RFlags ← if pcS = "nil" then pure none else
    match pcS.toList with
    | [d, a] => do pure (some ⟨(← tri d), (← tri a)⟩)
    | _ => none
  let ph : Phase ← match (← lookup kv "phase") with
    | "config" => pure .config | "migrated" => pure .migrated | "restarted" => pure .restarted | _ => none
  let exp ← bool? (← lookup kv "exp")
  match (← lookup kv "mode") with
  | "coded" =>
    match Renew.decide current (phaseGate current g pc ph exp) with
    | .crash => pure "crash"
    | .val .allow => pure "allow"
    | .val (.refuse r) => pure s!"refuse:{reasonS r}"
  | "spec" =>
    -- the flags the operator configured keep their effect in every phase
    match Renew.decide withMigrationRepair (phaseGate withMigrationRepair g pc ph exp) with
    | .crash => pure "crash"
    | .val .allow => pure "allow"
    | .val (.refuse _) => pure "refuse"
  | _ => none

def eval (line : String) : Option String :=
  match fields line with
  | [] => none
  | kind :: rest =>
    let kv := rest.filterMap fun f =>
      match f.splitOn "=" with
      | [k, v] => some (k, v)
      | _ => none
    match kind with
    | "gate" => gate kv
    | "renew" => fidelity false kv
    | "rekey" => fidelity true kv
    | "unissued" => some "not-issued"
    | "fact" =>
      match lookup kv "name" with
      | some n => (factTable n).map fun t => "table:" ++ listS t
      | none => none
    | "mig" => mig kv
    | "srv" => srv kv
    | "conv" => conv kv
    | "link" => link kv
    | "hrenew" => hrenew kv
    | "hrekey" => hrekey kv
    | "fidspec" =>
      -- the property itself: parsed field groups that may differ between old and new certificate
      match lookup kv "op" with
      | some "renew" => some "fdiff=- key=ok"
      | some "rekey" => some "fdiff=ski key=ok"
      | _ => none
    | _ => none

end C09

def main : IO Unit := Verif.lineLoop fun l => (C09.eval l).getD "parse-error"
