import Verif.Model.AcmeSM
import Verif.Model.AcmeConc
/-!
  Line-protocol driver for C10 (ACME object state machine).

  One history per line: `ops=<op>;<op>;…` (other fields, e.g. `case=`, are ignored). Ops:
    n:<acct>:<now>:<k.k.…|->          new order, k = number of challenges of each identifier (`1a`: one device-attest-01;
                                      a leading `w`: a Wire order)
    t:<acct>:<chal>:<authz>:<now>:<s<k>|j|t|d>  respond to a device-attest-01 challenge through the URL of <authz>;
                                      s<k>: valid attestation of key number k
    r:<acct>:<chal>:<now>:<s|t|j|d>   respond to a challenge; validator verdict success / retry / reject / db error
    w:<acct>:<chal>:<now>:<s|j|d>     respond to a wire-oidc-01 challenge (token verifies / does not / db error)
    W:<acct>:<chal>:<now>:<s|j|d>     the same for a wire-dpop-01 challenge
    a:<acct>:<authz>:<now>            get authorization
    o:<acct>:<order>:<now>            get order
    f:<acct>:<order>:<now>:<key>:<c><g><u>  finalize with a CSR made with key number <key>; CSR names match, the authority
                                      signs, final UpdateOrder fails (0/1 each)
    l:<acct>:<urlacct>:<now>          list the account's orders
  any op may carry a storage fault suffix `!c<k>` / `!a<k>` / `!o<k>`: every update write of
  challenge / authorization / order k fails while the request runs; `!x<k>`: the k-th create write
  (challenge / authorization / order) of the request fails; `!i`: the write of the account's order index
  fails; `!k`: the write of the Wire token fails
  A line `conc=reread|original|claim ths=<f|p>.<f|p>… sched=<i>.<i>…` runs the interleaving model
  (Verif.AcmeConc) instead: output `conc<certificates>:<stored status after every step>=<status once all requests have returned>`.
  Output: `T<total certificates>:<step>|<step>|…`, one step per op:
    `<resp>/<order statuses>/<certificates per order>/<authz statuses>/<challenge statuses>`
  statuses are letters p r v i in id order (upper case + key number: the authorization carries that key's fingerprint),
  certificate counts are joined by '.'; a fifth field lists the stored Wire tokens (`o<order>` OIDC,
  `d<order>` DPoP) when there are any.
-/
open Verif Verif.AcmeSM

namespace C10

def nat? (t : String) : Option Nat := t.toNat?
def bit? (c : Char) : Option Bool := if c = '1' then some true else if c = '0' then some false else none

/-- `3` = three ordinary challenges, `1a` = one device-attest-01 challenge -/
def idSpec? (k : String) : Option (Nat × Bool) :=
  match k.toList.reverse with
  | 'a' :: r => (String.ofList r.reverse).toNat?.map fun n => (n, true)
  | _ => k.toNat?.map fun n => (n, false)

def op? (t : String) : Option Op :=
  match t.splitOn ":" with
  | ["n", a, n, ks] => do
    let wire := ks.startsWith "w"
    let ks := if wire then (ks.drop 1).toString else ks
    let ks ← if ks = "-" then some [] else (ks.splitOn ".").mapM idSpec?
    pure (.newOrder (← nat? a) (← nat? n) ks wire)
  | ["t", a, c, z, n, o] => do
    let out ← match o with
      | "s" => some Outcome.success | "t" => some .retry | "j" => some .reject | "d" => some .dbError
      | _ => if o.startsWith "s" then ((o.drop 1).toString.toNat?).map Outcome.successKey else none
    pure (.attest (← nat? a) (← nat? c) (← nat? z) (← nat? n) out)
  | ["r", a, c, n, o] => do
    let out ← match o with
      | "s" => some Outcome.success | "t" => some .retry | "j" => some .reject | "d" => some .dbError
      | _ => none
    pure (.respond (← nat? a) (← nat? c) (← nat? n) out)
  | [w, a, c, n, o] => do
    let dpop ← if w = "w" then some false else if w = "W" then some true else none
    let out ← match o with
      | "s" => some Outcome.success | "t" => some .retry | "j" => some .reject | "d" => some .dbError
      | _ => none
    pure (.wire (← nat? a) (← nat? c) (← nat? n) dpop out)
  | ["a", a, z, n] => do pure (.getAuthz (← nat? a) (← nat? z) (← nat? n))
  | ["o", a, o, n] => do pure (.getOrder (← nat? a) (← nat? o) (← nat? n))
  | ["f", a, o, n, k, fl] =>
    match fl.toList with
    | [c, g, u] => do pure (.finalize (← nat? a) (← nat? o) (← nat? n) (← nat? k) (← bit? c) (← bit? g) (← bit? u))
    | _ => none
  | ["l", a, u, n] => do pure (.listOrders (← nat? a) (← nat? u) (← nat? n))
  | _ => none

def deny? (t : String) : Option Deny :=
  match t.toList with
  | 'c' :: r => (String.ofList r).toNat?.map .chal
  | 'a' :: r => (String.ofList r).toNat?.map .authz
  | 'o' :: r => (String.ofList r).toNat?.map .order
  | 'x' :: r => (String.ofList r).toNat?.map .create
  | ['i'] => some .index
  | ['k'] => some .token
  | _ => none

def req? (t : String) : Option Req :=
  match t.splitOn "!" with
  | [o] => (op? o).map fun op => (Deny.none, op)
  | [o, d] => do pure ((← deny? d), (← op? o))
  | _ => none

def stS : Status → String
  | .pending => "p" | .ready => "r" | .valid => "v" | .invalid => "i"

def dots (l : List Nat) : String := if l.isEmpty then "-" else ".".intercalate (l.map toString)

def respS : Resp → String
  | .ok st => "ok-" ++ stS st
  | .created o => "created-" ++ toString o
  | .list ids => "list-" ++ dots ids
  | .unauthorized => "unauth"
  | .notFound => "notfound"
  | .notReady => "notready"
  | .badCSR => "badcsr"
  | .malformed => "malformed"
  | .ise => "ise"
  | .refused => "refused"
  | .deactivated => "deactivated"
  | .notImplemented => "notimpl"

def dump (s : Store) : String :=
  let os := String.join (s.orders.map (stS ·.status))
  let cs := dots ((List.range s.orders.length).map fun o => (s.certs.filter (·.order == o)).length)
  let az := String.join (s.authzs.map fun a => match a.fp with
    | some k => (stS a.status).toUpper ++ toString k
    | none => stS a.status)
  let ch := String.join (s.chals.map (stS ·.status))
  let tk := (List.range s.orders.length).flatMap fun o =>
    (if s.tokens.contains (o, false) then [s!"o{o}"] else []) ++ (if s.tokens.contains (o, true) then [s!"d{o}"] else [])
  if tk.isEmpty then s!"{os}/{cs}/{az}/{ch}" else s!"{os}/{cs}/{az}/{ch}/" ++ ".".intercalate tk

def cstS : AcmeConc.CStatus → String
  | .ready => "r" | .processing => "c" | .valid => "v" | .invalid => "i"

def chS : AcmeConc.ChSt → String
  | .pending => "p" | .valid => "v" | .invalid => "i"

/-- `conc=chal ths=<s|t|j>.… sched=…`: simultaneous responses to one pending challenge -/
def evalConcChal (fs : List String) : Option String := do
  let thsF ← fs.find? (·.startsWith "ths=")
  let ths ← ((thsF.drop 4).toString.splitOn ".").mapM fun t =>
    match t with
    | "s" => some ({ verdict := .ok } : AcmeConc.ChTh) | "t" => some { verdict := .retry }
    | "j" => some { verdict := .reject } | _ => none
  let scF ← fs.find? (·.startsWith "sched=")
  let sched ← ((scF.drop 6).toString.splitOn ".").mapM nat?
  let w : AcmeConc.ChW := { ths := ths }
  let full := sched ++ (List.range ths.length).flatMap fun i => List.replicate 4 i
  pure s!"cconc:{String.join ((AcmeConc.chTrace w sched).map chS)}={chS (AcmeConc.chExec w full).cur.status}"

def evalConc (fs : List String) (mode : String) : Option String := do
  if mode = "chal" then return ← evalConcChal fs
  let m ← match mode with
    | "reread" => some AcmeConc.Mode.reread | "original" => some .original | "claim" => some .claim
    | _ => none
  let thsF ← fs.find? (·.startsWith "ths=")
  let ths ← ((thsF.drop 4).toString.splitOn ".").mapM fun t =>
    match t with
    | "f" => some ({ kind := .fin } : AcmeConc.Th) | "p" => some { kind := .poll } | _ => none
  let scF ← fs.find? (·.startsWith "sched=")
  let sched ← ((scF.drop 6).toString.splitOn ".").mapM nat?
  let w : AcmeConc.W := { ths := ths }
  -- unfinished requests run to completion in thread order after the schedule, as in the harness
  let full := sched ++ (List.range ths.length).flatMap fun i => List.replicate 5 i
  let fin := (AcmeConc.exec m w full).g
  pure s!"conc{fin.certs}:{String.join ((AcmeConc.trace m w sched).map cstS)}={cstS fin.cur.status}"

/-- `aops=` lines: histories with accounts (stage `router`): `A` new account, `x:<acct>` deactivate,
    `k:<acct>` key-change, any other token is a request of the account named in it -/
def areq? (t : String) : Option AReq :=
  if t = "A" then some .newAccount
  else match t.splitOn ":" with
    | ["x", a] => (nat? a).map .deactivate
    | ["k", a] => (nat? a).map .keyChange
    | _ => (req? t).map fun r => .req r.1 r.2

def evalA (body : String) : Option String := do
  let ops ← if body = "" then some [] else (body.splitOn ";").mapM areq?
  let (a, outs) := ops.foldl (fun (acc : AStore × List String) rq =>
    let (a', r) := astep acc.1 rq
    (a', (respS r ++ "/" ++ dump a'.s ++ "/" ++ String.join (a'.accts.map fun b => if b then "v" else "d")) :: acc.2)) (({} : AStore), [])
  pure s!"R{a.s.certs.length}:{"|".intercalate outs.reverse}"

/-- `site=<x-hex of the site string> n=<k>`: the k-th occurrence (from 1) of a status-writing site
    found in the source; `sites=all`: how many the table lists -/
def evalSite (fs : List String) (site : String) : Option String := do
  if site = "all" then
    return s!"sites:{(statusSites.map (·.2.1)).foldl (· + ·) 0}"
  let bytes ← if site.startsWith "x" then unhex (site.drop 1).toString else none
  let name := String.ofList (bytes.map Char.ofNat)
  let n ← ((← fs.find? (·.startsWith "n=")).drop 2).toString.toNat?
  match statusSites.find? (·.1 == name) with
  | some e => pure (if n ≤ e.2.1 then "site:known" else "site:unknown-site")
  | none => pure "site:unknown-site"

def eval (line : String) : Option String := do
  if let some f := (fields line).find? (·.startsWith "site=") then
    return ← evalSite (fields line) (f.drop 5).toString
  if let some f := (fields line).find? (·.startsWith "aops=") then
    return ← evalA (f.drop 5).toString
  if let some c := (fields line).find? (·.startsWith "conc=") then
    return ← evalConc (fields line) (c.drop 5).toString
  let f ← (fields line).find? (·.startsWith "ops=")
  let body := (f.drop 4).toString
  let ops ← if body = "" then some [] else (body.splitOn ";").mapM req?
  let (s, outs) := ops.foldl (fun (acc : Store × List String) rq =>
    let (s', r) := step rq.1 acc.1 rq.2
    (s', (respS r ++ "/" ++ dump s') :: acc.2)) (({} : Store), [])
  pure s!"T{s.certs.length}:{"|".intercalate outs.reverse}"

end C10

def main : IO Unit := Verif.lineLoop fun l => (C10.eval l).getD "parse-error"
