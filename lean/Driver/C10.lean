import Verif.Model.AcmeSM
/-!
  Line-protocol driver for C10 (ACME object state machine).

  One history per line: `ops=<op>;<op>;…` (other fields, e.g. `case=`, are ignored). Ops:
    n:<acct>:<now>:<k.k.…|->          new order, k = number of challenges of each identifier
    r:<acct>:<chal>:<now>:<s|t|j|d>   respond to a challenge; validator verdict success / retry / reject / db error
    a:<acct>:<authz>:<now>            get authorization
    o:<acct>:<order>:<now>            get order
    f:<acct>:<order>:<now>:<c><g><u>  finalize; CSR names match, signing succeeds, final UpdateOrder fails (0/1 each)
    l:<acct>:<urlacct>:<now>          list the account's orders
  Output: `T<total certificates>:<step>|<step>|…`, one step per op:
    `<resp>/<order statuses>/<certificates per order>/<authz statuses>/<challenge statuses>`
  statuses are letters p r v i in id order, certificate counts are joined by '.'.
-/
open Verif Verif.AcmeSM

namespace C10

def nat? (t : String) : Option Nat := t.toNat?
def bit? (c : Char) : Option Bool := if c = '1' then some true else if c = '0' then some false else none

def op? (t : String) : Option Op :=
  match t.splitOn ":" with
  | ["n", a, n, ks] => do
    let ks ← if ks = "-" then some [] else (ks.splitOn ".").mapM nat?
    pure (.newOrder (← nat? a) (← nat? n) ks)
  | ["r", a, c, n, o] => do
    let out ← match o with
      | "s" => some Outcome.success | "t" => some .retry | "j" => some .reject | "d" => some .dbError
      | _ => none
    pure (.respond (← nat? a) (← nat? c) (← nat? n) out)
  | ["a", a, z, n] => do pure (.getAuthz (← nat? a) (← nat? z) (← nat? n))
  | ["o", a, o, n] => do pure (.getOrder (← nat? a) (← nat? o) (← nat? n))
  | ["f", a, o, n, fl] =>
    match fl.toList with
    | [c, g, u] => do pure (.finalize (← nat? a) (← nat? o) (← nat? n) (← bit? c) (← bit? g) (← bit? u))
    | _ => none
  | ["l", a, u, n] => do pure (.listOrders (← nat? a) (← nat? u) (← nat? n))
  | _ => none

def stS : Status → String
  | .pending => "p" | .ready => "r" | .valid => "v" | .invalid => "i"

def dots (l : List Nat) : String := if l.isEmpty then "-" else ".".intercalate (l.map toString)

def respS : Resp → String
  | .ok st => "ok-" ++ stS st
  | .created o => "created-" ++ toString o
  | .list ids => "list-" ++ dots ids
  | .unauthorized => "unauth"
  | .notFound => "notfound"
  | .notReady => "notready"
  | .badCSR => "badcsr"
  | .malformed => "malformed"
  | .ise => "ise"

def dump (s : Store) : String :=
  let os := String.join (s.orders.map (stS ·.status))
  let cs := dots ((List.range s.orders.length).map fun o => (s.certs.filter (·.order == o)).length)
  let az := String.join (s.authzs.map (stS ·.status))
  let ch := String.join (s.chals.map (stS ·.status))
  s!"{os}/{cs}/{az}/{ch}"

def eval (line : String) : Option String := do
  let f ← (fields line).find? (·.startsWith "ops=")
  let body := (f.drop 4).toString
  let ops ← if body = "" then some [] else (body.splitOn ";").mapM op?
  let (s, outs) := ops.foldl (fun (acc : Store × List String) op =>
    let (s', r) := step acc.1 op
    (s', (respS r ++ "/" ++ dump s') :: acc.2)) (({} : Store), [])
  pure s!"T{s.certs.length}:{"|".intercalate outs.reverse}"

end C10

def main : IO Unit := Verif.lineLoop fun l => (C10.eval l).getD "parse-error"
