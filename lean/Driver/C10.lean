import Verif.Model.AcmeSM
import Verif.Model.AcmeConc
/-!
  Line-protocol driver for C10 (ACME object state machine).

  One history per line: `ops=<op>;<op>;…` (other fields, e.g. `case=`, are ignored). Ops:
    n:<acct>:<now>:<k.k.…|->          new order, k = number of challenges of each identifier
    r:<acct>:<chal>:<now>:<s|t|j|d>   respond to a challenge; validator verdict success / retry / reject / db error
    a:<acct>:<authz>:<now>            get authorization
    o:<acct>:<order>:<now>            get order
    f:<acct>:<order>:<now>:<c><g><u>  finalize; CSR names match, signing succeeds, final UpdateOrder fails (0/1 each)
    l:<acct>:<urlacct>:<now>          list the account's orders
  any op may carry a storage fault suffix `!c<k>` / `!a<k>` / `!o<k>`: every update write of
  challenge / authorization / order k fails while the request runs
  A line `conc=reread|original|claim ths=<f|p>.<f|p>… sched=<i>.<i>…` runs the interleaving model
  (Verif.AcmeConc) instead: output `conc<certificates>:<stored status after every step>`.
  Output: `T<total certificates>:<step>|<step>|…`, one step per op:
    `<resp>/<order statuses>/<certificates per order>/<authz statuses>/<challenge statuses>`
  statuses are letters p r v i in id order, certificate counts are joined by '.'.
-/
open Verif Verif.AcmeSM

namespace C10

def nat? (t : String) : Option Nat := t.toNat?
def bit? (c : Char) : Option Bool := if c = '1' then some true else if c = '0' then some false else none

def op? (t : String) : Option Op :=
  match t.splitOn ":" with
  | ["n", a, n, ks] => do
    let ks ← if ks = "-" then some [] else (ks.splitOn ".").mapM nat?
    pure (.newOrder (← nat? a) (← nat? n) ks)
  | ["r", a, c, n, o] => do
    let out ← match o with
      | "s" => some Outcome.success | "t" => some .retry | "j" => some .reject | "d" => some .dbError
      | _ => none
    pure (.respond (← nat? a) (← nat? c) (← nat? n) out)
  | ["a", a, z, n] => do pure (.getAuthz (← nat? a) (← nat? z) (← nat? n))
  | ["o", a, o, n] => do pure (.getOrder (← nat? a) (← nat? o) (← nat? n))
  | ["f", a, o, n, fl] =>
    match fl.toList with
    | [c, g, u] => do pure (.finalize (← nat? a) (← nat? o) (← nat? n) (← bit? c) (← bit? g) (← bit? u))
    | _ => none
  | ["l", a, u, n] => do pure (.listOrders (← nat? a) (← nat? u) (← nat? n))
  | _ => none

def deny? (t : String) : Option Deny :=
  match t.toList with
  | 'c' :: r => (String.ofList r).toNat?.map .chal
  | 'a' :: r => (String.ofList r).toNat?.map .authz
  | 'o' :: r => (String.ofList r).toNat?.map .order
  | _ => none

def req? (t : String) : Option Req :=
  match t.splitOn "!" with
  | [o] => (op? o).map fun op => (Deny.none, op)
  | [o, d] => do pure ((← deny? d), (← op? o))
  | _ => none

def stS : Status → String
  | .pending => "p" | .ready => "r" | .valid => "v" | .invalid => "i"

def dots (l : List Nat) : String := if l.isEmpty then "-" else ".".intercalate (l.map toString)

def respS : Resp → String
  | .ok st => "ok-" ++ stS st
  | .created o => "created-" ++ toString o
  | .list ids => "list-" ++ dots ids
  | .unauthorized => "unauth"
  | .notFound => "notfound"
  | .notReady => "notready"
  | .badCSR => "badcsr"
  | .malformed => "malformed"
  | .ise => "ise"

def dump (s : Store) : String :=
  let os := String.join (s.orders.map (stS ·.status))
  let cs := dots ((List.range s.orders.length).map fun o => (s.certs.filter (·.order == o)).length)
  let az := String.join (s.authzs.map (stS ·.status))
  let ch := String.join (s.chals.map (stS ·.status))
  s!"{os}/{cs}/{az}/{ch}"

def cstS : AcmeConc.CStatus → String
  | .ready => "r" | .processing => "c" | .valid => "v" | .invalid => "i"

def evalConc (fs : List String) (mode : String) : Option String := do
  let m ← match mode with
    | "reread" => some AcmeConc.Mode.reread | "original" => some .original | "claim" => some .claim
    | _ => none
  let thsF ← fs.find? (·.startsWith "ths=")
  let ths ← ((thsF.drop 4).toString.splitOn ".").mapM fun t =>
    match t with
    | "f" => some ({ kind := .fin } : AcmeConc.Th) | "p" => some { kind := .poll } | _ => none
  let scF ← fs.find? (·.startsWith "sched=")
  let sched ← ((scF.drop 6).toString.splitOn ".").mapM nat?
  let w : AcmeConc.W := { ths := ths }
  pure s!"conc{(AcmeConc.exec m w sched).g.certs}:{String.join ((AcmeConc.trace m w sched).map cstS)}"

def eval (line : String) : Option String := do
  if let some c := (fields line).find? (·.startsWith "conc=") then
    return ← evalConc (fields line) (c.drop 5).toString
  let f ← (fields line).find? (·.startsWith "ops=")
  let body := (f.drop 4).toString
  let ops ← if body = "" then some [] else (body.splitOn ";").mapM req?
  let (s, outs) := ops.foldl (fun (acc : Store × List String) rq =>
    let (s', r) := step rq.1 acc.1 rq.2
    (s', (respS r ++ "/" ++ dump s') :: acc.2)) (({} : Store), [])
  pure s!"T{s.certs.length}:{"|".intercalate outs.reverse}"

end C10

def main : IO Unit := Verif.lineLoop fun l => (C10.eval l).getD "parse-error"
