import Verif.Model.Revocation
/-!
  Line-protocol driver for C07 (revocation).

  `h reqs=<R>;<R>;… evs=<E>,<E>,…`
      R = `<kind>:<key>:<tag>:<fault>:<crlFails>:<otherOK>`; kind = rx0 | rx1 (X.509 revocation without /
          with CRL regeneration) | rs (SSH revocation) | nx (X.509 renew/rekey) | ns (SSH renew/rekey);
          key = `x<hex>`: for a revocation the serial string *as sent* (the driver applies the route's
          `Validate` canonicalisation `wireKey`; refused ⇒ the request is answered `bad` and never runs), for a
          renewal the decimal serial of the certificate; fault = n | b | a;   E = `s<thread>` | `r0`
      output: one answer per request joined by `,` (ok already err revoked rerr other allowed drop pend bad),
          then ` x=[<key>=<tag>,…] s=[…]` — both revoked tables sorted by key
  `lh reqs=… evs=…`   the same for a linked CA (`lmachine`): the tables printed are the linked CA service's
  `a key=x<hex> reqs=<R>;…`   a sequential history on one certificate: R = `v:<signer o|a|k|x>:<reason|->:<tag>` (ACME revoke-cert signed by
      the owning account / another account / the certificate key / another key) | `m:<tag>` (revocation over mTLS) | `n` (renew or rekey);
      output: answers (ok already unauthorized badreason err revoked allowed) joined by `,` then ` x=[…]`
  `v s=x<hex>`     RevokeRequest.Validate's serial canonicalisation: `x<hex>` | `bad`
  `vs s=x<hex>`    SSHRevokeRequest.Validate's serial canonicalisation: `x<hex>` | `bad`
-/
open Verif Verif.Store Verif.Rev

namespace C07

def str? (t : String) : Option Str :=
  if t.startsWith "x" then unhex (t.drop 1).toString else none

def bool? (t : String) : Option Bool :=
  if t = "1" then some true else if t = "0" then some false else none

def lookup (kv : List (String × String)) (k : String) : Option String :=
  (kv.find? (·.1 = k)).map (·.2)

def kind? : String → Option Kind
  | "rx0" => some (.revokeX false) | "rx1" => some (.revokeX true) | "rs" => some .revokeSSH
  | "nx" => some .renewX | "ns" => some .renewSSH | _ => none

def fault? : String → Option Fault
  | "n" => some .none | "b" => some .before | "a" => some .after | _ => none

def req? (t : String) : Option Req :=
  match t.splitOn ":" with
  | [k, key, tag, f, c, o] => do
    let kind ← kind? k
    let raw ← str? key
    let tag ← tag.toNat?
    let f ← fault? f
    let c ← bool? c
    let o ← bool? o
    let inp (key : Str) : Inp := { kind := kind, key := key, tag := tag, fault := f, crlFails := c, otherOK := o }
    if kind.isRevoke then
      match wireKey kind.isSSH raw with
      | some key => pure { inp := inp key }
      | none => pure { inp := inp raw, out := .badRequest }
    else pure { inp := inp raw }
  | _ => none

def ev? (t : String) : Option Ev :=
  if t.startsWith "s" then (t.drop 1).toString.toNat?.map .step
  else if t.startsWith "r" then (t.drop 1).toString.toNat?.map .restart else none

def list? {α : Type} (sep : String) (f : String → Option α) (t : String) : Option (List α) :=
  if t = "-" then some [] else (t.splitOn sep).mapM f

def outS : Out → String
  | .pending => "pend" | .ok => "ok" | .already => "already" | .err => "err"
  | .refusedRevoked => "revoked" | .refusedErr => "rerr" | .refusedOther => "other"
  | .allowed => "allowed" | .dropped => "drop" | .badRequest => "bad"

def strLe : Str → Str → Bool
  | [], _ => true
  | _ :: _, [] => false
  | a :: as, b :: bs => if a < b then true else if b < a then false else strLe as bs

def tableS (m : Map Nat) : String :=
  let es := m.mergeSort (fun a b => strLe a.1 b.1)
  "[" ++ String.intercalate "," (es.map fun e => "x" ++ hex e.1 ++ "=" ++ toString e.2) ++ "]"

def eval (line : String) : Option String := do
  let fs := fields line
  let kv := fs.filterMap fun f =>
    match f.splitOn "=" with
    | [k, v] => some (k, v)
    | _ => none
  match fs.head? with
  | some "h" =>
    let rs ← list? ";" req? (← lookup kv "reqs")
    let evs ← list? "," ev? (← lookup kv "evs")
    let s := machine.run ({ x509 := [], ssh := [] }, rs) evs
    pure (String.intercalate "," (s.2.map (outS ·.out)) ++ " x=" ++ tableS s.1.x509 ++ " s=" ++ tableS s.1.ssh)
  | some "lh" =>
    let rs ← list? ";" req? (← lookup kv "reqs")
    let evs ← list? "," ev? (← lookup kv "evs")
    let s := lmachine.run ({ x509 := [], ssh := [] }, rs) evs
    pure (String.intercalate "," (s.2.map (outS ·.out)) ++ " x=" ++ tableS s.1.x509 ++ " s=" ++ tableS s.1.ssh)
  | some "v" =>
    match canonSerial (← str? (← lookup kv "s")) with
    | some c => pure ("x" ++ hex c)
    | none => pure "bad"
  | some "a" =>
    let key ← str? (← lookup kv "key")
    let reqs := (← lookup kv "reqs").splitOn ";"
    let one (kind : Kind) (tag : Nat) (g : G) : G × Out :=
      let r : Req := { inp := { kind := kind, key := key, tag := tag, fault := .none, crlFails := false, otherOK := true } }
      let s := machine.run (g, [r]) [.step 0, .step 0, .step 0]
      (s.1, (s.2.map (·.out)).headD .err)
    let rec go (g : G) (acc : List String) : List String → Option (G × List String)
      | [] => some (g, acc.reverse)
      | t :: ts =>
        match t.splitOn ":" with
        | ["n"] => let r := one .renewX 0 g; go r.1 (outS r.2 :: acc) ts
        | ["m", tag] => do let r := one (.revokeX false) (← tag.toNat?) g; go r.1 (outS r.2 :: acc) ts
        | ["v", sg, reason, tag] => do
          let signer ← match sg with
            | "o" => some AcmeSigner.owner | "a" => some .otherAccount | "k" => some .certKey | "x" => some .otherKey | _ => none
          let reason ← if reason = "-" then some none else reason.toInt?.map some
          let r := acmeRevoke g key (← tag.toNat?) signer reason
          let a := match r.2 with
            | .ok => "ok" | .already => "already" | .unauthorized => "unauthorized" | .badReason => "badreason" | .err => "err"
          go r.1 (a :: acc) ts
        | _ => none
    let (g, answers) ← go { x509 := [], ssh := [] } [] reqs
    pure (String.intercalate "," answers ++ " x=" ++ tableS g.x509 ++ " s=" ++ tableS g.ssh)
  | some "vs" =>
    match canonSSHSerial (← str? (← lookup kv "s")) with
    | some c => pure ("x" ++ hex c)
    | none => pure "bad"
  | _ => none

end C07

def main : IO Unit := Verif.lineLoop fun l => (C07.eval l).getD "parse-error"
