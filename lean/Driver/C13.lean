import Verif.Model.AcmeSans
/-!
  Line-protocol driver for C13 (ACME finalization: CSR names versus order identifiers).

  One case per line, `key=value` fields separated by single spaces (unknown keys, e.g. `case=`, are ignored):
    kind=fin ids=<id,…> fps=<str,…> cfp=<str|!> cn=<str> cnip=<bytes> dns=<str,…> ips=<bytes,…> em=<n> uris=<str,…>
             [dn=<str|!,…> org=<str,…>]   (display-name subject attributes, `!` = not a string; Organization)
    kind=val ids=<id,…>
    kind=ord ids=<id,…> en=<letters h d t a: enabled challenge types>
  id = `<t>:<value>:<ParseIP(value) bytes>:<sanitize ok 0|1>[:<wire parsed 0|1>:<name>:<domain>:<uri|!>]` with t in d,i,p,u,w,o
  (dns, ip, permanent-identifier, wireapp-user, wireapp-device, anything else);
  a string / byte string is `x<hex>`, a list is joined by ',' and `-` when empty.
  Output:
    fin: `<class of F>:canon=<dns,…>;<ip,…> sans=<S> fin=<F>`
         S = ok:<san,…> | badcsr | ise | unmodelled | crash      san = d~<str> | i~<16 bytes> | p~<str>
         F = accept:<leaf|attested>:<cn>:<san,…> | acceptwire:<cn>:<org>:<san,…> | badcsr | unauthorized | ise | unmodelled | crash
    val: ok | malformed | unmodelled
    ord: malformed | unmodelled | created:<index of the first identifier with the same authorization,…>:<az|az|…>
         az = <t>~<authorization value>~<wildcard 0|1>~<challenge letters>
-/
open Verif Verif.AcmeSans

namespace C13

def str? (t : String) : Option Str :=
  if t.startsWith "x" then unhex (t.drop 1).toString else none

def list? {α : Type} (f : String → Option α) (t : String) : Option (List α) :=
  if t = "-" then some [] else (t.splitOn ",").mapM f

def typ? : String → Option IdType
  | "d" => some .dns | "i" => some .ip | "p" => some .pid
  | "u" => some .wireUser | "w" => some .wireDevice | "o" => some .other
  | _ => none

def id? (t : String) : Option Identifier :=
  match t.splitOn ":" with
  | [a, b, c, d] => do
    let ty ← typ? a
    let v ← str? b
    let ip ← str? c
    let ok ← if d = "1" then some true else if d = "0" then some false else none
    pure { typ := ty, value := v, ip := ip, sanitizeOk := ok }
  | [a, b, c, d, p, n, dm, u] => do
    let ty ← typ? a
    let v ← str? b
    let ip ← str? c
    let ok ← if d = "1" then some true else if d = "0" then some false else none
    let parsed ← if p = "1" then some true else if p = "0" then some false else none
    let uri ← if u = "!" then some none else (str? u).map some
    pure { typ := ty, value := v, ip := ip, sanitizeOk := ok,
           wire := { parsed := parsed, name := (← str? n), domain := (← str? dm), uri := uri } }
  | _ => none

def lookup (kv : List (String × String)) (k : String) : Option String :=
  (kv.find? (·.1 = k)).map (·.2)

def xs (a : Str) : String := "x" ++ hex a

def listS (l : List String) : String := if l.isEmpty then "-" else ",".intercalate l

def sanS : San → String
  | .dns v => "d~" ++ xs v
  | .ip v => "i~" ++ xs v
  | .pid v => "p~" ++ xs v
  | .uri v => "u~" ++ xs v
  | .empty => "?~x3a"

/-- as the names appear in the parsed leaf: grouped by kind, a never-written slot as an empty DNS name -/
def leafS (l : List San) : List String :=
  (l.filterMap fun | .dns v => some ("d~" ++ xs v) | .empty => some "d~x" | _ => none) ++
  (l.filterMap fun | .ip v => some ("i~" ++ xs v) | _ => none) ++
  (l.filterMap fun | .pid v => some ("p~" ++ xs v) | _ => none) ++
  (l.filterMap fun | .uri v => some ("u~" ++ xs v) | _ => none)

def sansOutS : M SansOut → String
  | .crash => "crash"
  | .val (.ok l) => "ok:" ++ listS (l.map sanS)
  | .val .badCSR => "badcsr"
  | .val .ise => "ise"
  | .val .unmodelled => "unmodelled"

def finOutS : M FinOut → String
  | .crash => "crash"
  | .val (.accept a cn l) =>
    "accept:" ++ (if a then "attested" else "leaf") ++ ":" ++ xs cn ++ ":" ++ listS (l.map sanS)
  | .val (.acceptWire cn org l) => "acceptwire:" ++ xs cn ++ ":" ++ xs org ++ ":" ++ listS (leafS l)
  | .val .badCSR => "badcsr"
  | .val .unauthorized => "unauthorized"
  | .val .ise => "ise"
  | .val .unmodelled => "unmodelled"

def chalS : ChalType → String
  | .http01 => "h" | .dns01 => "d" | .tlsalpn01 => "t" | .deviceAttest01 => "a"

def typS : IdType → String
  | .dns => "d" | .ip => "i" | .pid => "p" | .wireUser => "u" | .wireDevice => "w" | .other => "o"

def azS (a : AuthzSpec) : String :=
  typS a.typ ++ "~" ++ xs a.value ++ "~" ++ (if a.wildcard then "1" else "0") ++ "~" ++ String.join (a.chals.map chalS)

def evalOrd (ids : List Identifier) (en : String) : String :=
  match validate ids with
  | .malformed => "malformed"
  | .unmodelled => "unmodelled"
  | .ok =>
    let enabled := en.toList.filterMap fun c =>
      if c = 'h' then some ChalType.http01 else if c = 'd' then some .dns01
      else if c = 't' then some .tlsalpn01 else if c = 'a' then some .deviceAttest01 else none
    let azs := newOrderAuthzs enabled ids
    "created:" ++ ".".intercalate ((List.range azs.length).map toString) ++ ":" ++ "|".intercalate (azs.map azS)

def eval (line : String) : Option String := do
  let kv := (fields line).filterMap fun f =>
    match f.splitOn "=" with
    | [k, v] => some (k, v)
    | _ => none
  let kind ← lookup kv "kind"
  let ids ← list? id? (← lookup kv "ids")
  match kind with
  | "ord" => pure (evalOrd ids (← lookup kv "en"))
  | "val" =>
    pure (match validate ids with
      | .ok => "ok" | .malformed => "malformed" | .unmodelled => "unmodelled")
  | "fin" =>
    let fps ← list? str? (← lookup kv "fps")
    let cfpT ← lookup kv "cfp"
    let cfp ← if cfpT = "!" then some none else (str? cfpT).map some
    let cn ← str? (← lookup kv "cn")
    let cnip ← str? (← lookup kv "cnip")
    let dns ← list? str? (← lookup kv "dns")
    let ips ← list? str? (← lookup kv "ips")
    let em ← (← lookup kv "em").toNat?
    let uris ← list? str? (← lookup kv "uris")
    let dn ← list? (fun t => if t = "!" then some none else (str? t).map some) ((lookup kv "dn").getD "-")
    let org ← list? str? ((lookup kv "org").getD "-")
    let c : Csr := { cn := cn, cnIp := cnip, dns := dns, ips := ips, emails := em, uriStrs := uris,
                     displayNames := dn, orgs := org }
    let cc := canonicalize c
    let force := (lookup kv "force") == some "1"
    -- the authority's forceCN option on top of what Finalize hands it
    let forced : M FinOut → String := fun r => match r with
      | .val (.accept a cn0 l) =>
        match forceCommonName force cn0 l with
        | some cn1 => finOutS (.val (.accept a cn1 l))
        | none => "ise"   -- the BadRequest of the signing option is answered 500 by Finalize
      | r => finOutS r
    let f := forced (finalizeNames ids fps cfp c)
    let cls := (f.splitOn ":").headD ""
    pure s!"{cls}:canon={listS (cc.dns.map xs)};{listS (cc.ips.map xs)} sans={sansOutS (sans ids cc)} fin={f}"
  | _ => none

end C13

def main : IO Unit := Verif.lineLoop fun l => (C13.eval l).getD "parse-error"
