import Verif.Model.Admin
/-!
  Line-protocol driver for C16 (administrative state).

  One *sequence* per line; the first field selects the stage, every further field is one
  operation (`case=…` is ignored).  Strings are bare hex, `!` = none, sub-fields split on `:`.

    coll  ps:<id>:<name>:<tok>:<kid|!>:<sum>   provisioner Store
          pu:<id>:<name>:<tok>:<kid|!>:<sum>   provisioner Update
          pr:<id>                              provisioner Remove
          pf:<cursor>:<limit>  pp:<limit>      provisioner Find / all pages from ""
          pk:<kid>                             LoadEncryptedKey
          as:<id>:<sub>:<provId>:<0|1>:<pid>:<pname>   admin Store(adm, prov)
          ar:<id>  au:<id>:<0|1>               admin Remove / Update
          af:<cursor>:<limit>  ap:<limit>      admin Find / all pages from ""
          ah:<limit> / av   ph:<limit> / pv    fetch and hold the first page / render it later and
                                               follow its cursor (a page is a value)
    auth  sa:<id>:<sub>:<provId>:<0|1>:<pid>:<pname>:<faults>   StoreAdmin
          ua:<id>:<0|1>:<faults>  ra:<id>:<faults>             UpdateAdmin / RemoveAdmin
          sp:<id>:<name>:<tok>:<kid|!>:<sum>:<faults>           StoreProvisioner
          up:<id>:<name>:<tok>:<kid|!>:<sum>:<faults>           UpdateProvisioner
          rp:<id>:<faults>  rs                                  RemoveProvisioner / restart
          sp/up may carry a trailing `:<policy>` (the provisioner's own policy, `!` = none)
          cp:<cur>:<policy>:<faults>  mp:…  dp:<faults>         Create/Update/RemoveAuthorityPolicy
          u:<sub,sub,…> (first field)                           subjects whose policy verdicts are dumped
          <policy> = <tag>~<n|b|e>~<sub.v+sub.v…|->  (kind: no X.509 part / bad config / engine; v: a|n|e)
          init:<provs>|<adms> is not needed: the sequence starts from `i:` operations
          ip:<id>:<name>:<tok>:<kid|!>:<sum>  ia:<id>:<sub>:<provId>:<0|1>   records present in the
                                              database before the CA is first started (`boot`)
          boot                                start the CA on that database
      <faults> = `-` or positions joined by `+` (1-based database calls inside the request)

    tok   p= c= d= g= (bits) prov= rk= now= nbf= exp= iat= aud=<raw~stripped,…> dns= path= m= iss= sub=
          sans= adm=<sub~provname~id~super,…> rep=<0|1> routed=<0|1>      one admin-API request
          → `<ok:<admin id>:<super>|401|404> h-<401|not401|unrouted> aw-<0|1> st-<0|1>` (st: reuse key stored)

    route m=<method> p=<path> c=<chain,…>   one route extracted from handler.go → present | absent | chain-differs:…
    routes                                  → n=<size of the Lean table>

  Output: `ok<number of accepted mutations>:` then one item per operation joined by `;`.  A mutating operation yields
  `<outcome>#<dump of every index>`; Find yields `f:<ids>/<next>`; pages `p:<page>|<page>…`.
-/
open Verif Verif.Admin

namespace C16

def str? (t : String) : Option Str := unhex t
def optStr? (t : String) : Option (Option Str) := if t = "!" then some none else (unhex t).map some
def bool? (t : String) : Option Bool := if t = "1" then some true else if t = "0" then some false else none
def int? (t : String) : Option Int := t.toInt?

def h (a : Str) : String := hex a
def b (x : Bool) : String := if x then "1" else "0"

def sortS (l : List String) : List String := l.mergeSort (fun a b => !(b < a))
def join (l : List String) : String := ",".intercalate l
def strKeyLe (a b : Str) : Bool := !(slt b a)

def verdict? (t : String) : Option SanVerdict :=
  if t = "a" then some .allowed else if t = "n" then some .notAllowed else if t = "e" then some .evalError else none

def kind? (t : String) : Option PolKind :=
  if t = "n" then some .noX509 else if t = "b" then some .badConfig else if t = "e" then some .engine else none

def verdictEntry? (e : String) : Option (Str × SanVerdict) :=
  match e.splitOn "." with
  | [sub, v] => do pure ((← str? sub), (← verdict? v))
  | _ => none

/-- `<tag>~<kind n|b|e>~<sub.v+sub.v…|->` -/
def pol? (t : String) : Option Pol :=
  match t.splitOn "~" with
  | [tag, k, vs] => do
    let vl ← (if vs = "-" then some [] else (vs.splitOn "+").mapM verdictEntry?)
    pure { tag := (← str? tag), kind := (← kind? k), verdicts := vl }
  | _ => none

def optPol? (t : String) : Option (Option Pol) := if t = "!" then some none else (pol? t).map some

def prov? : List String → Option Prov
  | [id, name, tok, kid, sum] => do
    pure { id := (← str? id), name := (← str? name), tok := (← str? tok), kid := (← optStr? kid), sum := (← str? sum) }
  | [id, name, tok, kid, sum, pol] => do
    pure { id := (← str? id), name := (← str? name), tok := (← str? tok), kid := (← optStr? kid), sum := (← str? sum),
           pol := (← optPol? pol) }
  | [id, name, tok, kid, sum, pol, det] => do
    -- det = <type>.<kind of details | !>[.<Init succeeds 0|1>]
    match det.splitOn "." with
    | [k, d] =>
      pure { id := (← str? id), name := (← str? name), tok := (← str? tok), kid := (← optStr? kid), sum := (← str? sum),
             pol := (← optPol? pol), kind := (← k.toNat?), dkind := (← (if d = "!" then some none else d.toNat?.map some)) }
    | [k, d, i] =>
      pure { id := (← str? id), name := (← str? name), tok := (← str? tok), kid := (← optStr? kid), sum := (← str? sum),
             pol := (← optPol? pol), kind := (← k.toNat?), dkind := (← (if d = "!" then some none else d.toNat?.map some)),
             initOK := (← bool? i) }
    | _ => none
  | _ => none

def adm? : List String → Option Adm
  | [id, sub, pid, t] => do pure { id := (← str? id), sub := (← str? sub), provId := (← str? pid), super := (← bool? t) }
  | _ => none

def faults? (t : String) : Option Faults :=
  if t = "-" then some [] else (t.splitOn "+").mapM (·.toNat?)

def pErrS : PErr → String
  | .dupId | .dupName | .dupTok | .nameExists | .tokExists => "bad"
  | .notFound | .notFoundSorted => "nf"

def aErrS : AErr → String
  | .mismatch => "ise"
  | .dupId | .dupSubProv => "err"
  | .lastSuper => "bad"
  | _ => "nf"

def outS : Out → String
  | .ok => "ok" | .perr e => pErrS e | .aerr e => aErrS e | .crash => "crash"

def admS (a : Adm) : String := s!"{h a.id}.{h a.sub}.{h a.provId}.{b a.super}"
def provS (p : Prov) : String := s!"{h p.id}.{h p.name}.{h p.tok}"

/-- … with the name policy the record / the running provisioner carries (stage `auth`) -/
def provPS (p : Prov) : String :=
  provS p ++ "." ++ (match p.pol with
    | some q => if q.kind = .engine then h q.tag else "!"
    | none => "!")

/-- everything the public API of the two collections shows, maps sorted by key -/
def dump (s : Cache) : String :=
  let A := s.A
  let P := s.P
  let aList := join (A.sorted.map admS)
  let aId := join (sortS (A.byID.map fun e => s!"{h e.1}={admS e.2}"))
  let aSp := join (sortS (A.bySubProv.map fun e => s!"{h e.1.1}/{h e.1.2}={admS e.2}"))
  let aGr := join (sortS ((A.byProv.filter (fun e => !e.2.isEmpty)).map fun e =>
    s!"{h e.1}=" ++ "+".intercalate (e.2.map admS)))
  let aCp := join (sortS ((A.superByProv.filter (fun e => e.2 ≠ 0)).map fun e => s!"{h e.1}={e.2}"))
  let pList := join (P.sorted.map fun e => provS e.2)
  let pId := join (sortS (P.byID.map fun e => s!"{h e.1}={provS e.2}"))
  let pNm := join (sortS (P.byName.map fun e => s!"{h e.1}={provS e.2}"))
  let pTk := join (sortS (P.byTok.map fun e => s!"{h e.1}={provS e.2}"))
  let pKy := join (sortS ((P.byKey.filter (fun e => e.2.kid.isSome)).map fun e => s!"{h e.1}={h e.2.id}"))
  s!"A[{aList}]I[{aId}]S[{aSp}]G[{aGr}]C={A.superCount}Cp[{aCp}]P[{pList}]Pi[{pId}]Pn[{pNm}]Pt[{pTk}]Pk[{pKy}]"

def pagesS {α : Type} (f : α → String) (pg : List (List α)) (fuel : Nat) : String :=
  if pg.length ≥ fuel then "p:loop" else "p:" ++ "|".intercalate (pg.map fun l => join (l.map f))

def fuel : Nat := 300

def collOp (s : Cache) (tok : String) : Option (Cache × String) :=
  let fin (r : Cache × Out) := let (s', o) := r; some (s', outS o ++ "#" ++ dump s')
  match tok.splitOn ":" with
  | "ps" :: r => do fin (cstep current s (.pStore (← prov? r)))
  | "pu" :: r => do fin (cstep current s (.pUpdate (← prov? r)))
  | ["pr", id] => do fin (cstep current s (.pRemove (← str? id)))
  | ["pf", c, l] => do
    let r := s.P.find (← str? c) (← int? l)
    pure (s, "f:" ++ join (r.1.map fun e => h e.2.id) ++ "/" ++ h r.2)
  | ["pp", l] => do
    pure (s, pagesS (fun e : Str × Prov => h e.2.id) (s.P.pages (← int? l) fuel) fuel)
  | ["pk", k] => do
    pure (s, "k:" ++ match s.P.loadKey (← str? k) with | some p => h p.id | none => "!")
  | ["as", id, sub, pid, t, apid, apname] => do
    fin (cstep current s (.aStore (← adm? [id, sub, pid, t]) (← str? apid) (← str? apname)))
  | ["ar", id] => do fin (cstep current s (.aRemove (← str? id)))
  | ["au", id, t] => do fin (cstep current s (.aUpdate (← str? id) (← bool? t)))
  | ["af", c, l] => do
    let r := s.A.find (← str? c) (← int? l)
    pure (s, "f:" ++ join (r.1.map fun a => h a.id) ++ "/" ++ h r.2)
  | ["ap", l] => do
    pure (s, pagesS (fun a : Adm => h a.id) (s.A.pages (← int? l) fuel) fuel)
  | _ => none

/-- stage `coll` with pages held across other operations: a page is a *value*; `ah`/`ph` fetch and
    hold the first page (`Find("", limit)`), `av`/`pv` render the held page and follow its cursor
    to the end on the collection as it is by then -/
abbrev CollSt := Cache × Option (List Adm × Str × Int) × Option (List (Str × Prov) × Str × Int)

def restS {α : Type} (f : α → String) (first : List α) (rest : List (List α)) : String :=
  if rest.length ≥ fuel then "v:loop" else "v:" ++ "|".intercalate ((first :: rest).map fun l => join (l.map f))

def collOpH (st : CollSt) (tok : String) : Option (CollSt × String) :=
  let (s, ha, hp) := st
  match tok.splitOn ":" with
  | ["ah", l] => do
    let lim ← int? l
    let r := s.A.find [] lim
    pure ((s, some (r.1, r.2, lim), hp), "h:" ++ join (r.1.map fun a => h a.id) ++ "/" ++ h r.2)
  | ["av"] =>
    match ha with
    | none => some (st, "v:-")
    | some (pg, nxt, lim) =>
      let rest := if nxt = [] then [] else pagesG (fun a : Adm => a.id) id id s.A.sorted (normLimit lim) fuel nxt
      some ((s, none, hp), restS (fun a : Adm => h a.id) pg rest)
  | ["ph", l] => do
    let lim ← int? l
    let r := s.P.find [] lim
    pure ((s, ha, some (r.1, r.2, lim)), "h:" ++ join (r.1.map fun e => h e.2.id) ++ "/" ++ h r.2)
  | ["pv"] =>
    match hp with
    | none => some (st, "v:-")
    | some (pg, nxt, lim) =>
      let rest := if nxt = [] then [] else
        pagesG (fun e : Str × Prov => e.1) PColl.pad40 PColl.trim0 s.P.sorted (normLimit lim) fuel nxt
      some ((s, ha, none), restS (fun e : Str × Prov => h e.2.id) pg rest)
  | _ => do
    let (s', o) ← collOp s tok
    pure ((s', ha, hp), o)

def authOutS : AuthOut → String
  | .ok => "ok" | .badRequest => "bad" | .notFound => "nf" | .storeFailed => "storefail"
  | .reloadFailed => "reloadfail" | .cacheFailed => "ise" | .crash => "crash"
  | .lockOut => "lockout" | .evalFailure => "eval" | .configFailure => "config" | .internalFailure => "internal"

def verdictS : SanVerdict → String
  | .allowed => "a" | .notAllowed => "n" | .evalError => "e"

/-- what the enforced authority policy says about each subject of the universe -/
def engineS (e : Option Pol) (univ : List Str) : String :=
  join (univ.map fun sub => h sub ++ "." ++ match e with
    | some p => (match p.kind with
      | .engine => verdictS (verdictOf p sub)
      | _ => "a")
    | none => "a")

def polTag : Option Pol → String
  | some p => h p.tag
  | none => "!"

/-- what the admin API lists (all pages) plus the authentication index and counters -/
def authDump (univ : List Str) (s : Auth) : String :=
  let A := s.cache.A
  let P := s.cache.P
  let aList := join (A.sorted.map admS)
  let aSp := join (sortS (A.bySubProv.map fun e => s!"{h e.1.1}/{h e.1.2}={h e.2.id}"))
  let pList := join (sortS (P.sorted.map fun e => provPS e.2))
  let dA := join ((s.db.adms.mergeSort fun x y => strKeyLe x.id y.id).map admS)
  let dP := join (sortS (s.db.provs.map provPS))
  s!"A[{aList}]S[{aSp}]P[{pList}]dA[{dA}]dP[{dP}]pol={polTag s.db.policy}E[{engineS s.engine univ}]"

def authOp (univ : List Str) (s : Auth) (tok : String) : Option (Auth × String) :=
  let fin (r : Auth × AuthOut) := let (s', o) := r; some (s', authOutS o ++ "#" ++ authDump univ s')
  -- a conversion error of Store/UpdateProvisioner is an internal server error of the admin API
  let finP (r : Auth × AuthOut) := let (s', o) := r
    some (s', (if o = .internalFailure then "ise" else authOutS o) ++ "#" ++ authDump univ s')
  match tok.splitOn ":" with
  | "ip" :: r => do
    let p ← prov? r
    pure ({ s with db := { s.db with provs := insDB (·.id) p s.db.provs } }, "-")
  | "ia" :: r => do
    let a ← adm? r
    pure ({ s with db := { s.db with adms := insDB (·.id) a s.db.adms } }, "-")
  | ["fs", f, adm, list] => do
    -- a start with the configuration's provisioners (first start = migration when the database has none)
    let item? (t : String) : Option (Bool × Prov) :=
      match t.splitOn "/" with
      | [role, id, name, tok, kid, sum, kind] => do
        pure (role = "d", { id := (← str? id), name := (← str? name), tok := (← str? tok), kid := (← optStr? kid),
                            sum := (← str? sum), kind := (← kind.toNat?), dkind := some (← kind.toNat?) })
      | _ => none
    let items ← (if list = "-" then some [] else (list.splitOn ",").mapM item?)
    let placeholder : Prov := { id := Verif.s "unwritten-default", name := Verif.s "Admin JWK", tok := Verif.s "unwritten-default",
                                kid := none, sum := Verif.s "00000000000000000000000000000000", kind := jwkKind, dkind := some jwkKind }
    let m : FirstStart := { cfg := (items.filter (fun x => !x.1)).map (·.2),
                            dflt := ((items.find? (·.1)).map (·.2)).getD placeholder,
                            admId := (← optStr? adm).getD (Verif.s "unwritten-admin") }
    let faults ← faults? f
    match Auth.migrate migrateAtomic faults s.db m with
    | (db', _, some o) =>
      let dA := join ((db'.adms.mergeSort fun x y => strKeyLe x.id y.id).map admS)
      let dP := join (sortS (db'.provs.map provPS))
      pure ({ s with db := db' }, authOutS o ++ "#" ++ s!"dA[{dA}]dP[{dP}]")
    | _ =>
      let r := Auth.firstStart current migrateAtomic faults s.db m
      if r.2 = .ok then fin r else
        -- the start failed in the reload: there is no running CA, only the database
        let dA := join ((r.1.db.adms.mergeSort fun x y => strKeyLe x.id y.id).map admS)
        let dP := join (sortS (r.1.db.provs.map provPS))
        -- (a CA that was running before keeps running on its caches)
        pure ({ s with db := r.1.db }, authOutS r.2 ++ "#" ++ s!"dA[{dA}]dP[{dP}]")
  | ["boot"] => fin (Auth.step current [] s .restart)
  | ["rs"] => fin (Auth.step current [] s .restart)
  | ["sa", id, sub, pid, t, apid, apname, f] => do
    fin (Auth.step current (← faults? f) s (.storeAdmin (← adm? [id, sub, pid, t]) (← str? apid) (← str? apname)))
  | ["ua", id, t, f] => do fin (Auth.step current (← faults? f) s (.updateAdmin (← str? id) (← bool? t)))
  | ["ra", id, f] => do fin (Auth.step current (← faults? f) s (.removeAdmin (← str? id)))
  | ["sp", id, name, tok, kid, sum, f] => do
    fin (Auth.step current (← faults? f) s (.storeProv (← prov? [id, name, tok, kid, sum])))
  | ["up", id, name, tok, kid, sum, f] => do
    fin (Auth.step current (← faults? f) s (.updateProv (← prov? [id, name, tok, kid, sum])))
  | ["sp", id, name, tok, kid, sum, f, pol] => do
    fin (Auth.step current (← faults? f) s (.storeProv (← prov? [id, name, tok, kid, sum, pol])))
  | ["up", id, name, tok, kid, sum, f, pol] => do
    fin (Auth.step current (← faults? f) s (.updateProv (← prov? [id, name, tok, kid, sum, pol])))
  | ["sp", id, name, tok, kid, sum, f, pol, det] => do
    finP (Auth.step current (← faults? f) s (.storeProv (← prov? [id, name, tok, kid, sum, pol, det])))
  | ["up", id, name, tok, kid, sum, f, pol, det] => do
    finP (Auth.step current (← faults? f) s (.updateProv (← prov? [id, name, tok, kid, sum, pol, det])))
  | ["cp", cur, pol, f] => do fin (Auth.step current (← faults? f) s (.createPolicy (← str? cur) (← pol? pol)))
  | ["mp", cur, pol, f] => do fin (Auth.step current (← faults? f) s (.updatePolicy (← str? cur) (← pol? pol)))
  | ["dp", f] => do fin (Auth.step current (← faults? f) s .removePolicy)
  | ["rp", id, f] => do fin (Auth.step current (← faults? f) s (.removeProv (← str? id)))
  | ["la", l] => do
    pure (s, pagesS (fun a : Adm => h a.id) (s.cache.A.pages (← int? l) fuel) fuel)
  | ["lp", l] => do
    pure (s, pagesS (fun e : Str × Prov => h e.2.id) (s.cache.P.pages (← int? l) fuel) fuel)
  | _ => none


/-! ### stage `tok`: one admin-API request against `authorizeAdmin` -/

def kvs (line : String) : List (String × String) :=
  (fields line).filterMap fun f =>
    match f.splitOn "=" with
    | [k, v] => some (k, v)
    | _ => none

def look (kv : List (String × String)) (k : String) : Option String := (kv.find? (·.1 = k)).map (·.2)

def listOf {α : Type} (f : String → Option α) (t : String) : Option (List α) :=
  if t = "-" then some [] else (t.splitOn ",").mapM f

def optInt? (t : String) : Option (Option Int) := if t = "!" then some none else t.toInt?.map some

def aud? (t : String) : Option Aud :=
  match t.splitOn "~" with
  | [a, b] => do pure ⟨(← str? a), (← str? b)⟩
  | _ => none

def admEntry? (t : String) : Option ((Str × Str) × Adm) :=
  match t.splitOn "~" with
  | [sub, pn, id, sup] => do
    let sub ← str? sub
    pure ((sub, (← str? pn)), { id := (← str? id), sub := sub, provId := [], super := (← bool? sup) })
  | _ => none

def provEntry? (t : String) : Option Prov :=
  match t.splitOn "~" with
  | [id, name] => do pure { id := (← str? id), name := (← str? name), tok := [], kid := none, sum := [] }
  | _ => none

def origin? (t : String) : Option CertOrigin :=
  match t.splitOn "~" with
  | [r, e] => do pure { recorded := (← optStr? r), extName := (← optStr? e) }
  | _ => none

def tokEval (line : String) : Option String := do
  let kv := kvs line
  -- the issuing provisioner: resolved by the model from the certificate's database record (provisioner
  -- id), the name in its extension, and the provisioners the CA serves now
  let provs ← listOf provEntry? (← look kv "pmap")
  let P : PColl := { byID := provs.map (fun p => (p.id, p)), byName := provs.map (fun p => (p.name, p)) }
  -- the lookup the property asks for (`byCertificateStrict`); /repo falls back to the extension's name
  -- when the recorded provisioner is gone: known finding C16-O4, lines marked gone=1
  let prov := (P.byCertificateStrict (← origin? (← look kv "org"))).map (·.name)
  let r : AdminReq := {
    parseOk := (← bool? (← look kv "p")), chainOk := (← bool? (← look kv "c")),
    digSig := (← bool? (← look kv "d")), sigOk := (← bool? (← look kv "g")),
    prov := prov, reuseKey := (← optStr? (← look kv "rk")),
    now := (← int? (← look kv "now")), nbf := (← optInt? (← look kv "nbf")),
    exp := (← optInt? (← look kv "exp")), iat := (← optInt? (← look kv "iat")),
    aud := (← listOf aud? (← look kv "aud")), dnsNames := (← listOf str? (← look kv "dns")),
    path := (← str? (← look kv "path")), method := (← str? (← look kv "m")),
    iss := (← str? (← look kv "iss")), sub := (← str? (← look kv "sub")),
    sans := (← listOf str? (← look kv "sans")) }
  let A : AColl := { bySubProv := (← listOf admEntry? (← look kv "adm")) }
  let rep ← bool? (← look kv "rep")
  let routed ← bool? (← look kv "routed")
  let first := authorizeAdmin A [] r
  let res := if rep then (authorizeAdmin A first.1 r).2 else first.2
  -- is the token's reuse key in the stored set afterwards? (`UseToken` ran)
  let st := match r.reuseKey with
    | some k => b (first.1.contains k)
    | none => "0"
  let d := match res with
    | .ok a => s!"ok:{h a.id}:{b a.super}"
    | .unauthorized => "401"
    | .provNotFound => "404"
  let aw := b (adminsPrefix.isPrefixOf r.path && r.method != GET)
  let hh := if !routed then "unrouted" else match res with
    | .unauthorized => "401"
    | _ => "not401"
  pure s!"{d} h-{hh} aw-{aw} st-{st}"

/-! ### stage `routes`: the extracted route table against `adminRoutes` -/

def strOf (b : Str) : String := String.ofList (b.map Char.ofNat)

def routeEval (line : String) : Option String := do
  let kv := kvs line
  let m := strOf (← str? (← look kv "m"))
  let p := strOf (← str? (← look kv "p"))
  let c ← listOf (fun t => (str? t).map strOf) (← look kv "c")
  match adminRoutes.filter (fun r => r.method = m ∧ r.path = p) with
  | [r] => pure (if r.chain = c then "present" else "chain-differs:" ++ ",".intercalate r.chain)
  | [] => pure "absent"
  | _ => pure "duplicate"

/-! ### stage `valid`: the checks in front of the authority -/

def dur? (t : String) : Option Dur :=
  if t = "-" then some .absent else if t = "b" then some .bad else t.toInt?.map .val

def durs? (t : String) : Option Durs :=
  match t.splitOn "," with
  | [a, b, c] => do pure { min := (← dur? a), max := (← dur? b), dflt := (← dur? c) }
  | _ => none

def validEval (line : String) : Option String := do
  let kv := kvs line
  match fields line with
  | "dur" :: _ => do
    pure (if validateDurations durCmpFixed (← durs? (← look kv "d")) then "ok" else "bad")
  | "init" :: _ => do
    pure (if claimerValidate globalClaims (← durs? (← look kv "d")) then "ok" else "bad")
  | "body" :: _ => do
    -- POST /admin/provisioners with a fresh name and good details: the body checks, then `Init`
    -- with the claimer's validation of the X.509 durations (create: a bad request as well)
    let blk (k : String) : Option (Option Durs) := do
      let t ← look kv k
      if t = "-" then pure none else (durs? t).map some
    let x ← blk "x"
    let su ← blk "su"
    let sh ← blk "sh"
    let b : ProvBody := { parses := (← bool? (← look kv "p")), claims := [x, su, sh].filterMap id,
                          templatesOK := (← bool? (← look kv "t")) }
    pure (match provBodyCheck durCmpFixed b with
      | some o => authOutS o
      | none => if claimerValidate globalClaims (x.getD {}) then "pass" else "bad")
  | "det" :: _ => do
    let k ← (← look kv "k").toNat?
    let ds ← look kv "d"
    let d ← (if ds = "!" then some none else ds.toNat?.map some)
    let p : Prov := { id := [], name := [], tok := [], kid := none, sum := [], kind := k, dkind := d }
    pure (if k ∈ provisionerKinds ∧ p.conv then "conv" else "refused")
  | "wh" :: _ => do
    let b : WebhookBody := {
      parses := (← bool? (← look kv "p")), nameGiven := (← bool? (← look kv "n")), urlParses := (← bool? (← look kv "u")),
      hostGiven := (← bool? (← look kv "h")), https := (← bool? (← look kv "s")), userinfo := (← bool? (← look kv "i")),
      kindKnown := (← bool? (← look kv "k")), secretGiven := (← bool? (← look kv "sec")), idGiven := (← bool? (← look kv "id")),
      nameTaken := (← bool? (← look kv "taken")) }
    let res := match look kv "op" with
      | some "update" => updateWebhookCheck b ((look kv "sd") == some "1") ((look kv "idd") == some "1")
      | _ => createWebhookCheck b
    pure (match res with
      | .proceed => "proceed" | .badRequest => "bad" | .conflict => "conflict" | .notFound => "notfound")
  | "pp" :: _ => do
    let verb ← (match look kv "op" with
      | some "create" => some PolicyVerb.create | some "update" => some .update | some "delete" => some .delete | _ => none)
    pure (match provPolicyHandlerCheck verb (← bool? (← look kv "has")) (← bool? (← look kv "p")) (← bool? (← look kv "v")) with
      | .proceed => "proceed" | .badRequest => "bad" | .conflict => "conflict" | .notFound => "notfound")
  | ["kinds"] => pure s!"n={provisionerKinds.length}"
  | _ => none

def orderEval (line : String) : Option String := do
  let kv := kvs line
  let f := strOf (← str? (← look kv "f"))
  let c ← listOf (fun t => (str? t).map strOf) (← look kv "c")
  match writeOrder.filter (fun e => e.1 = f) with
  | [e] => pure (if e.2 = c then "present" else "order-differs:" ++ ",".intercalate e.2)
  | [] => pure "absent"
  | _ => pure "duplicate"

def convEval (line : String) : Option String := do
  let kv := kvs line
  let d ← look kv "d"
  let t ← look kv "t"
  let n ← (← look kv "n").toNat?
  let x ← listOf (fun h => (str? h).map fun b => ((strOf b).splitOn ".").filter (· ≠ "")) (← look kv "x")
  match convLoss.filter (fun r => r.dir = d ∧ r.typ = t) with
  | [r] =>
    let missing := r.loss.filter (fun p => !x.contains p)   -- in the table, not lost any more
    let extra := x.filter (fun p => !r.loss.contains p)      -- lost, not in the table
    pure (if r.fields = n ∧ missing.isEmpty ∧ extra.isEmpty then "pinned"
          else s!"differs:n={r.fields}:newly-lost={",".intercalate (extra.map (".".intercalate ·))}:no-longer-lost={",".intercalate (missing.map (".".intercalate ·))}")
  | [] => pure "absent"
  | _ => pure "duplicate"

def runOps {σ : Type} (f : σ → String → Option (σ × String)) : σ → List String → List String → Option (List String)
  | _, [], acc => some acc.reverse
  | s, t :: r, acc => do
    let (s', o) ← f s t
    runOps f s' r (o :: acc)

/-- `ok<number of accepted mutations>:` followed by the items -/
def summary (items : List String) : String :=
  s!"ok{(items.filter (·.startsWith "ok#")).length}:" ++ ";".intercalate items

def eval (line : String) : Option String := do
  let toks := (fields line).filter (fun t => !t.startsWith "case=")
  match toks with
  | "coll" :: ops => do pure (summary (← runOps collOpH ({}, none, none) ops []))
  | "auth" :: ops => do
    -- an optional first field `u:<sub,sub,…>` lists the subjects whose policy verdicts are dumped
    match ops with
    | u :: rest =>
      if u.startsWith "u:" then do
        let univ ← listOf str? (u.drop 2).toString
        pure (summary (← runOps (authOp univ) {} rest []))
      else pure (summary (← runOps (authOp []) {} ops []))
    | [] => pure (summary [])
  | "tok" :: _ => tokEval line
  | "route" :: _ => routeEval line
  | ["routes"] => pure s!"n={adminRoutes.length}"
  | "order" :: _ => orderEval line
  | ["orders"] => pure s!"n={writeOrder.length}"
  | "conv" :: _ => convEval line
  | ["convs"] => pure s!"n={convLoss.length}"
  | "dur" :: _ => validEval line
  | "init" :: _ => validEval line
  | "body" :: _ => validEval line
  | "det" :: _ => validEval line
  | "wh" :: _ => validEval line
  | "pp" :: _ => validEval line
  | ["kinds"] => validEval line
  | _ => none

end C16

def main : IO Unit := Verif.lineLoop fun l => (C16.eval l).getD "parse-error"
