import Verif.Model.Constraints
/-!
  Line-protocol driver for C05 (name-constraints engine of the CA chain).

  One case per line, `key=value` fields separated by single spaces.

  Stage `eng` (engine as coded, against `constraints.New(chain...).Validate`):
      st=eng lv=<level>|<level>|…   dns= ip= em= uri=
    output: allow | deny:<excluded|notpermitted|matcherr>:<dns|ip|email|uri> | err:rfc822 | crash

  Stage `chain` (end to end: what the property demands, against engine + `x509.Verify`):
      st=chain ints=<cert>|… roots=<cert>|…   dns= ip= em= uri=
    output: eng=<allow|deny|err|crash> vfy=<ok|nc|parse>[ why=<tag>]
      vfy  = class of the standard verifier's answer predicted from the specification;
      eng  = what the property allows the CA to answer: `deny` whenever vfy=nc;
      why  = present when the *model of the engine as coded* accepts although vfy=nc, i.e. the
             Lean model predicts a violation, with its cause:
               other       (no cause is known any more: d8, rootdrop, unparsable names and
                           v4mapped are repaired by 4a0d6e3, 94a532b, 41cbd56, 3d20cbd; should
                           the code allow such a name again the model says plain `eng=deny vfy=nc`)

  Stage `front` (the same through the HTTP sign/renew/rekey handlers, ACME and SCEP):
      st=front <as st=chain> fr=<front ends that answered: sign,renew,rekey,acme,scep>
    output: as st=chain, then ` fr=<front>:<i|c|s>,…` = what C05 demands of each of them
            (i issued, c client error, s server error; `frontDemand`)

  Stage `paths` (source-derived facts, against the tables `issuePaths`, `frontEnds`, `certCreators`):
      st=paths fn=<function>|tpl:<function>|rootsel|*|frontends|creators
    output: the calls of interest of that function in source order (V! G! C R, `?` = unchecked),
            or the comma-separated list

  <level> = pdns;xdns;pip;xip;pem;xem;puri;xuri      lists: items joined by ',' or '-' if empty
  <cert>  = subject~issuer~ski~aki~<level>[~0|1]   (roots: last.CheckSignatureFrom(root) == nil)
  string = x<hex>; IP net = x<ip hex>/x<mask hex>; IP = x<hex>; URI = x<host>:x<split>|!:0|1
-/
open Verif Verif.Constraints
open Verif.Policy (Uri)

namespace C05

def str? (t : String) : Option Str :=
  if t.startsWith "x" then unhex (t.drop 1).toString else none

def optStr? (t : String) : Option (Option Str) :=
  if t = "!" then some none else (str? t).map some

def bool? (t : String) : Option Bool :=
  if t = "1" then some true else if t = "0" then some false else none

def list? {α : Type} (sep : String) (f : String → Option α) (t : String) : Option (List α) :=
  if t = "-" then some [] else (t.splitOn sep).mapM f

def net? (t : String) : Option IpNet :=
  match t.splitOn "/" with
  | [a, b] => do pure ⟨(← str? a), (← str? b)⟩
  | _ => none

def uri? (t : String) : Option Uri :=
  match t.splitOn ":" with
  | [a, b, c] => do pure ⟨(← str? a), (← optStr? b), (← bool? c)⟩
  | _ => none

def level? (t : String) : Option Level :=
  match t.splitOn ";" with
  | [a, b, c, d, e, f, g, h] => do
    pure { pDNS := (← list? "," str? a), xDNS := (← list? "," str? b),
           pIP := (← list? "," net? c), xIP := (← list? "," net? d),
           pEmail := (← list? "," str? e), xEmail := (← list? "," str? f),
           pURI := (← list? "," str? g), xURI := (← list? "," str? h) }
  | _ => none

def cert? (t : String) : Option Cert :=
  match t.splitOn "~" with
  | [a, b, c, d, l] => do pure ⟨(← str? a), (← str? b), (← str? c), (← str? d), (← level? l), false⟩
  | [a, b, c, d, l, g] => do pure ⟨(← str? a), (← str? b), (← str? c), (← str? d), (← level? l), (← bool? g)⟩
  | _ => none

def lookup (kv : List (String × String)) (k : String) : Option String :=
  (kv.find? (·.1 = k)).map (·.2)

def kindS : Kind → String
  | .dns => "dns" | .ip => "ip" | .email => "email" | .uri => "uri"
def reasonS : Reason → String
  | .excluded => "excluded" | .notPermitted => "notpermitted" | .matchErr => "matcherr"
def verdictS : Verdict → String
  | .allow => "allow" | .deny r k => s!"deny:{reasonS r}:{kindS k}" | .errRfc822 => "err:rfc822" | .crash => "crash"
def classS : Verdict → String
  | .allow => "allow" | .deny _ _ => "deny" | .errRfc822 => "err" | .crash => "crash"
def goS : GoV → String
  | .ok => "ok" | .nc => "nc" | .parse => "parse"

/-- The engine whose answers stage `eng` compares with the code: `constraints.New` + `Validate`
    as they are since `fix:` 4a0d6e3 (before: `validate (New chain) n`). By `fixed_eq_percert`
    this is `validatePerCert chain n`, and by `engine_eq_spec` the specification. -/
def engineUnderTest (chain : List Level) (n : Names) : Verdict := validateF (NewF chain) n

def names? (kv : List (String × String)) : Option Names := do
  let dns ← list? "," str? (← lookup kv "dns")
  let ips ← list? "," str? (← lookup kv "ip")
  let ems ← list? "," str? (← lookup kv "em")
  let uris ← list? "," uri? (← lookup kv "uri")
  pure { dns, ips, emails := ems, uris }

/-- cause of a violation the model of the code *as it is* predicts (`vfy=nc` but allowed). All
    causes found so far are repaired (d8 4a0d6e3, rootdrop 94a532b, O1 41cbd56, v4mapped 3d20cbd);
    for chains of parsed certificates `engine_sound_parsed` says this cannot happen. -/
def why (_full : List Level) : String := "other"

/-- the configured roots. Without a `bundle=` field they are given as a list
    (`WithX509RootCerts`); with it (`WithX509RootBundle`) the field lists the PEM blocks in order:
    `r<i>` = the i-th certificate of `roots=`, `x` = a block that is not a plain CERTIFICATE block,
    `b` = a CERTIFICATE block that does not parse. Returns (roots the code ends up with =
    `readBundle`, roots a relying party is configured with = every certificate of the bundle). -/
def rootsOf (kv : List (String × String)) (roots : List Cert) : Option (Option (List Cert) × List Cert) :=
  match lookup kv "bundle" with
  | none => some (some roots, roots)
  | some b => do
    let blocks ← (b.splitOn ",").mapM fun t =>
      if t = "x" then some Block.skip
      else if t = "b" then some Block.badCert
      else if t.startsWith "r" then ((t.drop 1).toString.toNat?.bind fun i => roots[i]?).map Block.cert
      else none
    pure (readBundle blocks, blocks.filterMap fun | .cert c => some c | _ => none)

def front? (t : String) : Option Front :=
  match t with
  | "sign" => some .sign | "renew" => some .renew | "rekey" => some .rekey
  | "acme" => some .acme | "scep" => some .scep | "renewtok" => some .renewTok | _ => none
def frontS : Front → String
  | .sign => "sign" | .renew => "renew" | .rekey => "rekey" | .acme => "acme" | .scep => "scep"
  | .renewTok => "renewtok"
def ansS : FrontAns → String
  | .issued => "i" | .clientError => "c" | .serverError => "s"

/-- stage `front`: the chain-stage answer followed by what C05 demands of every front end that
    answered (`frontDemand` of the verdict the property allows the CA to give) -/
def frontSuffix (kv : List (String × String)) (ints roots : List Cert) (n : Names) : Option String := do
  let fs ← list? "," front? (← lookup kv "fr")
  let coded := match chainForSig ints roots with
    | none => Verdict.allow
    | some ch => engineUnderTest (ch.map (·.nc)) n
  -- the verdict the property demands: a refusal whenever the specification rejects
  let full := (ints ++ roots).map (·.nc)
  let demanded : Verdict :=
    if specAccept full n then coded
    else if coded = .allow then .deny .notPermitted .dns else coded
  -- token renewal: the certificate comes from the CA's previous, unconstrained intermediate, so
  -- its own path carries the configured root's constraints only
  let oldPathOk := goVerify (roots.map (·.nc)) n == .ok
  let items := fs.map fun f =>
    let a := match f with
      | .renewTok => if oldPathOk then frontDemand f demanded else FrontAns.clientError
      | _ => frontDemand f demanded
    s!"{frontS f}:{ansS a}"
  pure (" fr=" ++ (if items.isEmpty then "-" else ",".intercalate items))

def evalChain (kv : List (String × String)) : Option String := do
  let ints ← list? "|" cert? (← lookup kv "ints")
  let rootsAll ← list? "|" cert? (← lookup kv "roots")
  let (codeRoots?, cfgRoots) ← rootsOf kv rootsAll
  let some roots := codeRoots? | pure "no-authority"
  let n ← names? kv
  -- the path a relying party validates: issuing CA … top intermediate, then the configured
  -- root(s) that issued the top intermediate (a retired root in the bundle is on no path)
  let issuing := match ints.getLast? with
    | none => []
    | some last => cfgRoots.filter fun r => last.issuer == r.subject && r.signsLast
  let full := (ints ++ issuing).map (·.nc)
  -- the specification decides accept / reject; the verifier model only names the class of a refusal
  let v := match specAccept full n, goVerify full n with
    | true, .ok => GoV.ok
    | false, .nc => GoV.nc
    | false, .parse => GoV.parse
    | _, _ => GoV.ok   -- spec and verifier model disagree: flagged below
  if (specAccept full n) != (goVerify full n == .ok) then pure "spec-mismatch" else
  -- `san=ext`: the template carries the names in a subjectAltName extension (`seenNames`)
  let carrier := if lookup kv "san" = some "ext" then SanCarrier.extension else SanCarrier.fields
  -- `ord=icfirst`: WithX509IntermediateCerts before WithX509Signer (`intsIcFirst`)
  let icFirst := lookup kv "ord" = some "icfirst"
  let engInts := if icFirst then intsIcFirst ints else ints
  let codedOn := fun (is : List Cert) => match chainForSig is roots with
    | none => Verdict.allow
    | some ch => engineUnderTest (ch.map (·.nc)) (seenNames carrier n)
  let coded := codedOn engInts
  let why := fun (l : List Level) =>
    if carrier = .extension then "extsan" else why l
  match v with
  | .nc =>
    -- the property: a name outside the constraints must not be signed (403, or the 500 of an
    -- unparsable rfc822Name met on the way, are both refusals)
    if coded = .allow then pure s!"eng=deny vfy=nc why={why full}"
    else pure s!"eng={classS coded} vfy=nc"
  | .parse =>
    -- a name the verifier cannot parse / match: since 41cbd56 the engine uses the same parsers
    -- and refuses (403, or 500 for an rfc822Name) — signing such a name is a violation too
    if coded = .allow then pure s!"eng=deny vfy=parse why={why full}"
    else pure s!"eng={classS coded} vfy=parse"
  | v => pure s!"eng={classS coded} vfy={goS v}"

def stepS : Step → String
  | .validate c => if c then "V!" else "V?"
  | .gate c => if c then "G!" else "G?"
  | .casCreate => "C"
  | .casRenew => "R"

def tstepS : TStep → String
  | .define => "def"
  | .assign f => "=" ++ f
  | .call n => n
  | .check g => if g then "G!" else "V!"
  | .cas r => if r then "R" else "C"

def joinS (l : List String) : String := if l.isEmpty then "-" else ",".intercalate l

/-- stage `paths`: the table entry for one source fact -/
def evalPaths (fn : String) : String :=
  match fn with
  | "*" => ",".intercalate (issuePaths.map (·.1))
  | "frontends" => joinS frontEnds
  | "creators" => joinS certCreators
  | "rootsel" => joinS rootSelShape
  | f =>
    if f.startsWith "tpl:" then
      match templatePaths.find? (·.1 = (f.drop 4).toString) with
      | some p => " ".intercalate (p.2.map tstepS)
      | none => "not-in-table"
    else match issuePaths.find? (·.1 = f) with
      | some p => " ".intercalate (p.2.map stepS)
      | none => "not-in-table"

def eval (line : String) : Option String := do
  let kv := (fields line).filterMap fun f =>
    match f.splitOn "=" with
    | [k, v] => some (k, v)
    | _ => none
  match ← lookup kv "st" with
  | "eng" =>
    let chain ← list? "|" level? (← lookup kv "lv")
    let n ← names? kv
    pure (verdictS (engineUnderTest chain n))
  | "chain" => evalChain kv
  | "front" => do
    let base ← evalChain kv
    let ints ← list? "|" cert? (← lookup kv "ints")
    let roots ← list? "|" cert? (← lookup kv "roots")
    let n ← names? kv
    pure (base ++ (← frontSuffix kv ints roots n))
  | "paths" => (lookup kv "fn").map evalPaths
  | _ => none

end C05

def main : IO Unit := Verif.lineLoop fun l => (C05.eval l).getD "parse-error"
