import Verif.Model.CRL
/-!
  Line-protocol driver for C08 (CRL generation).

  `h cache=<sec> reqs=<R>;<R>;… evs=<E>,<E>,…`
      R = `g:<now>[:<fail>]` (a generation: start-up, tick or forced) |
          `r:<key>:<revokedAt>:<expiresAt|->:<generateOnRevoke 0|1>:<now>[:<fail>]` (a revocation); key = `x<hex>`;
          fail = the step at which the generation fails (2 GetCRL, 3 GetRevokedCertificates, 4 StoreCRL), default 0
      E = `s<thread>` | `r0`
      optional `idp=x<configured IDPurl, may be empty> dns=x<first DNS name>`: the output then ends with ` idp=x<hex of the distribution point URL>`
  `cfg enabled=0|1 cache=<ns|-> renew=<ns|->`   the CRL section of a ca.json through Init / Validate / defaulting: `refused` | `cache=<ns> tick=<ns>[ crash]` (a period of 0 aborts time.NewTicker)
  `rsp enabled=0|1 pem=0|1 crl=<number>:<thisUpdate>:<nextUpdate>|none`   GET /crl: `<status> exp=<Expires as unix> pem=0|1 n=<number>`
      output: answers of the requests joined by `,` (ok already drop pend err), then every list
          stored, oldest first, as ` n=<number>,t=<thisUpdate>,u=<nextUpdate>,e=[<key>:<time>|…]` with entries
          sorted by key
-/
open Verif Verif.Store Verif.CRL

namespace C08

def str? (t : String) : Option Str :=
  if t.startsWith "x" then unhex (t.drop 1).toString else none

def lookup (kv : List (String × String)) (k : String) : Option String :=
  (kv.find? (·.1 = k)).map (·.2)

def req? (t : String) : Option Req :=
  match t.splitOn ":" with
  | ["g", now] => do
    pure { inp := { kind := .gen, key := [], record := ⟨0, none⟩, now := (← now.toNat?) } }
  | ["g", now, f] => do
    pure { inp := { kind := .gen, key := [], record := ⟨0, none⟩, now := (← now.toNat?), fail := (← f.toNat?) } }
  | ["r", key, at_, exp, gor, now] => rev key at_ exp gor now "0"
  | ["r", key, at_, exp, gor, now, f] => rev key at_ exp gor now f
  | _ => none
where
  rev (key at_ exp gor now f : String) : Option Req := do
    let exp ← if exp = "-" then some none else exp.toNat?.map some
    let gor ← if gor = "1" then some true else if gor = "0" then some false else none
    pure { inp := { kind := .revoke gor, key := (← str? key), record := ⟨(← at_.toNat?), exp⟩, now := (← now.toNat?),
                    fail := (← f.toNat?) } }

def ev? (t : String) : Option Ev :=
  if t.startsWith "s" then (t.drop 1).toString.toNat?.map .step
  else if t.startsWith "r" then (t.drop 1).toString.toNat?.map .restart else none

def list? {α : Type} (sep : String) (f : String → Option α) (t : String) : Option (List α) :=
  if t = "-" then some [] else (t.splitOn sep).mapM f

def outS : Out → String
  | .pending => "pend" | .ok => "ok" | .already => "already" | .dropped => "drop" | .err => "err"

def strLe : Str → Str → Bool
  | [], _ => true
  | _ :: _, [] => false
  | a :: as, b :: bs => if a < b then true else if b < a then false else strLe as bs

def crlS (c : CRLRec) : String :=
  let es := c.entries.mergeSort (fun a b => strLe a.1 b.1)
  s!"n={c.number},t={c.thisUpdate},u={c.nextUpdate},e=[" ++
    String.intercalate "|" (es.map fun e => "x" ++ hex e.1 ++ ":" ++ toString e.2) ++ "]"

def eval (line : String) : Option String := do
  let fs := fields line
  let kv := fs.filterMap fun f =>
    match f.splitOn "=" with
    | [k, v] => some (k, v)
    | _ => none
  match fs.head? with
  | some "h" =>
    let cache ← (← lookup kv "cache").toNat?
    let rs ← list? ";" req? (← lookup kv "reqs")
    let evs ← list? "," ev? (← lookup kv "evs")
    let g : G := { revoked := [], crl := none, log := [], lock := false, cache := cache, mutex := true }
    let s := machine.run (g, rs) evs
    let idp := match lookup kv "idp", lookup kv "dns" with
      | some i, some d => match str? i, str? d with
        | some i, some d => " idp=x" ++ hex (idpURL i d)
        | _, _ => " idp=parse-error"
      | _, _ => ""
    pure (String.intercalate "," (s.2.map (outS ·.out)) ++
      String.join (s.1.log.reverse.map fun c => " " ++ crlS c) ++ idp)
  | some "cfg" =>
    let dur (t : String) : Option (Option Int) := if t = "-" then some none else t.toInt?.map some
    let c : CRLCfg := { enabled := (← lookup kv "enabled") = "1", cache := (← dur (← lookup kv "cache")), renew := (← dur (← lookup kv "renew")) }
    pure (match pipeline c with
      | none => "refused"
      | some (d, t) => s!"cache={d} tick={t}" ++ (if c.enabled && t == 0 then " crash" else ""))
  | some "rsp" =>
    let enabled := (← lookup kv "enabled") = "1"
    let pem := (← lookup kv "pem") = "1"
    let crl ← match (← lookup kv "crl") with
      | "none" => some none
      | t => match t.splitOn ":" with
        | [n, a, b] => do pure (some { number := (← n.toNat?), thisUpdate := (← a.toNat?), nextUpdate := (← b.toNat?), entries := [] : CRLRec })
        | _ => none
    let g : G := { revoked := [], crl := crl, log := [], lock := false, cache := 0, mutex := true }
    let r := crlHandler enabled g pem
    pure (match r.body with
      | some c => s!"{r.status} exp={r.expires} pem={if r.pem then 1 else 0} n={c.number}"
      | none => s!"{r.status}")
  | _ => none

end C08

def main : IO Unit := Verif.lineLoop fun l => (C08.eval l).getD "parse-error"
