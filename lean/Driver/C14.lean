import Verif.Model.SSH
/-!
  Line-protocol driver for C14 (SSH certificates: type, key id, principals, signer; SSH-POP).

  op=sign   prov=jwk|x5c|oidc|oidcadm|nebula|k8ssa|aws|awsdcs cau=0|1 cah=0|1 dbe=0|1 epc=0|1 sub=x… ssh=0|1 tct=x… tkid=x… tpr=<list>
            oem=x… ousr=<list> nbn=x… nbi=<list> tpip=<list of x…|!> tva=-|<n> tvb=-|<n> rva=-|<n> rvb=-|<n> rct=x… rkid=x… rpr=<list> au=0|1 scfg=0|1 key=ok|rsasmall|dsa
            [via=api: through the real router and api.SSHSign / SSHRenew / SSHRekey; refusals are printed http:refused]
            [idc=1 isub=<san> isig= icn= idns= iip= iem= iuri= iuuid=x…|- ienc= igen=x…: identityCSR of the request]
  op=renew|rekey|revoke
            cau= cah= dren=0|1 aexp=0|1 ct=<n> kid=x… pr=<list> pco=<kv list> pex=<kv list> su=0|1 sh=0|1 ny=0|1 ex=0|1 hv=0|1
            tsig= tcl= taud= tsub= tser= rev=0|1 key=ok|rsasmall|dsa
  list = x<hex> items joined by ',' or `-` when empty.
  Output: unauth | refuse:<status> | refuse | authorized | issue ct=<n> kid=x… pr=<list> [va=<n>|* vb=<n>|*] [co=<kv list> ex=<kv list>] by=user|host      (kv = x<key>:x<value>)
-/
open Verif Verif.SSH

namespace C14

def str? (t : String) : Option Str :=
  if t.startsWith "x" then unhex (t.drop 1).toString else none

def bool? (t : String) : Option Bool :=
  if t = "1" then some true else if t = "0" then some false else none

def list? {α : Type} (f : String → Option α) (t : String) : Option (List α) :=
  if t = "-" then some [] else (t.splitOn ",").mapM f

def lookup (kv : List (String × String)) (k : String) : Option String :=
  (kv.find? (·.1 = k)).map (·.2)

def xs (a : Str) : String := "x" ++ hex a
def listS (l : List String) : String := if l.isEmpty then "-" else ",".intercalate l

def kv? (t : String) : Option (Str × Str) :=
  match t.splitOn ":" with
  | [a, b] => do pure ((← str? a), (← str? b))
  | _ => none

def kvS (l : List (Str × Str)) : String := listS (l.map fun p => s!"{xs p.1}:{xs p.2}")

def optNat? (t : String) : Option (Option Nat) :=
  if t = "-" then some none else t.toNat?.map some

def natS : Option Nat → String
  | none => "*" | some n => toString n

def key? (t : String) : Option KeyClass :=
  match t with
  | "ok" => some .ok | "rsasmall" => some .rsaSmall | "dsa" => some .dsa | _ => none

def prov? (t : String) : Option Prov :=
  match t with
  | "jwk" => some .jwk | "x5c" => some .x5c
  | "oidc" => some (.oidc false) | "oidcadm" => some (.oidc true) | "nebula" => some .nebula | "k8ssa" => some .k8ssa
  | "aws" => some (.aws false) | "awsdcs" => some (.aws true) | _ => none

def signerS : Signer → String
  | .userKey => "user" | .hostKey => "host"

def certS (c : Cert) : String := s!"ct={c.ct} kid={xs c.keyID} pr={listS (c.principals.map xs)}"

def eval (line : String) : Option String := do
  let kv := (fields line).filterMap fun f =>
    match f.splitOn "=" with
    | [k, v] => some (k, v)
    | _ => none
  let get := fun k => lookup kv k
  let ca : CAKeys := ⟨(← bool? (← get "cau")), (← bool? (← get "cah")), (← bool? (← get "dbe")), (← bool? (← get "epc"))⟩
  let key ← key? (← get "key")
  match (← get "op") with
  | "sign" =>
    let hasSSH ← bool? (← get "ssh")
    let topts : Opts := ⟨(← str? (← get "tct")), (← str? (← get "tkid")), (← list? str? (← get "tpr"))⟩
    let tok : Token := ⟨(← str? (← get "sub")), if hasSSH then some topts else none⟩
    let optStr? := fun (x : String) => if x = "!" then some none else (str? x).map some
    let o : Oidc := ⟨(← str? (← get "oem")), (← list? str? (← get "ousr")), (← str? (← get "nbn")),
      (← list? str? (← get "nbi")), (← list? optStr? (← get "tpip")), (← optNat? (← get "tva")), (← optNat? (← get "tvb"))⟩
    let rv : RVal := ⟨(← optNat? (← get "rva")), (← optNat? (← get "rvb"))⟩
    let req : Opts := ⟨(← str? (← get "rct")), (← str? (← get "rkid")), (← list? str? (← get "rpr"))⟩
    match sshSign ca (← prov? (← get "prov")) tok o req key rv with
    | .refused 401 => pure (if (get "via") = some "api" then "http:refused" else "unauth")
    | .refused st => pure (if (get "via") = some "api" then "http:refused" else s!"refuse:{st}")
    | .issued c sg =>
      let cv := certValidity ⟨o.tva, o.tvb⟩ rv
      let viaAPI := (get "via") = some "api"
      -- identity certificate (API mode only)
      let idS ← (if (get "idc") = some "1" then do
          let kind? := fun (x : String) => match x with
            | "d" => some SignNames.Kind.dns | "i" => some SignNames.Kind.ip
            | "e" => some SignNames.Kind.email | "u" => some SignNames.Kind.uri | _ => none
          let isub ← (match (← get "isub").splitOn ":" with
            | [k, a, b] => do pure (SignNames.San.mk (← kind? k) (← str? a) (← str? b))
            | _ => none)
          let icsr : SignNames.CSR := {
            sigOK := (← bool? (← get "isig")), cn := (← str? (← get "icn")),
            dns := (← list? str? (← get "idns")), ips := (← list? str? (← get "iip")),
            emails := (← list? str? (← get "iem")), uris := (← list? str? (← get "iuri")),
            key := 1, keyOK := true, exts := [] }
          let iu ← get "iuuid"
          let uuid ← (if iu = "-" then some none else (str? iu).map some)
          let r : IdReq := ⟨isub, icsr, uuid, (← bool? (← get "ienc")), ⟨0, (← str? (← get "igen"))⟩⟩
          match identityCert (← prov? (← get "prov")) r with
          | .issued ic =>
            pure (some s!" id=cn={xs ic.cn},dns={listS (ic.dns.map xs)},ip={listS (ic.ips.map xs)},em={listS (ic.emails.map xs)},uri={listS (ic.uris.map xs)},key={ic.key}")
          | _ => pure none
        else pure (some ""))
      if viaAPI ∧ idS = none then return "http:refused"
      let idS := idS.getD ""
      if (← bool? (← get "au")) then
        match signAddUserM true (← bool? (← get "scfg")) c with
        | .crash => pure "crash"
        | .val none => pure s!"issue {certS c} va={natS cv.va} vb={natS cv.vb} by={signerS sg} au=none{idS}"
        | .val (some a) =>
          pure s!"issue {certS c} va={natS cv.va} vb={natS cv.vb} by={signerS sg} au=kid={xs a.keyID},pr={listS (a.principals.map xs)},fc={xs a.forceCommand}{idS}"
      else
        pure s!"issue {certS c} va={natS cv.va} vb={natS cv.vb} by={signerS sg}{idS}"
  | op =>
    let cfg : PopCfg := ⟨ca, (← bool? (← get "dren")), (← bool? (← get "aexp"))⟩
    let c : PopCert := {
      ct := (← (← get "ct").toNat?), keyID := (← str? (← get "kid")), principals := (← list? str? (← get "pr")),
      perms := ⟨(← list? kv? (← get "pco")), (← list? kv? (← get "pex"))⟩, sigUser := (← bool? (← get "su")), sigHost := (← bool? (← get "sh")),
      notYet := (← bool? (← get "ny")), expired := (← bool? (← get "ex")), hasValidity := (← bool? (← get "hv")) }
    let t : PopTok := ⟨(← bool? (← get "tsig")), (← bool? (← get "tcl")), (← bool? (← get "taud")),
      (← bool? (← get "tsub")), (← bool? (← get "tser"))⟩
    let rev ← bool? (← get "rev")
    let out := fun (r : PopRes) => match r with
      | .refused => "refuse"
      | .issued c p sg => s!"issue {certS c} co={kvS p.crit} ex={kvS p.exts} by={signerS sg}"
    match op with
    | "renew" => pure (out (popRenew cfg c t rev))
    | "rekey" => pure (out (popRekey cfg c t rev key))
    | "revoke" => pure (if popAuthorize cfg .revoke c t then "authorized" else "refuse")
    | _ => none

end C14

def main : IO Unit := Verif.lineLoop fun l => (C14.eval l).getD "parse-error"
