#!/usr/bin/env python3
"""Rewrites the generated tables of DESIGN.md §0.4 (per-property state) and §0.5 (seeded changes)
from checks/*.json, evidence/*.json, known findings and seeded/*/meta.json."""
import glob, json, os, glob, re
R = os.path.dirname(os.path.abspath(__file__))
props = [json.loads(l) for l in open(os.path.join(R, "properties.jsonl"))]
man = json.load(open(os.path.join(R, "MANIFEST.json")))
claimed = {c["property_id"] for c in man["checks"]}

def kf(pid):
    out = []
    for f in [os.path.join(R, "known_findings.json"), os.path.join(R, "known_findings.d", pid + ".json")]:
        if os.path.exists(f):
            out += [k for k in json.load(open(f))["findings"] if k["property"] == pid]
    return out

rows = ["| prop. | theorems (full / partial / refutation-historic / table) | stages (tie to /repo) | generated / re-extracted from source | quick: cases, wall | known findings | fixed defects |",
        "|---|---|---|---|---|---|---|"]
for p in props:
    pid = p["id"]
    cp = os.path.join(R, "checks", pid + ".json")
    if not os.path.exists(cp):
        rows.append(f"| {pid} | not built | | | | | |"); continue
    c = json.load(open(cp))
    forms = {}
    for t in c["theorems"]:
        forms[t.get("form", "full")] = forms.get(t.get("form", "full"), 0) + 1
    th = f"{len(c['theorems'])}: " + " / ".join(str(forms.get(k, 0)) for k in ["full", "partial", "refutation", "table"])
    stages = ", ".join(s["name"] + ("(race)" if s.get("race") else "") + ("" if s.get("driver") else "°") for s in c.get("stages", []))
    gen = ", ".join(c.get("generated", [])) or "—"
    ev = os.path.join(R, "evidence", pid + ".json")
    q = ""
    if os.path.exists(ev):
        e = json.load(open(ev))
        q = f"{e['coverage'].get('evaluations','?')} ({e['coverage'].get('distinct_nontrivial','?')} distinct), {e['wall_s']:.0f} s" + ("" if e["tier"] == "quick" else " [thorough]")
    k = kf(pid)
    known = "; ".join(x["id"] for x in k if x.get("status") == "known") or "—"
    fixed = "; ".join(f"{x['id']} {x.get('commit', x.get('fixed_by',''))}" for x in k if x.get("status") == "fixed") or "—"
    rows.append(f"| {pid}{'' if pid in claimed else ' (unclaimed)'} | {th} | {stages} | {gen} | {q} | {known} | {fixed} |")
tab1 = "\n".join(rows) + "\n\n° = oracle-style stage (the harness writes the property's own expectation; no Lean driver in the loop).\n"

rows = ["| seeded change | property | what it needs to manifest | caught by (quick check) | how |", "|---|---|---|---|---|"]
for d in sorted(glob.glob(os.path.join(R, "seeded", "*"))):
    mp = os.path.join(d, "meta.json")
    if not os.path.exists(mp):
        continue
    m = json.load(open(mp))
    caught = []
    for chk, r in (m.get("checks") or {}).items():
        if r.get("exit") == 1:
            kind = r.get("replay_kind", "")
            caught.append(f"{chk} ({'failing input' if kind=='failing-input' else 'obligation/correspondence, no failing input' })")
    needs = (m.get("needs") or "").replace("|", "/").replace("\n", " ")
    if len(needs) > 220:
        needs = needs[:217] + "…"
    title = (m.get("title") or "").replace("|", "/")
    rows.append(f"| {os.path.basename(d)}: {title[:110]} | {m['property']} | {needs} | {', '.join(caught) or '**missed**'} | see meta.json |")
tab2 = "\n".join(rows) + "\n"

dp = os.path.join(R, "DESIGN.md")
t = open(dp).read()
def put(t, name, body):
    a, b = f"<!-- BEGIN {name} -->", f"<!-- END {name} -->"
    if a not in t:
        return t
    return t[:t.index(a) + len(a)] + "\n" + body + t[t.index(b):]
t = put(t, "PROPTABLE", tab1)
t = put(t, "SEEDTABLE", tab2)
nc = ["| property | not covered by theorem or stage |", "|---|---|"]
for pid in sorted(os.path.basename(f)[:3] for f in glob.glob(os.path.join(R, "notes", "C*.manifest.json"))):
    o = json.load(open(os.path.join(R, "notes", pid + ".manifest.json")))
    if o.get("not_covered"):
        nc.append(f"| {pid} | {o['not_covered'].replace('|', '/')} |")
t = put(t, "NOTCOVERED", "\n".join(nc) + "\n")
open(dp, "w").write(t)
print("tables updated")
