#!/bin/sh
# usage: seedsweep.sh "<props>" <from> <to> [parallel]   — quick tier, evidence to scratch; prints one line per run
cd /verif
PROPS=$1; FROM=$2; TO=$3; PAR=${4:-4}
for seed in $(seq $FROM $TO); do for p in $PROPS; do echo "$seed $p"; done; done | xargs -P $PAR -L 1 sh -c '
  s=$(date +%s); out=$(VERIF_SEED=$0 VERIF_EVIDENCE_SCRATCH=1 ./check $1 quick 2>&1); rc=$?; e=$(date +%s)
  echo "seed=$0 $1 rc=$rc $((e-s))s $(echo "$out" | grep "^VIOLATION" | head -2 | tr "\n" " ")| $(echo "$out" | tail -1)"'
